---- MODULE MC ----
EXTENDS DepQueueInd
ConstInit == N = 6
====
