SPECIFICATION Spec
CONSTANT MaxAdds = 4
CONSTANT Deviations = {}
INVARIANT UsedExact
INVARIANT ViewsAgree
INVARIANT Rebuild
INVARIANT FirstInsertionOrder
CHECK_DEADLOCK FALSE
