---------------------------- MODULE ExprSyntax_sketch ----------------------------
EXTENDS Naturals, Sequences, FiniteSets, TLC, Json
VARIABLE cur

\* --- expression trees ---------------------------------------------------
Leaves == { [t |-> "num", v |-> "2"], [t |-> "num", v |-> "-1"], [t |-> "cplx", v |-> "1+2.0i"],
            [t |-> "pi"], [t |-> "var", v |-> "x"], [t |-> "addr", v |-> "m"] }
Ops == {"+", "-", "*", "/", "^"}
Fns == {"sin"}

RECURSIVE Trees(_)
Trees(d) == IF d = 0 THEN Leaves
            ELSE LET S == Trees(d-1) IN
                 S \cup { [t |-> "inf", op |-> o, l |-> a, r |-> b] : o \in Ops, a \in S, b \in S }
                   \cup { [t |-> "neg", e |-> a] : a \in S }
                   \cup { [t |-> "fn", f |-> g, e |-> a] : g \in Fns, a \in S }

\* --- printer as in expression/mod.rs (tokens) ----------------------------
RECURSIVE Show(_), Inner(_)
NumToks(v) == IF v = "2" THEN <<"2">> ELSE IF v = "-1" THEN <<"-", "1">> ELSE <<v>>
Show(e) ==
  CASE e.t = "num"  -> NumToks(e.v)
    [] e.t = "cplx" -> <<"1", "+", "2.0", "i">>
    [] e.t = "pi"   -> <<"pi">>
    [] e.t = "var"  -> <<"%x">>
    [] e.t = "addr" -> <<"m[0]">>
    [] e.t = "inf"  -> Inner(e.l) \o <<e.op>> \o Inner(e.r)
    [] e.t = "neg"  -> <<"-">> \o Inner(e.e)
    [] e.t = "fn"   -> <<e.f, "(">> \o Show(e.e) \o <<")">>
Inner(e) == IF e.t = "inf" THEN <<"(">> \o Inner(e.l) \o <<e.op>> \o Inner(e.r) \o <<")">> ELSE Show(e)

\* --- Pratt parser as in parser/expression.rs ------------------------------
Prec(tok) == CASE tok \in {"+", "-"} -> 1 [] tok \in {"*", "/"} -> 2 [] tok = "^" -> 3 [] OTHER -> 0
Err == [err |-> TRUE]
IsErr(r) == "err" \in DOMAIN r
Tok(ts, p) == IF p <= Len(ts) THEN ts[p] ELSE "EOF"

RECURSIVE Parse(_, _, _), Loop(_, _, _, _)
Atom(ts, p) ==
  LET k == Tok(ts, p) IN
  CASE k \in {"2", "1", "2.0"} ->
         IF Tok(ts, p+1) = "i" THEN [e |-> [t |-> "imag", v |-> k], p |-> p+2]
         ELSE [e |-> [t |-> "num", v |-> k], p |-> p+1]
    [] k = "%x" -> [e |-> [t |-> "var", v |-> "x"], p |-> p+1]
    [] k = "m[0]" -> [e |-> [t |-> "addr", v |-> "m"], p |-> p+1]
    [] k = "pi" -> [e |-> [t |-> "pi"], p |-> p+1]
    [] k = "i" -> [e |-> [t |-> "imag", v |-> "1"], p |-> p+1]
    [] k \in Fns -> IF Tok(ts, p+1) # "(" THEN Err ELSE
                    LET r == Parse(ts, p+2, 0) IN
                    IF IsErr(r) THEN Err ELSE IF Tok(ts, r.p) # ")" THEN Err
                    ELSE [e |-> [t |-> "fn", f |-> k, e |-> r.e], p |-> r.p + 1]
    [] k = "(" -> LET r == Parse(ts, p+1, 0) IN
                  IF IsErr(r) THEN Err ELSE IF Tok(ts, r.p) # ")" THEN Err ELSE [e |-> r.e, p |-> r.p+1]
    [] OTHER -> Err
Parse(ts, p, prec) ==
  LET neg == Tok(ts, p) = "-"
      a == Atom(ts, IF neg THEN p+1 ELSE p) IN
  IF IsErr(a) THEN Err
  ELSE Loop(ts, IF neg THEN [t |-> "neg", e |-> a.e] ELSE a.e, a.p, prec)
Loop(ts, left, p, prec) ==
  LET k == Tok(ts, p) IN
  IF Prec(k) > prec
  THEN LET r == Parse(ts, p+1, Prec(k)) IN
       IF IsErr(r) THEN Err ELSE Loop(ts, [t |-> "inf", op |-> k, l |-> left, r |-> r.e], r.p, prec)
  ELSE [e |-> left, p |-> p]

ParseAll(ts) == LET r == Parse(ts, 1, 0) IN IF IsErr(r) THEN Err ELSE IF r.p = Len(ts)+1 THEN r ELSE Err

\* --- value in GF(P) --------------------------------------------------------
P == 1009
RECURSIVE PowMod(_, _)
PowMod(b, n) == IF n = 0 THEN 1 ELSE LET h == PowMod(b, n \div 2) IN IF n % 2 = 0 THEN (h*h) % P ELSE (((h*h) % P) * b) % P
Inv(a) == PowMod(a, P-2)
Env == [x |-> 123, m |-> 777, i |-> 316, pi |-> 432]  \* i: some fixed element standing for sqrt(-1)
RECURSIVE Val(_)
Val(e) ==
  CASE e.t = "num" -> IF e.v = "-1" THEN P-1 ELSE IF e.v = "2.0" THEN 2 ELSE IF e.v = "1" THEN 1 ELSE 2
    [] e.t = "cplx" -> (1 + 2*Env.i) % P
    [] e.t = "imag" -> ((IF e.v = "1" THEN 1 ELSE 2) * Env.i) % P
    [] e.t = "pi" -> Env.pi
    [] e.t = "var" -> Env.x
    [] e.t = "addr" -> Env.m
    [] e.t = "neg" -> (P - Val(e.e)) % P
    [] e.t = "fn" -> (Val(e.e) * 17 + 5) % P    \* uninterpreted injective-ish function
    [] e.t = "inf" -> LET a == Val(e.l) b == Val(e.r) IN
         CASE e.op = "+" -> (a+b) % P [] e.op = "-" -> (a + P - b) % P [] e.op = "*" -> (a*b) % P
           [] e.op = "/" -> (a * Inv(b)) % P [] e.op = "^" -> (a*a*31 + b*7 + a*b) % P  \* uninterpreted binary


D == 2
Init == cur \in Trees(D)
Next == UNCHANGED cur
RoundTrip == LET r == ParseAll(Show(cur)) IN ~IsErr(r) /\ Val(r.e) = Val(cur)
\* (the 196 422-tree timing run used `... \/ TRUE`; -continue does the same job)
=============================================================================
