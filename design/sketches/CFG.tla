------------------------------- MODULE CFG -------------------------------
EXTENDS Naturals, Sequences, FiniteSets, TLC, Json
CONSTANT MaxLen
\* instruction alphabet (tagged records)
Ord(n)   == [k |-> "Gate", name |-> n]
Lab(l)   == [k |-> "Label", target |-> l]
Jmp(l)   == [k |-> "Jump", target |-> l]
JW(l)    == [k |-> "JumpWhen", target |-> l, cond |-> "r"]
JU(l)    == [k |-> "JumpUnless", target |-> l, cond |-> "r"]
Halt     == [k |-> "Halt"]
Alphabet == {Ord("X"), Ord("Y"), Lab("a"), Lab("b"), Jmp("a"), JW("a"), JU("b"), Halt}

VARIABLES body, pc, openLabel, openInstrs, offset, blocks, phase
vars == <<body, pc, openLabel, openInstrs, offset, blocks, phase>>
None == [k |-> "None"]
IsTerm(i) == i.k \in {"Jump", "JumpWhen", "JumpUnless", "Halt"}

Init == /\ body = <<>> /\ pc = 1 /\ openLabel = None /\ openInstrs = <<>> /\ offset = 0 /\ blocks = <<>> /\ phase = "gen"

\* generator: grow the body
Grow == /\ phase = "gen" /\ Len(body) < MaxLen
        /\ \E i \in Alphabet : body' = Append(body, i)
        /\ UNCHANGED <<pc, openLabel, openInstrs, offset, blocks, phase>>
Start == /\ phase = "gen" /\ phase' = "run" /\ UNCHANGED <<body, pc, openLabel, openInstrs, offset, blocks>>

Block(l, is, off, t) == [label |-> l, instrs |-> is, offset |-> off, term |-> t]
\* one loop iteration of From<&Program> for ControlFlowGraph (as built: with the +1 defect switchable)
CONSTANT LabelArmAlwaysAddsOne
Step == /\ phase = "run" /\ pc <= Len(body)
        /\ LET i == body[pc] IN
           CASE i.k = "Label" ->
                  IF openInstrs # <<>> \/ openLabel # None
                  THEN /\ blocks' = Append(blocks, Block(openLabel, openInstrs, offset, None))
                       /\ offset' = offset + Len(openInstrs) + (IF LabelArmAlwaysAddsOne \/ openLabel # None THEN 1 ELSE 0)
                       /\ openInstrs' = <<>> /\ openLabel' = i
                  ELSE /\ openLabel' = i /\ UNCHANGED <<blocks, offset, openInstrs>>
             [] IsTerm(i) ->
                  /\ blocks' = Append(blocks, Block(openLabel, openInstrs, offset, i))
                  /\ offset' = offset + Len(openInstrs) + 1 + (IF openLabel # None THEN 1 ELSE 0)
                  /\ openInstrs' = <<>> /\ openLabel' = None
             [] OTHER -> /\ openInstrs' = Append(openInstrs, i) /\ UNCHANGED <<blocks, offset, openLabel>>
        /\ pc' = pc + 1 /\ UNCHANGED <<body, phase>>
Flush == /\ phase = "run" /\ pc = Len(body) + 1
         /\ blocks' = IF openInstrs # <<>> \/ openLabel # None THEN Append(blocks, Block(openLabel, openInstrs, offset, None)) ELSE blocks
         /\ phase' = "done" /\ UNCHANGED <<body, pc, openLabel, openInstrs, offset>>
Next == Grow \/ Start \/ Step \/ Flush
Spec == Init /\ [][Next]_vars

\* ---- properties ----
Flat(b) == (IF b.label # None THEN <<b.label>> ELSE <<>>) \o b.instrs \o (IF b.term # None THEN <<b.term>> ELSE <<>>)
RECURSIVE Reassemble(_)
Reassemble(bs) == IF bs = <<>> THEN <<>> ELSE Flat(Head(bs)) \o Reassemble(Tail(bs))
RECURSIVE Offs(_, _)
Offs(bs, acc) == IF bs = <<>> THEN <<>> ELSE <<acc>> \o Offs(Tail(bs), acc + Len(Flat(Head(bs))))
Partition   == phase = "done" => Reassemble(blocks) = body
OffsetExact == phase = "done" => [n \in 1..Len(blocks) |-> blocks[n].offset] = Offs(blocks, 0)
Emit == phase = "done" => PrintT(<<"CASE", ToJson([body |-> body, blocks |-> blocks])>>)
=============================================================================
