SPECIFICATION Spec
CONSTANT AsBuiltRemove = TRUE
INVARIANT WellFormed
INVARIANT NoDeclInBody
CHECK_DEADLOCK FALSE
