SPECIFICATION Spec
CONSTANT MaxLen = 5
INVARIANT RoundTrip
CHECK_DEADLOCK FALSE
