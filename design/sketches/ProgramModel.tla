--------------------------- MODULE ProgramModel ---------------------------
EXTENDS Naturals, Sequences, FiniteSets, TLC
CONSTANTS MaxAdds, Deviations
\* abstract instructions: kind k, table key, value tag v, qubits mentioned
I(k, key, v, qs) == [k |-> k, key |-> key, v |-> v, qs |-> qs]
Alphabet == { I("Declare", "a", 1, {}), I("Declare", "a", 2, {}), I("Declare", "b", 1, {}),
              I("DefFrame", "0x", 1, {}), I("DefFrame", "1x", 1, {}), I("DefFrame", "0x", 2, {}),
              I("DefWaveform", "w", 1, {}),
              I("DefCal", "X0", 1, {0}), I("DefCal", "X0", 2, {0, 2}), I("DefCal", "Xq", 1, {}),
              I("DefCalMeasure", "M0", 1, {0}),
              I("DefGate", "G", 1, {}), I("DefCircuit", "C", 1, {}),
              I("Extern", "foo", 1, {}), I("Extern", "foo", 2, {}), I("Extern", "bar", 1, {}),
              I("Body", "-", 1, {0}), I("Body", "-", 2, {1}), I("Body", "-", 3, {}) }
Tables == <<"Extern", "Declare", "DefFrame", "DefWaveform", "DefCal", "DefCalMeasure", "DefGate", "DefCircuit">>
TableSet == {Tables[n] : n \in 1..Len(Tables)}
Empty == [tbl |-> [t \in TableSet |-> <<>>], body |-> <<>>, used |-> {}]
\* IndexMap::insert / CalibrationSet::replace
Pos(tb, key) == IF \E n \in 1..Len(tb) : tb[n].key = key THEN CHOOSE n \in 1..Len(tb) : tb[n].key = key ELSE 0
Upsert(tb, i) == LET p == Pos(tb, i.key) IN IF p = 0 THEN Append(tb, i) ELSE [tb EXCEPT ![p] = i]
RECURSIVE Merge(_, _)
Merge(tb, other) == IF other = <<>> THEN tb ELSE Merge(Upsert(tb, Head(other)), Tail(other))
BodyQubits(b) == UNION { b[n].qs : n \in 1..Len(b) }
Raw(p, i) == IF i.k = "Body" THEN [p EXCEPT !.body = Append(@, i)] ELSE [p EXCEPT !.tbl[i.k] = Upsert(@, i)]
DefQ(a) == UNION { UNION { a.tbl[t][n].qs : n \in 1..Len(a.tbl[t]) } : t \in TableSet }
Add(p, i) == LET q == Raw(p, i) IN
             [q EXCEPT !.used = IF "StaleCacheOnReplace" \in Deviations THEN p.used \cup i.qs ELSE DefQ(q) \cup BodyQubits(q.body)]
RECURSIVE Cat(_, _)
Cat(ts, n) == IF n > Len(Tables) THEN <<>> ELSE ts[Tables[n]] \o Cat(ts, n + 1)
Listing(p) == Cat(p.tbl, 1) \o p.body
\* into_instructions as built: extern pragmas after circuits (deviation), else same as Listing
RECURSIVE CatFrom(_, _)
CatFrom(ts, n) == IF n > Len(Tables) THEN <<>> ELSE ts[Tables[n]] \o CatFrom(ts, n + 1)
IntoListing(p) == IF "IntoExternLast" \in Deviations THEN CatFrom(p.tbl, 2) \o p.tbl["Extern"] \o p.body ELSE Listing(p)
Concat(a, b) == [tbl |-> [t \in TableSet |-> Merge(a.tbl[t], b.tbl[t])], body |-> a.body \o b.body, used |-> a.used \cup b.used]
DefQubits(a) == UNION { UNION { a.tbl[t][n].qs : n \in 1..Len(a.tbl[t]) } : t \in TableSet }
CloneNoBody(a) == [a EXCEPT !.body = <<>>, !.used = IF "CloneDropsCalibrationQubits" \in Deviations THEN {} ELSE DefQubits(a)]
RECURSIVE FromSeq(_, _)
FromSeq(p, s) == IF s = <<>> THEN p ELSE FromSeq(Add(p, Head(s)), Tail(s))

VARIABLES A, B, hist, phase
vars == <<A, B, hist, phase>>
Init == A = Empty /\ B = Empty /\ hist = <<>> /\ phase = "A"
AddA == phase = "A" /\ Len(hist) < MaxAdds /\ \E i \in Alphabet : A' = Add(A, i) /\ hist' = Append(hist, i) /\ UNCHANGED <<B, phase>>
Clone == phase = "A" /\ B' = CloneNoBody(A) /\ phase' = "cloned" /\ UNCHANGED <<A, hist>>
Next == AddA \/ Clone
Spec == Init /\ [][Next]_vars

QubitsOfListing(p) == UNION { Listing(p)[n].qs : n \in 1..Len(Listing(p)) }
UsedExact == A.used = QubitsOfListing(A) /\ (phase = "cloned" => B.used = QubitsOfListing(B))
ViewsAgree == IntoListing(A) = Listing(A)
Rebuild == FromSeq(Empty, Listing(A)) = A
\* first-insertion order per table: keys of table t appear in order of first occurrence in hist
RECURSIVE FirstKeys(_, _, _)
FirstKeys(h, t, seen) == IF h = <<>> THEN <<>> ELSE
   LET i == Head(h) IN IF i.k = t /\ i.key \notin seen THEN <<i.key>> \o FirstKeys(Tail(h), t, seen \cup {i.key}) ELSE FirstKeys(Tail(h), t, seen)
FirstInsertionOrder == \A t \in TableSet : [n \in 1..Len(A.tbl[t]) |-> A.tbl[t][n].key] = FirstKeys(hist, t, {})
=============================================================================
