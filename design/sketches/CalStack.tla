------------------------------ MODULE CalStack ------------------------------
\* Calibration expansion as an explicit stack machine (C17/C18): one action per step of
\* expand_inner / recursively_expand_inner, so that termination is a temporal property.
EXTENDS Naturals, Sequences, FiniteSets, TLC
CONSTANTS MaxDepth, Growth    \* Growth = TRUE: calibrations may re-invoke a gate with a larger parameter
\* instructions: gates G(name, p) with a natural parameter p; leaf L
G(n, p) == [k |-> "Gate", name |-> n, p |-> p]
L == [k |-> "Leaf"]
\* a calibration body element: a leaf, or a gate whose parameter is the caller's parameter plus d (d = 0: same instruction shape)
E(n, d) == [k |-> "Call", name |-> n, d |-> d]
Elems == {[k |-> "Leaf"]} \cup {E(n, d) : n \in {"X", "Y"}, d \in (IF Growth THEN {0, 1} ELSE {0})}
Bodies == {<<a>> : a \in Elems} \cup {<<a, b>> : a \in Elems, b \in Elems}
CalSets == [{"X", "Y"} -> Bodies] \cup [{"X"} -> Bodies]
Inst(e, p) == IF e.k = "Leaf" THEN L ELSE G(e.name, p + e.d)
VARIABLES cals, stack, out, status
vars == <<cals, stack, out, status>>
\* a frame: the instruction being expanded, the instantiated body, the index of the next body element
Frame(i, body) == [instr |-> i, body |-> body, next |-> 1]
Crumbs == [n \in 1..Len(stack) |-> stack[n].instr]
InCrumbs(i) == \E n \in 1..Len(stack) : stack[n].instr = i
Init == /\ cals \in CalSets /\ stack = <<>> /\ out = <<>> /\ status = "start"
Top == stack[Len(stack)]
\* expand_inner(i): error if i is in the breadcrumbs; push a frame if a calibration matches; else emit
Visit(i) ==
  IF InCrumbs(i) THEN /\ status' = "recursive" /\ UNCHANGED <<stack, out>>
  ELSE IF i.k = "Gate" /\ i.name \in DOMAIN cals
       THEN /\ stack' = Append(stack, Frame(i, [n \in 1..Len(cals[i.name]) |-> Inst(cals[i.name][n], i.p)]))
            /\ status' = "run" /\ UNCHANGED out
       ELSE /\ out' = Append(out, i) /\ status' = "run" /\ UNCHANGED stack
Begin == status = "start" /\ Visit(G("X", 0)) /\ UNCHANGED cals
StepIn == /\ status = "run" /\ stack # <<>> /\ Top.next <= Len(Top.body)
          /\ LET i == Top.body[Top.next]
                 advanced == [stack EXCEPT ![Len(stack)].next = @ + 1] IN
             IF InCrumbs(i) THEN /\ status' = "recursive" /\ UNCHANGED <<stack, out>>
             ELSE IF i.k = "Gate" /\ i.name \in DOMAIN cals
                  THEN /\ stack' = Append(advanced, Frame(i, [n \in 1..Len(cals[i.name]) |-> Inst(cals[i.name][n], i.p)])) /\ UNCHANGED <<out, status>>
                  ELSE /\ out' = Append(out, i) /\ stack' = advanced /\ UNCHANGED status
          /\ UNCHANGED cals
Return == /\ status = "run" /\ stack # <<>> /\ Top.next > Len(Top.body)
          /\ stack' = SubSeq(stack, 1, Len(stack) - 1) /\ UNCHANGED <<cals, out, status>>
Finish == /\ status = "run" /\ stack = <<>> /\ status' = "done" /\ UNCHANGED <<cals, stack, out>>
Next == Begin \/ StepIn \/ Return \/ Finish
Spec == Init /\ [][Next]_vars /\ WF_vars(Next)
\* C18
DepthBelowBound == Len(stack) < MaxDepth
Terminates == <>(status \in {"done", "recursive"})
\* an instruction is never on the stack twice (the breadcrumb check's purpose)
NoDuplicateOnStack == \A a, b \in 1..Len(stack) : a # b => stack[a].instr # stack[b].instr
=============================================================================
