INIT Init
NEXT Next
CONSTANT Fixes = {"orig_op", "left_assoc", "pow_order"}
INVARIANT Sound
CHECK_DEADLOCK FALSE
