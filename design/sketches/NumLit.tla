------------------------------- MODULE NumLit -------------------------------
EXTENDS Naturals, Sequences, FiniteSets, TLC
\* big naturals as little-endian sequences of limbs in base 10000 (TLC integers are 32-bit)
B == 10000
Norm(x) == IF x = <<>> THEN <<>> ELSE x     \* limbs never carry leading (most-significant) zeros by construction below
RECURSIVE MulAdd(_, _, _)
MulAdd(x, m, carry) ==                       \* x * m + carry, m < 20, carry < 20
  IF x = <<>> THEN (IF carry = 0 THEN <<>> ELSE <<carry>>)
  ELSE LET v == Head(x) * m + carry IN <<v % B>> \o MulAdd(Tail(x), m, v \div B)
DigitVal == [c \in {"0","1","2","3","4","5","6","7","8","9","a","b","c","d","e","f","A","B","C","D","E","F"} |->
              CASE c = "0" -> 0 [] c = "1" -> 1 [] c = "2" -> 2 [] c = "3" -> 3 [] c = "4" -> 4 [] c = "5" -> 5 [] c = "6" -> 6 [] c = "7" -> 7
                [] c = "8" -> 8 [] c = "9" -> 9 [] c \in {"a","A"} -> 10 [] c \in {"b","B"} -> 11 [] c \in {"c","C"} -> 12 [] c \in {"d","D"} -> 13
                [] c \in {"e","E"} -> 14 [] c \in {"f","F"} -> 15]
RECURSIVE ValueOf(_, _, _)
ValueOf(digits, radix, acc) ==               \* digits: sequence of one-character strings, '_' separators skipped
  IF digits = <<>> THEN acc
  ELSE IF Head(digits) = "_" THEN ValueOf(Tail(digits), radix, acc)
       ELSE ValueOf(Tail(digits), radix, MulAdd(acc, radix, DigitVal[Head(digits)]))
RECURSIVE LtRev(_, _)
Less(x, y) ==                                 \* x < y on normalised little-endian limbs
  IF Len(x) # Len(y) THEN Len(x) < Len(y)
  ELSE LET RECURSIVE Cmp(_)
           Cmp(k) == IF k = 0 THEN FALSE ELSE IF x[k] # y[k] THEN x[k] < y[k] ELSE Cmp(k - 1)
       IN Cmp(Len(x))
LtRev(x, y) == Less(x, y)
Two63 == <<5808, 5477, 368, 3372, 922>>      \* 9223372036854775808
Two64 == <<1616, 955, 737, 6744, 1844>>      \* 18446744073709551616
Chars(s) == s                                  \* literals are already sequences of characters
\* expected outcome of an integer literal with optional '-' in an i64 operand position
I64(neg, v) == IF neg THEN (IF Less(Two63, v) THEN "reject" ELSE "value") ELSE (IF Less(v, Two63) THEN "value" ELSE "reject")
U64(v) == IF Less(v, Two64) THEN "value" ELSE "reject"
Lits == { <<"0">>, <<"1">>, <<"4","2">>, <<"0","0","4","2">>, <<"1","_","0","0","0">>,
          <<"9","2","2","3","3","7","2","0","3","6","8","5","4","7","7","5","8","0","7">>,
          <<"9","2","2","3","3","7","2","0","3","6","8","5","4","7","7","5","8","0","8">>,
          <<"1","8","4","4","6","7","4","4","0","7","3","7","0","9","5","5","1","6","1","5">>,
          <<"1","8","4","4","6","7","4","4","0","7","3","7","0","9","5","5","1","6","1","6">> }
HexLits == { <<"7","F","F","F","_","F","F","F","F","_","F","F","F","F","_","F","F","F","F">>, <<"8","0","0","0","0","0","0","0","0","0","0","0","0","0","0","0">>,
             <<"f","f","f","f","f","f","f","f","f","f","f","f","f","f","f","f">>, <<"1","0","0","0","0","0","0","0","0","0","0","0","0","0","0","0","0">> }
ASSUME \A l \in Lits : PrintT(<<"DEC", Len(l), ValueOf(l, 10, <<>>), I64(FALSE, ValueOf(l, 10, <<>>)), I64(TRUE, ValueOf(l, 10, <<>>)), U64(ValueOf(l, 10, <<>>))>>)
ASSUME \A l \in HexLits : PrintT(<<"HEX", ValueOf(l, 16, <<>>), I64(FALSE, ValueOf(l, 16, <<>>)), I64(TRUE, ValueOf(l, 16, <<>>)), U64(ValueOf(l, 16, <<>>))>>)
VARIABLE x
Init == x = 0
Next == UNCHANGED x
=============================================================================
