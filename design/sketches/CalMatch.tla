------------------------------ MODULE CalMatch ------------------------------
EXTENDS Naturals, Sequences, FiniteSets, TLC
CONSTANT MaxCals
\* calibration identifiers and gates over a small alphabet (tagged records)
Names == {"X", "RX"}
ModSets == {<<>>, <<"DAGGER">>}
Params == {<<>>, <<[t |-> "lit", v |-> 0]>>, <<[t |-> "lit", v |-> 1]>>, <<[t |-> "var", v |-> "t"]>>}
QF(n) == [t |-> "fixed", n |-> n]
QV(s) == [t |-> "var", s |-> s]
CalQubits == {<<QF(0)>>, <<QF(1)>>, <<QV("q")>>, <<QF(0), QF(1)>>, <<QV("q"), QF(1)>>, <<QV("q"), QV("r")>>}
GateQubits == {<<QF(0)>>, <<QF(1)>>, <<QF(0), QF(1)>>, <<QF(1), QF(1)>>}
Cals == [name : Names, mods : ModSets, params : Params, qubits : CalQubits]
Gates == [name : Names, mods : ModSets, params : {p \in Params : \A k \in 1..Len(p) : p[k].t = "lit"}, qubits : GateQubits]
\* CalibrationIdentifier::matches, rules 1-6
Matches(c, g) ==
  /\ c.name = g.name /\ c.mods = g.mods /\ Len(c.params) = Len(g.params) /\ Len(c.qubits) = Len(g.qubits)
  /\ \A k \in 1..Len(c.qubits) : c.qubits[k].t = "var" \/ c.qubits[k] = g.qubits[k]
  /\ \A k \in 1..Len(c.params) : c.params[k].t = "var" \/ c.params[k] = g.params[k]
Fixed(c) == Cardinality({k \in 1..Len(c.qubits) : c.qubits[k].t = "fixed"})
\* CalibrationSet: insertion-ordered, same signature replaces in place
Pos(set, c) == IF \E n \in 1..Len(set) : set[n] = c THEN CHOOSE n \in 1..Len(set) : set[n] = c ELSE 0
Insert(set, c) == IF Pos(set, c) = 0 THEN Append(set, c) ELSE set      \* identical signature: slot kept (body would be replaced)
\* declarative: most fixed qubits, then latest
Best(set, g) == LET M == {n \in 1..Len(set) : Matches(set[n], g)} IN
                IF M = {} THEN 0 ELSE CHOOSE n \in M : \A m \in M : <<Fixed(set[m]), m>> = <<Fixed(set[n]), n>> \/ Fixed(set[m]) < Fixed(set[n]) \/ (Fixed(set[m]) = Fixed(set[n]) /\ m < n)
\* the code's loop (program/calibration.rs:628-649): one action per examined calibration
VARIABLES set, gate, i, cur, phase
vars == <<set, gate, i, cur, phase>>
Init == set = <<>> /\ gate \in Gates /\ i = 1 /\ cur = 0 /\ phase = "build"
Add == phase = "build" /\ Len(set) < MaxCals /\ \E c \in Cals : set' = Insert(set, c) /\ UNCHANGED <<gate, i, cur, phase>>
Start == phase = "build" /\ phase' = "scan" /\ UNCHANGED <<set, gate, i, cur>>
Scan == /\ phase = "scan" /\ i <= Len(set)
        /\ cur' = IF Matches(set[i], gate) /\ (cur = 0 \/ Fixed(set[i]) >= Fixed(set[cur])) THEN i ELSE cur
        /\ i' = i + 1 /\ UNCHANGED <<set, gate, phase>>
Done == phase = "scan" /\ i = Len(set) + 1 /\ phase' = "done" /\ UNCHANGED <<set, gate, i, cur>>
Next == Add \/ Start \/ Scan \/ Done
Spec == Init /\ [][Next]_vars
Refines == phase = "done" => cur = Best(set, gate)
\* loop invariant (what makes the refinement true): cur is the best among the prefix examined so far
PrefixBest == phase = "scan" => cur = Best(SubSeq(set, 1, i - 1), gate)
=============================================================================
