------------------------------ MODULE Unitary ------------------------------
EXTENDS Naturals, Sequences, FiniteSets, TLC, Json
CONSTANT N     \* register size
\* symbolic entries: tagged records, evaluated numerically by the harness
Z == [s |-> "0"]   O == [s |-> "1"]
Sym(x) == [s |-> x]                         \* "i", "-i", "-1", "h" (1/sqrt2), "-h", "t" (e^{i pi/4})
P(f, k) == [s |-> f, p |-> k]               \* parametric: "cos_half", "-isin_half", "sin_half", "-sin_half", "cis", "cis_neg_half", "cis_half" of parameter k
Conj(e) == [s |-> "conj", e |-> e]
RECURSIVE Pow2(_)
Pow2(k) == IF k = 0 THEN 1 ELSE 2 * Pow2(k - 1)
Bit(r, q) == (r \div Pow2(q)) % 2
\* matrices are functions [0..d-1 -> [0..d-1 -> entry]] given by a rule
Mat(d, f(_, _)) == [r \in 0..d-1 |-> [c \in 0..d-1 |-> f(r, c)]]
Dim(M) == Cardinality(DOMAIN M)
Id(d) == Mat(d, LAMBDA r, c : IF r = c THEN O ELSE Z)
Diag(seq) == Mat(Len(seq), LAMBDA r, c : IF r = c THEN seq[r + 1] ELSE Z)
FromRows(rows) == Mat(Len(rows), LAMBDA r, c : rows[r + 1][c + 1])
Perm(p) == Mat(Len(p), LAMBDA r, c : IF p[c + 1] = r THEN O ELSE Z)     \* column c maps to row p[c]
\* Quil spec 4.3 (k = index of the gate's parameter)
Std(name, k) ==
  CASE name = "I" -> Id(2)
    [] name = "X" -> FromRows(<<<<Z, O>>, <<O, Z>>>>)
    [] name = "Y" -> FromRows(<<<<Z, Sym("-i")>>, <<Sym("i"), Z>>>>)
    [] name = "Z" -> Diag(<<O, Sym("-1")>>)
    [] name = "H" -> FromRows(<<<<Sym("h"), Sym("h")>>, <<Sym("h"), Sym("-h")>>>>)
    [] name = "S" -> Diag(<<O, Sym("i")>>)
    [] name = "T" -> Diag(<<O, Sym("t")>>)
    [] name = "CNOT" -> Perm(<<0, 1, 3, 2>>)
    [] name = "CZ" -> Diag(<<O, O, O, Sym("-1")>>)
    [] name = "SWAP" -> Perm(<<0, 2, 1, 3>>)
    [] name = "ISWAP" -> FromRows(<<<<O, Z, Z, Z>>, <<Z, Z, Sym("i"), Z>>, <<Z, Sym("i"), Z, Z>>, <<Z, Z, Z, O>>>>)
    [] name = "CCNOT" -> Perm(<<0, 1, 2, 3, 4, 5, 7, 6>>)
    [] name = "CSWAP" -> Perm(<<0, 1, 2, 3, 4, 6, 5, 7>>)
    [] name = "RX" -> FromRows(<<<<P("cos_half", k), P("-isin_half", k)>>, <<P("-isin_half", k), P("cos_half", k)>>>>)
    [] name = "RY" -> FromRows(<<<<P("cos_half", k), P("-sin_half", k)>>, <<P("sin_half", k), P("cos_half", k)>>>>)
    [] name = "RZ" -> Diag(<<P("cis_neg_half", k), P("cis_half", k)>>)
    [] name = "PHASE" -> Diag(<<O, P("cis", k)>>)
    [] name = "CPHASE00" -> Diag(<<P("cis", k), O, O, O>>)
    [] name = "CPHASE01" -> Diag(<<O, P("cis", k), O, O>>)
    [] name = "CPHASE10" -> Diag(<<O, O, P("cis", k), O>>)
    [] name = "CPHASE" -> Diag(<<O, O, O, P("cis", k)>>)
    [] name = "PSWAP" -> FromRows(<<<<O, Z, Z, Z>>, <<Z, Z, P("cis", k), Z>>, <<Z, P("cis", k), Z, Z>>, <<Z, Z, Z, O>>>>)
Arity == [I |-> 1, X |-> 1, Y |-> 1, Z |-> 1, H |-> 1, S |-> 1, T |-> 1, CNOT |-> 2, CZ |-> 2, SWAP |-> 2, ISWAP |-> 2, CCNOT |-> 3, CSWAP |-> 3,
          RX |-> 1, RY |-> 1, RZ |-> 1, PHASE |-> 1, CPHASE00 |-> 2, CPHASE01 |-> 2, CPHASE10 |-> 2, CPHASE |-> 2, PSWAP |-> 2]
NParams(name) == IF name \in {"RX", "RY", "RZ", "PHASE", "CPHASE00", "CPHASE01", "CPHASE10", "CPHASE", "PSWAP"} THEN 1 ELSE 0
Gates == DOMAIN Arity
\* modifiers: the first modifier is outermost and owns the first qubit
Dagger(M) == Mat(Dim(M), LAMBDA r, c : IF M[c][r] = Z THEN Z ELSE IF M[c][r] = O THEN O ELSE Conj(M[c][r]))
Block(M0, M1) == LET d == Dim(M0) IN Mat(2 * d, LAMBDA r, c : IF r < d /\ c < d THEN M0[r][c] ELSE IF r >= d /\ c >= d THEN M1[r - d][c - d] ELSE Z)
RECURSIVE GateMat(_, _, _, _)
GateMat(name, mods, k0, nparams) ==     \* k0: index of first parameter, nparams: number of parameters in this sub-gate
  IF mods = <<>> THEN Std(name, k0)
  ELSE CASE Head(mods) = "DAGGER" -> Dagger(GateMat(name, Tail(mods), k0, nparams))
         [] Head(mods) = "CONTROLLED" -> (LET M == GateMat(name, Tail(mods), k0, nparams) IN Block(Id(Dim(M)), M))
         [] Head(mods) = "FORKED" -> Block(GateMat(name, Tail(mods), k0, nparams \div 2), GateMat(name, Tail(mods), k0 + nparams \div 2, nparams \div 2))
\* lifting: first listed qubit = most significant bit of the local index; qubit 0 = least significant bit of the register
RECURSIVE SubIdx(_, _, _)
SubIdx(r, qs, j) == IF j > Len(qs) THEN 0 ELSE Bit(r, qs[j]) * Pow2(Len(qs) - j) + SubIdx(r, qs, j + 1)
Agree(r, c, qs) == \A q \in 0..N-1 : (\E j \in 1..Len(qs) : qs[j] = q) \/ Bit(r, q) = Bit(c, q)
Lift(M, qs) == Mat(Pow2(N), LAMBDA r, c : IF Agree(r, c, qs) THEN M[SubIdx(r, qs, 1)][SubIdx(c, qs, 1)] ELSE Z)
Sparse(U) == { <<r, c, U[r][c]>> : r \in DOMAIN U, c \in DOMAIN U } \ { <<r, c, Z>> : r \in DOMAIN U, c \in DOMAIN U }
\* ---- enumeration ----
InjSeqs(k) == { s \in [1..k -> 0..N-1] : \A a, b \in 1..k : a # b => s[a] # s[b] }
ModStacks == {<<>>, <<"DAGGER">>, <<"CONTROLLED">>, <<"FORKED">>, <<"FORKED", "CONTROLLED">>, <<"CONTROLLED", "FORKED">>, <<"DAGGER", "FORKED">>}
ExtraQ(mods) == Cardinality({j \in 1..Len(mods) : mods[j] # "DAGGER"})
Forks(mods) == Cardinality({j \in 1..Len(mods) : mods[j] = "FORKED"})
VARIABLES g, mods, qs
Init == /\ g \in Gates /\ mods \in ModStacks
        /\ (Forks(mods) > 0 => NParams(g) = 1)
        /\ Arity[g] + ExtraQ(mods) <= N
        /\ qs \in InjSeqs(Arity[g] + ExtraQ(mods))
Next == UNCHANGED <<g, mods, qs>>
U == Lift(GateMat(g, mods, 1, NParams(g) * Pow2(Forks(mods))), qs)
\* model-level sanity: a lifted matrix has exactly one non-zero per row/column iff the local one does (permutation-like gates)
RowCount(M, r) == Cardinality({c \in DOMAIN M : M[r][c] # Z})
Sanity == LET M == GateMat(g, mods, 1, NParams(g) * Pow2(Forks(mods))) IN
          (\A r \in DOMAIN M : RowCount(M, r) = 1) => (\A r \in DOMAIN U : RowCount(U, r) = 1)
Emit == PrintT(<<"CASE", ToJson([gate |-> g, mods |-> mods, qubits |-> qs, n |-> N, entries |-> Sparse(U)])>>)
=============================================================================
