------------------------------- MODULE CalMap -------------------------------
EXTENDS Naturals, Sequences, FiniteSets, TLC
CONSTANTS AsBuiltRemove   \* TRUE: remove_target_index as in calibration.rs:178-207
\* --- abstract instructions: gates by name (calibrated iff name in DOMAIN cals), declarations, leaves
G(n) == [k |-> "Gate", name |-> n]
D(n) == [k |-> "Declare", name |-> n]
Names == {"X", "Y", "W"}
BodyAlphabet == {G("X"), G("W"), G("Z"), D("a")}
Bodies == {<<a>> : a \in BodyAlphabet} \cup {<<a, b>> : a \in BodyAlphabet, b \in BodyAlphabet}
CalSets == [Names -> Bodies]
Unmod(t) == [u |-> t]
Rew(d) == [r |-> d]
IsRew(t) == "r" \in DOMAIN t
Err == [err |-> TRUE]
NoneR == [none |-> TRUE]
IsErr(x) == "err" \in DOMAIN x
IsNone(x) == "none" \in DOMAIN x
InSeq(x, s) == \E n \in 1..Len(s) : s[n] = x

\* --- Calibrations::expand_inner + recursively_expand_inner (0-based indices as in the code) ---
RECURSIVE Expand(_, _, _), Walk(_, _, _, _, _, _)
Expand(cals, i, crumbs) ==
  IF InSeq(i, crumbs) THEN Err
  ELSE IF i.k = "Gate" /\ i.name \in DOMAIN cals
       THEN Walk(cals, cals[i.name], 1, <<i>> \o crumbs, <<>>, <<>>) 
       ELSE NoneR
Walk(cals, body, k, path, new, entries) ==
  IF k > Len(body) THEN [instrs |-> new, d |-> [cal |-> path[1].name, from |-> 0, to |-> Len(new), exps |-> entries]]
  ELSE LET r == Expand(cals, body[k], path) IN
       IF IsErr(r) THEN Err
       ELSE IF IsNone(r) THEN Walk(cals, body, k + 1, path, Append(new, body[k]), Append(entries, [s |-> k - 1, t |-> Unmod(Len(new))]))
       ELSE Walk(cals, body, k + 1, path, new \o r.instrs,
                 Append(entries, [s |-> k - 1, t |-> Rew([r.d EXCEPT !.from = Len(new), !.to = Len(new) + Len(r.instrs)])]))

\* --- CalibrationExpansion::remove_target_index ---
Dec(n) == IF n = 0 THEN 0 ELSE n - 1
RECURSIVE Remove(_, _), RemoveEntries(_, _)
Remove(d, idx) ==
  IF AsBuiltRemove
  THEN LET from2 == IF d.from >= idx THEN Dec(d.from) ELSE d.from
           to2   == IF d.to > idx THEN Dec(d.to) ELSE d.to
       IN IF idx >= from2 THEN [d EXCEPT !.from = from2, !.to = to2, !.exps = RemoveEntries(d.exps, idx - from2)]
          ELSE [d EXCEPT !.from = from2, !.to = to2]
  ELSE IF idx < d.from THEN [d EXCEPT !.from = d.from - 1, !.to = d.to - 1]        \* removed before this range: shift
       ELSE IF idx < d.to THEN [d EXCEPT !.to = d.to - 1, !.exps = RemoveEntries(d.exps, idx - d.from)]  \* inside: shrink
       ELSE d                                                                        \* after: untouched
RemoveEntries(es, t) ==
  IF es = <<>> THEN <<>>
  ELSE LET e == Head(es) rest == RemoveEntries(Tail(es), t) IN
       IF IsRew(e.t)
       THEN LET c == Remove(e.t.r, t) IN IF c.from = c.to THEN rest ELSE <<[e EXCEPT !.t = Rew(c)]>> \o rest
       ELSE IF AsBuiltRemove THEN <<e>> \o rest
            ELSE IF e.t.u = t THEN rest
                 ELSE IF e.t.u > t THEN <<[e EXCEPT !.t = Unmod(e.t.u - 1)]>> \o rest ELSE <<e>> \o rest

\* --- Program::expand_calibrations_inner with source map + append_calibration_expansion_output_inner ---
RECURSIVE Hoist(_, _, _, _)
Hoist(instrs, k, out, d) ==   \* out: body instructions added so far from this expansion
  IF k > Len(instrs) THEN [out |-> out, d |-> d]
  ELSE IF instrs[k].k = "Declare" THEN Hoist(instrs, k + 1, out, Remove(d, Len(out)))
       ELSE Hoist(instrs, k + 1, Append(out, instrs[k]), d)
RECURSIVE Prog(_, _, _, _, _)
Prog(cals, src, k, out, map) ==
  IF k > Len(src) THEN [out |-> out, map |-> map]
  ELSE LET r == Expand(cals, src[k], <<>>) IN
       IF IsErr(r) THEN Err
       ELSE IF IsNone(r) THEN Prog(cals, src, k + 1, Append(out, src[k]), Append(map, [s |-> k - 1, t |-> Unmod(Len(out))]))
       ELSE LET h == Hoist(r.instrs, 1, <<>>, r.d)
                d2 == [h.d EXCEPT !.from = Len(out), !.to = Len(out) + Len(h.out)]
            IN Prog(cals, src, k + 1, out \o h.out, IF d2.from = d2.to THEN map ELSE Append(map, [s |-> k - 1, t |-> Rew(d2)]))

\* --- C19: WellFormed, with nested coordinates relative to the parent range ---
SpanFrom(t) == IF IsRew(t) THEN t.r.from ELSE t.u
SpanTo(t)   == IF IsRew(t) THEN t.r.to ELSE t.u + 1
RECURSIVE WF(_, _, _)
WF(es, lo, hi) ==      \* entries must tile [lo, hi) in order, sources strictly increasing
  /\ \A n \in 1..Len(es) - 1 : es[n].s < es[n + 1].s /\ SpanTo(es[n].t) = SpanFrom(es[n + 1].t)
  /\ (es = <<>> => lo = hi)
  /\ (es # <<>> => SpanFrom(es[1].t) = lo /\ SpanTo(es[Len(es)].t) = hi)
  /\ \A n \in 1..Len(es) : SpanFrom(es[n].t) < SpanTo(es[n].t)
  /\ \A n \in 1..Len(es) : IsRew(es[n].t) => WF(es[n].t.r.exps, 0, es[n].t.r.to - es[n].t.r.from)
TopIdentity(src, out, map) == \A n \in 1..Len(map) : ~IsRew(map[n].t) => out[map[n].t.u + 1] = src[map[n].s + 1]

IsTodo(x) == "todo" \in DOMAIN x
VARIABLES cals, src, res
Init == cals \in CalSets /\ src \in {<<G("Y")>>, <<G("Y"), G("Z")>>, <<G("Z"), G("Y")>>} /\ res = [todo |-> TRUE]
Next == IsTodo(res) /\ res' = Prog(cals, src, 1, <<>>, <<>>) /\ UNCHANGED <<cals, src>>
Spec == Init /\ [][Next]_<<cals, src, res>>
WellFormed == (~IsTodo(res) /\ ~IsErr(res)) => WF(res.map, 0, Len(res.out)) /\ TopIdentity(src, res.out, res.map)
NoDeclInBody == (~IsTodo(res) /\ ~IsErr(res)) => \A n \in 1..Len(res.out) : res.out[n].k # "Declare"
=============================================================================
