SPECIFICATION Spec
CONSTANT MaxLen = 3
CONSTANT Regions = {"a", "b"}
CONSTANT Frames = {"f", "g"}
INVARIANT Forward
INVARIANT Connected
INVARIANT FrameOrdered
INVARIANT FrameEdgesJustified
CHECK_DEADLOCK FALSE
