-------------------------------- MODULE Simp --------------------------------
EXTENDS Naturals, Sequences, FiniteSets, TLC
CONSTANTS Fixes        \* subset of {"orig_op", "left_assoc", "pow_order"}: which planned repairs are applied
P == 1009
\* ---- expressions (tagged records) ----
Num(n) == [t |-> "num", n |-> n]          \* n in 0..P-1, or P = NaN
NaN == P
Var(v) == [t |-> "var", v |-> v]
Neg(e) == [t |-> "neg", e |-> e]
Pos(e) == [t |-> "pos", e |-> e]
Inf(l, o, r) == [t |-> "inf", op |-> o, l |-> l, r |-> r]
Fn(e) == [t |-> "fn", e |-> e]
Pi == [t |-> "pi"]
PiVal == 432
IsNum(e) == e.t = "num"
IsNeg(e) == e.t = "neg"
IsInf(e, o) == e.t = "inf" /\ e.op = o
\* ---- arithmetic in GF(P) ----
RECURSIVE PowMod(_, _)
PowMod(b, n) == IF n = 0 THEN 1 ELSE LET h == PowMod(b, n \div 2) IN IF n % 2 = 0 THEN (h * h) % P ELSE (((h * h) % P) * b) % P
Inv(a) == PowMod(a, P - 2)
F1(a) == (a * 17 + 5) % P                                    \* uninterpreted unary function
U2(a, b) == (a * a * 31 + b * 7 + a * b + 3) % P             \* uninterpreted binary (generic powers)
Pow(a, b) == IF b = 0 THEN 1 ELSE IF b = 1 THEN a ELSE IF a = 1 THEN 1 ELSE IF a = 0 THEN 0 ELSE U2(a, b)
Calc(a, o, b) ==
  IF a = NaN \/ b = NaN THEN NaN
  ELSE CASE o = "+" -> (a + b) % P [] o = "-" -> (a + P - b) % P [] o = "*" -> (a * b) % P
         [] o = "/" -> (IF b = 0 THEN NaN ELSE (a * Inv(b)) % P) [] o = "^" -> Pow(a, b)
NegV(a) == IF a = NaN THEN NaN ELSE (P - a) % P
RECURSIVE Val(_, _)
Val(e, env) ==
  CASE e.t = "num" -> e.n [] e.t = "pi" -> PiVal [] e.t = "var" -> env[e.v]
    [] e.t = "neg" -> NegV(Val(e.e, env)) [] e.t = "pos" -> Val(e.e, env)
    [] e.t = "fn" -> (LET a == Val(e.e, env) IN IF a = NaN THEN NaN ELSE F1(a))
    [] e.t = "inf" -> Calc(Val(e.l, env), e.op, Val(e.r, env))
\* ---- by_hand.rs ----
RECURSIVE Size(_)
Size(e) == CASE e.t \in {"num", "pi", "var"} -> 1 [] e.t \in {"neg", "pos", "fn"} -> 1 + Size(e.e) [] e.t = "inf" -> 1 + Size(e.l) + Size(e.r)
Smaller(a, b) == IF Size(a) <= Size(b) THEN a ELSE b          \* min_by_key keeps the first on ties
IsZ(e) == IsNum(e) /\ e.n = 0
IsO(e) == IsNum(e) /\ e.n = 1
MulMatches(a, b) == IsInf(a, "*") /\ IsInf(b, "*") /\ (a.l = b.l \/ a.l = b.r \/ a.r = b.l \/ a.r = b.r)
RECURSIVE S(_, _), SInfix(_, _, _, _), SPrefix(_, _, _)
Lm(lim) == IF lim = 0 THEN 0 ELSE lim - 1
S(e, lim) ==
  IF e.t = "pi" THEN Num(PiVal)
  ELSE IF lim = 0 THEN e
  ELSE CASE e.t \in {"num", "var"} -> e
         [] e.t = "fn" -> (LET a == S(e.e, Lm(lim)) IN IF IsNum(a) THEN Num(IF a.n = NaN THEN NaN ELSE F1(a.n)) ELSE Fn(a))
         [] e.t = "inf" -> SInfix(e.l, e.op, e.r, Lm(lim))
         [] e.t = "neg" -> SPrefix("-", e.e, Lm(lim))
         [] e.t = "pos" -> SPrefix("+", e.e, Lm(lim))
SPrefix(o, e0, lim) ==
  LET e == S(e0, lim) IN
  IF o = "+" THEN e
  ELSE IF IsNum(e) THEN Num(NegV(e.n)) ELSE IF IsNeg(e) THEN e.e ELSE Neg(e)
SInfix(l0, op, r0, lim) ==
  LET left == S(l0, lim)  right == S(r0, lim)  L1 == Lm(lim)
      mulOrDiv == op \in {"*", "/"}
      origNegOp == IF "orig_op" \in Fixes THEN op ELSE "*"
  IN
  CASE op = "+" /\ IsZ(left) -> right
    [] op = "+" /\ IsZ(right) -> left
    [] op = "-" /\ IsZ(left) -> S(Neg(right), L1)
    [] op = "-" /\ IsZ(right) -> left
    [] op = "-" /\ left = right -> Num(0)
    [] op = "*" /\ (IsZ(left) \/ IsZ(right)) -> Num(0)
    [] op = "*" /\ IsO(left) -> right
    [] op = "*" /\ IsO(right) -> left
    [] op = "/" /\ IsZ(left) -> Num(0)
    [] op = "/" /\ IsZ(right) -> Num(NaN)
    [] op = "/" /\ IsO(right) -> left
    [] op = "/" /\ left = right -> Num(1)
    [] op = "^" /\ IsZ(left) /\ "pow_order" \notin Fixes -> Num(0)
    [] op = "^" /\ IsZ(right) -> Num(1)
    [] op = "^" /\ IsZ(left) -> Num(0)
    [] op = "^" /\ IsO(left) -> Num(1)
    [] op = "^" /\ IsO(right) -> left
    [] IsNum(left) /\ IsNum(right) -> Num(Calc(left.n, op, right.n))
    [] op = "+" /\ IsNeg(right) -> S(Inf(left, "-", right.e), L1)
    [] op = "+" /\ IsNeg(left) -> S(Inf(right, "-", left.e), L1)
    [] op = "-" /\ IsNeg(right) -> S(Inf(left, "+", right.e), L1)
    [] op = "-" /\ IsNeg(left) -> Smaller(Inf(left, "-", right), S(Neg(S(Inf(left.e, "+", right), L1)), L1))
    [] mulOrDiv /\ IsNeg(left) /\ IsNeg(right) -> S(Inf(left.e, op, right.e), L1)
    [] op = "/" /\ IsNeg(right) /\ left = right.e -> Num(P - 1)
    [] op = "/" /\ IsNeg(left) /\ left.e = right -> Num(P - 1)
    [] mulOrDiv /\ IsNeg(right) -> Smaller(Inf(left, origNegOp, right), S(Inf(S(Neg(left), L1), op, right.e), L1))
    [] mulOrDiv /\ IsNeg(left) -> Smaller(Inf(left, origNegOp, right), S(Inf(left.e, op, S(Neg(right), L1)), L1))
    [] op = "+" /\ IsInf(left, "+") /\ IsInf(right, "+") /\ MulMatches(left.l, right.l) ->
         (LET ll == left.l.l lr == left.l.r rl == right.l.l rr == right.l.r
              pick == IF ll = rl THEN <<lr, rr, ll>> ELSE IF ll = rr THEN <<lr, rl, ll>> ELSE IF lr = rl THEN <<ll, rr, lr>> ELSE <<ll, rl, rr>>
              sumAs == S(Inf(pick[1], "+", pick[2]), L1)
              sumBs == S(Inf(left.r, "+", right.r), L1)
              mulx == S(Inf(sumAs, "*", pick[3]), L1)
          IN S(Inf(mulx, "+", sumBs), L1))
    [] op = "+" /\ IsInf(left, "*") /\ IsInf(right, "*") /\ left.r = right.r ->
         S(Inf(S(Inf(left.l, "+", right.l), L1), "*", left.r), L1)
    [] op = "+" /\ IsInf(left, "+") /\ IsInf(right, "+") /\ left.l = right.l ->
         S(Inf(S(Inf(Num(2), "*", left.l), L1), "+", S(Inf(left.r, "+", right.r), L1)), L1)
    [] op \in {"+", "*"} /\ IsInf(right, op) ->
         Smaller(Inf(left, op, right), S(Inf(S(Inf(left, op, right.l), L1), op, right.r), L1))
    [] op \in {"-", "/"} /\ IsInf(right, op) ->
         (LET inv == IF op = "-" THEN "+" ELSE "*" IN
          Smaller(Inf(left, op, right), S(Inf(S(Inf(left, inv, right.r), L1), op, right.l), L1)))
    [] op \in {"+", "*", "-", "/"} /\ IsInf(left, op) ->
         (LET rhsOp == IF op = "-" THEN "+" ELSE IF op = "/" THEN "*" ELSE op
              bc == IF "left_assoc" \in Fixes THEN S(Inf(left.r, rhsOp, right), L1) ELSE S(Inf(left.r, op, right), L1)
              new == IF "left_assoc" \in Fixes THEN S(Inf(left.l, op, bc), L1) ELSE S(Inf(left.l, rhsOp, bc), L1)
          IN Smaller(Inf(left, op, right), new))
    [] op = "*" /\ IsInf(right, "+") ->
         Smaller(Inf(left, "*", right), S(Inf(S(Inf(left, "*", right.l), L1), "+", S(Inf(left, "*", right.r), L1)), L1))
    [] op = "*" /\ IsInf(left, "+") ->
         Smaller(Inf(left, "*", right), S(Inf(S(Inf(left.l, "*", right), L1), "+", S(Inf(left.r, "*", right), L1)), L1))
    [] op = "/" /\ IsInf(left, "*") /\ right = left.l -> left.r
    [] op = "/" /\ IsInf(left, "*") /\ right = left.r -> left.l
    [] op = "/" /\ IsInf(right, "*") /\ left = right.l -> S(Inf(Num(1), "/", right.r), L1)
    [] op = "/" /\ IsInf(right, "*") /\ left = right.r -> S(Inf(Num(1), "/", right.l), L1)
    [] op = "/" /\ IsInf(left, "*") -> Smaller(Inf(left, "/", right), S(Inf(left.l, "*", S(Inf(left.r, "/", right), L1)), L1))
    [] op = "/" /\ IsInf(right, "*") -> Smaller(Inf(left, "/", right), S(Inf(S(Inf(left, "/", right.l), L1), "/", right.r), L1))
    [] op = "*" /\ IsInf(left, "/") /\ left.r = right -> left.l
    [] op = "*" /\ IsInf(right, "/") /\ left = right.r -> right.l
    [] OTHER -> Inf(left, op, right)
Simplify(e) == S(e, 10)
\* ---- enumeration and the soundness invariant ----
Leaves == {Var("x"), Var("y"), Num(0), Num(1), Num(2), Num(3), Pi}
Ops == {"+", "-", "*", "/", "^"}
Grow(Sx) == Sx \cup { Inf(a, o, b) : a \in Sx, o \in Ops, b \in Sx } \cup { Neg(a) : a \in Sx }
D1 == Grow(Leaves)
VARIABLES lft, op, rgt
Init == lft \in D1 /\ op \in Ops \cup {"neg"} /\ rgt \in D1
Next == UNCHANGED <<lft, op, rgt>>
Cur == IF op = "neg" THEN Neg(lft) ELSE Inf(lft, op, rgt)
Env1 == [x |-> 123, y |-> 777]
Env2 == [x |-> 58, y |-> 901]
RECURSIVE HasPi(_)
HasPi(e) == CASE e.t = "pi" -> TRUE [] e.t \in {"num", "var"} -> FALSE [] e.t \in {"neg", "pos", "fn"} -> HasPi(e.e) [] e.t = "inf" -> HasPi(e.l) \/ HasPi(e.r)
Sound == LET s == Simplify(Cur) IN
         /\ ~HasPi(s)
         /\ \A env \in {Env1, Env2} : Val(Cur, env) = NaN \/ Val(s, env) = Val(Cur, env)
=============================================================================
