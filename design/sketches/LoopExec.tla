------------------------------ MODULE LoopExec ------------------------------
EXTENDS Naturals, Sequences, FiniteSets, TLC
CONSTANTS MaxBody, MaxIter
\* abstract instructions of a wrapped program (tagged records)
Op(n)      == [k |-> "Op", id |-> n]                 \* opaque body instruction number n (does not touch the counter)
MoveC(v)   == [k |-> "MoveCounter", v |-> v]
SubC       == [k |-> "SubCounter"]
Lbl        == [k |-> "Label"]
JmpWhen    == [k |-> "JumpWhenCounter"]
\* Program::wrap_in_loop (program/mod.rs:361-421) on a body of `len` opaque instructions
Body(len) == [n \in 1..len |-> Op(n)]
Wrap(len, iters) ==
  IF iters = 0 THEN <<>>
  ELSE IF iters = 1 THEN Body(len)
  ELSE <<MoveC(iters), Lbl>> \o Body(len) \o <<SubC, JmpWhen>>
VARIABLES len, iters, prog, pc, counter, executed, halted
vars == <<len, iters, prog, pc, counter, executed, halted>>
Init == /\ len \in 0..MaxBody /\ iters \in 0..MaxIter
        /\ prog = Wrap(len, iters) /\ pc = 1 /\ counter = 0 /\ executed = <<>> /\ halted = FALSE
LabelPos == CHOOSE p \in 1..Len(prog) : prog[p].k = "Label"
Step == /\ ~halted /\ pc <= Len(prog)
        /\ LET i == prog[pc] IN
           CASE i.k = "Op" -> /\ executed' = Append(executed, i.id) /\ pc' = pc + 1 /\ UNCHANGED counter
             [] i.k = "MoveCounter" -> /\ counter' = i.v /\ pc' = pc + 1 /\ UNCHANGED executed
             [] i.k = "SubCounter" -> /\ counter' = counter - 1 /\ pc' = pc + 1 /\ UNCHANGED executed
             [] i.k = "Label" -> /\ pc' = pc + 1 /\ UNCHANGED <<counter, executed>>
             [] i.k = "JumpWhenCounter" -> /\ pc' = (IF counter # 0 THEN LabelPos ELSE pc + 1) /\ UNCHANGED <<counter, executed>>
        /\ UNCHANGED <<len, iters, prog, halted>>
Halt == /\ ~halted /\ pc = Len(prog) + 1 /\ halted' = TRUE /\ UNCHANGED <<len, iters, prog, pc, counter, executed>>
Next == Step \/ Halt
Spec == Init /\ [][Next]_vars /\ WF_vars(Next)
\* C33
RECURSIVE Repeat(_, _)
Repeat(s, n) == IF n = 0 THEN <<>> ELSE s \o Repeat(s, n - 1)
ExactlyNTimes == halted => executed = Repeat([n \in 1..len |-> n], iters)
Terminates == <>halted
NeverNegative == counter >= 0
=============================================================================
