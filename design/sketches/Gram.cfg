SPECIFICATION Spec
CONSTANT MaxLen = 4
CONSTANT AsBuilt = TRUE
INVARIANT Total
CHECK_DEADLOCK FALSE
