SPECIFICATION Spec
CONSTANT MaxLen = 4
CONSTANT Regions = {"a", "b"}
INVARIANT ConflictsOrdered
INVARIANT Forward
INVARIANT EdgesJustified
CHECK_DEADLOCK FALSE
