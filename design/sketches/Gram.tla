-------------------------------- MODULE Gram --------------------------------
EXTENDS Naturals, Sequences, FiniteSets, TLC
CONSTANTS MaxLen, AsBuilt
\* ---- tokens: tagged records [c |-> class, v |-> lexeme] ----
T(c, v) == [c |-> c, v |-> v]
Cmds == {"ADD", "MOVE", "AND", "EQ", "NEG", "JUMP", "JUMP-WHEN", "LABEL", "HALT", "MEASURE", "RESET", "PULSE", "CAPTURE"}
Tokens == {T("cmd", x) : x \in Cmds} \cup
          { T("nonblocking", "NONBLOCKING"), T("mod", "DAGGER"), T("id", "ro"), T("id", "X"),
            T("int", "1"), T("int", "9223372036854775808"), T("float", "1.5"),
            T("op", "+"), T("op", "-"), T("op", "*"), T("lp", "("), T("rp", ")"), T("lb", "["), T("rb", "]"),
            T("comma", ","), T("colon", ":"), T("str", "rf"), T("target", "a"), T("nl", "\n"), T("var", "t") }
EOFT == T("eof", "")
At(ts, p) == IF p <= Len(ts) THEN ts[p] ELSE EOFT
\* ---- results ----
Ok(v, p) == [r |-> "ok", v |-> v, p |-> p]
Er == [r |-> "err"]
Pn == [r |-> "panic"]
IsOk(x) == x.r = "ok"
\* ---- common.rs ----
MemRef(ts, p) ==   \* Identifier [ '[' Integer ']' ]
  IF At(ts, p).c # "id" THEN Er
  ELSE IF At(ts, p+1).c = "lb" /\ At(ts, p+2).c = "int" /\ At(ts, p+3).c = "rb"
       THEN Ok([k |-> "mref", name |-> At(ts, p).v, idx |-> At(ts, p+2).v], p + 4)
       ELSE Ok([k |-> "mref", name |-> At(ts, p).v, idx |-> "0"], p + 1)
\* signed literal operand: alt((opt(op) float), (opt(op) int), memref)  -- common.rs:47-127
Fits63(v) == v # "9223372036854775808"
SignedLit(ts, p, allowFloat) ==
  LET hasOp == At(ts, p).c = "op"
      q == IF hasOp THEN p + 1 ELSE p
      num == At(ts, q) IN
  IF (num.c = "float" /\ allowFloat) \/ num.c = "int"
  THEN IF hasOp /\ At(ts, p).v # "-"
       THEN (IF AsBuilt THEN Pn ELSE Er)                        \* panic!("Implement this error")
       ELSE IF num.c = "int" /\ ~Fits63(num.v)
            THEN (IF AsBuilt /\ hasOp THEN Pn                    \* -1 * (2^63 as i64): multiply overflow
                  ELSE IF AsBuilt THEN Ok([k |-> "lit", t |-> "int", neg |-> FALSE, v |-> "WRAPPED"], q + 1)  \* u64 as i64 wraps
                  ELSE IF hasOp THEN Ok([k |-> "lit", t |-> "int", neg |-> TRUE, v |-> num.v], q + 1)   \* -2^63 is representable
                  ELSE Er)
            ELSE Ok([k |-> "lit", t |-> num.c, neg |-> hasOp, v |-> num.v], q + 1)
  ELSE MemRef(ts, p)
Qubit(ts, p) == IF At(ts, p).c \in {"int", "var", "id"} THEN Ok([k |-> "q", t |-> At(ts, p).c, v |-> At(ts, p).v], p + 1) ELSE Er
RECURSIVE Qubits(_, _, _)
Qubits(ts, p, acc) == LET q == Qubit(ts, p) IN IF IsOk(q) THEN Qubits(ts, q.p, Append(acc, q.v)) ELSE Ok(acc, p)
\* ---- expression.rs (Pratt) ----
Prec(t) == IF t.c # "op" THEN 0 ELSE IF t.v \in {"+", "-"} THEN 1 ELSE 2
RECURSIVE Expr(_, _, _), ELoop(_, _, _, _)
Atom(ts, p) ==
  LET t == At(ts, p) IN
  CASE t.c \in {"int", "float"} -> Ok([k |-> "num", v |-> t.v], p + 1)
    [] t.c = "var" -> Ok([k |-> "var", v |-> t.v], p + 1)
    [] t.c = "id" -> LET m == MemRef(ts, p) IN Ok([k |-> "addr", m |-> m.v], m.p)
    [] t.c = "lp" -> LET e == Expr(ts, p + 1, 0) IN
                     IF ~IsOk(e) THEN e ELSE IF At(ts, e.p).c = "rp" THEN Ok(e.v, e.p + 1) ELSE Er
    [] OTHER -> Er
Expr(ts, p, prec) ==
  LET neg == At(ts, p) = T("op", "-")
      a == Atom(ts, IF neg THEN p + 1 ELSE p) IN
  IF ~IsOk(a) THEN a ELSE ELoop(ts, IF neg THEN [k |-> "neg", e |-> a.v] ELSE a.v, a.p, prec)
ELoop(ts, left, p, prec) ==
  LET t == At(ts, p) IN
  IF Prec(t) > prec
  THEN LET r == Expr(ts, p + 1, Prec(t)) IN
       IF ~IsOk(r) THEN r ELSE ELoop(ts, [k |-> "inf", op |-> t.v, l |-> left, r |-> r.v], r.p, prec)
  ELSE Ok(left, p)
RECURSIVE ExprList(_, _, _)
ExprList(ts, p, acc) ==   \* separated_list0(Comma, expr)
  LET e == Expr(ts, p, 0) IN
  IF ~IsOk(e) THEN (IF e.r = "panic" THEN e ELSE Ok(acc, p))
  ELSE IF At(ts, e.p).c = "comma"
       THEN LET more == ExprList(ts, e.p + 1, Append(acc, e.v)) IN
            IF IsOk(more) /\ Len(more.v) = Len(acc) + 1 THEN Ok(Append(acc, e.v), e.p) ELSE more
       ELSE Ok(Append(acc, e.v), e.p)
\* ---- command.rs / gate.rs / instruction.rs ----
Frame(ts, p) == LET qs == Qubits(ts, p, <<>>) IN
                IF Len(qs.v) = 0 \/ At(ts, qs.p).c # "str" THEN Er ELSE Ok([qubits |-> qs.v, name |-> At(ts, qs.p).v], qs.p + 1)
Waveform(ts, p) == IF At(ts, p).c # "id" THEN Er ELSE Ok([name |-> At(ts, p).v], p + 1)   \* parameter list omitted in the sketch
Pulse(ts, p, blocking) ==
  LET f == Frame(ts, p) IN IF ~IsOk(f) THEN Er ELSE
  LET w == Waveform(ts, f.p) IN IF ~IsOk(w) THEN Er ELSE Ok([k |-> "Pulse", blocking |-> blocking, frame |-> f.v, wf |-> w.v], w.p)
Capture(ts, p, blocking) ==
  LET u == Pulse(ts, p, blocking) IN IF ~IsOk(u) THEN Er ELSE
  LET m == MemRef(ts, u.p) IN IF ~IsOk(m) THEN Er ELSE Ok([k |-> "Capture", pulse |-> u.v, m |-> m.v], m.p)
Gate(ts, p) ==
  LET RECURSIVE Mods(_, _)
      Mods(q, acc) == IF At(ts, q).c = "mod" THEN Mods(q + 1, Append(acc, At(ts, q).v)) ELSE Ok(acc, q)
      ms == Mods(p, <<>>) IN
  IF At(ts, ms.p).c # "id" THEN Er ELSE
  LET name == At(ts, ms.p).v
      ps == IF At(ts, ms.p + 1).c = "lp"
            THEN LET l == ExprList(ts, ms.p + 2, <<>>) IN
                 IF l.r = "panic" THEN l ELSE IF IsOk(l) /\ At(ts, l.p).c = "rp" THEN Ok(l.v, l.p + 1) ELSE Ok(<<>>, ms.p + 1)  \* opt(delimited(..)) backtracks
            ELSE Ok(<<>>, ms.p + 1) IN
  IF ps.r = "panic" THEN ps ELSE
  LET qs == Qubits(ts, ps.p, <<>>) IN Ok([k |-> "Gate", mods |-> ms.v, name |-> name, params |-> ps.v, qubits |-> qs.v], qs.p)
Command(ts, c, p) ==
  CASE c \in {"ADD", "MOVE"} -> LET d == MemRef(ts, p) IN IF ~IsOk(d) THEN Er ELSE
                                 LET s == SignedLit(ts, d.p, TRUE) IN IF ~IsOk(s) THEN s ELSE Ok([k |-> c, d |-> d.v, s |-> s.v], s.p)
    [] c = "AND" -> LET d == MemRef(ts, p) IN IF ~IsOk(d) THEN Er ELSE
                    LET s == SignedLit(ts, d.p, FALSE) IN IF ~IsOk(s) THEN s ELSE Ok([k |-> c, d |-> d.v, s |-> s.v], s.p)
    [] c = "EQ" -> LET d == MemRef(ts, p) IN IF ~IsOk(d) THEN Er ELSE
                   LET l == MemRef(ts, d.p) IN IF ~IsOk(l) THEN Er ELSE
                   LET s == SignedLit(ts, l.p, TRUE) IN IF ~IsOk(s) THEN s ELSE Ok([k |-> c, d |-> d.v, l |-> l.v, s |-> s.v], s.p)
    [] c = "NEG" -> LET d == MemRef(ts, p) IN IF ~IsOk(d) THEN Er ELSE Ok([k |-> c, d |-> d.v], d.p)
    [] c \in {"JUMP", "LABEL"} -> IF At(ts, p).c = "target" THEN Ok([k |-> c, t |-> At(ts, p).v], p + 1) ELSE Er
    [] c = "JUMP-WHEN" -> IF At(ts, p).c # "target" THEN Er ELSE
                          LET m == MemRef(ts, p + 1) IN IF ~IsOk(m) THEN Er ELSE Ok([k |-> c, t |-> At(ts, p).v, m |-> m.v], m.p)
    [] c = "HALT" -> Ok([k |-> c], p)
    [] c = "MEASURE" -> LET q == Qubit(ts, p) IN IF ~IsOk(q) THEN Er ELSE
                        LET m == MemRef(ts, q.p) IN IF IsOk(m) THEN Ok([k |-> c, q |-> q.v, m |-> m.v], m.p) ELSE Ok([k |-> c, q |-> q.v], q.p)
    [] c = "RESET" -> LET q == Qubit(ts, p) IN IF IsOk(q) THEN Ok([k |-> c, q |-> q.v], q.p) ELSE Ok([k |-> c], p)
    [] c = "PULSE" -> Pulse(ts, p, TRUE)
    [] c = "CAPTURE" -> Capture(ts, p, TRUE)
RECURSIVE SkipNl(_, _)
SkipNl(ts, p) == IF At(ts, p).c = "nl" THEN SkipNl(ts, p + 1) ELSE p
\* result classes of parse_instruction: ok | "soft" (nom Error: many0 stops) | "hard" (nom Failure) | panic
Instr(ts, p0) ==
  LET p == SkipNl(ts, p0) t == At(ts, p) IN
  CASE t.c = "eof" -> [r |-> "soft"]
    [] t.c = "cmd" -> LET x == Command(ts, t.v, p + 1) IN IF x.r = "err" THEN [r |-> "hard"] ELSE x
    [] t.c = "nonblocking" ->
         LET n == At(ts, p + 1) IN
         IF n = T("cmd", "PULSE") THEN (LET x == Pulse(ts, p + 2, FALSE) IN IF x.r = "err" THEN [r |-> "soft"] ELSE x)
         ELSE IF n = T("cmd", "CAPTURE") THEN (LET x == Capture(ts, p + 2, FALSE) IN IF x.r = "err" THEN [r |-> "soft"] ELSE x)
         ELSE (IF AsBuilt THEN Pn ELSE [r |-> "hard"])           \* todo!()
    [] t.c \in {"id", "mod"} -> LET x == Gate(ts, p) IN IF x.r = "err" THEN [r |-> "soft"] ELSE x
    [] OTHER -> [r |-> "hard"]
RECURSIVE Many(_, _, _)
Many(ts, p, acc) ==
  LET x == Instr(ts, p) IN
  CASE x.r = "ok" -> (IF x.p = p THEN Er ELSE Many(ts, x.p, Append(acc, x.v)))
    [] x.r = "soft" -> (IF SkipNl(ts, p) = Len(ts) + 1 THEN Ok(acc, p) ELSE Er)   \* all_consuming
    [] x.r = "hard" -> Er
    [] x.r = "panic" -> Pn
ParseProgram(ts) == Many(ts, 1, <<>>)

VARIABLES toks
Init == toks = <<>>
Next == Len(toks) < MaxLen /\ \E t \in Tokens : toks' = Append(toks, t)
Spec == Init /\ [][Next]_toks
Total == ParseProgram(toks).r \in {"ok", "err"}
=============================================================================
