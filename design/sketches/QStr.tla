-------------------------------- MODULE QStr --------------------------------
EXTENDS Naturals, Sequences, FiniteSets, TLC
CONSTANTS MaxLen
\* characters are one-character strings; a text is a sequence of them (TLC strings are atomic)
Q == "\""   BS == "\\"
Chars == {Q, BS, "\n", " ", "#", ";", "a", "n"}
\* QuotedString display (instruction/mod.rs:440-457)
RECURSIVE EscBody(_)
EscBody(s) == IF s = <<>> THEN <<>> ELSE
              (IF Head(s) = Q THEN <<BS, Q>> ELSE IF Head(s) = BS THEN <<BS, BS>> ELSE <<Head(s)>>) \o EscBody(Tail(s))
Escape(s) == <<Q>> \o EscBody(s) \o <<Q>>
\* lexer automaton `surrounded('"','"',true)` (quoted_strings.rs:56-91): one step per character
\* state: pos (1-based index into text), esc (is_escaped); returns end position of the closing quote or 0
RECURSIVE Scan(_, _, _)
Scan(txt, pos, esc) ==
  IF pos > Len(txt) THEN 0
  ELSE LET c == txt[pos] IN
       IF c = BS THEN Scan(txt, pos + 1, ~esc)
       ELSE IF esc THEN Scan(txt, pos + 1, FALSE)
       ELSE IF c = Q THEN pos
       ELSE Scan(txt, pos + 1, esc)
\* unescaped_quoted_string: .replace("\\\"", "\"").replace("\\\\", "\\")  -- two sequential passes
RECURSIVE Replace2(_, _, _, _)
Replace2(s, a, b, by) ==    \* replace every non-overlapping occurrence of <<a, b>> (left to right) by <<by>>
  IF Len(s) < 2 THEN s
  ELSE IF s[1] = a /\ s[2] = b THEN <<by>> \o Replace2(SubSeq(s, 3, Len(s)), a, b, by)
       ELSE <<s[1]>> \o Replace2(Tail(s), a, b, by)
Unescape(inner) == Replace2(Replace2(inner, BS, Q, Q), BS, BS, BS)
LexString(txt) ==   \* txt starts with a quote; returns [ok, val, rest]
  IF txt = <<>> \/ txt[1] # Q THEN [ok |-> FALSE]
  ELSE LET e == Scan(txt, 2, FALSE) IN
       IF e = 0 THEN [ok |-> FALSE] ELSE [ok |-> TRUE, val |-> Unescape(SubSeq(txt, 2, e - 1)), rest |-> SubSeq(txt, e + 1, Len(txt))]
VARIABLES s
Init == s = <<>>
Next == Len(s) < MaxLen /\ \E c \in Chars : s' = Append(s, c)
Spec == Init /\ [][Next]_s
Rests == {<<>>, <<" ", "x">>, <<Q>>}
RoundTrip == \A rest \in Rests : LET r == LexString(Escape(s) \o rest) IN r.ok /\ r.val = s /\ r.rest = rest
=============================================================================
