INIT Init
NEXT Next
INVARIANT RoundTrip
CHECK_DEADLOCK FALSE
