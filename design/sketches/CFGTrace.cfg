SPECIFICATION TSpec
CONSTANT MaxLen = 0
CONSTANT LabelArmAlwaysAddsOne = FALSE
INVARIANT Partition
INVARIANT OffsetExact
POSTCONDITION Accepted
CHECK_DEADLOCK FALSE
