SPECIFICATION Spec
CONSTANT MaxLen = 5
CONSTANT LabelArmAlwaysAddsOne = FALSE
INVARIANT Partition
INVARIANT OffsetExact
INVARIANT Emit
CHECK_DEADLOCK FALSE
