---------------------------- MODULE BlockGraph ----------------------------
EXTENDS Naturals, Sequences, FiniteSets, TLC
CONSTANTS MaxLen, Regions, Frames
START == 0
END == 1000
NoWrite == [t |-> "none"]
\* instruction summary: role, scheduled?, memory accesses, frames used/blocked
Classical == { [role |-> "C", timed |-> FALSE, r |-> R, w |-> W, c |-> {}, use |-> {}, blk |-> {}] :
                 R \in SUBSET Regions, W \in SUBSET Regions } 
RF == { [role |-> "RF", timed |-> T, r |-> R, w |-> {}, c |-> C, use |-> U, blk |-> B] :
          T \in BOOLEAN, R \in {{}, {"a"}}, C \in {{}, {"a"}}, U \in SUBSET Frames, B \in SUBSET Frames }
Alphabet == { s \in Classical : Cardinality(s.r \cup s.w) \in 1..2 } \cup
            { s \in RF : s.use \cap s.blk = {} /\ s.r \cap s.c = {} }
VARIABLES prog, pc, mem, fr, tfr, trailing, edges, phase
vars == <<prog, pc, mem, fr, tfr, trailing, edges, phase>>
EmptyCell == [write |-> NoWrite, reads |-> {}]
FrameCell == [write |-> [t |-> "Using", n |-> START], reads |-> {}]
Init == /\ prog = <<>> /\ pc = 1 /\ mem = [x \in Regions |-> EmptyCell]
        /\ fr = [f \in Frames |-> FrameCell] /\ tfr = [f \in Frames |-> FrameCell]
        /\ trailing = {} /\ edges = {} /\ phase = "gen"
Grow == phase = "gen" /\ Len(prog) < MaxLen /\ \E s \in Alphabet : prog' = Append(prog, s)
        /\ UNCHANGED <<pc, mem, fr, tfr, trailing, edges, phase>>
Start == phase = "gen" /\ phase' = "run" /\ UNCHANGED <<prog, pc, mem, fr, tfr, trailing, edges>>
IsWriteKind(k) == k \in {"Write", "Capture", "Using"}
Deps(c, kind) == (IF c.write = NoWrite THEN {} ELSE {[n |-> c.write.n, t |-> c.write.t]})
                 \cup (IF IsWriteKind(kind) THEN {[n |-> rd, t |-> "Read"] : rd \in c.reads} ELSE {})
After(c, node, kind) == IF IsWriteKind(kind) THEN [write |-> [t |-> kind, n |-> node], reads |-> {}]
                        ELSE [c EXCEPT !.reads = @ \cup {node}]
RECURSIVE SetToSeq(_)
SetToSeq(S) == IF S = {} THEN <<>> ELSE LET x == CHOOSE y \in S : TRUE IN <<x>> \o SetToSeq(S \ {x})
RECURSIVE Fold(_, _, _, _)
Fold(cs, node, accs, acc) ==
  IF accs = <<>> THEN [cells |-> cs, deps |-> acc]
  ELSE LET a == Head(accs) IN
       Fold([cs EXCEPT ![a[1]] = After(cs[a[1]], node, a[2])], node, Tail(accs), acc \cup Deps(cs[a[1]], a[2]))
MemAcc(s) == SetToSeq({<<x, "Read">> : x \in s.r}) \o SetToSeq({<<x, "Write">> : x \in s.w}) \o SetToSeq({<<x, "Capture">> : x \in s.c})
FrAcc(s)  == SetToSeq({<<f, "Using">> : f \in s.use}) \o SetToSeq({<<f, "Blocking">> : f \in s.blk})
E(from, to, l) == [from |-> from, to |-> to, l |-> l]
Step == /\ phase = "run" /\ pc <= Len(prog)
        /\ LET s == prog[pc]
               m == Fold(mem, pc, MemAcc(s), {})
               md == {d \in m.deps : d.n # pc}
               f == Fold(fr, pc, FrAcc(s), {})
               t == IF s.timed THEN Fold(tfr, pc, FrAcc(s), {}) ELSE [cells |-> tfr, deps |-> {}]
           IN /\ mem' = m.cells
              /\ fr' = IF s.role = "RF" THEN f.cells ELSE fr
              /\ tfr' = IF s.role = "RF" THEN t.cells ELSE tfr
              /\ edges' = edges \cup { E(d.n, pc, <<"Mem", d.t>>) : d \in md }
                   \cup (IF s.role = "C" /\ md = {} THEN {E(START, pc, <<"Stable">>)} ELSE {})
                   \cup (IF s.role = "RF" THEN { E(d.n, pc, <<"Stable">>) : d \in f.deps } \cup { E(d.n, pc, <<"Sched">>) : d \in t.deps } ELSE {})
              /\ trailing' = (trailing \ {d.n : d \in md}) \cup (IF s.role = "C" THEN {pc} ELSE {})
        /\ pc' = pc + 1 /\ UNCHANGED <<prog, phase>>
Pending(c) == c.reads \cup (IF c.write = NoWrite THEN {} ELSE {c.write.n})
Finish == /\ phase = "run" /\ pc = Len(prog) + 1 /\ phase' = "done"
          /\ edges' = edges \cup { E(n, END, <<"Stable">>) : n \in trailing }
                \cup { E(n, END, <<"Sched">>) : n \in UNION { Pending(tfr[f]) : f \in Frames } }
                \cup { E(n, END, <<"Stable">>) : n \in UNION { Pending(fr[f]) : f \in Frames } }
                \cup (IF prog = <<>> THEN {E(START, END, <<"Stable">>)} ELSE {})
          /\ UNCHANGED <<prog, pc, mem, fr, tfr, trailing>>
Next == Grow \/ Start \/ Step \/ Finish
Spec == Init /\ [][Next]_vars
\* ---- C22 ----
Pos(n) == n   \* START = 0 < 1..len < END = 1000
Forward == \A e \in edges : Pos(e.from) < Pos(e.to)
Succ(S, Es) == { e.to : e \in {e \in Es : e.from \in S} }
Pred(S, Es) == { e.from : e \in {e \in Es : e.to \in S} }
RECURSIVE FwdReach(_, _, _)
FwdReach(S, Es, k) == IF k = 0 THEN S ELSE LET T == S \cup Succ(S, Es) IN IF T = S THEN S ELSE FwdReach(T, Es, k - 1)
RECURSIVE BwdReach(_, _, _)
BwdReach(S, Es, k) == IF k = 0 THEN S ELSE LET T == S \cup Pred(S, Es) IN IF T = S THEN S ELSE BwdReach(T, Es, k - 1)
AllMatched == \A i \in 1..Len(prog) : prog[i].role = "RF" => prog[i].use \cup prog[i].blk # {}
Connected == (phase = "done" /\ AllMatched) =>
               /\ 1..Len(prog) \subseteq FwdReach({START}, edges, Len(prog) + 2)
               /\ 1..Len(prog) \subseteq BwdReach({END}, edges, Len(prog) + 2)
\* ---- C24 ----
FrConflict(i, j) == \E f \in Frames : \/ (f \in prog[i].use /\ f \in prog[j].use \cup prog[j].blk)
                                      \/ (f \in prog[j].use /\ f \in prog[i].use \cup prog[i].blk)
StableEs == {e \in edges : e.l = <<"Stable">>}
SchedEs  == {e \in edges : e.l = <<"Sched">>}
IsRF(i) == prog[i].role = "RF"
FrameOrdered == phase = "done" => \A i, j \in 1..Len(prog) : (i < j /\ IsRF(i) /\ IsRF(j) /\ FrConflict(i, j)) =>
                  /\ j \in FwdReach({i}, StableEs, Len(prog))
                  /\ (prog[i].timed /\ prog[j].timed) => j \in FwdReach({i}, SchedEs, Len(prog))
FrameEdgesJustified == \A e \in StableEs \cup SchedEs :
     \/ e.from = START \/ e.to = END
     \/ (IsRF(e.from) /\ IsRF(e.to) /\ FrConflict(e.from, e.to))
=============================================================================
