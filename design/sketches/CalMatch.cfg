SPECIFICATION Spec
CONSTANT MaxCals = 2
INVARIANT Refines
INVARIANT PrefixBest
CHECK_DEADLOCK FALSE
