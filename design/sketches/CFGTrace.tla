----------------------------- MODULE CFGTrace -----------------------------
EXTENDS CFG, IOUtils
Rec == ndJsonDeserialize(IOEnv.TRACE)
VARIABLE l
tvars == <<vars, l>>
TInit == /\ l = 1 /\ Init
IsEvent(e) == l <= Len(Rec) /\ Rec[l].ev = e /\ l' = l + 1
\* reset: start a new body (given whole), model goes straight to "run"
TReset == /\ IsEvent("reset")
          /\ body' = Rec[l].body /\ pc' = 1 /\ openLabel' = None /\ openInstrs' = <<>> /\ offset' = 0 /\ blocks' = <<>> /\ phase' = "run"
\* one hook event per loop iteration: logged instruction + post-state scalars
TStep == /\ IsEvent("step") /\ Step
         /\ body[pc] = Rec[l].instr
         /\ offset' = Rec[l].offset /\ Len(blocks') = Rec[l].nblocks
\* final: public result
TDone == /\ IsEvent("done") /\ Flush
         /\ blocks' = Rec[l].blocks
TNext == TReset \/ TStep \/ TDone
TSpec == TInit /\ [][TNext]_tvars
Accepted == LET n == TLCGet("stats").diameter - 1 IN
            IF n = Len(Rec) THEN TRUE ELSE Print(<<"REJECTED_AT", n + 1, Rec[n + 1]>>, FALSE)
=============================================================================
