SPECIFICATION Spec
CONSTANT MaxBody = 3
CONSTANT MaxIter = 5
INVARIANT ExactlyNTimes
INVARIANT NeverNegative
PROPERTY Terminates
CHECK_DEADLOCK FALSE
