------------------------------- MODULE Sched -------------------------------
EXTENDS BlockGraph
\* C25 on the model graph: every RF instruction here is timed or untimed; durations from the summary
\* (we reuse field `r`: duration = 0 if r = {} else 2; second duration class via c: +1)  -- sketch only
Dur(i) == (IF prog[i].r = {} THEN 0 ELSE 2) + (IF prog[i].c = {} THEN 1 ELSE 0)
Timed == { i \in 1..Len(prog) : prog[i].role = "RF" /\ prog[i].timed }
TPred(j) == { e.from : e \in { e \in edges : e.to = j /\ e.l = <<"Sched">> } }
RECURSIVE StartT(_)
StartT(j) == LET ps == TPred(j) \ {START} IN
             IF ps = {} THEN 0 ELSE LET ends == { StartT(i) + Dur(i) : i \in ps } IN CHOOSE m \in ends : \A x \in ends : x <= m
EndT(j) == StartT(j) + Dur(j)
Overlap(i, j) == StartT(i) < EndT(j) /\ StartT(j) < EndT(i)
AllRFTimed == \A i \in 1..Len(prog) : prog[i].role = "RF" => prog[i].timed
FrameExclusive == (phase = "done" /\ AllRFTimed /\ \A i \in 1..Len(prog) : prog[i].role = "RF") =>
     \A i, j \in Timed : (i < j /\ FrConflict(i, j)) => ~Overlap(i, j)
=============================================================================
