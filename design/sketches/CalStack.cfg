SPECIFICATION Spec
CONSTANT MaxDepth = 6
CONSTANT Growth = TRUE
INVARIANT DepthBelowBound
INVARIANT NoDuplicateOnStack
PROPERTY Terminates
CHECK_DEADLOCK FALSE
