----------------------------- MODULE MemGraph -----------------------------
EXTENDS Naturals, Sequences, FiniteSets, TLC
CONSTANTS MaxLen, Regions
\* an instruction = access summary: reads, writes, captures (sets of regions)
Summaries == { [r |-> R, w |-> W, c |-> C] : R \in SUBSET Regions, W \in SUBSET Regions, C \in SUBSET Regions }
\* keep the alphabet realistic: at most 2 regions touched, not both write and capture the same region
Alphabet == { s \in Summaries : Cardinality(s.r \cup s.w \cup s.c) \in 1..2 /\ s.w \cap s.c = {} }
VARIABLES prog, pc, cell, edges, phase
vars == <<prog, pc, cell, edges, phase>>
NoWrite == [t |-> "none"]
Init == prog = <<>> /\ pc = 1 /\ cell = [x \in Regions |-> [write |-> NoWrite, reads |-> {}]] /\ edges = {} /\ phase = "gen"
Grow == phase = "gen" /\ Len(prog) < MaxLen /\ \E s \in Alphabet : prog' = Append(prog, s) /\ UNCHANGED <<pc, cell, edges, phase>>
Start == phase = "gen" /\ phase' = "run" /\ UNCHANGED <<prog, pc, cell, edges>>
\* DependencyQueue::record_access_and_get_dependencies on one cell
Deps(c, kind) == (IF c.write = NoWrite THEN {} ELSE {[n |-> c.write.n, t |-> c.write.t]})
                 \cup (IF kind = "Read" THEN {} ELSE {[n |-> rd, t |-> "Read"] : rd \in c.reads})
After(c, node, kind) == IF kind = "Read" THEN [c EXCEPT !.reads = @ \cup {node}]
                        ELSE [write |-> [t |-> kind, n |-> node], reads |-> {}]
\* one loop iteration: reads first, then writes, then captures (graph.rs:224-245)
RECURSIVE Fold(_, _, _, _)
Fold(cs, node, accs, acc) ==  \* accs: sequence of <<region, kind>>
  IF accs = <<>> THEN [cells |-> cs, deps |-> acc]
  ELSE LET a == Head(accs) IN
       Fold([cs EXCEPT ![a[1]] = After(cs[a[1]], node, a[2])], node, Tail(accs), acc \cup Deps(cs[a[1]], a[2]))
RECURSIVE SetToSeq(_)
SetToSeq(S) == IF S = {} THEN <<>> ELSE LET x == CHOOSE y \in S : TRUE IN <<x>> \o SetToSeq(S \ {x})
AccSeq(s) == SetToSeq({<<x, "Read">> : x \in s.r}) \o SetToSeq({<<x, "Write">> : x \in s.w}) \o SetToSeq({<<x, "Capture">> : x \in s.c})
Step == /\ phase = "run" /\ pc <= Len(prog)
        /\ LET f == Fold(cell, pc, AccSeq(prog[pc]), {}) IN
           /\ cell' = f.cells
           /\ edges' = edges \cup { [from |-> d.n, to |-> pc, t |-> d.t] : d \in {d \in f.deps : d.n # pc} }
        /\ pc' = pc + 1 /\ UNCHANGED <<prog, phase>>
Finish == phase = "run" /\ pc = Len(prog) + 1 /\ phase' = "done" /\ UNCHANGED <<prog, pc, cell, edges>>
Next == Grow \/ Start \/ Step \/ Finish
Spec == Init /\ [][Next]_vars

\* ---- properties (C23) ----
Touches(i, x) == x \in prog[i].r \cup prog[i].w \cup prog[i].c
Writes(i, x)  == x \in prog[i].w \cup prog[i].c
Conflict(i, j) == \E x \in Regions : Touches(i, x) /\ Touches(j, x) /\ (Writes(i, x) \/ Writes(j, x))
Succ(S) == { e.to : e \in {e \in edges : e.from \in S} }
RECURSIVE Reach(_, _)
Reach(S, k) == IF k = 0 THEN S ELSE LET T == S \cup Succ(S) IN IF T = S THEN S ELSE Reach(T, k - 1)
ConflictsOrdered == phase = "done" => \A i, j \in 1..Len(prog) : (i < j /\ Conflict(i, j)) => j \in Reach({i}, Len(prog))
Forward == \A e \in edges : e.from < e.to
TypeOf(i, x) == IF x \in prog[i].c THEN {"Capture"} ELSE IF x \in prog[i].w THEN {"Write"} ELSE {}
EdgesJustified == \A e \in edges : \E x \in Regions :
     /\ Touches(e.from, x) /\ Touches(e.to, x) /\ (Writes(e.from, x) \/ Writes(e.to, x))
     /\ (e.t \in TypeOf(e.from, x) \/ (e.t = "Read" /\ x \in prog[e.from].r))
=============================================================================
