INIT Init
NEXT Next
CONSTANT N = 3
INVARIANT Sanity
INVARIANT Emit
CHECK_DEADLOCK FALSE
