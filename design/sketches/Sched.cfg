SPECIFICATION Spec
CONSTANT MaxLen = 3
CONSTANT Regions = {"a", "b"}
CONSTANT Frames = {"f", "g"}
INVARIANT FrameExclusive
CHECK_DEADLOCK FALSE
