//! Small shared helpers: seeded RNG, parsing helpers, JSON helpers.
#![allow(dead_code)]

use quil_rs::instruction::Instruction;
use quil_rs::quil::Quil;
use quil_rs::Program;
use rand::SeedableRng;
use rand_chacha::ChaCha8Rng;
use serde_json::{json, Value};
use std::str::FromStr;

pub fn rng(seed: u64, stream: u64) -> ChaCha8Rng {
    let mut r = ChaCha8Rng::seed_from_u64(seed);
    r.set_stream(stream);
    r
}

/// Parse one instruction from Quil text (panics on failure: the alphabets are fixed, so a failure is a
/// harness bug or a parser regression, which then surfaces as a `panic` violation on that case).
pub fn instr(text: &str) -> Instruction {
    Instruction::from_str(text).unwrap_or_else(|e| panic!("alphabet instruction does not parse: {text:?}: {e}"))
}

pub fn program(text: &str) -> Program {
    Program::from_str(text).unwrap_or_else(|e| panic!("program does not parse: {text:?}: {e}"))
}

pub fn text_of(i: &Instruction) -> String {
    i.to_quil_or_debug()
}

pub fn opt_json<T: Into<Value>>(o: Option<T>) -> Value {
    match o {
        Some(v) => json!({"some": v.into()}),
        None => json!({"none": true}),
    }
}

pub fn s(v: &Value, k: &str) -> String {
    v.get(k).and_then(|x| x.as_str()).unwrap_or_else(|| panic!("missing string field {k} in {v}")).to_string()
}

pub fn u(v: &Value, k: &str) -> u64 {
    v.get(k).and_then(|x| x.as_u64()).unwrap_or_else(|| panic!("missing integer field {k} in {v}"))
}

pub fn arr<'a>(v: &'a Value, k: &str) -> &'a Vec<Value> {
    v.get(k).and_then(|x| x.as_array()).unwrap_or_else(|| panic!("missing array field {k} in {v}"))
}

/// Write one ndjson line.
pub fn emit(out: &mut dyn std::io::Write, v: &Value) {
    writeln!(out, "{}", serde_json::to_string(v).unwrap()).expect("write trace");
}
