//! Abstraction function between real quil-rs values and the JSON encoding of the specification
//! (spec/Abs.tla; DESIGN.md Appendix B).  Grown module by module.
#![allow(dead_code)]

use quil_rs::instruction::{Qubit, Target};
use serde_json::{json, Value};

pub fn qubit_to_abs(q: &Qubit) -> Value {
    match q {
        Qubit::Fixed(n) => json!({"t": "fixed", "n": n}),
        Qubit::Variable(s) => json!({"t": "var", "s": s}),
        Qubit::Placeholder(p) => json!({"t": "ph", "id": format!("{p:?}")}),
    }
}

pub fn target_name(t: &Target) -> String {
    match t {
        Target::Fixed(s) => s.clone(),
        Target::Placeholder(p) => format!("<placeholder {}>", p.as_inner()),
    }
}
