//! qv — the Rust side of the quil-rs specification binding.
//!
//!   qv replay <mode> --in cases.ndjson --out results.ndjson [--workers N] [--case-timeout S] [--seed S]
//!       spec -> code: execute every TLC-generated case against the real library (in worker processes)
//!   qv drive <mode> --seed S --n N --out trace.ndjson
//!       code -> spec: push the real code through seeded random histories and record events
//!   qv worker <mode>          (internal) child process of `replay`
//!
//! A mode is a property id optionally followed by a suffix (`C23`, `C23.queue`); it is dispatched to
//! `props::cNN`.  The last stdout line is `SUMMARY <json>`.

mod abs;
mod props;
mod runner;
mod util;

use std::collections::HashMap;

pub struct Ctx {
    pub mode: String,
    pub seed: u64,
    pub args: HashMap<String, String>,
}

impl Ctx {
    pub fn arg_u64(&self, k: &str, default: u64) -> u64 {
        self.args.get(k).and_then(|v| v.parse().ok()).unwrap_or(default)
    }
    pub fn arg_str(&self, k: &str) -> Option<&str> {
        self.args.get(k).map(|s| s.as_str())
    }
    pub fn flag(&self, k: &str) -> bool {
        self.args.contains_key(k)
    }
}

fn parse_args(rest: &[String]) -> HashMap<String, String> {
    let mut m = HashMap::new();
    let mut i = 0;
    while i < rest.len() {
        if let Some(k) = rest[i].strip_prefix("--") {
            if i + 1 < rest.len() && !rest[i + 1].starts_with("--") {
                m.insert(k.to_string(), rest[i + 1].clone());
                i += 2;
            } else {
                m.insert(k.to_string(), "true".to_string());
                i += 1;
            }
        } else {
            i += 1;
        }
    }
    m
}

fn main() {
    let argv: Vec<String> = std::env::args().collect();
    if argv.len() < 3 {
        eprintln!("usage: qv replay|drive|worker <mode> [--key value ...]");
        std::process::exit(2);
    }
    let cmd = argv[1].as_str();
    let mode = argv[2].clone();
    let args = parse_args(&argv[3..]);
    let seed = args.get("seed").and_then(|s| s.parse().ok()).unwrap_or(0u64);
    let ctx = Ctx { mode: mode.clone(), seed, args };
    match cmd {
        "worker" => {
            let f = |case: &serde_json::Value| props::replay(&ctx, case);
            runner::worker_loop(&f);
        }
        "replay" => {
            let input = ctx.arg_str("in").expect("--in").to_string();
            let output = ctx.arg_str("out").expect("--out").to_string();
            let workers = ctx.arg_u64("workers", 8) as usize;
            let timeout = ctx.arg_u64("case-timeout", 30);
            // pass mode-specific arguments through to the workers
            let mut extra = vec![];
            for (k, v) in &ctx.args {
                if !["in", "out", "workers", "case-timeout", "seed", "verbose"].contains(&k.as_str()) {
                    extra.push(format!("--{k}"));
                    extra.push(v.clone());
                }
            }
            let sum = runner::replay_pool(&mode, &input, &output, workers, timeout, seed, &extra, ctx.flag("verbose"));
            sum.print();
        }
        "drive" => {
            runner::silence_panics();
            // A panic of the code under test inside a driver is data (a violation of that history), not a
            // tool error: report it, and tell the orchestrator that the recorded trace is incomplete.
            match std::panic::catch_unwind(std::panic::AssertUnwindSafe(|| props::drive(&ctx))) {
                Ok(sum) => sum.print(),
                Err(e) => {
                    let msg = if let Some(s) = e.downcast_ref::<&str>() {
                        s.to_string()
                    } else if let Some(s) = e.downcast_ref::<String>() {
                        s.clone()
                    } else {
                        "panic".to_string()
                    };
                    let mut sum = runner::Summary::default();
                    let mut o = runner::Outcome::ok(true);
                    o.violate(runner::Violation::new("panic", serde_json::json!("no panic"), serde_json::json!(msg))
                        .note("the driver was aborted by a panic while running the real code; its trace is incomplete"));
                    sum.absorb(&serde_json::json!({"driver": mode, "seed": seed}), &o, true);
                    sum.aborted = true;
                    sum.print();
                }
            }
        }
        _ => {
            eprintln!("unknown command {cmd}");
            std::process::exit(2);
        }
    }
}
