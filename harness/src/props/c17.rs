//! C17 — calibration expansion is a complete, faithful substitution.
//!
//! replay: TLC cases {gcals, mcals, src, status, out, decls, per, ...} from spec/mc/MC_CalExpand.tla: the
//!         program is built on the real library, expanded through `Program::expand_calibrations`,
//!         `Program::expand_calibrations_with_source_map` and `Calibrations::expand` per instruction; the
//!         listings must equal the model's declarative expansion, the two entry points must agree, the
//!         result must be a fixpoint of the real matcher and must hold no declaration.
//! drive:  seeded random calibration programs (deeper and wider than the exhaustive bound) with the
//!         CalExpand* hooks installed; events reset/enter/recursive/matched/done/end go to
//!         spec/trace/CalExpandTrace.tla (also used by C18).
//!
//! Shared with C18/C19: `run_program`, `random_program`.

use super::c16::abs;
use crate::runner::{Outcome, Summary, Violation};
use crate::util;
use crate::Ctx;
use quil_rs::instruction::Instruction;
use quil_rs::program::ProgramError;
use quil_rs::Program;
use rand::seq::SliceRandom;
use rand::Rng;
use serde_json::{json, Value};

/// Result category of an expansion entry point.
pub fn category<T>(r: &Result<T, ProgramError>) -> &'static str {
    match r {
        Ok(_) => "done",
        Err(ProgramError::RecursiveCalibration(_)) => "recursive",
        Err(_) => "other-error",
    }
}

pub fn body_abs(p: &Program) -> Vec<Value> {
    p.body_instructions().map(abs::instr_to_abs).collect()
}

pub fn decl_names(p: &Program) -> Vec<String> {
    p.memory_regions.keys().cloned().collect()
}

fn has_match(p: &Program, i: &Instruction) -> bool {
    match i {
        Instruction::Gate(g) => p.calibrations.get_match_for_gate(g).is_some(),
        Instruction::Measurement(m) => p.calibrations.get_match_for_measurement(m).is_some(),
        _ => false,
    }
}

fn names_of(v: &Value) -> Vec<String> {
    v.as_array().map(|a| a.iter().map(|d| d["name"].as_str().unwrap_or("").to_string()).collect()).unwrap_or_default()
}

pub fn replay(_ctx: &Ctx, case: &Value) -> Outcome {
    let case = match case.get("history") {
        Some(h) => h[0].clone(), // a recorded history: its reset event carries the program
        None => case.clone(),
    };
    let program = abs::program_from_abs(&case);
    let src: Vec<Instruction> = program.body_instructions().cloned().collect();
    let mut o = Outcome::ok(src.iter().any(|i| has_match(&program, i)));
    let plain = program.expand_calibrations();
    let mapped = program.expand_calibrations_with_source_map();
    let want_status = case.get("status").and_then(|s| s.as_str());

    // "gives the same program with or without a source map"
    match (&plain, &mapped) {
        (Ok(a), Ok((b, _))) => {
            if a != b {
                o.violate(Violation::new(
                    "expand_calibrations vs expand_calibrations_with_source_map",
                    json!(body_abs(a)),
                    json!(body_abs(b)),
                ));
            }
        }
        (Err(_), Err(_)) => {}
        _ => o.violate(Violation::new(
            "expand_calibrations vs expand_calibrations_with_source_map",
            json!(category(&plain)),
            json!(category(&mapped)),
        )),
    }

    match &plain {
        Ok(p) => {
            let got = body_abs(p);
            // independent of the model: the result is a fixpoint of the real matcher and holds no declaration
            if let Some(i) = p.body_instructions().find(|i| has_match(p, i)) {
                o.violate(
                    Violation::new("fixpoint", json!("no output instruction has a matching calibration"), abs::instr_to_abs(i))
                        .note("expansion must repeat until no body instruction has a match"),
                );
            }
            if p.body_instructions().any(|i| matches!(i, Instruction::Declaration(_))) {
                o.violate(Violation::new("declarations hoisted", json!("no DECLARE in the body"), json!(got)));
            }
            match want_status {
                Some("done") => {
                    if json!(got) != case["out"] {
                        o.violate(
                            Violation::new("expanded body", case["out"].clone(), json!(got))
                                .note("expected: every matching instruction replaced by the calibration body with qubits, parameters (and for MEASURE the qubit and target) substituted, repeatedly; unmatched instructions kept in order"),
                        );
                    }
                    let mut want_decls = names_of(&case["decls"]);
                    let mut got_decls = decl_names(p);
                    want_decls.sort();
                    got_decls.sort();
                    if want_decls != got_decls {
                        o.violate(Violation::new("hoisted declarations", json!(want_decls), json!(got_decls)));
                    }
                }
                Some(other) => o.diverge(format!("model expects {other}, expansion succeeded")),
                None => {}
            }
        }
        Err(e) => match want_status {
            Some("done") => o.violate(
                Violation::new("expanded body", case["out"].clone(), json!(format!("error: {e}")))
                    .note("the model expands this program without re-entering any instruction"),
            ),
            Some("recursive") if category(&plain) != "recursive" => o.diverge(format!("error kind: {e}")),
            _ => {}
        },
    }

    // Calibrations::expand per body instruction
    if let Some(per) = case.get("per").and_then(|p| p.as_array()) {
        for (i, want) in src.iter().zip(per) {
            let got = program.calibrations.expand(i, &[]);
            let got_abs = match &got {
                Ok(None) => json!({"none": true}),
                Ok(Some(v)) => json!({"ok": abs::listing(v)}),
                Err(ProgramError::RecursiveCalibration(_)) => json!({"err": true}),
                Err(e) => json!({"other": e.to_string()}),
            };
            if got_abs != *want {
                if want.get("ok").is_some() || want.get("none").is_some() {
                    o.violate(Violation::new("Calibrations::expand listing", want.clone(), got_abs));
                } else {
                    o.diverge(format!("Calibrations::expand: model {want}, code {got_abs}"));
                }
            }
        }
    }
    o
}

// ------------------------------------------------------------------------------------------- shared driver

fn qf(n: u64) -> Value {
    json!({"t": "fixed", "n": n})
}
fn qv(s: &str) -> Value {
    json!({"t": "var", "s": s})
}
fn ev(v: &str) -> Value {
    json!({"t": "var", "v": v})
}
fn ins(k: &str, name: &str, params: Vec<Value>, qubits: Vec<Value>, mref: Option<(&str, u64)>, data: &str) -> Value {
    json!({"k": k, "name": name, "mods": [], "params": params, "qubits": qubits,
           "mref": match mref { Some((n, i)) => json!({"some": {"name": n, "index": i}}), None => json!({"none": true}) },
           "data": data})
}

const CAL_NAMES: &[&str] = &["A", "B", "C", "D", "E"];

/// a random expression over the calibration's parameter variable (if any)
fn rexpr(r: &mut impl Rng, vars: &[&str], grow: bool) -> Value {
    let var = vars.choose(r).copied();
    let base = match (var, r.gen_range(0..4)) {
        (Some(v), 0..=2) => ev(v),
        (_, 3) => json!({"t": "pi2"}),
        _ => json!({"t": "int", "n": r.gen_range(0..3)}),
    };
    // growing expressions only where the call structure is acyclic (else the expansion need not be finite)
    match r.gen_range(0..6) {
        0 if grow => json!({"t": "plus1", "e": base}),
        1 if grow && base["t"] != "int" => json!({"t": "neg", "e": base}),
        _ => base,
    }
}

/// the head of a gate calibration: (level, name, params, qubits)
type Head = (usize, &'static str, Vec<Value>, Vec<Value>);

/// an invocation of `h` from a context with qubit variables `qs` and parameter variable `var`
fn call_of(r: &mut impl Rng, h: &Head, qs: &[Value], var: &[&str], grow: bool) -> Value {
    let qubits: Vec<Value> = h
        .3
        .iter()
        .map(|q| {
            if q["t"] == "fixed" && r.gen_bool(0.8) {
                q.clone()
            } else if !qs.is_empty() && r.gen_bool(0.7) {
                qs.choose(r).unwrap().clone()
            } else {
                qf(r.gen_range(0..3))
            }
        })
        .collect();
    let params: Vec<Value> = h.2.iter().map(|p| if p["t"] == "var" || r.gen_bool(0.2) { rexpr(r, var, grow) } else { p.clone() }).collect();
    json!({"k": "Gate", "name": h.1, "mods": [], "params": params, "qubits": qubits, "mref": {"none": true}, "data": ""})
}

/// a random body instruction of a gate calibration with qubit variables `qs` and parameter variable `var`;
/// `callees`: heads it may invoke (chosen so that the call graph is acyclic unless cycles are wanted)
fn rbody_instr(r: &mut impl Rng, qs: &[Value], var: &[&str], callees: &[&Head], allow_declare: bool, grow: bool) -> Value {
    let q = |r: &mut dyn rand::RngCore| if qs.is_empty() || r.gen_bool(0.2) { qf(r.gen_range(0..3)) } else { qs.choose(r).unwrap().clone() };
    match r.gen_range(0..20) {
        0..=7 if !callees.is_empty() => {
            let h = *callees.choose(r).unwrap();
            call_of(r, h, qs, var, grow)
        }
        7 | 8 => ins("Measure", "", vec![], vec![q(r)], if r.gen_bool(0.6) { Some(("ro", r.gen_range(0..2))) } else { None }, ""),
        9 => ins("Reset", "", vec![], if r.gen_bool(0.8) { vec![q(r)] } else { vec![] }, None, ""),
        10 => match r.gen_range(0..2) {
            0 => ins("Delay", "", vec![rexpr(r, var, grow)], vec![q(r)], None, ""),
            _ => ins("Fence", "", vec![], vec![q(r), q(r)], None, ""),
        },
        11 => ins("Pulse", "rf", vec![rexpr(r, var, grow)], vec![q(r)], None, ""),
        12 => ins("Capture", "ro", vec![rexpr(r, var, grow)], vec![q(r)], Some(("ro", r.gen_range(0..2))), ""),
        13 => ins("RawCapture", "ro", vec![rexpr(r, var, grow)], vec![q(r)], Some(("raw", 0)), ""),
        14 => {
            let k = *["SetFrequency", "SetPhase", "SetScale", "ShiftFrequency", "ShiftPhase"].choose(r).unwrap();
            ins(k, "rf", vec![rexpr(r, var, grow)], vec![q(r)], None, "")
        }
        15 => ins("SwapPhases", "rf", vec![], vec![q(r), q(r)], None, ""),
        16 if allow_declare => {
            let n = *["a", "b"].choose(r).unwrap();
            ins("Declare", n, vec![], vec![], None, "")
        }
        17 => ins("Move", "", vec![], vec![], Some(("other", r.gen_range(0..2))), ""),
        18 => ins("Pragma", "foo", vec![], vec![], None, ""),
        _ => ins("Nop", "", vec![], vec![], None, ""),
    }
}

/// A random calibration program {gcals, mcals, src}.  `cyclic`: calls may go to any definition (cycles
/// likely) and parameters never grow along calls; otherwise calls only go to definitions of a higher
/// level (acyclic, so that the expansion is finite) and parameters may grow.
pub fn random_program(r: &mut impl Rng, cyclic: bool, allow_declare: bool, max_body: usize) -> Value {
    let ncal = r.gen_range(2..=6);
    let mut heads: Vec<Head> = vec![];
    for k in 0..ncal {
        // several definitions may share a name (precedence matters); level = index into CAL_NAMES
        let level = r.gen_range(0..CAL_NAMES.len());
        // parameter lists of length 0..2, literals and variables in every order
        let lit = |r: &mut dyn rand::RngCore| json!({"t": "int", "n": r.gen_range(0..3)});
        let params = match r.gen_range(0..14) {
            0..=3 => vec![ev(["t", "u"][k % 2])],
            4 | 5 => vec![lit(r)],
            6 | 7 => vec![lit(r), ev("t")],
            8 | 9 => vec![ev("t"), lit(r)],
            10 => vec![ev("t"), ev("u")],
            11 => vec![ev("u"), ev("t")],
            _ => vec![],
        };
        let nq = r.gen_range(1..=2);
        let vars = ["q", "r"];
        let qubits: Vec<Value> = (0..nq).map(|n| if r.gen_bool(0.6) { qv(vars[n]) } else { qf(r.gen_range(0..3)) }).collect();
        heads.push((level, CAL_NAMES[level], params, qubits));
    }
    let mut gcals = vec![];
    for h in &heads {
        let callees: Vec<&Head> = heads.iter().filter(|c| cyclic || c.0 > h.0).collect();
        let var: Vec<&str> = h.2.iter().filter(|p| p["t"] == "var").filter_map(|p| p["v"].as_str()).collect();
        let var = &var[..];
        let qvars: Vec<Value> = h.3.iter().filter(|q| q["t"] == "var").cloned().collect();
        let nb = r.gen_range(1..=max_body);
        let body: Vec<Value> = (0..nb).map(|_| rbody_instr(r, &qvars, var, &callees, allow_declare, !cyclic)).collect();
        gcals.push(json!({"k": "DefCal", "name": h.1, "mods": [], "params": h.2, "qubits": h.3, "body": body}));
    }
    let all: Vec<&Head> = heads.iter().collect();
    let mut mcals = vec![];
    for _ in 0..r.gen_range(0..=2) {
        let qubit = if r.gen_bool(0.6) { qv("q") } else { qf(r.gen_range(0..3)) };
        let target = if r.gen_bool(0.7) { "addr" } else { "" };
        let qvars = if qubit["t"] == "var" { vec![qubit.clone()] } else { vec![] };
        let nb = r.gen_range(1..=max_body);
        let body: Vec<Value> = (0..nb)
            .map(|_| match r.gen_range(0..6) {
                0 if !target.is_empty() => ins("Capture", "ro", vec![json!({"t": "pi2"})], vec![qubit.clone()], Some(("addr", 0)), ""),
                1 if !target.is_empty() => ins("RawCapture", "ro", vec![json!({"t": "int", "n": 1})], vec![qubit.clone()], Some(("addr", 0)), ""),
                2 => ins("Pragma", "LOAD-MEMORY", vec![], vec![], None, if r.gen_bool(0.6) { target } else { "other" }),
                3 => ins("Capture", "ro", vec![json!({"t": "pi2"})], vec![qubit.clone()], Some(("other", 1)), ""),
                _ => {
                    // A MEASURE inside a measurement calibration (recursion through measurements) only in the
                    // cyclic mode, where nothing grows and the expansion therefore ends (with the result or
                    // with the recursive-calibration error).  Its target is ro[..] or none, never the
                    // calibration's target name (the statement does not decide whether a MEASURE into the
                    // target name is a "use" of it).  In the cyclic mode it may also call gate calibrations.
                    let callees: &[&Head] = if cyclic { &all } else { &[] };
                    let mut i = rbody_instr(r, &qvars, &[], callees, allow_declare, false);
                    while !cyclic && i["k"] == "Measure" {
                        i = rbody_instr(r, &qvars, &[], &[], allow_declare, false);
                    }
                    i
                }
            })
            .collect();
        // identical signatures replace each other; that is fine (the set is what the program holds)
        mcals.push(json!({"k": "DefCalMeasure", "name": "", "qubit": qubit, "target": target, "body": body}));
    }
    let ns = r.gen_range(1..=5);
    let src: Vec<Value> = (0..ns)
        .map(|_| {
            let mut i = rbody_instr(r, &[], &[], &all, false, true);
            while i["k"] == "Declare" {
                i = rbody_instr(r, &[], &[], &all, false, true);
            }
            i
        })
        .collect();
    // the program as the real library holds it (redefinitions collapse): re-abstract the definitions
    let p = abs::program_from_abs(&json!({"gcals": gcals, "mcals": mcals, "src": src}));
    let g: Vec<Value> = p.calibrations.iter_calibrations().map(|c| abs::gate_ident_to_abs(&c.identifier, &c.instructions)).collect();
    let m: Vec<Value> = p.calibrations.iter_measure_calibrations().map(|c| abs::meas_ident_to_abs(&c.identifier, &c.instructions)).collect();
    json!({"gcals": g, "mcals": m, "src": abs::listing(&p.body_instructions().cloned().collect::<Vec<_>>())})
}

/// Run one expansion with the hooks installed; returns (events, result category, program, max depth).
pub fn run_hooked(prog: &Value, with_map: bool) -> (Vec<Value>, Result<Program, ProgramError>, usize) {
    use std::cell::RefCell;
    use std::rc::Rc;
    let program = abs::program_from_abs(prog);
    let events: Rc<RefCell<Vec<Value>>> = Rc::new(RefCell::new(vec![]));
    let depth: Rc<RefCell<usize>> = Rc::new(RefCell::new(0));
    let (sink, dsink) = (events.clone(), depth.clone());
    quil_rs::verif::set_sink(Box::new(move |e| {
        use quil_rs::verif::VerifEvent::*;
        match e {
            CalExpandEnter { instruction, depth } => {
                sink.borrow_mut().push(json!({"ev": "enter", "instr": abs::instr_to_abs(instruction), "depth": depth}))
            }
            CalExpandRecursive { instruction, depth } => {
                sink.borrow_mut().push(json!({"ev": "recursive", "instr": abs::instr_to_abs(instruction), "depth": depth}))
            }
            CalExpandMatched { instruction, depth, body_len } => {
                if body_len.is_some() {
                    let mut d = dsink.borrow_mut();
                    *d = (*d).max(depth + 1);
                }
                sink.borrow_mut().push(json!({"ev": "matched", "instr": abs::instr_to_abs(instruction), "depth": depth,
                                              "body_len": body_len.map(|n| n as i64).unwrap_or(-1)}))
            }
            _ => {}
        }
    }));
    let res = if with_map { program.expand_calibrations_with_source_map().map(|(p, _)| p) } else { program.expand_calibrations() };
    quil_rs::verif::clear_sink();
    let evs = events.borrow().clone();
    let d = *depth.borrow();
    (evs, res, d)
}

/// drive shared by C17 and C18: random programs, hook events, final result
pub fn drive_traces(ctx: &Ctx, stream: u64, cyclic_share: f64) -> Summary {
    let n = ctx.arg_u64("n", 100);
    let max_body = ctx.arg_u64("body", 4) as usize;
    let path = ctx.arg_str("out").expect("--out");
    let mut out = std::io::BufWriter::new(std::fs::File::create(path).expect("create trace"));
    let mut rng = util::rng(ctx.seed, stream);
    let mut sum = Summary::default();
    for h in 0..n {
        let cyclic = rng.gen_bool(cyclic_share);
        let prog = random_program(&mut rng, cyclic, true, max_body);
        let with_map = h % 2 == 0;
        let (events, res, depth) = run_hooked(&prog, with_map);
        let mut reset = prog.clone();
        reset["ev"] = json!("reset");
        reset["with_map"] = json!(with_map);
        util::emit(&mut out, &reset);
        for e in &events {
            util::emit(&mut out, e);
        }
        let (status, body, decls) = match &res {
            Ok(p) => ("done", body_abs(p), decl_names(p)),
            Err(_) => (category(&res), vec![], vec![]),
        };
        util::emit(&mut out, &json!({"ev": "done", "status": status, "out": body, "decls": decls, "depth": depth}));
        util::emit(&mut out, &json!({"ev": "end"}));
        let expanded = events.iter().any(|e| e["ev"] == "matched" && e["body_len"].as_i64().unwrap_or(-1) >= 0);
        let nontrivial = if ctx.mode.starts_with("C18") { status == "recursive" || depth >= 2 } else { expanded };
        let mut o = Outcome::ok(nontrivial);
        o.count_n("events", events.len() as u64 + 3);
        o.count_n(&format!("status_{status}"), 1);
        sum.absorb(&prog, &o, true);
    }
    sum
}

pub fn drive(ctx: &Ctx) -> Summary {
    drive_traces(ctx, 17, 0.15)
}
