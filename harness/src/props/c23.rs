//! C23 — memory accesses are sequentially consistent in the dependency graph.
//!
//! Modes: `C23` (blocks: MC_BlockGraph cases / block traces, judged by the C23 predicates of c22.rs) and
//! `C23.queue` (the DependencyQueue driven through the verif hook against MC_DepQueue cases / queue traces).
//! All code is shared with C22 (harness/src/props/c22.rs).
use crate::runner::{Outcome, Summary};
use crate::Ctx;
use serde_json::Value;

pub fn replay(ctx: &Ctx, case: &Value) -> Outcome {
    if ctx.mode.ends_with(".queue") {
        super::c22::replay_queue(ctx, case)
    } else {
        super::c22::replay_block(ctx, case)
    }
}

pub fn drive(ctx: &Ctx) -> Summary {
    if ctx.mode.ends_with(".queue") {
        super::c22::drive_queue(ctx)
    } else {
        super::c22::drive_blocks(ctx)
    }
}
