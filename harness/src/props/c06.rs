//! C06 — names are preserved exactly and consistently by parsing.
//!
//! replay: TLC cases {pos, name, decl, reserved, text, want} from spec/mc/MC_QuilPrintNames.tla: a name in one of
//!         60 name-bearing positions (optionally after `DECLARE name REAL[2]`).  The text is parsed by the real
//!         parser and every name of the parsed program (c02::to_abs) is compared with the names the text was
//!         written with.
//! drive:  identifiers harvested from the repository's fixtures, with seeded case flips, dashes and underscores,
//!         placed in templates; events reset/parsed/printed/done (as C02) + named go to QuilPrintTrace.
//!
//! Verdict (statement): a name of the parsed program that differs from the written one (any byte), in
//! particular a region used under another spelling than it was declared with.  The reserved words pi, i and the
//! expression functions as bare words inside an expression are excepted (case `reserved`).  A text the parser
//! rejects is not a verdict (the statement speaks about names that reach the parsed program): divergence.

use super::c02;
use crate::runner::{Outcome, Summary, Violation};
use crate::util;
use crate::Ctx;
use quil_rs::quil::Quil;
use quil_rs::Program;
use rand::seq::SliceRandom;
use rand::Rng;
use serde_json::{json, Value};
use std::str::FromStr;

/// keys of the encoding whose string values are not names
const NOT_NAMES: &[&str] = &["k", "t", "op", "cmd", "ty", "lex", "f", "word", "r", "i", "mods"];
/// keys holding quoted strings (character arrays): frame names and the like belong to C07
const QUOTED: &[&str] = &["filename", "data", "frame_names"];

/// every name of an abstracted listing, in document order
pub fn names_of(v: &Value, key: &str, out: &mut Vec<String>) {
    match v {
        Value::String(s) => {
            if !NOT_NAMES.contains(&key) {
                out.push(s.clone())
            }
        }
        Value::Array(a) => {
            if QUOTED.contains(&key) || NOT_NAMES.contains(&key) {
                return;
            }
            // a character array (frame name, string attribute) is not a name
            if !a.is_empty() && a.iter().all(|x| x.as_str().map(|s| s.chars().count() == 1).unwrap_or(false)) && (key == "name" || key == "s") {
                return;
            }
            a.iter().for_each(|x| names_of(x, key, out))
        }
        Value::Object(m) => {
            // "s" of a string attribute value {"t":"str","s":[chars]} is handled by the array rule above
            let mut keys: Vec<&String> = m.keys().collect();
            keys.sort();
            for k in keys {
                if QUOTED.contains(&k.as_str()) {
                    continue;
                }
                names_of(&m[k], k, out)
            }
        }
        _ => {}
    }
}

fn all_names(listing: &Value) -> Vec<String> {
    let mut out = vec![];
    names_of(listing, "", &mut out);
    out
}

fn sorted(mut v: Vec<String>) -> Vec<String> {
    v.sort();
    v
}

/// region names used inside expressions of an abstracted listing
fn expr_regions(v: &Value, out: &mut Vec<String>) {
    match v {
        Value::Object(m) => {
            if m.get("t").and_then(|t| t.as_str()) == Some("addr") {
                out.push(m["m"]["name"].as_str().unwrap().to_string());
            }
            m.values().for_each(|x| expr_regions(x, out))
        }
        Value::Array(a) => a.iter().for_each(|x| expr_regions(x, out)),
        _ => {}
    }
}

/// the statement on one parsed text: names that are `name` up to letter case must be `name` exactly
fn case_changed(got: &[String], name: &str) -> Vec<String> {
    got.iter().filter(|g| g.to_lowercase() == name.to_lowercase() && g.as_str() != name).cloned().collect()
}

pub fn replay(ctx: &Ctx, case: &Value) -> Outcome {
    if ctx.mode == "C06.kw" {
        return replay_keyword_case(case);
    }
    if let Some(h) = case.get("history") {
        // a rejected recorded history: re-run its text
        let text = h[0]["src"].as_str().unwrap_or("").to_string();
        let name = h.as_array().unwrap().iter().find(|e| e["ev"] == "named").map(|e| e["name"].as_str().unwrap().to_string()).unwrap_or_default();
        let mut o = Outcome::ok(true);
        if let Ok(p) = Program::from_str(&text) {
            let got = all_names(&Value::Array(c02::program_abs(&p)));
            let changed = case_changed(&got, &name);
            if !changed.is_empty() || !got.iter().any(|g| g == &name) {
                o.violate(Violation::new("names of the parsed program", json!(name), json!(got)).note(text));
            }
        }
        return o;
    }
    let name = case["name"].as_str().unwrap().to_string();
    let pos = case["pos"].as_str().unwrap();
    let text = case["text"].as_str().unwrap();
    let reserved = case["reserved"].as_bool().unwrap();
    let nontrivial = name.chars().any(|c| c.is_ascii_uppercase() || c == '-') || pos.starts_with("expr.");
    let mut o = Outcome::ok(nontrivial);
    o.count(pos);
    let want = c02::strip_q(&case["want"]);
    let p = match Program::from_str(text) {
        Ok(p) => p,
        Err(e) => {
            if reserved {
                o.count("reserved word rejected");
            } else {
                rejected(&mut o, pos, &name, text, case["neutral"].as_str(), &e.to_string());
            }
            return o;
        }
    };
    let got_listing = c02::strip_q(&Value::Array(c02::program_abs(&p)));
    if reserved {
        // excepted by the statement; the model only predicts that the word does not become a region
        let mut regions = vec![];
        expr_regions(&got_listing, &mut regions);
        if pos.starts_with("expr.") && regions.iter().any(|r| r == &name) {
            o.diverge(format!("{pos}: the model treats {name:?} as reserved inside an expression, the parser made it a region"));
        }
        return o;
    }
    let (got, wanted) = (all_names(&got_listing), all_names(&want));
    let changed = case_changed(&got, &name);
    if !changed.is_empty() {
        o.violate(Violation::new("letter case of a name", json!(name), json!(changed)).note(format!("{pos}: {text:?}")));
    } else if sorted(got.clone()) != sorted(wanted.clone()) {
        o.violate(Violation::new("names of the parsed program", json!(wanted), json!(got)).note(format!("{pos}: {text:?}")));
    } else if got_listing != want {
        o.diverge(format!("{pos}: names preserved but the listing differs from the model's: {got_listing} vs {want}"));
    }
    // the program also survives printing with its names (C02 on this text; informational here)
    if let Ok(t1) = p.to_quil() {
        match Program::from_str(&t1) {
            Ok(p1) => {
                let again = all_names(&c02::strip_q(&Value::Array(c02::program_abs(&p1))));
                if sorted(again.clone()) != sorted(got) {
                    o.violate(Violation::new("names after printing and re-parsing", json!(wanted), json!(again)).note(format!("{pos}: {t1:?}")));
                }
            }
            Err(e) => o.diverge(format!("{pos}: printed text {t1:?} does not parse: {e}")),
        }
    }
    o
}

/// A text written with a valid identifier is rejected.  The statement quantifies over "all valid identifiers in
/// every syntactic position that takes a name" and demands that each "reaches the parsed program": if the very same
/// text with a neutral name in that place IS accepted, the rejection is due to the name (the lexer or parser no
/// longer takes this spelling for an identifier) and the identifier did not reach the parsed program -- a violation.
/// If the neutral text is rejected as well, the grammar of the position changed, which is not this property's
/// business: divergence.
fn rejected(o: &mut Outcome, pos: &str, name: &str, text: &str, neutral: Option<&str>, err: &str) {
    match neutral {
        Some(n) if Program::from_str(n).is_ok() => o.violate(
            Violation::new("a valid identifier reaches the parsed program", json!(format!("{name} accepted at {pos}")), json!(err))
                .note(format!("{pos}: {text:?} is rejected while {n:?} is accepted")),
        ),
        _ => o.diverge(format!("{pos}: the parser rejects {text:?}: {err}")),
    }
}

// ------------------------------------------------------------------------------- keyword look-alikes

/// The lexer's keywords, read from its source (lexer/mod.rs: Command, DataType, Modifier; token.rs: KeywordToken).
pub fn harvest_keywords() -> Vec<(String, String)> {
    fn words(camel: &str) -> Vec<String> {
        // heck-style word split: a new word starts at an upper-case letter that follows a lower-case letter or
        // precedes one (acronyms such as GE stay one word)
        let cs: Vec<char> = camel.chars().collect();
        let mut out: Vec<String> = vec![];
        for (i, c) in cs.iter().enumerate() {
            let start = i == 0
                || (c.is_uppercase() && (cs[i - 1].is_lowercase() || cs.get(i + 1).map(|n| n.is_lowercase()).unwrap_or(false)));
            if start {
                out.push(String::new());
            }
            out.last_mut().unwrap().push(*c);
        }
        out
    }
    let mut found = vec![];
    for (file, enums) in [("lexer/mod.rs", vec!["Command", "DataType", "Modifier"]), ("token.rs", vec!["KeywordToken"])] {
        let src = std::fs::read_to_string(format!("/repo/quil-rs/src/parser/{file}")).expect("lexer source");
        let lines: Vec<&str> = src.lines().collect();
        for en in enums {
            let Some(at) = lines.iter().position(|l| l.trim_start().starts_with(&format!("pub enum {en} "))) else { panic!("enum {en} not found") };
            let style = lines[..at].iter().rev().take(6).find_map(|l| l.split("serialize_all = \"").nth(1).map(|r| r.split('"').next().unwrap().to_string()))
                .unwrap_or_else(|| panic!("serialize_all of {en}"));
            let mut explicit: Option<String> = None;
            for l in &lines[at + 1..] {
                let l = l.trim();
                if l.starts_with('}') {
                    break;
                }
                if l.starts_with("#[strum(") {
                    explicit = l.split('"').nth(1).map(|s| s.to_string());
                    continue;
                }
                if l.is_empty() || l.starts_with("//") || l.starts_with('#') {
                    continue;
                }
                let variant: String = l.chars().take_while(|c| c.is_alphanumeric()).collect();
                if variant.is_empty() {
                    continue;
                }
                let kw = explicit.take().unwrap_or_else(|| match style.as_str() {
                    "SCREAMING-KEBAB-CASE" => words(&variant).iter().map(|w| w.to_uppercase()).collect::<Vec<_>>().join("-"),
                    "UPPERCASE" => variant.to_uppercase(),
                    other => panic!("strum style {other}"),
                });
                found.push((en.to_string(), kw));
            }
        }
    }
    found
}

/// Names that are not lexer keywords but that some part of the parser / program / library treats specially,
/// read from the sources: standard gate names (reserved.rs ReservedGate and the matrix tables of instruction/gate.rs),
/// reserved constants (reserved.rs), the words parse_expression_identifier reserves (parser/expression.rs), built-in
/// waveform names (waveform/mod.rs), reserved pragma names (instruction/pragma.rs constants and every literal a
/// pragma name is compared with), and true / false (which mean nothing today).
pub fn harvest_special_values() -> Vec<(String, String)> {
    let read = |f: &str| std::fs::read_to_string(format!("/repo/quil-rs/src/{f}")).unwrap_or_else(|e| panic!("{f}: {e}"));
    let mut found: Vec<(String, String)> = vec![];
    let mut add = |class: &str, w: &str| {
        if !w.is_empty() && !found.iter().any(|(_, x)| x == w) {
            found.push((class.to_string(), w.to_string()));
        }
    };
    // quoted words of a line: "..."
    let quoted = |l: &str| -> Vec<String> { l.split('"').skip(1).step_by(2).map(|s| s.to_string()).collect() };
    let reserved = read("reserved.rs");
    let lines: Vec<&str> = reserved.lines().collect();
    for (en, class, lower) in [("ReservedGate", "standard gate", false), ("ReservedConstant", "constant", true)] {
        let at = lines.iter().position(|l| l.trim_start().starts_with(&format!("pub enum {en} "))).unwrap_or_else(|| panic!("{en}"));
        let mut explicit: Option<String> = None;
        for l in &lines[at + 1..] {
            let l = l.trim();
            if l.starts_with('}') { break; }
            if l.starts_with("#[strum(") { explicit = quoted(l).into_iter().next(); continue; }
            let v: String = l.chars().take_while(|c| c.is_alphanumeric()).collect();
            if v.is_empty() { continue; }
            let w = explicit.take().unwrap_or(if lower { v.to_lowercase() } else { v.to_uppercase() });
            add(class, &w);
        }
    }
    for l in read("instruction/gate.rs").lines() {
        let l = l.trim();
        if l.ends_with(".to_string(),") && l.starts_with('"') {
            for w in quoted(l) { if w.chars().all(|c| c.is_ascii_uppercase() || c.is_ascii_digit()) { add("standard gate", &w); } }
        }
    }
    for l in read("parser/expression.rs").lines() {
        let l = l.trim();
        if l.starts_with('"') && l.contains("\" =>") {
            for w in quoted(l).into_iter().take(1) { add("expression word", &w); }
        }
    }
    for l in read("waveform/mod.rs").lines() {
        let l = l.trim();
        if l.starts_with('"') && l.contains("=> parse_builtin!") {
            for w in quoted(l).into_iter().take(1) { add("built-in waveform", &w); }
        }
    }
    for l in read("instruction/pragma.rs").lines() {
        if l.contains("pub const") && l.contains("&str") { for w in quoted(l) { add("reserved pragma", &w); } }
    }
    for f in ["program/calibration.rs", "program/mod.rs", "parser/command.rs", "instruction/extern_call.rs"] {
        for l in read(f).lines() {
            if l.contains("name ==") || l.contains("name.as_str() ==") {
                for w in quoted(l) { if w.chars().all(|c| c.is_ascii_uppercase() || c == '-' || c == '_') { add("reserved pragma", &w); } }
            }
        }
    }
    add("boolean word", "true");
    add("boolean word", "false");
    found
}

/// spellings that equal a keyword up to letter case
fn look_alikes(kw: &str) -> Vec<String> {
    let lower = kw.to_lowercase();
    let upper = kw.to_uppercase();
    let mut cap: String = lower.clone();
    if let Some(f) = cap.get(0..1) {
        cap = f.to_uppercase() + &lower[1..];
    }
    // mIxEd: alternate the case of the letters
    let mut up = false;
    let mixed: String = lower.chars().map(|c| if c.is_ascii_alphabetic() { up = !up; if up { c } else { c.to_ascii_uppercase() } } else { c }).collect();
    let mut v: Vec<String> = vec![];
    for s in [lower, cap, upper, mixed] {
        if !v.contains(&s) { v.push(s); }
    }
    v
}

/// one name position per template ({N} may occur more than once when the position needs it)
const KW_POSITIONS: &[(&str, &str)] = &[
    ("gate.name", "{N} 0 1"),
    ("gate.name.before-variable-qubit", "{N} q9 0"),
    ("gate.name.after-modifier", "DAGGER {N}(pi) 0"),
    ("gate.name.in-sequence", "DEFGATE S9 a9 AS SEQUENCE:\n    {N} a9"),
    ("gate.name.in-circuit", "DEFCIRCUIT C9 a9:\n    {N} a9\n    CONTROLLED {N} a9 0"),
    ("gate.name.first-in-block", "DEFCAL X 0:\n    {N} 0"),
    ("region.declare+use", "DECLARE {N} BIT[2]\nMOVE {N}[1] 1\nMEASURE 0 {N}"),
    ("region.in-expression", "DECLARE {N} REAL\nRX(2*{N}) 0"),
    ("region.bare-operand", "MOVE ro {N}"),
    ("region.sharing", "DECLARE x9 BIT SHARING {N}"),
    ("region.load-store", "LOAD ro {N} idx\nSTORE {N} idx ro"),
    ("label", "LABEL @{N}\nJUMP @{N}\nJUMP-WHEN @{N} ro"),
    ("variable", "RX(%{N}) 0"),
    ("formal-parameter", "DEFGATE G9(%{N}) AS MATRIX:\n    %{N}, 0\n    0, 1"),
    ("qubit.variable", "X {N}\nMEASURE {N} ro\nFENCE 0 {N}"),
    ("qubit.variable.defcal", "DEFCAL X {N}:\n    DELAY {N} \"rf\" 1.0"),
    ("qubit.variable.defcircuit", "DEFCIRCUIT C9 {N}:\n    X {N}"),
    ("waveform.name", "PULSE 0 \"rf\" {N}"),
    ("waveform.name.ext", "PULSE 0 \"rf\" w9/{N}(a: 1)"),
    ("waveform.key", "PULSE 0 \"rf\" w9({N}: 1)"),
    ("defwaveform.name", "DEFWAVEFORM {N}:\n    1, 2"),
    ("pragma.name", "PRAGMA {N}"),
    ("pragma.name.in-body", "X 0\nPRAGMA {N} a9 \"s\"\nY 0"),
    ("pragma.argument", "PRAGMA p9 {N} 1"),
    ("defgate.name", "DEFGATE {N} AS PERMUTATION:\n    0, 1"),
    ("defcircuit.name", "DEFCIRCUIT {N}:\n    X 0"),
    ("defcal.name", "DEFCAL {N} 0:\n    NOP"),
    ("call.name", "CALL {N} ro"),
    ("call.argument", "CALL f9 {N} {N}[1]"),
    ("measure.name", "MEASURE!{N} 0 ro[0]"),
    ("defcal-measure.target", "DEFCAL MEASURE 0 {N}:\n    NOP"),
    ("defframe.attribute-key", "DEFFRAME 0 \"rf\":\n    {N}: 1.0"),
    ("sequence.qubit", "DEFGATE S9 {N} AS SEQUENCE:\n    H {N}"),
];
const NEUTRAL: &str = "zq9";

/// `qv drive C06.harvest --out FILE`: every (keyword look-alike, position) pair that the parser of the tree it is run
/// on accepts with the name intact.  Run on the unchanged tree, the file is the committed baseline
/// spec/mc/C06_keyword_cases.ndjson: a pair the unchanged parser rejects is not a case.
fn harvest_cases(ctx: &Ctx) -> Summary {
    let path = ctx.arg_str("out").expect("--out");
    let mut out = std::io::BufWriter::new(std::fs::File::create(path).expect("create"));
    let mut sum = Summary::default();
    let keywords = harvest_keywords();
    let mut words: Vec<(String, String, bool)> = keywords.iter().map(|(c, k)| (c.clone(), k.clone(), true)).collect();
    words.extend(harvest_special_values().into_iter().map(|(c, k)| (c, k, false)));
    for (class, kw, is_keyword) in words {
        for name in look_alikes(&kw) {
            if is_keyword && name == kw || keywords.iter().any(|(_, k)| *k == name) {
                continue; // the keyword itself is not an identifier
            }
            for (pos, tpl) in KW_POSITIONS {
                let text = tpl.replace("{N}", &name);
                let written = tpl.matches("{N}").count();
                let mut o = Outcome::ok(true);
                let accepted = Program::from_str(&text).ok().and_then(|p| {
                    let listing = c02::program_abs(&p);
                    let got = all_names(&Value::Array(listing.clone()));
                    let intact = got.iter().filter(|g| g.to_lowercase() == name.to_lowercase()).count() == written
                        && case_changed(&got, &name).is_empty();
                    intact.then(|| (got, listing.iter().map(|i| i["k"].as_str().unwrap().to_string()).collect::<Vec<_>>()))
                });
                if let Some((names, kinds)) = accepted {
                    util::emit(&mut out, &json!({"class": class, "keyword": kw, "name": name, "pos": pos, "written": written,
                                                 "text": text, "neutral": tpl.replace("{N}", NEUTRAL), "names": names, "kinds": kinds}));
                    o.count("valid pair");
                } else {
                    o.count("not a case on this tree");
                    o.skipped = true;
                }
                sum.absorb(&json!({"name": name, "pos": pos}), &o, true);
            }
        }
    }
    sum
}

fn replay_keyword_case(case: &Value) -> Outcome {
    let name = case["name"].as_str().unwrap();
    let pos = case["pos"].as_str().unwrap();
    let text = case["text"].as_str().unwrap();
    let written = case["written"].as_u64().unwrap() as usize;
    let mut o = Outcome::ok(true);
    o.count(case["class"].as_str().unwrap_or("?"));
    match Program::from_str(text) {
        Err(e) => rejected(&mut o, pos, name, text, case["neutral"].as_str(), &e.to_string()),
        Ok(p) => {
            let listing = c02::program_abs(&p);
            let got = all_names(&Value::Array(listing.clone()));
            let same: Vec<String> = got.iter().filter(|g| g.to_lowercase() == name.to_lowercase()).cloned().collect();
            let kinds: Vec<Value> = listing.iter().map(|i| i["k"].clone()).collect();
            if same.len() != written || same.iter().any(|g| g != name) {
                o.violate(Violation::new("names of the parsed program", json!(vec![name; written]), json!(got)).note(format!("{pos}: {text:?}")));
            } else if json!(got) != case["names"] {
                // some other name of the text changed (the baseline holds the names the unchanged tree produced)
                o.violate(Violation::new("names of the parsed program", case["names"].clone(), json!(got)).note(format!("{pos}: {text:?}")));
            } else if Value::Array(kinds.clone()) != case["kinds"] {
                // same names, but the instructions are listed differently (e.g. a PRAGMA routed out of the body)
                o.diverge(format!("{pos}: {text:?} is listed as {kinds:?}, the unchanged tree listed {}", case["kinds"]));
            }
        }
    }
    o
}

// ------------------------------------------------------------------------------------------- drive

/// templates: {N} is the name.  `bare_expr`: the name occurs as a bare word inside an expression.
const TEMPLATES: &[(&str, bool)] = &[
    ("DECLARE {N} REAL[2]\nRX({N}) 0", true),
    ("DECLARE {N} REAL[2]\nRX(2*{N}[1]+{N}) 0", true),
    ("DECLARE {N} BIT\nMEASURE 0 {N}", false),
    ("DECLARE {N} REAL\nSET-PHASE 0 \"rf\" cos({N})/2", true),
    ("DECLARE {N} REAL\nDELAY 0 {N}", true),
    ("DECLARE {N} BIT\nJUMP-WHEN @{N} {N}\nLABEL @{N}", false),
    ("MOVE {N}[1] 1\nADD {N} {N}[1]", false),
    ("{N} 0 1\nDAGGER {N}(pi) q", false),
    ("DEFGATE {N}(%{N}) AS MATRIX:\n    cos(%{N}), 0\n    0, 1\n{N}(1.0) 0", false),
    ("PULSE 0 \"rf\" {N}(duration: 1.0)\nCAPTURE 0 \"ro\" flat({N}: 1.0) {N}", false),
    ("PULSE 0 \"rf\" q0/{N}", false),
    ("RX(%{N}) 0", false),
    ("PRAGMA {N} {N} 1 \"x\"", false),
    ("X {N}\nMEASURE {N} ro\nRESET {N}\nFENCE {N} 0", false),
    ("DEFCAL X {N}:\n    FENCE {N}\n    DELAY {N} \"rf\" 1.0", false),
    ("DEFCAL MEASURE {N} {N}:\n    CAPTURE {N} \"ro\" flat {N}", false),
    ("CALL {N} {N} {N}[1] 2", false),
    ("LOAD ro {N} idx\nSTORE {N} idx ro", false),
    ("DEFCIRCUIT {N}(%{N}) {N}:\n    RX(%{N}) {N}", false),
    ("DEFWAVEFORM {N}(%{N}):\n    %{N}, 1", false),
    ("DECLARE x BIT[8] SHARING {N} OFFSET 1 BIT", false),
    ("MEASURE!{N} 0 ro[0]", false),
];

const KEYWORDS: &[&str] = &[
    "ADD", "AND", "ASHR", "CALL", "CAPTURE", "CONVERT", "DECLARE", "DEFCAL", "DEFCIRCUIT", "DEFFRAME", "DEFGATE", "DEFWAVEFORM", "DELAY", "DIV",
    "EQ", "EXCHANGE", "FENCE", "GE", "GT", "HALT", "INCLUDE", "IOR", "JUMP", "JUMP-UNLESS", "JUMP-WHEN", "LABEL", "LE", "LOAD", "LT", "MEASURE",
    "MOVE", "MUL", "NEG", "NOP", "NOT", "PRAGMA", "PULSE", "RAW-CAPTURE", "RESET", "SET-FREQUENCY", "SET-PHASE", "SET-SCALE", "SHIFT-FREQUENCY",
    "SHIFT-PHASE", "SHL", "SHR", "STORE", "SUB", "SWAP-PHASES", "WAIT", "XOR", "BIT", "OCTET", "REAL", "INTEGER", "CONTROLLED", "DAGGER", "FORKED",
    "AS", "MATRIX", "mut", "NONBLOCKING", "OFFSET", "PAULI-SUM", "PERMUTATION", "SEQUENCE", "SHARING",
];
const EXPR_RESERVED: &[&str] = &["pi", "i", "sin", "cos", "cis", "exp", "sqrt"];

fn is_identifier(s: &str) -> bool {
    let cs: Vec<char> = s.chars().collect();
    !cs.is_empty()
        && (cs[0].is_ascii_alphabetic() || cs[0] == '_')
        && *cs.last().unwrap() != '-'
        && cs.iter().all(|c| c.is_ascii_alphanumeric() || *c == '_' || *c == '-')
        && !s.contains("--")
        && !KEYWORDS.contains(&s)
}

fn harvest() -> Vec<String> {
    let mut words: Vec<String> = vec![];
    for f in ["calibration_cz.quil", "calibration_cz_phase.quil", "calibration_measure.quil", "calibration_rx.quil", "calibration_xy.quil"] {
        if let Ok(t) = std::fs::read_to_string(format!("/repo/quil-rs/tests/programs/{f}")) {
            for w in t.split(|c: char| !(c.is_ascii_alphanumeric() || c == '_' || c == '-')) {
                if is_identifier(w) && !words.iter().any(|x| x == w) {
                    words.push(w.to_string());
                }
            }
        }
    }
    for w in ["theta", "ro", "q0_q1_xy", "sqrtiSWAP", "Pi2", "sine", "In", "X-90", "_tmp", "readout-1"] {
        if !words.iter().any(|x| x == w) {
            words.push(w.to_string());
        }
    }
    words
}

fn mutate_name(r: &mut impl Rng, w: &str) -> String {
    let mut s: String = w.chars().map(|c| if c.is_ascii_alphabetic() && r.gen_bool(0.4) {
        if c.is_ascii_uppercase() { c.to_ascii_lowercase() } else { c.to_ascii_uppercase() } } else { c }).collect();
    match r.gen_range(0..5) {
        0 => s = format!("_{s}"),
        1 => s = format!("{s}-{}", r.gen_range(0..99)),
        2 => s = format!("{s}-B_{}", r.gen_range(0..9)),
        _ => {}
    }
    s
}

pub fn drive(ctx: &Ctx) -> Summary {
    if ctx.mode == "C06.harvest" {
        return harvest_cases(ctx);
    }
    let n = ctx.arg_u64("n", 300);
    let path = ctx.arg_str("out").expect("--out");
    let mut out = std::io::BufWriter::new(std::fs::File::create(path).expect("create trace"));
    let mut rng = util::rng(ctx.seed, 6);
    let mut sum = Summary::default();
    let words = harvest();
    for _ in 0..n {
        let (tpl, bare_expr) = *TEMPLATES.choose(&mut rng).unwrap();
        let name = loop {
            let w = words.choose(&mut rng).unwrap().clone();
            let c = mutate_name(&mut rng, &w);
            // excluded by the statement: reserved words where the name is a bare word of an expression
            // (and a name must not coincide, up to case, with a word the template itself is written with)
            let fixed: Vec<String> = tpl.replace("{N}", " ").split(|ch: char| !(ch.is_ascii_alphanumeric() || ch == '_' || ch == '-'))
                .map(|w| w.to_lowercase()).collect();
            if is_identifier(&c) && !fixed.contains(&c.to_lowercase()) && !(bare_expr && EXPR_RESERVED.contains(&c.to_lowercase().as_str())) {
                break c;
            }
        };
        let src = tpl.replace("{N}", &name);
        let written = tpl.matches("{N}").count();
        let rt = c02::round_trip(&src);
        let Some(p) = rt.parsed.as_ref() else {
            let mut o = Outcome::skip();
            o.diverge(format!("the parser rejects the template text {src:?}"));
            sum.absorb(&json!({"src": src}), &o, true);
            continue;
        };
        let mut o = Outcome::ok(name.chars().any(|c| c.is_ascii_uppercase() || c == '-') || bare_expr);
        util::emit(&mut out, &json!({"ev": "reset", "fam": "text", "src": src}));
        let listing = c02::program_abs(p);
        util::emit(&mut out, &json!({"ev": "parsed", "listing": listing}));
        util::emit(&mut out, &json!({"ev": "printed", "t1": rt.t1.clone().unwrap_or_default()}));
        let got = all_names(&Value::Array(listing));
        // the names of the parsed program that are the written name up to letter case
        let same_folded: Vec<String> = got.iter().filter(|g| g.to_lowercase() == name.to_lowercase()).cloned().collect();
        util::emit(&mut out, &json!({"ev": "named", "name": name, "written": written, "got": same_folded}));
        if same_folded.iter().any(|g| g != &name) || same_folded.len() != written {
            o.violate(Violation::new("names of the parsed program", json!(vec![name.clone(); written]), json!(same_folded)).note(format!("{src:?}")));
        }
        let ok = rt.failure.is_none();
        util::emit(&mut out, &json!({"ev": "done", "reparsed": ok, "equal": ok, "same": ok}));
        if let Some((obs, want, got)) = rt.failure {
            // a C02 matter; reported here as divergence so that C06 only judges names
            o.diverge(format!("round trip of {src:?}: {obs}: {want} vs {got}"));
        }
        o.count_n("events", 5);
        sum.absorb(&json!({"src": src}), &o, true);
    }
    sum
}
