//! C30 — type checking is per-instruction and follows the typing rules.
//!
//! Three relational checks on the real `type_check` (DESIGN.md section 6 C30), none of which needs the full rule
//! table as oracle:
//!   (1) verdict(program) = AND over its instructions of verdict(one-instruction program, same declarations)
//!   (2) a SET-*/SHIFT-* instruction is accepted iff its expression is real-valued (`real_valued`: the rule
//!       as the statement spells it)
//!   (3) the verdict does not change under swapping two instructions, duplicating one, or renaming the
//!       memory regions consistently
//! The remaining arms of the rule table (model: TypeCheck!InstrOk) are compared as MODEL-DIVERGENCE only.
//!
//! replay: TLC cases {base:{decls,body}, via, decls, body, per, ok} from spec/mc/MC_TypeCheck.tla (rule table:
//!         every single instruction; programs: bodies over a reduced alphabet and their TLC-enumerated
//!         transformations).
//! drive:  seeded random programs (more regions, all operators/functions, expressions up to depth 4, up to
//!         10 instructions) recorded as reset / check / variant events for spec/trace/TypeCheckTrace.tla.

use crate::runner::{Outcome, Summary, Violation};
use crate::util::{self, arr, s};
use crate::Ctx;
use num_complex::Complex64;
use quil_rs::expression::{
    Expression, ExpressionFunction, FunctionCallExpression, InfixExpression, InfixOperator, PrefixExpression, PrefixOperator,
};
use quil_rs::instruction::{Instruction, MemoryReference};
use quil_rs::Program;
use quil_rs::program::type_check::type_check;
use rand::seq::SliceRandom;
use rand::Rng;
use serde_json::{json, Value};
use std::collections::BTreeMap;

const SETSHIFT: [&str; 5] = ["SET-FREQUENCY", "SET-PHASE", "SET-SCALE", "SHIFT-FREQUENCY", "SHIFT-PHASE"];
const INFIX: [&str; 5] = ["+", "-", "*", "/", "^"];
const FUNCS: [&str; 5] = ["sin", "cos", "sqrt", "exp", "cis"];

fn mref(m: &Value) -> String {
    format!("{}[{}]", s(m, "name"), util::u(m, "index"))
}

fn operand(o: &Value) -> String {
    match s(o, "t").as_str() {
        "int" | "real" => s(o, "v"),
        "mref" => mref(&o["m"]),
        other => panic!("unknown operand tag {other}"),
    }
}

/// Quil text of an abstract expression.  `salt` only picks the spelling of operators / functions when the
/// model leaves them generic ("+", "sin").
fn expr_text(e: &Value, salt: usize) -> String {
    match s(e, "t").as_str() {
        "num" => {
            let (re, im) = (s(e, "re"), s(e, "im"));
            if im == "0" {
                re
            } else if re == "0" {
                format!("({im}i)")
            } else {
                format!("({re}+({im})i)")
            }
        }
        "pi" => "pi".to_string(),
        "var" => format!("%{}", s(e, "v")),
        "addr" => mref(&e["m"]),
        "neg" => format!("-({})", expr_text(&e["e"], salt + 1)),
        "pos" => format!("+({})", expr_text(&e["e"], salt + 1)),
        "fn" => {
            let f = s(e, "f");
            let f = if f == "sin" { FUNCS[salt % FUNCS.len()].to_string() } else { f };
            format!("{f}({})", expr_text(&e["e"], salt + 1))
        }
        "inf" => {
            let op = s(e, "op");
            let op = if op == "+" { INFIX[salt % INFIX.len()].to_string() } else { op };
            format!("({}){op}({})", expr_text(&e["l"], salt + 1), expr_text(&e["r"], salt + 2))
        }
        other => panic!("unknown expression tag {other}"),
    }
}

fn instr_text(i: &Value, salt: usize) -> String {
    let pick = |ops: &[&str]| ops[salt % ops.len()].to_string();
    match s(i, "k").as_str() {
        "SetShift" => format!(
            "{} 0 \"rf\" {}",
            i.get("kind").and_then(|k| k.as_str()).unwrap_or(SETSHIFT[salt % 5]),
            expr_text(&i["e"], salt)
        ),
        "Arith" => format!("{} {} {}", i.get("op").and_then(|o| o.as_str()).map(|x| x.to_string()).unwrap_or_else(|| pick(&["ADD", "SUB", "MUL", "DIV"])), mref(&i["dst"]), operand(&i["src"])),
        "Move" => format!("MOVE {} {}", mref(&i["dst"]), operand(&i["src"])),
        "Logic" => format!("{} {} {}", i.get("op").and_then(|o| o.as_str()).map(|x| x.to_string()).unwrap_or_else(|| pick(&["AND", "IOR", "XOR"])), mref(&i["dst"]), operand(&i["src"])),
        "Unary" => format!("{} {}", s(i, "op"), mref(&i["operand"])),
        "Compare" => format!("{} {} {} {}", i.get("op").and_then(|o| o.as_str()).map(|x| x.to_string()).unwrap_or_else(|| pick(&["EQ", "GT", "GE", "LT", "LE"])), mref(&i["dst"]), mref(&i["lhs"]), operand(&i["rhs"])),
        "Exchange" => format!("EXCHANGE {} {}", mref(&i["left"]), mref(&i["right"])),
        "Load" => format!("LOAD {} {} {}", mref(&i["dst"]), s(i, "source"), mref(&i["offset"])),
        "Store" => format!("STORE {} {} {}", s(i, "destination"), mref(&i["offset"]), operand(&i["src"])),
        "Convert" => format!("CONVERT {} {}", mref(&i["dst"]), mref(&i["src"])),
        "Other" => s(i, "text"),
        other => panic!("unknown instruction kind {other}"),
    }
}

fn program_text(decls: &[Value], body: &[Value], salt: usize) -> String {
    let mut t = String::new();
    for d in decls {
        t.push_str(&format!("DECLARE {} {}[2]\n", s(d, "name"), s(d, "ty")));
    }
    for (pos, i) in body.iter().enumerate() {
        t.push_str(&instr_text(i, salt + pos));
        t.push('\n');
    }
    t
}

/// abstract expression -> Expression through the public constructors, never through text: the parser
/// cannot produce every value (a literal with a negative imaginary part, say), the API can.  Operators and
/// functions the model leaves generic ("+", "sin") are varied with `salt` exactly as in `expr_text`.
fn build_expr(e: &Value, salt: usize) -> Expression {
    match s(e, "t").as_str() {
        "num" => Expression::Number(Complex64::new(s(e, "re").parse().expect("re"), s(e, "im").parse().expect("im"))),
        "pi" => Expression::PiConstant(),
        "var" => Expression::Variable(s(e, "v")),
        "addr" => Expression::Address(MemoryReference::new(s(&e["m"], "name"), util::u(&e["m"], "index"))),
        "neg" => Expression::Prefix(PrefixExpression::new(PrefixOperator::Minus, build_expr(&e["e"], salt + 1).into())),
        "pos" => Expression::Prefix(PrefixExpression::new(PrefixOperator::Plus, build_expr(&e["e"], salt + 1).into())),
        "fn" => {
            let f = s(e, "f");
            let f = if f == "sin" { FUNCS[salt % FUNCS.len()].to_string() } else { f };
            let f = match f.as_str() {
                "sin" => ExpressionFunction::Sine,
                "cos" => ExpressionFunction::Cosine,
                "sqrt" => ExpressionFunction::SquareRoot,
                "exp" => ExpressionFunction::Exponent,
                "cis" => ExpressionFunction::Cis,
                other => panic!("unknown function {other}"),
            };
            Expression::FunctionCall(FunctionCallExpression::new(f, build_expr(&e["e"], salt + 1).into()))
        }
        "inf" => {
            let op = s(e, "op");
            let op = if op == "+" { INFIX[salt % INFIX.len()].to_string() } else { op };
            let op = match op.as_str() {
                "+" => InfixOperator::Plus,
                "-" => InfixOperator::Minus,
                "*" => InfixOperator::Star,
                "/" => InfixOperator::Slash,
                "^" => InfixOperator::Caret,
                other => panic!("unknown operator {other}"),
            };
            Expression::Infix(InfixExpression::new(build_expr(&e["l"], salt + 1).into(), op, build_expr(&e["r"], salt + 2).into()))
        }
        other => panic!("unknown expression tag {other}"),
    }
}

/// The program under test: declarations and classical instructions are parsed from text; every SET-*/SHIFT-*
/// instruction is a parsed template whose expression field is overwritten with the API-built expression.
fn build_program(decls: &[Value], body: &[Value], salt: usize) -> Program {
    let mut p = util::program(&program_text(decls, &[], salt));
    for (pos, i) in body.iter().enumerate() {
        let salt = salt + pos;
        let ins = if is_setshift(i) {
            let kind = i.get("kind").and_then(|k| k.as_str()).unwrap_or(SETSHIFT[salt % 5]);
            let mut ins = util::instr(&format!("{kind} 0 \"rf\" 1.0"));
            let e = build_expr(&i["e"], salt);
            match &mut ins {
                Instruction::SetFrequency(x) => x.frequency = e,
                Instruction::SetPhase(x) => x.phase = e,
                Instruction::SetScale(x) => x.scale = e,
                Instruction::ShiftFrequency(x) => x.frequency = e,
                Instruction::ShiftPhase(x) => x.phase = e,
                other => panic!("template of {kind} parsed as {other:?}"),
            }
            ins
        } else {
            util::instr(&instr_text(i, salt))
        };
        p.add_instruction(ins);
    }
    p
}

/// the real verdict
fn accepts(decls: &[Value], body: &[Value], salt: usize) -> bool {
    let p = build_program(decls, body, salt);
    if p.body_instructions().count() != body.len() {
        panic!("harness: body has {} instructions, parsed {}", body.len(), p.body_instructions().count());
    }
    type_check(&p).is_ok()
}

/// The statement's rule: declared REAL memory, real numbers or pi, combined by operators and functions,
/// no variables, at any depth.
pub fn real_valued(decls: &[Value], e: &Value) -> bool {
    match s(e, "t").as_str() {
        "addr" => decls.iter().any(|d| d["name"] == e["m"]["name"] && d["ty"] == "REAL"),
        "num" => s(e, "im") == "0",
        "pi" => true,
        "var" => false,
        "neg" | "pos" | "fn" => real_valued(decls, &e["e"]),
        "inf" => real_valued(decls, &e["l"]) && real_valued(decls, &e["r"]),
        other => panic!("unknown expression tag {other}"),
    }
}

fn is_setshift(i: &Value) -> bool {
    i["k"] == "SetShift"
}

fn depth(e: &Value) -> usize {
    match e["t"].as_str().unwrap_or("") {
        "neg" | "pos" | "fn" => 1 + depth(&e["e"]),
        "inf" => 1 + depth(&e["l"]).max(depth(&e["r"])),
        _ => 0,
    }
}

fn nontrivial(body: &[Value]) -> bool {
    body.len() >= 2 || body.iter().any(|i| i.get("e").map(|e| depth(e) >= 1).unwrap_or(false))
}

struct Real {
    ok: bool,
    per: Vec<bool>,
}

fn run_real(decls: &[Value], body: &[Value], salt: usize) -> Real {
    Real {
        ok: accepts(decls, body, salt),
        per: body.iter().enumerate().map(|(pos, i)| accepts(decls, std::slice::from_ref(i), salt + pos)).collect(),
    }
}

/// checks (1) and (2) on one program; returns false if a violation was recorded
fn check_12(o: &mut Outcome, decls: &[Value], body: &[Value], real: &Real, what: &str) -> bool {
    let mut fine = true;
    if real.ok != real.per.iter().all(|x| *x) {
        o.violate(
            Violation::new("per-instruction decomposition", json!({"and_of_singletons": real.per.iter().all(|x| *x)}), json!({"program": real.ok, "singletons": real.per}))
                .note(format!("{what}: {}", program_text(decls, body, 0))),
        );
        fine = false;
    }
    for (m, i) in body.iter().enumerate() {
        if is_setshift(i) {
            let want = real_valued(decls, &i["e"]);
            if real.per[m] != want {
                o.violate(
                    Violation::new("SET/SHIFT real-valuedness", json!(want), json!(real.per[m]))
                        .note(format!("{what}: {}", program_text(decls, std::slice::from_ref(i), m))),
                );
                fine = false;
            }
        }
    }
    fine
}

pub fn replay(_ctx: &Ctx, case: &Value) -> Outcome {
    if let Some(h) = case.get("history") {
        return replay_history(h.as_array().expect("history"));
    }
    let decls = arr(case, "decls");
    let body = arr(case, "body");
    let via = s(case, "via");
    let mut o = Outcome::ok(nontrivial(body));
    // a one-instruction SET/SHIFT case is run under all five instruction kinds, everything else under two salts
    let salts: Vec<usize> = if body.len() == 1 && is_setshift(&body[0]) { (0..5).collect() } else { vec![0, 3] };
    for salt in salts {
        let real = run_real(decls, body, salt);
        o.sub_evaluations += 1;
        let mut fine = check_12(&mut o, decls, body, &real, &format!("salt {salt}"));
        if via != "none" {
            let base = &case["base"];
            let base_ok = accepts(arr(base, "decls"), arr(base, "body"), salt);
            if base_ok != real.ok {
                o.violate(
                    Violation::new(&format!("invariance under {via}"), json!(base_ok), json!(real.ok)).note(format!(
                        "salt {salt}: base\n{}variant\n{}",
                        program_text(arr(base, "decls"), arr(base, "body"), salt),
                        program_text(decls, body, salt)
                    )),
                );
                fine = false;
            }
        }
        if fine {
            // the rule table itself: divergence only
            let per: Vec<bool> = arr(case, "per").iter().map(|x| x.as_bool().unwrap()).collect();
            for (m, i) in body.iter().enumerate() {
                if per[m] != real.per[m] {
                    o.diverge(format!("rule table: model {} / code {} for {}", per[m], real.per[m], instr_text(i, salt + m)));
                }
            }
            if case["ok"].as_bool() != Some(real.ok) && per == real.per {
                o.diverge(format!("program verdict: model {} / code {}", case["ok"], real.ok));
            }
        }
    }
    o
}

// ------------------------------------------------------------------------------------- transformations

fn swap_at(body: &[Value], i: usize, j: usize) -> Vec<Value> {
    let mut b = body.to_vec();
    b.swap(i, j);
    b
}
fn dup_at(body: &[Value], i: usize) -> Vec<Value> {
    let mut b = body.to_vec();
    b.insert(i + 1, body[i].clone());
    b
}
fn ren(map: &BTreeMap<String, String>, name: &str) -> String {
    map.get(name).cloned().unwrap_or_else(|| name.to_string())
}
/// rename every region name in a JSON value: fields "name" of memory references and the bare names of LOAD/STORE
fn rename_value(map: &BTreeMap<String, String>, v: &Value) -> Value {
    match v {
        Value::Object(o) => {
            let mut out = serde_json::Map::new();
            for (k, x) in o {
                let is_name = (k == "name" && o.contains_key("index")) || k == "source" || k == "destination" || (k == "name" && o.contains_key("ty"));
                if is_name {
                    out.insert(k.clone(), json!(ren(map, x.as_str().unwrap())));
                } else {
                    out.insert(k.clone(), rename_value(map, x));
                }
            }
            Value::Object(out)
        }
        Value::Array(a) => Value::Array(a.iter().map(|x| rename_value(map, x)).collect()),
        other => other.clone(),
    }
}

fn replay_history(h: &[Value]) -> Outcome {
    // re-run a recorded history: checks (1), (2) on the base program, (3) on its recorded variants
    let decls = arr(&h[0], "decls").clone();
    let body = arr(&h[0], "body").clone();
    let mut o = Outcome::ok(nontrivial(&body));
    let real = run_real(&decls, &body, 0);
    check_12(&mut o, &decls, &body, &real, "recorded program");
    for ev in h.iter().filter(|e| e["ev"] == "variant") {
        let (vd, vb) = variant_of(&decls, &body, ev);
        let ok = accepts(&vd, &vb, 0);
        if ok != real.ok {
            o.violate(Violation::new(&format!("invariance under {}", s(ev, "via")), json!(real.ok), json!(ok)).note(program_text(&vd, &vb, 0)));
        }
    }
    o
}

fn variant_of(decls: &[Value], body: &[Value], ev: &Value) -> (Vec<Value>, Vec<Value>) {
    match s(ev, "via").as_str() {
        "swap" => (decls.to_vec(), swap_at(body, util::u(ev, "i") as usize - 1, util::u(ev, "j") as usize - 1)),
        "dup" => (decls.to_vec(), dup_at(body, util::u(ev, "i") as usize - 1)),
        "rename" => {
            let map: BTreeMap<String, String> = arr(ev, "pairs").iter().map(|p| (s(p, "from"), s(p, "to"))).collect();
            (
                decls.iter().map(|d| rename_value(&map, d)).collect(),
                body.iter().map(|i| rename_value(&map, i)).collect(),
            )
        }
        other => panic!("unknown transformation {other}"),
    }
}

// ------------------------------------------------------------------------------------------- drive

const NAMES: [&str; 7] = ["r", "n", "b", "o", "theta", "count", "x_1"];
const TYPES: [&str; 4] = ["REAL", "INTEGER", "BIT", "OCTET"];

fn pk<'a>(r: &mut (impl Rng + ?Sized), xs: &[&'a str]) -> &'a str {
    xs[r.gen_range(0..xs.len())]
}

fn random_expr(r: &mut impl Rng, names: &[&str], d: usize) -> Value {
    let leaf = d == 0 || r.gen_bool(0.3);
    if leaf {
        match r.gen_range(0..10) {
            0..=3 => json!({"t": "addr", "m": {"name": names.choose(r).unwrap(), "index": r.gen_range(0..2)}}),
            4..=5 => json!({"t": "num", "re": pk(r, &["1.5", "2", "0.25"]), "im": "0"}),
            6 => json!({"t": "num", "re": pk(r, &["0", "1.0"]), "im": pk(r, &["2.0", "-2.0", "0.001", "-0.001"])}),
            7..=8 => json!({"t": "pi"}),
            _ => json!({"t": "var", "v": "x"}),
        }
    } else {
        match r.gen_range(0..10) {
            0..=1 => json!({"t": "neg", "e": random_expr(r, names, d - 1)}),
            2..=4 => json!({"t": "fn", "f": FUNCS.choose(r).unwrap(), "e": random_expr(r, names, d - 1)}),
            _ => json!({"t": "inf", "op": INFIX.choose(r).unwrap(), "l": random_expr(r, names, d - 1), "r": random_expr(r, names, d - 1)}),
        }
    }
}

fn random_instr(r: &mut impl Rng, names: &[&str]) -> Value {
    let m = |r: &mut dyn rand::RngCore| json!({"name": names.choose(r).unwrap(), "index": r.gen_range(0..2)});
    let op = |r: &mut dyn rand::RngCore, real_ok: bool| match r.gen_range(0..4) {
        0 => json!({"t": "int", "v": pk(r, &["1", "0", "7"])}),
        1 if real_ok => json!({"t": "real", "v": pk(r, &["2.5", "0.5"])}),
        _ => json!({"t": "mref", "m": {"name": names.choose(r).unwrap(), "index": r.gen_range(0..2)}}),
    };
    match r.gen_range(0..100) {
        0..=29 => json!({"k": "SetShift", "kind": SETSHIFT.choose(r).unwrap(), "e": random_expr(r, names, 4)}),
        30..=39 => json!({"k": "Arith", "op": pk(r, &["ADD", "SUB", "MUL", "DIV"]), "dst": m(r), "src": op(r, true)}),
        40..=49 => json!({"k": "Move", "dst": m(r), "src": op(r, true)}),
        50..=57 => json!({"k": "Logic", "op": pk(r, &["AND", "IOR", "XOR"]), "dst": m(r), "src": op(r, false)}),
        58..=63 => json!({"k": "Unary", "op": pk(r, &["NOT", "NEG"]), "operand": m(r)}),
        64..=72 => json!({"k": "Compare", "op": pk(r, &["EQ", "GT", "GE", "LT", "LE"]), "dst": m(r), "lhs": m(r), "rhs": op(r, true)}),
        73..=78 => json!({"k": "Exchange", "left": m(r), "right": m(r)}),
        79..=84 => json!({"k": "Load", "dst": m(r), "source": names.choose(r).unwrap(), "offset": m(r)}),
        85..=90 => json!({"k": "Store", "destination": names.choose(r).unwrap(), "offset": m(r), "src": op(r, true)}),
        91..=94 => json!({"k": "Convert", "dst": m(r), "src": m(r)}),
        _ => json!({"k": "Other", "text": pk(r, &["X 0", "NOP", "MEASURE 0 b[0]", "RX(theta[0]) 0", "PRAGMA foo"])}),
    }
}

pub fn drive(ctx: &Ctx) -> Summary {
    let n = ctx.arg_u64("n", 100);
    let max_len = ctx.arg_u64("len", 10) as usize;
    let path = ctx.arg_str("out").expect("--out");
    let mut out = std::io::BufWriter::new(std::fs::File::create(path).expect("create trace"));
    let mut rng = util::rng(ctx.seed, 30);
    let mut sum = Summary::default();
    let mut seen = std::collections::HashSet::new();
    for h in 0..n {
        // half of the programs are biased towards well-typed instructions so that accepted programs occur
        let ndecl = rng.gen_range(2..=NAMES.len());
        let declared: Vec<&str> = NAMES[..ndecl].to_vec();
        let decls: Vec<Value> = declared
            .iter()
            .enumerate()
            .map(|(k, name)| json!({"name": name, "ty": if k < 4 && rng.gen_bool(0.7) { TYPES[k] } else { TYPES.choose(&mut rng).unwrap() }}))
            .collect();
        let usable: Vec<&str> = if rng.gen_bool(0.6) { declared.clone() } else { NAMES.to_vec() };
        let len = if h < 3 { h as usize } else { rng.gen_range(1..=max_len) };
        let favour_ok = rng.gen_bool(0.5);
        let mut body: Vec<Value> = vec![];
        while body.len() < len {
            let i = random_instr(&mut rng, &usable);
            if favour_ok && !accepts(&decls, std::slice::from_ref(&i), 0) && rng.gen_bool(0.85) {
                continue;
            }
            body.push(i);
        }
        let real = run_real(&decls, &body, 0);
        util::emit(&mut out, &json!({"ev": "reset", "decls": decls, "body": body}));
        util::emit(&mut out, &json!({"ev": "check", "ok": real.ok, "per": real.per}));
        let mut o = Outcome::ok(nontrivial(&body));
        o.count_n("events", 2);
        // transformations: (3)
        let mut variants: Vec<Value> = vec![];
        if body.len() >= 2 {
            let i = rng.gen_range(0..body.len() - 1);
            let j = rng.gen_range(i + 1..body.len());
            variants.push(json!({"ev": "variant", "via": "swap", "i": i + 1, "j": j + 1}));
        }
        if !body.is_empty() {
            variants.push(json!({"ev": "variant", "via": "dup", "i": rng.gen_range(0..body.len()) + 1}));
            // a random permutation of all names that occur (declared or not), plus one fresh name
            let mut from: Vec<&str> = NAMES.to_vec();
            from.push("fresh");
            let mut to = from.clone();
            to.shuffle(&mut rng);
            let pairs: Vec<Value> = from.iter().zip(&to).filter(|(a, b)| a != b).map(|(a, b)| json!({"from": a, "to": b})).collect();
            variants.push(json!({"ev": "variant", "via": "rename", "pairs": pairs}));
        }
        for mut ev in variants {
            let (vd, vb) = variant_of(&decls, &body, &ev);
            ev["ok"] = json!(accepts(&vd, &vb, 0));
            util::emit(&mut out, &ev);
            o.count("events");
        }
        if real.ok {
            o.count("accepted_programs");
        }
        let case = json!({"decls": decls, "body": body});
        let distinct = seen.insert(case.to_string());
        sum.absorb(&case, &o, distinct);
    }
    sum
}
