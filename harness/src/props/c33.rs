//! C33 — wrapping a program in a loop repeats its body exactly n times.
//!
//! Main direction code -> spec: `drive` calls the real `Program::wrap_in_loop` on seeded random programs
//! (bodies over gates, pragmas, pulses, measurements and classical instructions that do not touch the
//! counter; random definitions; n in 0..=max), *exports the returned body as abstract instructions*
//! (`export`) and writes one `reset` record per wrapped program.  spec/trace/LoopExecTrace.tla makes every
//! record an initial state of the LoopExec interpreter: TLC executes the exported listing and checks
//! <>halted, ExactlyNTimes, InOrderSoFar, StepBound, NotStuck, SmallNShape and DefsKept on it.
//!
//! spec -> code (`replay`): TLC cases {body:[symbols], n, cell, wrapped} from spec/mc/MC_LoopExec.tla (the
//! model's ideal Wrap) are compared with the exported real result for two concrete palettes of the
//! symbols.  A difference is a violation only if the property itself fails on the real result (judged by
//! `property_failures`: a small interpreter + definition check in Rust), otherwise a divergence.
//!
//! Counter references with index 0, 1 and 2 are part of the model's and the driver's cases: this guards fix
//! f30d5a1 (before it the SUB always addressed <counter>[0] and the region was declared with length 1, so
//! with an index other than 0 the loop never ended; known_findings.d/C33.json, status fixed).

use crate::abs::target_name;
use crate::runner::{Outcome, Summary, Violation};
use crate::util::{self, arr, instr, s};
use crate::Ctx;
use quil_rs::instruction::{
    ArithmeticOperand, Declaration, Instruction, MemoryReference, ScalarType, Target, TargetPlaceholder, Vector,
};
use quil_rs::quil::Quil;
use quil_rs::Program;
use rand::seq::SliceRandom;
use rand::Rng;
use serde_json::{json, Value};

/// abstraction of one instruction of a (wrapped) body; `ctr` is the name of the counter region
pub fn export(i: &Instruction, ctr: &str) -> Value {
    let text = i.to_quil_or_debug();
    let small = |v: i64| v.abs() < (1 << 30);
    match i {
        Instruction::Label(l) => json!({"k": "Label", "target": target_name(&l.target)}),
        Instruction::Jump(j) => json!({"k": "Jump", "target": target_name(&j.target)}),
        Instruction::JumpWhen(j) if j.condition.name == ctr => {
            json!({"k": "JumpWhen", "target": target_name(&j.target), "cell": j.condition.index})
        }
        Instruction::JumpUnless(j) if j.condition.name == ctr => {
            json!({"k": "JumpUnless", "target": target_name(&j.target), "cell": j.condition.index})
        }
        Instruction::JumpWhen(_) | Instruction::JumpUnless(_) => json!({"k": "Unknown", "text": text}),
        Instruction::Halt() => json!({"k": "Halt"}),
        Instruction::Move(m) if m.destination.name == ctr => match &m.source {
            ArithmeticOperand::LiteralInteger(v) if small(*v) => {
                json!({"k": "Move", "cell": m.destination.index, "v": v})
            }
            _ => json!({"k": "Unknown", "text": text}),
        },
        Instruction::Arithmetic(a) if a.destination.name == ctr => match &a.source {
            ArithmeticOperand::LiteralInteger(v) if small(*v) => {
                json!({"k": "Arith", "op": a.operator.to_quil_or_debug(), "cell": a.destination.index, "v": v})
            }
            _ => json!({"k": "Unknown", "text": text}),
        },
        _ if text.contains(ctr) => json!({"k": "Unknown", "text": text}),
        _ => json!({"k": "Op", "text": text}),
    }
}

fn key_of(i: &Instruction) -> String {
    match i {
        Instruction::Declaration(d) => format!("DECLARE {}", d.name),
        other => other.to_quil_or_debug(),
    }
}

/// the definitions of a program in listing order: everything `to_instructions` lists before the body
pub fn defs_of(p: &Program) -> Vec<Value> {
    let all = p.to_instructions();
    let nbody = p.body_instructions().count();
    all[..all.len() - nbody].iter().map(def_json).collect()
}

/// section of the listing a definition belongs to (LoopExec!WrapDefs)
fn section_of(i: &Instruction) -> u64 {
    match i {
        Instruction::Pragma(_) => 0,
        Instruction::Declaration(_) => 1,
        Instruction::FrameDefinition(_) => 2,
        Instruction::WaveformDefinition(_) => 3,
        Instruction::CalibrationDefinition(_) | Instruction::MeasureCalibrationDefinition(_) => 4,
        Instruction::GateDefinition(_) => 5,
        Instruction::CircuitDefinition(_) => 6,
        _ => 7,
    }
}

fn def_json(i: &Instruction) -> Value {
    json!({"key": key_of(i), "text": i.to_quil_or_debug(), "sec": section_of(i)})
}

/// the declaration wrap_in_loop is expected to add: an INTEGER region long enough to hold cell `cell`
fn counter_decl(ctr: &str, cell: u64) -> Value {
    let d = Instruction::Declaration(Declaration {
        name: ctr.to_string(),
        size: Vector { data_type: ScalarType::Integer, length: cell + 1 },
        sharing: None,
    });
    def_json(&d)
}

/// Rust twin of the LoopExec interpreter, used only to classify a difference from the model.
/// Ok(executed texts) when the listing halts, Err(reason) otherwise.
fn interpret(prog: &[Value], n: u64) -> Result<Vec<String>, String> {
    let mut mem: std::collections::HashMap<u64, i64> = Default::default();
    let mut executed = vec![];
    let mut pc = 0usize;
    let bound = (n + 1) * (prog.len() as u64 + 1);
    let mut steps = 0u64;
    let label_pos = |t: &str| -> Result<usize, String> {
        let ps: Vec<usize> = (0..prog.len()).filter(|&p| prog[p]["k"] == "Label" && prog[p]["target"] == t).collect();
        if ps.len() == 1 {
            Ok(ps[0])
        } else {
            Err(format!("jump target {t} names {} labels", ps.len()))
        }
    };
    loop {
        if pc == prog.len() {
            return Ok(executed);
        }
        if steps >= bound {
            return Err(format!("still running after {steps} steps"));
        }
        steps += 1;
        let i = &prog[pc];
        let cell = i.get("cell").and_then(|c| c.as_u64()).unwrap_or(0);
        match i["k"].as_str().unwrap_or("") {
            "Op" => {
                executed.push(s(i, "text"));
                pc += 1
            }
            "Move" => {
                mem.insert(cell, i["v"].as_i64().unwrap());
                pc += 1
            }
            "Arith" => {
                let v = i["v"].as_i64().unwrap();
                let c = mem.entry(cell).or_insert(0);
                match i["op"].as_str().unwrap() {
                    "ADD" => *c += v,
                    "SUB" => *c -= v,
                    "MUL" => *c *= v,
                    other => return Err(format!("no rule for {other} on the counter")),
                }
                pc += 1
            }
            "Label" => pc += 1,
            "Jump" => pc = label_pos(&s(i, "target"))?,
            "JumpWhen" => pc = if *mem.get(&cell).unwrap_or(&0) != 0 { label_pos(&s(i, "target"))? } else { pc + 1 },
            "JumpUnless" => pc = if *mem.get(&cell).unwrap_or(&0) == 0 { label_pos(&s(i, "target"))? } else { pc + 1 },
            "Halt" => return Ok(executed),
            _ => return Err(format!("no rule for {i}")),
        }
    }
}

struct Wrapped {
    n: u64,
    cell: u64,
    ctr: String,
    label: String,
    body: Vec<Value>,
    defs: Vec<Value>,
    wrapped: Vec<Value>,
    wdefs: Vec<Value>,
    unchanged: bool,
}

fn wrap(p: &Program, ctr: &str, cell: u64, label: Target, n: u64) -> Wrapped {
    let label_name = target_name(&label);
    let w = p.wrap_in_loop(MemoryReference { name: ctr.to_string(), index: cell }, label, n as u32);
    Wrapped {
        n,
        cell,
        ctr: ctr.to_string(),
        label: label_name,
        body: p.body_instructions().map(|i| export(i, ctr)).collect(),
        defs: defs_of(p),
        wrapped: w.body_instructions().map(|i| export(i, ctr)).collect(),
        wdefs: defs_of(&w),
        unchanged: w == *p && w.to_instructions() == p.to_instructions(),
    }
}

impl Wrapped {
    fn record(&self) -> Value {
        json!({"ev": "reset", "n": self.n, "cell": self.cell, "label": self.label, "body": self.body, "defs": self.defs,
               "wrapped": self.wrapped, "wdefs": self.wdefs, "decl": counter_decl(&self.ctr, self.cell)})
    }
}

/// The statement, evaluated on the real result: (observable, expected, actual) per failure.
fn property_failures(w: &Wrapped) -> Vec<(String, Value, Value)> {
    let mut fails = vec![];
    let texts: Vec<String> = w.body.iter().map(|i| i.get("text").and_then(|t| t.as_str()).unwrap_or("?").to_string()).collect();
    let want: Vec<String> = (0..w.n).flat_map(|_| texts.iter().cloned()).collect();
    match interpret(&w.wrapped, w.n) {
        Ok(executed) if executed == want => {}
        Ok(executed) => fails.push(("executed trace".to_string(), json!(want), json!(executed))),
        Err(why) => fails.push(("termination".to_string(), json!("halts after n rounds"), json!(why))),
    }
    if w.n == 1 && (!w.unchanged || w.wrapped != w.body) {
        fails.push(("n = 1: program unchanged".to_string(), json!(w.body), json!(w.wrapped)));
    }
    if w.n == 0 && !w.wrapped.is_empty() {
        fails.push(("n = 0: body removed".to_string(), json!([]), json!(w.wrapped)));
    }
    // definitions as sets: every original one kept; the only addition allowed is a declaration of the counter
    let decl_key = format!("DECLARE {}", w.ctr);
    let lost: Vec<&Value> = w.defs.iter().filter(|d| d["key"] != decl_key.as_str() && !w.wdefs.contains(d)).collect();
    let added: Vec<&Value> =
        w.wdefs.iter().filter(|d| !w.defs.contains(d) && !(w.n >= 2 && d["key"] == decl_key.as_str())).collect();
    let dup = (0..w.wdefs.len()).any(|a| (0..a).any(|b| w.wdefs[a] == w.wdefs[b]));
    if !lost.is_empty() || !added.is_empty() || dup || (w.n < 2 && w.wdefs.len() != w.defs.len()) {
        fails.push(("definitions preserved".to_string(), json!(w.defs), json!(w.wdefs)));
    }
    fails
}

fn report(o: &mut Outcome, w: &Wrapped, what: &str) -> bool {
    let fails = property_failures(w);
    for (obs, want, got) in &fails {
        o.violate(
            Violation::new(obs, want.clone(), got.clone())
                .note(format!("{what}: n = {}, counter {}[{}], wrapped listing {}", w.n, w.ctr, w.cell, json!(w.wrapped))),
        );
    }
    fails.is_empty()
}

const DEFS: &str = "DECLARE ro BIT[2]\nDECLARE r REAL[2]\nDEFFRAME 0 \"rf\":\n    SAMPLE-RATE: 1.0\nDEFWAVEFORM wf:\n    1.0, 1.0\nDEFCAL X 0:\n    PULSE 0 \"rf\" wf\nDEFCAL MEASURE 0 addr:\n    CAPTURE 0 \"rf\" wf addr\nDEFGATE G AS MATRIX:\n    1.0, 0\n    0, 1.0\nDEFCIRCUIT BELL a b:\n    H a\n    CNOT a b\nPRAGMA EXTERN foo \"(a : INTEGER)\"\n";

const PALETTES: [[&str; 4]; 2] = [
    ["X 0", "MOVE r[0] 1.0", "MEASURE 0 ro[0]", "PRAGMA foo \"bar\""],
    ["PULSE 0 \"rf\" wf", "ADD r[1] 2.0", "CNOT 0 1", "NOP"],
];

fn symbol_index(sym: &str) -> usize {
    match sym {
        "a" => 0,
        "b" => 1,
        "c" => 2,
        "d" => 3,
        other => panic!("unknown body symbol {other}"),
    }
}

pub fn replay(_ctx: &Ctx, case: &Value) -> Outcome {
    if let Some(h) = case.get("history") {
        return replay_record(&h[0]);
    }
    let n = util::u(case, "n");
    let cell = util::u(case, "cell");
    let symbols: Vec<String> = arr(case, "body").iter().map(|x| x.as_str().expect("symbol").to_string()).collect();
    let mut o = Outcome::ok(n >= 2 && !symbols.is_empty());
    for (pi, palette) in PALETTES.iter().enumerate() {
        let mut p = if pi == 0 { util::program(DEFS) } else { Program::new() };
        for sym in &symbols {
            p.add_instruction(instr(palette[symbol_index(sym)]));
        }
        let (ctr, label) = if pi == 0 { ("ctr", "L") } else { ("loop-count", "start_loop") };
        let w = wrap(&p, ctr, cell, Target::Fixed(label.to_string()), n);
        o.sub_evaluations += 1;
        // the model's listing, spelled with this palette
        let want: Vec<Value> = arr(case, "wrapped")
            .iter()
            .map(|i| {
                let mut i = i.clone();
                if i["k"] == "Op" {
                    let t = instr(palette[symbol_index(i["text"].as_str().unwrap())]).to_quil_or_debug();
                    i["text"] = json!(t);
                }
                if i.get("target").is_some() {
                    i["target"] = json!(label);
                }
                i
            })
            .collect();
        let holds = report(&mut o, &w, &format!("palette {pi}"));
        if holds && w.wrapped != want {
            o.diverge(format!(
                "palette {pi}: listing differs from the model's Wrap but satisfies the property: {}",
                json!(w.wrapped)
            ));
        }
        if holds && w.n >= 2 && !w.wdefs.contains(&counter_decl(ctr, cell)) {
            o.diverge(format!("palette {pi}: the counter is not declared INTEGER[{}]: {}", cell + 1, json!(w.wdefs)));
        }
    }
    o
}

/// a recorded wrapped program rejected by trace validation: rebuild it from the record and judge it
fn replay_record(rec: &Value) -> Outcome {
    let n = util::u(rec, "n");
    let cell = util::u(rec, "cell");
    let ctr = s(&rec["decl"], "key").trim_start_matches("DECLARE ").to_string();
    let mut text = String::new();
    for d in arr(rec, "defs") {
        text.push_str(&s(d, "text"));
        text.push('\n');
    }
    for i in arr(rec, "body") {
        text.push_str(&s(i, "text"));
        text.push('\n');
    }
    let p = util::program(&text);
    let label = s(rec, "label");
    let w = wrap(&p, &ctr, cell, Target::Fixed(label), n);
    let mut o = Outcome::ok(n >= 2 && p.body_instructions().count() > 0);
    report(&mut o, &w, "recorded program");
    o
}

// ------------------------------------------------------------------------------------------- drive

const BODY: &[&str] = &[
    "X 0", "CNOT 0 1", "RX(pi/2) 1", "RZ(theta[0]) 2", "CONTROLLED X 2 0", "G 1", "BELL 0 1", "MEASURE 0 ro[0]",
    "MEASURE 1", "MOVE r[0] 1.0", "ADD r[1] 2.0", "SUB r[0] r[1]", "MUL k[0] 3", "NOT ro[1]", "EXCHANGE r[0] r[1]",
    "EQ ro[0] k[0] 1", "CONVERT r[0] k[0]", "LOAD r[0] theta k[0]", "STORE theta k[0] r[1]", "NOP", "WAIT", "RESET",
    "RESET 1", "PRAGMA foo", "PRAGMA PRESERVE_BLOCK", "PRAGMA note a 1 \"text\"", "FENCE 0 1", "FENCE", "DELAY 0 1.0",
    "PULSE 0 \"rf\" wf", "NONBLOCKING PULSE 0 1 \"cz\" flat(duration: 1.0, iq: 1.0)", "CAPTURE 0 \"ro\" wf ro[0]",
    "RAW-CAPTURE 0 \"ro\" 1.0 raw[0]", "SHIFT-PHASE 0 \"rf\" 1.0", "SET-FREQUENCY 0 \"rf\" r[0]", "SET-SCALE 0 \"rf\" 0.5",
    "SWAP-PHASES 0 \"rf\" 1 \"rf\"", "CALL foo k[0]",
];

const DEF_POOL: &[&str] = &[
    "DECLARE ro BIT[2]", "DECLARE r REAL[2]", "DECLARE k INTEGER[1]", "DECLARE theta REAL[4]", "DECLARE raw REAL[8]",
    "DECLARE shared BIT[8] SHARING raw OFFSET 1 REAL", "DEFFRAME 0 \"rf\":\n    SAMPLE-RATE: 1.0",
    "DEFFRAME 0 \"ro\":\n    SAMPLE-RATE: 1.0\n    INITIAL-FREQUENCY: 2.0", "DEFFRAME 0 1 \"cz\":\n    SAMPLE-RATE: 1.0",
    "DEFWAVEFORM wf:\n    1.0, 1.0", "DEFWAVEFORM other(%a):\n    %a, 1.0i", "DEFCAL X 0:\n    PULSE 0 \"rf\" wf",
    "DEFCAL RX(%t) q:\n    SHIFT-PHASE q \"rf\" %t", "DEFCAL MEASURE 0 addr:\n    CAPTURE 0 \"ro\" wf addr",
    "DEFCAL MEASURE q:\n    NOP", "DEFGATE G AS MATRIX:\n    1.0, 0\n    0, 1.0", "DEFGATE P AS PERMUTATION:\n    1, 0",
    "DEFCIRCUIT BELL a b:\n    H a\n    CNOT a b", "PRAGMA EXTERN foo \"(a : INTEGER)\"",
    "PRAGMA EXTERN bar \"REAL (a : mut REAL[])\"",
];

const COUNTERS: &[&str] = &["ctr", "loop_count", "n-iter", "shot_count_0"];
const LABELS: &[&str] = &["L", "loop", "start-loop", "a_0"];

pub fn drive(ctx: &Ctx) -> Summary {
    let n_hist = ctx.arg_u64("n", 100);
    let max_len = ctx.arg_u64("len", 12) as usize;
    let max_n = ctx.arg_u64("iters", 8);
    let path = ctx.arg_str("out").expect("--out");
    let mut out = std::io::BufWriter::new(std::fs::File::create(path).expect("create trace"));
    let mut rng = util::rng(ctx.seed, 33);
    let mut sum = Summary::default();
    let mut seen = std::collections::HashSet::new();
    for h in 0..n_hist {
        let len = if h < 3 { h as usize } else { rng.gen_range(0..=max_len) };
        let n = if h < 9 { h % 3 + (h / 3) % 3 } else { rng.gen_range(0..=max_n) };
        let mut p = Program::new();
        let ndefs = rng.gen_range(0..=DEF_POOL.len());
        let mut defs: Vec<&str> = DEF_POOL.choose_multiple(&mut rng, ndefs).cloned().collect();
        defs.shuffle(&mut rng);
        for d in defs {
            p.add_instruction(instr(d));
        }
        for _ in 0..len {
            p.add_instruction(instr(BODY.choose(&mut rng).unwrap()));
        }
        let ctr = COUNTERS.choose(&mut rng).unwrap();
        let label_name = LABELS.choose(&mut rng).unwrap().to_string();
        let label = if rng.gen_bool(0.3) {
            Target::Placeholder(TargetPlaceholder::new(label_name))
        } else {
            Target::Fixed(label_name)
        };
        let cell = if h % 2 == 0 { 0 } else { rng.gen_range(0..=2u64) };
        let w = wrap(&p, ctr, cell, label, n);
        let rec = w.record();
        util::emit(&mut out, &rec);
        let mut o = Outcome::ok(n >= 2 && len > 0);
        o.count("events");
        o.count_n("exported_instructions", w.wrapped.len() as u64);
        let case = json!({"n": n, "cell": cell, "body": w.body.iter().map(|i| i["text"].clone()).collect::<Vec<_>>(), "ndefs": w.defs.len()});
        let distinct = seen.insert(case.to_string());
        sum.absorb(&case, &o, distinct);
    }
    sum
}
