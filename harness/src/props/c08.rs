//! C08-C11 — the `Program` builder against spec/ProgramModel.tla.  This file holds the shared binding
//! (abstraction function, the real two-register machine, projections, property predicates, the
//! driver) and the C08 verdicts; c09.rs / c10.rs / c11.rs only select their mode.
//!
//! A *history* is `{"sym":[instruction records], "ops":[operation records]}` (TLC cases embed the
//! instruction records in the operations instead; both forms are accepted).  An instruction record is
//! `{id, k, key, text, qs}` as in ProgramModel.tla; the harness parses `text`, and computes k / key / qs
//! from the parsed value itself (never through `Instruction::get_qubits`), so the model's view of the
//! alphabet is cross-checked and the oracles stay independent of the code under test.
//!
//! replay (spec -> code): every operation of a TLC case is executed on two real `Program` registers and
//!   the projected post-state compared with the model's; a difference is classified by the Rust
//!   predicate of the *property of the mode* (violation iff the property's own statement fails on the
//!   real observables, otherwise divergence).
//! drive (code -> spec): seeded random histories over a larger alphabet, recorded as
//!   reset / mutation / Obs / ObsConcat events for spec/trace/ProgramModelTrace.tla.
//!
//! Internal protocol: mode `<ID>.child` runs a history in a *fresh process* and returns the final
//! `to_quil()` texts of both registers in `Outcome.divergences` (C08: "in the same process or another").

use crate::runner::{Outcome, Summary, Violation};
use crate::util;
use crate::Ctx;
use quil_rs::instruction::{
    DefaultHandler, FrameIdentifier, Instruction, InstructionHandler, Label, MemoryReference, PragmaArgument, Qubit,
    QubitPlaceholder, Target, TargetPlaceholder, Jump,
};
use quil_rs::quil::Quil;
use quil_rs::Program;
use rand::seq::SliceRandom;
use rand::Rng;
use serde_json::{json, Value};
use std::cell::RefCell;
use std::collections::{BTreeSet, HashMap, HashSet};
use std::io::{BufRead, BufReader, Write};

pub const KF16: &str = "clone-without-body-drops-calibration-qubits";

pub const TABLES: [&str; 8] =
    ["Extern", "Declare", "DefFrame", "DefWaveform", "DefCal", "DefCalMeasure", "DefGate", "DefCircuit"];

// ------------------------------------------------------------------------------------ abstraction

// Qubit placeholders have identity semantics (every QubitPlaceholder::default() is distinct, clones are equal).
// The harness numbers them 1, 2, ... in order of creation within a history; the table is per thread and reset
// at the start of every history, so the numbering is stable between a recording and its replay.
thread_local! {
    static PH: RefCell<Vec<QubitPlaceholder>> = const { RefCell::new(Vec::new()) };
}
const PH_BASE: u64 = 9000;

pub fn ph_reset() {
    PH.with(|t| t.borrow_mut().clear());
}

/// number of a placeholder (registered on first sight)
pub fn ph_index(p: &QubitPlaceholder) -> usize {
    PH.with(|t| {
        let mut t = t.borrow_mut();
        if let Some(k) = t.iter().position(|x| x == p) {
            return k + 1;
        }
        t.push(p.clone());
        t.len()
    })
}

/// the k-th placeholder of the history (created on demand)
pub fn ph_get(k: usize) -> QubitPlaceholder {
    PH.with(|t| {
        let mut t = t.borrow_mut();
        while t.len() < k {
            t.push(QubitPlaceholder::default());
        }
        t[k - 1].clone()
    })
}

/// Parse an instruction text in which `{phK}` stands for the K-th qubit placeholder of the history.
pub fn parse_instr(text: &str) -> Instruction {
    if !text.contains("{ph") {
        return util::instr(text);
    }
    let mut plain = String::new();
    let mut rest = text;
    while let Some(at) = rest.find("{ph") {
        plain.push_str(&rest[..at]);
        let tail = &rest[at + 3..];
        let end = tail.find('}').expect("unterminated {ph");
        let k: u64 = tail[..end].parse().expect("placeholder number");
        plain.push_str(&(PH_BASE + k).to_string());
        rest = &tail[end + 1..];
    }
    plain.push_str(rest);
    let mut i = util::instr(&plain);
    for q in i.get_qubits_mut() {
        if let Qubit::Fixed(n) = q {
            if *n > PH_BASE && *n < PH_BASE + 1000 {
                *q = Qubit::Placeholder(ph_get((*n - PH_BASE) as usize));
            }
        }
    }
    i
}

/// Canonical text of an instruction: what quil-rs prints, with `{phK}` for qubit placeholders.
pub fn canon_text(i: &Instruction) -> String {
    let mut c = i.clone();
    let mut any = false;
    for q in c.get_qubits_mut() {
        if let Qubit::Placeholder(p) = q {
            let k = ph_index(p) as u64;
            *q = Qubit::Fixed(PH_BASE + k);
            any = true;
        }
    }
    let t = c.to_quil_or_debug();
    if !any {
        return t;
    }
    // 9001 -> {ph1}: whole numeric tokens only
    let b: Vec<char> = t.chars().collect();
    let mut out = String::new();
    let mut n = 0;
    while n < b.len() {
        if b[n].is_ascii_digit() && (n == 0 || !(b[n - 1].is_ascii_alphanumeric() || b[n - 1] == '.' || b[n - 1] == '_')) {
            let mut m = n;
            while m < b.len() && b[m].is_ascii_digit() {
                m += 1;
            }
            let tok: String = b[n..m].iter().collect();
            let v: u64 = tok.parse().unwrap_or(0);
            let followed = m < b.len() && (b[m].is_ascii_alphanumeric() || b[m] == '.' || b[m] == '_');
            if !followed && v > PH_BASE && v < PH_BASE + 1000 {
                out.push_str(&format!("{{ph{}}}", v - PH_BASE));
            } else {
                out.push_str(&tok);
            }
            n = m;
        } else {
            out.push(b[n]);
            n += 1;
        }
    }
    out
}

/// canonical string of a qubit (set element)
pub fn qcanon(q: &Qubit) -> String {
    match q {
        Qubit::Fixed(n) => format!("fixed:{n}"),
        Qubit::Variable(s) => format!("var:{s}"),
        Qubit::Placeholder(p) => format!("ph:{}", ph_index(p)),
    }
}

/// a plain gate application (no parameters, no modifiers): the model's template `g`
pub fn gate_template(i: &Instruction) -> Option<Value> {
    match i {
        Instruction::Gate(g) if g.parameters.is_empty() && g.modifiers.is_empty() => Some(json!({
            "name": g.name, "qubits": g.qubits.iter().map(|q| qabs_of_canon(&qcanon(q))).collect::<Vec<_>>()})),
        _ => None,
    }
}

pub fn qcanon_of_abs(v: &Value) -> String {
    match v["t"].as_str() {
        Some("fixed") => format!("fixed:{}", v["n"]),
        Some("var") => format!("var:{}", v["s"].as_str().unwrap_or("?")),
        _ => format!("ph:{}", v["id"]),
    }
}

pub fn qabs_of_canon(c: &str) -> Value {
    let (t, rest) = c.split_once(':').unwrap_or(("ph", c));
    match t {
        "fixed" => json!({"t": "fixed", "n": rest.parse::<u64>().unwrap_or(0)}),
        "var" => json!({"t": "var", "s": rest}),
        _ => json!({"t": "ph", "id": rest.parse::<u64>().unwrap_or(0)}),
    }
}

pub fn kind_of(i: &Instruction) -> &'static str {
    match i {
        Instruction::Pragma(p) if p.name == "EXTERN" => "Extern",
        Instruction::Declaration(_) => "Declare",
        Instruction::FrameDefinition(_) => "DefFrame",
        Instruction::WaveformDefinition(_) => "DefWaveform",
        Instruction::CalibrationDefinition(_) => "DefCal",
        Instruction::MeasureCalibrationDefinition(_) => "DefCalMeasure",
        Instruction::GateDefinition(_) => "DefGate",
        Instruction::CircuitDefinition(_) => "DefCircuit",
        _ => "Body",
    }
}

pub fn key_of(i: &Instruction) -> String {
    match i {
        Instruction::Pragma(p) if p.name == "EXTERN" => match p.arguments.first() {
            Some(PragmaArgument::Identifier(n)) => n.clone(),
            _ => "<none>".into(),
        },
        Instruction::Declaration(d) => d.name.clone(),
        Instruction::FrameDefinition(f) => f.identifier.to_quil_or_debug(),
        Instruction::WaveformDefinition(w) => w.name.clone(),
        Instruction::CalibrationDefinition(c) => c.identifier.to_quil_or_debug(),
        Instruction::MeasureCalibrationDefinition(c) => c.identifier.to_quil_or_debug(),
        Instruction::GateDefinition(g) => g.name.clone(),
        Instruction::CircuitDefinition(c) => c.name.clone(),
        _ => "-".into(),
    }
}

fn frame_qubits(f: &FrameIdentifier, out: &mut Vec<Qubit>) {
    out.extend(f.qubits.iter().cloned());
}

/// Qubits an instruction mentions.  `sure`: positions where "mentions a qubit" is unambiguous (DESIGN §6
/// C10: gates, measurements, RESET q, DELAY, FENCE, PULSE/CAPTURE/RAW-CAPTURE, calibration definitions =
/// identifier qubits + body qubits).  `arguable`: frame operands of SET-*/SHIFT-*/SWAP-PHASES, DEFFRAME
/// identifiers, circuit bodies — the statement does not settle them, so they only widen the accepted band.
pub fn mentioned_qubits(i: &Instruction, sure: &mut Vec<Qubit>, arguable: &mut Vec<Qubit>) {
    match i {
        Instruction::Gate(g) => sure.extend(g.qubits.iter().cloned()),
        Instruction::Measurement(m) => sure.push(m.qubit.clone()),
        Instruction::Reset(r) => sure.extend(r.qubit.iter().cloned()),
        Instruction::Delay(d) => sure.extend(d.qubits.iter().cloned()),
        Instruction::Fence(f) => sure.extend(f.qubits.iter().cloned()),
        Instruction::Pulse(p) => frame_qubits(&p.frame, sure),
        Instruction::Capture(c) => frame_qubits(&c.frame, sure),
        Instruction::RawCapture(c) => frame_qubits(&c.frame, sure),
        Instruction::CalibrationDefinition(c) => {
            sure.extend(c.identifier.qubits.iter().cloned());
            for b in &c.instructions {
                mentioned_qubits(b, sure, arguable);
            }
        }
        Instruction::MeasureCalibrationDefinition(c) => {
            sure.push(c.identifier.qubit.clone());
            for b in &c.instructions {
                mentioned_qubits(b, sure, arguable);
            }
        }
        Instruction::FrameDefinition(f) => frame_qubits(&f.identifier, arguable),
        Instruction::SetFrequency(x) => frame_qubits(&x.frame, arguable),
        Instruction::SetPhase(x) => frame_qubits(&x.frame, arguable),
        Instruction::SetScale(x) => frame_qubits(&x.frame, arguable),
        Instruction::ShiftFrequency(x) => frame_qubits(&x.frame, arguable),
        Instruction::ShiftPhase(x) => frame_qubits(&x.frame, arguable),
        Instruction::SwapPhases(x) => {
            frame_qubits(&x.frame_1, arguable);
            frame_qubits(&x.frame_2, arguable);
        }
        Instruction::CircuitDefinition(c) => {
            let mut s = vec![];
            for b in &c.instructions {
                mentioned_qubits(b, &mut s, arguable);
            }
            arguable.extend(s);
        }
        _ => {}
    }
}

fn qset(v: &[Qubit]) -> BTreeSet<String> {
    v.iter().map(qcanon).collect()
}

/// (qs of the model = all qubits at sure positions, lower bound = the non-variable ones, upper bound =
/// sure + arguable positions)
pub fn qubit_band(is: &[Instruction]) -> (BTreeSet<String>, BTreeSet<String>, BTreeSet<String>) {
    let (mut s, mut a) = (vec![], vec![]);
    for i in is {
        mentioned_qubits(i, &mut s, &mut a);
    }
    let model = qset(&s);
    let lower: BTreeSet<String> = s.iter().filter(|q| !matches!(q, Qubit::Variable(_))).map(qcanon).collect();
    let mut upper = model.clone();
    upper.extend(qset(&a));
    (model, lower, upper)
}

pub struct SymRec {
    pub id: String,
    pub k: &'static str,
    pub key: String,
    pub instr: Instruction,
    pub canon: String,
    pub qs: BTreeSet<String>,
}

impl SymRec {
    pub fn abs(&self) -> Value {
        json!({"id": self.id, "k": self.k, "key": self.key, "text": self.canon,
               "qs": self.qs.iter().map(|c| qabs_of_canon(c)).collect::<Vec<_>>(),
               "g": util::opt_json(gate_template(&self.instr))})
    }
}

/// Symbol table of a history: instruction identity is the canonical (printed) text of the real value.
#[derive(Default)]
pub struct Sym {
    pub recs: HashMap<String, SymRec>,
    pub by_text: HashMap<String, String>,
    pub order: Vec<String>,
    fresh: usize,
}

impl Sym {
    pub fn intern_instr(&mut self, id: Option<&str>, instr: Instruction) -> String {
        let canon = canon_text(&instr);
        if let Some(have) = self.by_text.get(&canon) {
            return have.clone();
        }
        // the identity of a plain gate application is its text (the model computes resolved gates itself)
        let id = match id {
            _ if gate_template(&instr).is_some() => canon.clone(),
            Some(s) => s.to_string(),
            None => {
                self.fresh += 1;
                format!("s{}", self.fresh)
            }
        };
        let (model, _, _) = qubit_band(std::slice::from_ref(&instr));
        let rec = SymRec { id: id.clone(), k: kind_of(&instr), key: key_of(&instr), instr, canon: canon.clone(), qs: model };
        self.by_text.insert(canon, id.clone());
        self.recs.insert(id.clone(), rec);
        self.order.push(id.clone());
        id
    }

    /// An instruction record of the model: parse its text and cross-check the model's view of it.
    pub fn intern_abs(&mut self, v: &Value, o: &mut Outcome) -> String {
        let id = util::s(v, "id");
        if self.recs.contains_key(&id) {
            return id;
        }
        let instr = parse_instr(&util::s(v, "text"));
        let got = self.intern_instr(Some(&id), instr);
        let rec = &self.recs[&got];
        let want_qs: BTreeSet<String> = util::arr(v, "qs").iter().map(qcanon_of_abs).collect();
        if got != id || rec.k != util::s(v, "k") || rec.key != util::s(v, "key") || rec.qs != want_qs || rec.canon != util::s(v, "text") {
            o.diverge(format!(
                "alphabet: the model's view of {} differs from the parsed instruction: id {} k {} key {:?} qs {:?} text {:?}",
                v, got, rec.k, rec.key, rec.qs, rec.canon
            ));
        }
        got
    }

    /// an instruction argument of an operation: a symbol id, or an embedded record
    pub fn resolve(&mut self, v: &Value, o: &mut Outcome) -> String {
        match v {
            Value::String(s) => {
                if !self.recs.contains_key(s) {
                    panic!("unknown symbol {s}");
                }
                s.clone()
            }
            other => self.intern_abs(other, o),
        }
    }

    pub fn resolve_seq(&mut self, v: &Value, o: &mut Outcome) -> Vec<String> {
        v.as_array().map(|a| a.iter().map(|x| self.resolve(x, o)).collect()).unwrap_or_default()
    }

    pub fn instr(&self, id: &str) -> Instruction {
        self.recs[id].instr.clone()
    }

    /// id of a real instruction (interning it if the history has not seen it yet)
    pub fn id_of(&mut self, i: &Instruction) -> String {
        self.intern_instr(None, i.clone())
    }

    pub fn ids_of(&mut self, is: &[Instruction]) -> Vec<String> {
        is.iter().map(|i| self.id_of(i)).collect()
    }

    pub fn sym_json(&self) -> Vec<Value> {
        self.order.iter().map(|id| self.recs[id].abs()).collect()
    }
}

// ---------------------------------------------------------------------------------- real machine

#[derive(Clone, Debug, PartialEq)]
pub struct Proj {
    pub listing: Vec<String>,
    pub into: Vec<String>,
    pub used: BTreeSet<String>,
    pub text: Option<String>,
    pub len: usize,
}

pub fn project(p: &Program, sym: &mut Sym) -> Proj {
    Proj {
        listing: sym.ids_of(&p.to_instructions()),
        into: sym.ids_of(&p.clone().into_instructions()),
        used: p.get_used_qubits().iter().map(qcanon).collect(),
        text: p.to_quil().ok(),
        len: p.len(),
    }
}

pub fn used_json(u: &BTreeSet<String>) -> Value {
    Value::Array(u.iter().map(|c| qabs_of_canon(c)).collect())
}

fn ri(r: &str) -> usize {
    match r {
        "A" => 0,
        "B" => 1,
        other => panic!("unknown register {other}"),
    }
}
const RN: [&str; 2] = ["A", "B"];

/// Two real `Program` registers plus the ghost state the Rust predicates need (mirrors the ghost fields
/// of ProgramModel.tla: log, excl).
#[derive(Clone, Default)]
pub struct Machine {
    pub p: [Program; 2],
    /// ids of every instruction that flowed into the register, in order
    pub log: [Vec<String>; 2],
    /// the value went through clone_without_body_instructions and its cache was not rebuilt since
    pub taint: [bool; 2],
    /// the value is the concatenation of a pair on which C10 and C11 pull apart (DESIGN §6 C11)
    pub pull: [bool; 2],
    pub opaque: [bool; 2],
}

pub struct StepInfo {
    pub ev: String,
    pub dst: usize,
    /// operands (a, b) of a concatenation, before the step
    pub concat: Option<(Program, Program)>,
    pub pull_apart: bool,
    /// the step failed in the real code (result register left unchanged)
    pub err: Option<String>,
    /// name of a supplied-listing operation
    pub name: Option<String>,
    /// resolve_placeholders: the qubit resolutions the real code made (placeholder number, fixed index)
    pub map: Vec<(usize, u64)>,
}

fn is_cal_kind(k: &str) -> bool {
    k == "DefCal" || k == "DefCalMeasure"
}

/// DESIGN §6 C11 "where C10 and C11 pull apart", on real values
pub fn pull_apart(a: &Program, b: &Program) -> bool {
    let bi = b.to_instructions();
    a.to_instructions().iter().filter(|i| is_cal_kind(kind_of(i))).any(|x| {
        bi.iter().filter(|j| kind_of(j) == kind_of(x) && key_of(j) == key_of(x)).any(|y| {
            let (qx, _, _) = qubit_band(std::slice::from_ref(x));
            let (qy, _, _) = qubit_band(std::slice::from_ref(y));
            !qx.is_subset(&qy)
        })
    })
}

fn def_ids(log: &[String], sym: &Sym) -> Vec<String> {
    log.iter().filter(|id| sym.recs[*id].k != "Body").cloned().collect()
}

impl Machine {
    /// Execute one operation record on the real registers.
    pub fn apply(&mut self, op: &Value, sym: &mut Sym, o: &mut Outcome) -> StepInfo {
        let ev = util::s(op, "ev");
        let dst = ri(&util::s(op, "dst"));
        let mut info = StepInfo { ev: ev.clone(), dst, concat: None, pull_apart: false, err: None, name: None, map: vec![] };
        let reg = |k: &str| ri(&util::s(op, k));
        match ev.as_str() {
            "New" => {
                self.p[dst] = Program::new();
                self.set_ghost(dst, vec![], false, false);
            }
            "Add" => {
                let id = sym.resolve(&op["i"], o);
                self.add_one(dst, &id, sym);
            }
            "AddMany" => {
                let ids = sym.resolve_seq(&op["is"], o);
                // the ghost follows instruction by instruction; the real call is add_instructions
                let instrs: Vec<Instruction> = ids.iter().map(|id| sym.instr(id)).collect();
                let mut shadow = self.clone();
                for id in &ids {
                    shadow.add_one(dst, id, sym);
                }
                self.p[dst].add_instructions(instrs);
                self.log[dst] = shadow.log[dst].clone();
                self.taint[dst] = shadow.taint[dst];
                self.pull[dst] = shadow.pull[dst];
            }
            "FromInstructions" => {
                let ids = sym.resolve_seq(&op["is"], o);
                let instrs: Vec<Instruction> = ids.iter().map(|id| sym.instr(id)).collect();
                // the three public constructors from a list of instructions
                self.p[dst] = match op.get("via").and_then(|v| v.as_str()) {
                    Some("from_vec") => Program::from(instrs),
                    Some("from_str") => {
                        let text: Option<String> = instrs.iter().map(|i| i.to_quil().ok().map(|t| t + "\n")).collect();
                        match text {
                            Some(t) => util::program(&t),
                            None => Program::from(instrs),
                        }
                    }
                    _ => Program::from_instructions(instrs),
                };
                self.set_ghost(dst, ids, false, false);
            }
            "Concat" | "AddAssign" => {
                let (a, b) = if ev == "Concat" { (reg("a"), reg("b")) } else { (dst, reg("b")) };
                let (pa, pb) = (self.p[a].clone(), self.p[b].clone());
                info.pull_apart = pull_apart(&pa, &pb);
                if ev == "Concat" {
                    self.p[dst] = pa.clone() + pb.clone();
                } else {
                    self.p[dst] += pb.clone();
                }
                let mut log = self.log[a].clone();
                log.extend(self.log[b].iter().cloned());
                let (t, pl) = (self.taint[a] || self.taint[b], self.pull[a] || self.pull[b] || info.pull_apart);
                self.set_ghost(dst, log, t, pl);
                info.concat = Some((pa, pb));
            }
            "Clone" => {
                let a = reg("a");
                if op.get("via").and_then(|v| v.as_str()) == Some("wrap_in_loop") {
                    self.p[dst] = self.p[a].wrap_in_loop(loop_ref(), loop_target(), 1);
                } else {
                    self.p[dst] = self.p[a].clone();
                }
                let (l, t, pl) = (self.log[a].clone(), self.taint[a], self.pull[a]);
                self.set_ghost(dst, l, t, pl);
            }
            "CloneWithoutBody" => {
                let a = reg("a");
                if op.get("via").and_then(|v| v.as_str()) == Some("wrap_in_loop") {
                    self.p[dst] = self.p[a].wrap_in_loop(loop_ref(), loop_target(), 0);
                } else {
                    self.p[dst] = self.p[a].clone_without_body_instructions();
                }
                let l = def_ids(&self.log[a], sym);
                self.set_ghost(dst, l, true, false);
            }
            "Resolve" => {
                let before: Vec<Instruction> = self.p[dst].body_instructions().cloned().collect();
                if op.get("mode").and_then(|v| v.as_str()) == Some("custom") {
                    let map: HashMap<QubitPlaceholder, u64> = op["map"]
                        .as_array()
                        .map(|a| a.iter().map(|e| (ph_get(util::u(e, "ph") as usize), util::u(e, "n"))).collect())
                        .unwrap_or_default();
                    let targets = self.p[dst].default_target_resolver();
                    self.p[dst].resolve_placeholders_with_custom_resolvers(targets, Box::new(move |p| map.get(p).copied()));
                } else {
                    self.p[dst].resolve_placeholders();
                }
                for (b, a) in before.iter().zip(self.p[dst].body_instructions()) {
                    for (qb, qa) in b.get_qubits().into_iter().zip(a.get_qubits()) {
                        if let (Qubit::Placeholder(p), Qubit::Fixed(n)) = (qb, qa) {
                            let k = ph_index(p);
                            if !info.map.iter().any(|(x, _)| *x == k) {
                                info.map.push((k, *n));
                            }
                        }
                    }
                }
                let mut l = def_ids(&self.log[dst], sym);
                let body: Vec<Instruction> = self.p[dst].body_instructions().cloned().collect();
                l.extend(sym.ids_of(&body));
                self.set_ghost(dst, l, false, false);
            }
            "Filter" => {
                let a = reg("a");
                let drop: HashSet<String> =
                    util::arr(op, "drop").iter().map(|x| x.as_str().unwrap_or("").to_string()).collect();
                self.p[dst] = self.p[a].filter_instructions(|i| !drop.contains(kind_of(i)));
                let l = sym.ids_of(&self.p[dst].to_instructions());
                self.set_ghost(dst, l, false, false);
            }
            "Supplied" | "Opaque" => {
                let a = reg("a");
                let name = util::s(op, "name");
                info.name = Some(name.clone());
                let res: Result<Program, String> = match name.as_str() {
                    "ExpandCalibrations" => self.p[a].expand_calibrations().map_err(|e| e.to_string()),
                    "ExpandCalibrationsWithSourceMap" => {
                        self.p[a].expand_calibrations_with_source_map().map(|(p, _)| p).map_err(|e| e.to_string())
                    }
                    "ExpandDefGateSequencesWithSourceMap" => {
                        self.p[a].expand_defgate_sequences_with_source_map(|_| true).map(|(p, _)| p).map_err(|e| e.to_string())
                    }
                    "Dagger" => self.p[a].dagger().map_err(|e| e.to_string()),
                    "Simplify" => self.p[a].simplify(&DefaultHandler).map_err(|e| e.to_string()),
                    "WrapInLoop" => {
                        let n = op.get("n").and_then(|x| x.as_u64()).unwrap_or(2).max(2) as u32;
                        Ok(self.p[a].wrap_in_loop(loop_ref(), loop_target(), n))
                    }
                    "ExpandDefGateSequences" => {
                        self.p[a].clone().expand_defgate_sequences(|_| true).map_err(|e| e.to_string())
                    }
                    other => panic!("unknown supplied operation {other}"),
                };
                match res {
                    Ok(p) => {
                        self.p[dst] = p;
                        let l = sym.ids_of(&self.p[dst].to_instructions());
                        let taint = matches!(name.as_str(), "ExpandCalibrations" | "ExpandCalibrationsWithSourceMap" | "Simplify" | "WrapInLoop");
                        self.set_ghost(dst, l, taint, false);
                        self.opaque[dst] = ev == "Opaque";
                    }
                    Err(e) => {
                        info.err = Some(e);
                        if ev == "Opaque" {
                            self.p[dst] = Program::new();
                            self.set_ghost(dst, vec![], false, false);
                            self.opaque[dst] = true;
                        }
                    }
                }
            }
            other => panic!("unknown operation {other}"),
        }
        info
    }

    fn set_ghost(&mut self, r: usize, log: Vec<String>, taint: bool, pull: bool) {
        self.log[r] = log;
        self.taint[r] = taint;
        self.pull[r] = pull;
        self.opaque[r] = false;
    }

    fn add_one(&mut self, dst: usize, id: &str, sym: &Sym) {
        let rec = &sym.recs[id];
        // a calibration with an existing signature is replaced: the code rebuilds the cache
        let replaced_cal = is_cal_kind(rec.k)
            && self.p[dst].to_instructions().iter().any(|j| kind_of(j) == rec.k && key_of(j) == rec.key);
        self.p[dst].add_instruction(rec.instr.clone());
        self.log[dst].push(id.to_string());
        if replaced_cal {
            self.taint[dst] = false;
            self.pull[dst] = false;
        }
    }
}

fn loop_ref() -> MemoryReference {
    MemoryReference { name: "loopn".into(), index: 0 }
}
fn loop_target() -> Target {
    Target::Fixed("loopstart".into())
}

// ----------------------------------------------------------------------------- property predicates

fn first_keys(log: &[String], t: &str, sym: &Sym) -> Vec<String> {
    let mut seen = HashSet::new();
    let mut out = vec![];
    for id in log {
        let r = &sym.recs[id];
        if r.k == t && seen.insert(r.key.clone()) {
            out.push(r.key.clone());
        }
    }
    out
}

/// C08: "within each definition kind, output follows the order in which each definition was first added,
/// and a redefinition with the same key replaces the earlier one in place" (last value, first position)
pub fn order_failures(listing: &[String], log: &[String], sym: &Sym) -> Vec<String> {
    let mut fails = vec![];
    for t in TABLES {
        let got: Vec<&SymRec> = listing.iter().map(|id| &sym.recs[id]).filter(|r| r.k == t).collect();
        let got_keys: Vec<String> = got.iter().map(|r| r.key.clone()).collect();
        let want_keys = first_keys(log, t, sym);
        if got_keys != want_keys {
            fails.push(format!("{t}: keys listed as {got_keys:?}, first-insertion order is {want_keys:?}"));
            continue;
        }
        for r in got {
            let last = log.iter().rev().map(|id| &sym.recs[id]).find(|x| x.k == t && x.key == r.key);
            if last.map(|x| x.id.as_str()) != Some(r.id.as_str()) {
                fails.push(format!("{t} {:?}: holds {} but the last definition added was {:?}", r.key, r.id, last.map(|x| &x.id)));
            }
        }
    }
    fails
}

/// C09: "the body keeps the order in which instructions were added, and each keyed definition keeps only
/// its last value"
pub fn body_and_last_value_failures(listing: &[String], log: &[String], sym: &Sym) -> Vec<String> {
    let mut fails = vec![];
    let body: Vec<&String> = listing.iter().filter(|id| sym.recs[*id].k == "Body").collect();
    let want: Vec<&String> = log.iter().filter(|id| sym.recs[*id].k == "Body").collect();
    if body != want {
        fails.push(format!("body listed as {body:?}, instructions were added as {want:?}"));
    }
    for t in TABLES {
        let mut seen = HashSet::new();
        for r in listing.iter().map(|id| &sym.recs[id]).filter(|r| r.k == t) {
            if !seen.insert(r.key.clone()) {
                fails.push(format!("{t} {:?} listed twice", r.key));
            }
            let last = log.iter().rev().map(|id| &sym.recs[id]).find(|x| x.k == t && x.key == r.key);
            if last.map(|x| x.id.as_str()) != Some(r.id.as_str()) {
                fails.push(format!("{t} {:?}: holds {} but the last definition added was {:?}", r.key, r.id, last.map(|x| &x.id)));
            }
        }
        let keys_in_log: HashSet<String> = log.iter().map(|id| &sym.recs[id]).filter(|r| r.k == t).map(|r| r.key.clone()).collect();
        if keys_in_log != seen {
            fails.push(format!("{t}: keys {seen:?} listed, {keys_in_log:?} defined"));
        }
    }
    fails
}

/// C10 on one program: lower <= get_used_qubits() <= upper for the qubits its own listing mentions
pub fn used_failure(p: &Program) -> Option<(BTreeSet<String>, BTreeSet<String>)> {
    let (model, lower, upper) = qubit_band(&p.to_instructions());
    let used: BTreeSet<String> = p.get_used_qubits().iter().map(qcanon).collect();
    if lower.is_subset(&used) && used.is_subset(&upper) {
        None
    } else {
        Some((model, used))
    }
}

/// the shape of known finding 16 on one program: the value comes from clone_without_body_instructions
/// (taint) and the cache lacks exactly qubits that retained calibration definitions mention
pub fn is_kf16_shape(p: &Program, tainted: bool) -> bool {
    if !tainted {
        return false;
    }
    let is = p.to_instructions();
    let (model, _, upper) = qubit_band(&is);
    let cals: Vec<Instruction> = is.iter().filter(|i| is_cal_kind(kind_of(i))).cloned().collect();
    let (cal_q, _, _) = qubit_band(&cals);
    let used: BTreeSet<String> = p.get_used_qubits().iter().map(qcanon).collect();
    let missing: BTreeSet<String> = model.difference(&used).cloned().collect();
    used.is_subset(&upper) && !missing.is_empty() && missing.is_subset(&cal_q)
}

fn frames_matched_by_reset(p: &Program) -> (BTreeSet<String>, BTreeSet<String>) {
    // fixed probe frames are inserted through the public field (the cache is not involved)
    let mut q = p.clone();
    for n in 0..5u64 {
        q.frames.insert(
            FrameIdentifier { name: "probe".into(), qubits: vec![Qubit::Fixed(n)] },
            Default::default(),
        );
    }
    let reset = util::instr("RESET");
    match DefaultHandler.matching_frames(&q, &reset) {
        Some(m) => (
            m.used.iter().map(|f| f.to_quil_or_debug()).collect(),
            m.blocked.iter().map(|f| f.to_quil_or_debug()).collect(),
        ),
        None => (BTreeSet::new(), BTreeSet::new()),
    }
}

/// C10 with label placeholders: append LABEL/JUMP on one target placeholder, resolve, judge the cache and ==
pub fn label_probe(p: &Program) -> Option<Violation> {
    let mut q = p.clone();
    let t = Target::Placeholder(TargetPlaceholder::new("probe".into()));
    q.add_instruction(Instruction::Label(Label { target: t.clone() }));
    q.add_instruction(Instruction::Jump(Jump { target: t }));
    q.resolve_placeholders();
    if let Some((model, used)) = used_failure(&q) {
        return Some(Violation::new("get_used_qubits", used_json(&model), used_json(&used)));
    }
    let rebuilt = Program::from_instructions(q.to_instructions());
    if rebuilt != q {
        return Some(Violation::new("== of two programs with the same listing", json!(true), json!(false)));
    }
    None
}

fn listing_texts(p: &Program) -> Vec<String> {
    p.to_instructions().iter().map(canon_text).collect()
}
fn body_texts(p: &Program) -> Vec<String> {
    p.body_instructions().map(canon_text).collect()
}
fn used_of(p: &Program) -> BTreeSet<String> {
    p.get_used_qubits().iter().map(qcanon).collect()
}

/// C11 on real operands a, b and a real result c (relational: nothing but the three programs is used)
pub fn concat_failures(a: &Program, b: &Program, c: &Program, judge_used: bool) -> Vec<(String, Value, Value)> {
    let mut fails = vec![];
    let mut want_body = body_texts(a);
    want_body.extend(body_texts(b));
    if body_texts(c) != want_body {
        fails.push(("body of the concatenation".to_string(), json!(want_body), json!(body_texts(c))));
    }
    let (ai, bi, ci) = (a.to_instructions(), b.to_instructions(), c.to_instructions());
    for t in TABLES {
        let of = |is: &[Instruction]| -> Vec<(String, String)> {
            is.iter().filter(|i| kind_of(i) == t).map(|i| (key_of(i), canon_text(i))).collect()
        };
        let (ta, tb, tc) = (of(&ai), of(&bi), of(&ci));
        let mut want: HashMap<String, String> = ta.iter().cloned().collect();
        want.extend(tb.iter().cloned());
        let got: HashMap<String, String> = tc.iter().cloned().collect();
        if got != want || tc.len() != got.len() {
            fails.push((format!("{t} definitions of the concatenation"), json!(want), json!(tc)));
        }
    }
    if judge_used {
        let mut want: BTreeSet<String> = used_of(a);
        want.extend(used_of(b));
        if used_of(c) != want {
            fails.push(("used qubits of the concatenation".to_string(), used_json(&want), used_json(&used_of(c))));
        }
    }
    fails
}

/// equal as `==` says and equal in what C11 names: body, every definition by key and value, used qubits
/// (the order of definitions within a kind is C08's observable, not C11's)
fn same_program(x: &Program, y: &Program) -> bool {
    let tables = |p: &Program| -> Vec<HashMap<String, String>> {
        let is = p.to_instructions();
        TABLES.iter().map(|t| is.iter().filter(|i| kind_of(i) == *t).map(|i| (key_of(i), canon_text(i))).collect()).collect()
    };
    x == y && body_texts(x) == body_texts(y) && tables(x) == tables(y) && used_of(x) == used_of(y)
}

// ------------------------------------------------------------------------------ fresh-process texts

struct ChildProc {
    child: std::process::Child,
    stdin: std::process::ChildStdin,
    stdout: BufReader<std::process::ChildStdout>,
    served: usize,
}

thread_local! {
    static CHILD: RefCell<Option<ChildProc>> = const { RefCell::new(None) };
}

fn spawn_child(pid: &str) -> Option<ChildProc> {
    let exe = std::env::current_exe().ok()?;
    let mut child = std::process::Command::new(exe)
        .arg("worker")
        .arg(format!("{pid}.child"))
        .stdin(std::process::Stdio::piped())
        .stdout(std::process::Stdio::piped())
        .stderr(std::process::Stdio::null())
        .spawn()
        .ok()?;
    let stdin = child.stdin.take()?;
    let stdout = BufReader::new(child.stdout.take()?);
    Some(ChildProc { child, stdin, stdout, served: 0 })
}

/// Run the history in another process (its hash seeds differ from this one's; the process is replaced
/// every 200 histories so that many seeds are sampled) and return the final texts of A and B.
pub fn texts_in_fresh_process(pid: &str, history: &Value) -> Option<Vec<String>> {
    CHILD.with(|c| {
        let mut c = c.borrow_mut();
        if c.as_ref().map(|p| p.served >= 200).unwrap_or(false) {
            if let Some(mut old) = c.take() {
                drop(old.stdin);
                let _ = old.child.wait();
            }
        }
        if c.is_none() {
            *c = spawn_child(pid);
        }
        let p = c.as_mut()?;
        p.served += 1;
        let line = serde_json::to_string(history).ok()?;
        let ok = p.stdin.write_all(line.as_bytes()).is_ok() && p.stdin.write_all(b"\n").is_ok() && p.stdin.flush().is_ok();
        let mut resp = String::new();
        if !ok || !matches!(p.stdout.read_line(&mut resp), Ok(k) if k > 0) {
            if let Some(mut old) = c.take() {
                let _ = old.child.kill();
                let _ = old.child.wait();
            }
            return None;
        }
        let out: Outcome = serde_json::from_str(&resp).ok()?;
        if !out.violations.is_empty() {
            return None;
        }
        Some(out.divergences)
    })
}

fn final_texts(history: &Value) -> Vec<String> {
    ph_reset();
    let mut sym = Sym::default();
    let mut o = Outcome::ok(false);
    load_sym(history, &mut sym, &mut o);
    let mut m = Machine::default();
    for op in util::arr(history, "ops") {
        if is_observation(op) {
            continue;
        }
        m.apply(op, &mut sym, &mut o);
    }
    m.p.iter().map(|p| p.to_quil().unwrap_or_else(|e| format!("<to_quil failed: {e}>"))).collect()
}

fn load_sym(history: &Value, sym: &mut Sym, o: &mut Outcome) {
    if let Some(list) = history.get("sym").and_then(|s| s.as_array()) {
        for v in list {
            sym.intern_abs(v, o);
        }
    }
}

fn is_observation(op: &Value) -> bool {
    matches!(op["ev"].as_str(), Some("Obs") | Some("ObsConcat") | Some("ObsText") | Some("reset"))
}

// ------------------------------------------------------------------------------------------ replay

fn pid_of(ctx: &Ctx) -> String {
    ctx.mode.split('.').next().unwrap_or("C08").to_string()
}

/// history from a TLC case ({prof, ops}) or from a rejected recorded history ({"history":[events]})
fn history_of(case: &Value) -> Value {
    if let Some(h) = case.get("history").and_then(|h| h.as_array()) {
        let sym = h.first().and_then(|r| r.get("sym")).cloned().unwrap_or(json!([]));
        let ops: Vec<Value> = h.iter().filter(|e| e["ev"] != "reset").cloned().collect();
        json!({"sym": sym, "ops": ops, "recorded": true})
    } else {
        case.clone()
    }
}

fn nontrivial(pid: &str, ops: &[Value], sym: &Sym, m: &Machine) -> bool {
    let adds: Vec<&SymRec> = ops
        .iter()
        .filter(|o| o["ev"] == "Add")
        .filter_map(|o| match &o["i"] {
            Value::String(s) => sym.recs.get(s),
            v => v.get("id").and_then(|x| x.as_str()).and_then(|s| sym.recs.get(s)),
        })
        .collect();
    let redefinition = {
        let mut seen = HashSet::new();
        ops.iter().zip(0..).any(|(o, _)| {
            o["ev"] == "Add" && {
                let r = match &o["i"] {
                    Value::String(s) => sym.recs.get(s),
                    v => v.get("id").and_then(|x| x.as_str()).and_then(|s| sym.recs.get(s)),
                };
                r.map(|r| r.k != "Body" && !seen.insert((util::s(o, "dst"), r.k, r.key.clone()))).unwrap_or(false)
            }
        })
    };
    match pid {
        "C08" => {
            redefinition
                || m.p.iter().any(|p| {
                    let is = p.to_instructions();
                    TABLES.iter().any(|t| is.iter().filter(|i| kind_of(i) == *t).count() >= 2)
                })
        }
        "C09" => (redefinition || adds.iter().any(|r| r.k == "Extern")) && adds.iter().any(|r| r.k == "Body"),
        "C10" => redefinition || ops.iter().any(|o| !matches!(o["ev"].as_str(), Some("Add") | Some("Obs") | Some("ObsConcat") | Some("ObsText"))),
        "C11" => ops.iter().any(|o| matches!(o["ev"].as_str(), Some("Concat") | Some("AddAssign"))) && {
            // judged on the last concatenation's operands, recorded by replay in m (see below)
            true
        },
        _ => false,
    }
}

fn vsort(o: &mut Outcome) {
    // unlisted violations first: the summary keys a case by its first violation
    o.violations.sort_by_key(|v| v.finding.is_some());
}

pub fn replay(ctx: &Ctx, case: &Value) -> Outcome {
    let pid = pid_of(ctx);
    let history = history_of(case);
    if ctx.mode.ends_with(".child") {
        let mut o = Outcome::ok(false);
        o.divergences = final_texts(&history);
        return o;
    }
    if ctx.mode.ends_with(".canon") {
        // development aid: canonical text / kind / key / qubits of instruction texts
        let mut o = Outcome::ok(false);
        for t in util::arr(case, "texts") {
            let i = parse_instr(t.as_str().unwrap_or(""));
            let (q, _, _) = qubit_band(std::slice::from_ref(&i));
            o.diverge(json!({"text": canon_text(&i), "k": kind_of(&i), "key": key_of(&i), "qs": q}).to_string());
        }
        return o;
    }
    ph_reset();
    let mut o = Outcome::ok(false);
    let mut sym = Sym::default();
    load_sym(&history, &mut sym, &mut o);
    let ops = util::arr(&history, "ops").clone();
    let recorded = history.get("recorded").is_some();
    let mut m = Machine::default();
    let mut c11_nontrivial = false;
    for (n, op) in ops.iter().enumerate() {
        if is_observation(op) {
            continue;
        }
        let before = m.clone();
        let info = m.apply(op, &mut sym, &mut o);
        let here = format!("step {} ({})", n + 1, info.ev);
        if info.err.is_some() && info.ev != "Opaque" {
            o.diverge(format!("{here}: the real operation failed: {:?}", info.err));
            continue;
        }
        let dst = info.dst;
        let real = project(&m.p[dst], &mut sym);
        let eq_real = m.p[0] == m.p[1];
        // what the model expects after this step (absent for recorded histories and opaque results)
        let post = op.get("post").filter(|p| p.get("opaque").is_none() && !recorded);
        let want_listing: Option<Vec<String>> =
            post.map(|p| util::arr(p, "listing").iter().map(|x| x.as_str().unwrap_or("?").to_string()).collect());
        let want_used: Option<BTreeSet<String>> = post.map(|p| util::arr(p, "used").iter().map(qcanon_of_abs).collect());
        let listing_same = want_listing.as_ref().map(|w| *w == real.listing).unwrap_or(false);
        let used_same = want_used.as_ref().map(|w| *w == real.used).unwrap_or(false);
        let mut step_violated = false;

        match pid.as_str() {
            "C08" => {
                if !listing_same {
                    for f in order_failures(&real.listing, &m.log[dst], &sym) {
                        step_violated = true;
                        o.violate(
                            Violation::new("order of definitions within a kind", json!(want_listing), json!(real.listing))
                                .note(format!("{here}, register {}: {f}", RN[dst])),
                        );
                    }
                }
            }
            "C09" => {
                if real.into != real.listing {
                    step_violated = true;
                    o.violate(
                        Violation::new("into_instructions vs to_instructions", json!(real.listing), json!(real.into))
                            .note(format!("{here}, register {}", RN[dst])),
                    );
                }
                let rebuilt = Program::from_instructions(m.p[dst].to_instructions());
                let excluded = m.taint[dst] || m.pull[dst];
                if !excluded && rebuilt != m.p[dst] {
                    step_violated = true;
                    o.violate(
                        Violation::new("from_instructions(to_instructions(p)) == p", json!(true), json!(false))
                            .note(format!("{here}, register {}: listing {:?}", RN[dst], real.listing)),
                    );
                }
                if rebuilt.to_quil().ok() != real.text {
                    step_violated = true;
                    o.violate(
                        Violation::new("serialization of the rebuilt program", json!(real.text), json!(rebuilt.to_quil().ok()))
                            .note(format!("{here}, register {}", RN[dst])),
                    );
                }
                if !listing_same {
                    for f in body_and_last_value_failures(&real.listing, &m.log[dst], &sym) {
                        step_violated = true;
                        o.violate(
                            Violation::new("body order / last value of a keyed definition", json!(want_listing), json!(real.listing))
                                .note(format!("{here}, register {}: {f}", RN[dst])),
                        );
                    }
                }
            }
            "C10" => {
                if !m.pull[dst] {
                    if let Some((model, used)) = used_failure(&m.p[dst]) {
                        step_violated = true;
                        let mut v = Violation::new("get_used_qubits", used_json(&model), used_json(&used))
                            .note(format!("{here}, register {}: listing {:?}", RN[dst], real.listing));
                        if is_kf16_shape(&m.p[dst], m.taint[dst]) {
                            v = v.finding(KF16);
                        }
                        o.violate(v);
                    }
                }
                if !m.pull[0] && !m.pull[1] && listing_texts(&m.p[0]) == listing_texts(&m.p[1]) {
                    let kf = (is_kf16_shape(&m.p[0], m.taint[0]) || is_kf16_shape(&m.p[1], m.taint[1]))
                        && used_of(&m.p[0]) != used_of(&m.p[1]);
                    if !eq_real {
                        step_violated = true;
                        let mut v = Violation::new("== of two programs with the same listing", json!(true), json!(false))
                            .note(format!("{here}: listing {:?}, used {:?} vs {:?}", real.listing, used_of(&m.p[0]), used_of(&m.p[1])));
                        if kf {
                            v = v.finding(KF16);
                        }
                        o.violate(v);
                    }
                    let (fa, fb) = (frames_matched_by_reset(&m.p[0]), frames_matched_by_reset(&m.p[1]));
                    if fa != fb {
                        step_violated = true;
                        let mut v = Violation::new("matching_frames of RESET on two programs with the same listing", json!(fa), json!(fb))
                            .note(format!("{here}: listing {:?}", real.listing));
                        if kf {
                            v = v.finding(KF16);
                        }
                        o.violate(v);
                    }
                }
            }
            "C11" => {
                if let Some((a, b)) = &info.concat {
                    if !a.to_instructions().is_empty() && !b.to_instructions().is_empty() {
                        let (ba, bb) = (a.body_instructions().count(), b.body_instructions().count());
                        let ka: HashSet<(&str, String)> = a.to_instructions().iter().filter(|i| kind_of(i) != "Body").map(|i| (kind_of(i), key_of(i))).collect();
                        let shares = b.to_instructions().iter().any(|i| ka.contains(&(kind_of(i), key_of(i))));
                        c11_nontrivial |= shares || (ba > 0 && bb > 0);
                    }
                    let c = &m.p[dst];
                    let note = format!("{here}: A = {:?}, B = {:?}", listing_texts(a), listing_texts(b));
                    for (what, want, got) in concat_failures(a, b, c, !info.pull_apart) {
                        step_violated = true;
                        o.violate(Violation::new(&what, want, got).note(note.clone()));
                    }
                    // `+` and `+=` agree
                    let plus = a.clone() + b.clone();
                    let mut assign = a.clone();
                    assign += b.clone();
                    if !same_program(&plus, &assign) || !same_program(&plus, c) {
                        step_violated = true;
                        o.violate(Violation::new("A + B vs A += B", json!(listing_texts(&plus)), json!(listing_texts(&assign))).note(note.clone()));
                    }
                    // concatenation with an empty program is an identity
                    for x in [a, b] {
                        if !same_program(&(x.clone() + Program::new()), x) || !same_program(&(Program::new() + x.clone()), x) {
                            step_violated = true;
                            o.violate(
                                Violation::new("concatenation with an empty program", json!(listing_texts(x)),
                                               json!([listing_texts(&(x.clone() + Program::new())), listing_texts(&(Program::new() + x.clone()))]))
                                    .note(note.clone()),
                            );
                        }
                    }
                }
            }
            _ => {}
        }

        // anything else the model knows better is informational
        if let Some(p) = post {
            if !step_violated {
                if !listing_same {
                    o.diverge(format!("{here}: listing of {} is {:?}, model {:?}", RN[dst], real.listing, want_listing));
                }
                if !used_same && !m.taint[dst] {
                    o.diverge(format!("{here}: used qubits of {} are {:?}, model {:?}", RN[dst], real.used, want_used));
                }
                if p["len"].as_u64() != Some(real.len as u64) {
                    o.diverge(format!("{here}: len of {} is {}, model {}", RN[dst], real.len, p["len"]));
                }
                if let Some(e) = p.get("eq").and_then(|e| e.get("some")).and_then(|e| e.as_bool()) {
                    if e != eq_real && !m.taint[0] && !m.taint[1] {
                        o.diverge(format!("{here}: A == B is {eq_real}, model {e}"));
                    }
                }
                if let (Some(w), Some(t)) = (&want_listing, &real.text) {
                    if listing_same {
                        let joined: String = w.iter().map(|id| format!("{}\n", sym.recs[id].canon)).collect();
                        if joined != *t {
                            o.diverge(format!("{here}: to_quil of {} is not its listing joined by newlines", RN[dst]));
                        }
                    }
                }
            }
        }
        let _ = before;
    }

    // C10: label placeholders do not matter: resolving a LABEL/JUMP on a target placeholder appended to either
    // register rebuilds the cache, which must then be exact whatever the register went through
    if pid == "C10" {
        for r in 0..2 {
            if let Some(v) = label_probe(&m.p[r]) {
                o.violate(v.note(format!("register {} after the history, plus LABEL/JUMP on a target placeholder, resolve_placeholders()", RN[r])));
            }
        }
        o.sub_evaluations = 2;
    }
    // C08: the same history again in this process and in a fresh one: byte-identical text
    if pid == "C08" {
        let first: Vec<String> = m.p.iter().map(|p| p.to_quil().unwrap_or_default()).collect();
        let second = final_texts(&history);
        let third = texts_in_fresh_process("C08", &history);
        if first != second {
            o.violate(Violation::new("to_quil of the same history built twice in one process", json!(first), json!(second)));
        }
        match third {
            Some(t) if t == first => {}
            Some(t) => o.violate(Violation::new("to_quil of the same history built in another process", json!(first), json!(t))),
            None => o.diverge("fresh-process run not available"),
        }
        o.sub_evaluations = 3;
    }
    o.nontrivial = if pid == "C11" { c11_nontrivial } else { nontrivial(&pid, &ops, &sym, &m) };
    vsort(&mut o);
    o
}

// ------------------------------------------------------------------------------------------- drive

struct Gen {
    decl: Vec<String>,
    frame: Vec<String>,
    wave: Vec<String>,
    cal: Vec<String>,
    mcal: Vec<String>,
    gate: Vec<String>,
    circ: Vec<String>,
    ext: Vec<String>,
    body: Vec<String>,
}

fn generator(pid: &str) -> Gen {
    let c10 = pid == "C10";
    let mut decl = vec![];
    for n in ["ro", "theta", "acc", "loopn", "rf"] {
        for t in ["BIT", "REAL[2]", "INTEGER[3]"] {
            decl.push(format!("DECLARE {n} {t}"));
        }
    }
    decl.push("DECLARE shared BIT[8] SHARING acc OFFSET 1 BIT".into());
    let mut frame = vec![];
    if !c10 {
        // DEFFRAME is outside C10's alphabet (DESIGN §6 C10)
        for q in ["0", "1", "0 1", "1 0", "1 2"] {
            for n in ["rf", "ro"] {
                // one attribute; the same plus a second one (so that a redefinition with a strict subset of the
                // attributes occurs); other values
                for a in ["HARDWARE-OBJECT: \"h1\"", "HARDWARE-OBJECT: \"h1\"\n    INITIAL-FREQUENCY: 1e6", "HARDWARE-OBJECT: \"h2\"\n    INITIAL-FREQUENCY: 1e6"] {
                    frame.push(format!("DEFFRAME {q} \"{n}\":\n    {a}"));
                }
            }
        }
    }
    let mut wave = vec![];
    for n in ["wa", "wb", "wc"] {
        for b in ["1, 2", "0.5, 0.5, 0.5"] {
            wave.push(format!("DEFWAVEFORM {n}:\n    {b}"));
        }
    }
    wave.push("DEFWAVEFORM wp(%a):\n    %a, 2*%a".into());
    let mut cal = vec![];
    let heads: &[&str] = if c10 { &["X 0", "X 1", "RX(pi/2) 0", "CZ 0 1", "DAGGER X 0"] } else { &["X 0", "X 1", "X q", "RX(pi/2) 0", "RX(%t) 0", "CZ 0 1", "DAGGER X 0"] };
    let bodies: &[&str] = if c10 {
        &["Y 0", "Y 2", "Y 1\n    CNOT 3 4", "NOP", "DELAY 0 1.0", "FENCE 2 3", "MEASURE 4 ro[0]"]
    } else {
        &["Y 0", "Y 2", "Y 1\n    CNOT 3 4", "NOP", "DELAY 0 1.0", "PULSE 0 \"rf\" flat(duration: 1.0, iq: 1.0)", "SHIFT-PHASE 0 \"rf\" 0.5"]
    };
    for h in heads {
        for b in bodies {
            cal.push(format!("DEFCAL {h}:\n    {b}"));
        }
    }
    let mut mcal = vec![];
    let mheads: &[&str] = if c10 { &["MEASURE 0 addr", "MEASURE 1 addr", "MEASURE 0"] } else { &["MEASURE 0 addr", "MEASURE 1 addr", "MEASURE q addr", "MEASURE 0"] };
    for h in mheads {
        for b in ["X 0", "X 3", "NOP"] {
            mcal.push(format!("DEFCAL {h}:\n    {b}"));
        }
    }
    let mut gate = vec![];
    for n in ["G1", "G2"] {
        gate.push(format!("DEFGATE {n} AS MATRIX:\n    1, 0\n    0, 1"));
        gate.push(format!("DEFGATE {n} AS MATRIX:\n    0, 1\n    1, 0"));
    }
    gate.push("DEFGATE P1 AS PERMUTATION:\n    1, 0".into());
    gate.push("DEFGATE SQ a AS SEQUENCE:\n    X a\n    Y a".into());
    gate.push("DEFGATE SQ a AS SEQUENCE:\n    Z a".into());
    gate.push("DEFGATE SR(%t) a b AS SEQUENCE:\n    RX(%t) a\n    SQ b".into());
    let mut circ = vec![];
    for n in ["BELL", "G1"] {
        circ.push(format!("DEFCIRCUIT {n} a b:\n    H a\n    CNOT a b"));
        circ.push(format!("DEFCIRCUIT {n} a b:\n    CNOT b a"));
    }
    let mut ext = vec![];
    for n in ["foo", "bar", "baz"] {
        for s in ["\"INTEGER (x : INTEGER)\"", "\"(x : mut REAL[3])\""] {
            ext.push(format!("PRAGMA EXTERN {n} {s}"));
        }
    }
    let mut body: Vec<String> = vec![
        "X 0", "X 1", "Y 2", "CNOT 0 1", "CNOT 3 4", "RX(pi/2) 0", "RX(pi/2) 2", "CZ 0 1", "DAGGER X 0", "SQ 1", "SR(0.5) 2 3",
        "MEASURE 0 ro[0]", "MEASURE 1 ro[0]", "MEASURE 4", "RESET", "RESET 3", "DELAY 0 1.0", "DELAY 2 3 0.5", "FENCE 1 2",
        "FENCE", "NOP", "WAIT", "HALT", "MOVE acc[0] 1", "ADD acc[0] 2", "LABEL @a", "JUMP @a", "JUMP-WHEN @a ro[0]",
        "PRAGMA note", "PRAGMA other 1 \"data\"", "CALL foo acc[0]", "G1 0", "BELL 0 1",
        // near-misses of the EXTERN routing: they belong to the body whatever their first argument is
        "PRAGMA extern foo \"INTEGER (x : INTEGER)\"", "PRAGMA Extern bar \"(x : mut REAL[3])\"", "PRAGMA EXTERNS foo \"INTEGER (x : INTEGER)\"",
        "PRAGMA EXTERN_ baz", "PRAGMA extern",
    ]
    .into_iter()
    .map(String::from)
    .collect();
    if !c10 {
        // frame operands are outside C10's alphabet
        for s in [
            "PULSE 0 \"rf\" flat(duration: 1.0, iq: 1.0)", "PULSE 1 \"rf\" wa", "NONBLOCKING PULSE 0 1 \"rf\" wb",
            "CAPTURE 0 \"ro\" flat(duration: 1.0, iq: 1.0) ro[0]", "RAW-CAPTURE 1 \"ro\" 1.0 theta[0]",
            "SHIFT-PHASE 0 \"rf\" 0.5", "SET-FREQUENCY 1 \"rf\" 1e6", "SWAP-PHASES 0 \"rf\" 1 \"rf\"",
        ] {
            body.push(s.into());
        }
    } else {
        for s in ["PULSE 0 \"rf\" flat(duration: 1.0, iq: 1.0)", "CAPTURE 2 \"ro\" flat(duration: 1.0, iq: 1.0) ro[0]", "RAW-CAPTURE 1 \"ro\" 1.0 theta[0]"] {
            body.push(s.into());
        }
        // gates on three distinct qubit placeholders, alone and mixed with fixed qubits; and placeholders inside
        // calibration bodies (which resolution does not touch)
        for s in ["X {ph1}", "Y {ph2}", "H {ph3}", "CNOT {ph1} 0", "CNOT 1 {ph2}", "CNOT {ph1} {ph2}", "CZ {ph3} {ph1}", "X {ph1}", "CNOT {ph2} 3"] {
            body.push(s.into());
        }
        for s in ["DEFCAL X 0:\n    Y {ph3}", "DEFCAL CZ 0 1:\n    CNOT {ph1} 0", "DEFCAL X 1:\n    Y 1\n    H {ph2}"] {
            cal.push(s.into());
        }
        mcal.push("DEFCAL MEASURE 0 addr:\n    X {ph3}".into());
    }
    Gen { decl, frame, wave, cal, mcal, gate, circ, ext, body }
}

impl Gen {
    fn pick(&self, r: &mut impl Rng, body_weight: u32) -> String {
        let tables: Vec<&Vec<String>> =
            [&self.decl, &self.frame, &self.wave, &self.cal, &self.mcal, &self.gate, &self.circ, &self.ext].into_iter().filter(|t| !t.is_empty()).collect();
        if r.gen_range(0..100) < body_weight {
            self.body.choose(r).unwrap().clone()
        } else {
            tables.choose(r).unwrap().choose(r).unwrap().clone()
        }
    }
}

fn proj_json(p: &Proj) -> Value {
    json!({"listing": p.listing, "used": used_json(&p.used), "len": p.len})
}

struct Recorder {
    sym: Sym,
    m: Machine,
    events: Vec<Value>,
    kf_hits: u64,
    ops: Vec<Value>,
}

impl Recorder {
    fn new() -> Self {
        ph_reset();
        Recorder { sym: Sym::default(), m: Machine::default(), events: vec![], kf_hits: 0, ops: vec![] }
    }

    fn sid(&mut self, text: &str) -> String {
        self.sym.intern_instr(None, parse_instr(text))
    }

    /// run one mutation on the real registers and record it with its projected post-state
    fn mutate(&mut self, mut op: Value) -> bool {
        let mut scratch = Outcome::ok(false);
        let before = self.m.clone();
        let info = self.m.apply(&op, &mut self.sym, &mut scratch);
        if info.err.is_some() {
            self.m = before;
            return false;
        }
        let dst = info.dst;
        let real = project(&self.m.p[dst], &mut self.sym);
        let mut post = proj_json(&real);
        post["eq"] = json!(self.m.p[0] == self.m.p[1]);
        if op["ev"] == "Supplied" {
            op["listing"] = json!(real.listing);
        }
        if op["ev"] == "Resolve" && op.get("mode").and_then(|v| v.as_str()) != Some("custom") {
            // the default resolver's choices are the real code's
            op["mode"] = json!("default");
            op["map"] = json!(info.map.iter().map(|(k, n)| json!({"ph": k, "n": n})).collect::<Vec<_>>());
        }
        // known finding 16: the harness recognises the exact shape and says so in the record, the trace
        // specification then follows the as-built deviation for this step only
        let fresh_taint = matches!(op["ev"].as_str(), Some("CloneWithoutBody") | Some("Supplied")) && self.m.taint[dst];
        if fresh_taint && is_kf16_shape(&self.m.p[dst], true) {
            op["kf"] = json!(KF16);
            self.kf_hits += 1;
        }
        op["post"] = post;
        self.ops.push(op.clone());
        self.events.push(op);
        if let Some((a, b)) = &info.concat {
            let c = self.m.p[dst].clone();
            let (pa, pb, pc) = (project(a, &mut self.sym), project(b, &mut self.sym), project(&c, &mut self.sym));
            let plus = a.clone() + b.clone();
            let mut assign = a.clone();
            assign += b.clone();
            let ident = |x: &Program| same_program(&(x.clone() + Program::new()), x) && same_program(&(Program::new() + x.clone()), x);
            self.events.push(json!({"ev": "ObsConcat", "dst": RN[dst], "a": proj_json(&pa), "b": proj_json(&pb), "c": proj_json(&pc),
                "plus_is_assign": same_program(&plus, &assign) && same_program(&plus, &c),
                "identity": ident(a) && ident(b)}));
        }
        true
    }

    /// The public observations of both registers.  `full` additionally records the serialized texts (ObsText
    /// events, compared with the model's ToQuil as binding only: the exact layout of the text is not part of
    /// any property; C08 judges that the definitions appear *in the text* in listing order, `text_ordered`).
    fn observe(&mut self, det: Option<bool>, full: bool) {
        let mut ev = json!({"ev": "Obs", "eq": self.m.p[0] == self.m.p[1]});
        let mut frames = vec![];
        for r in 0..2 {
            let p = self.m.p[r].clone();
            let real = project(&p, &mut self.sym);
            let rebuilt = Program::from_instructions(p.to_instructions());
            frames.push(frames_matched_by_reset(&p));
            let text = real.text.clone().unwrap_or_else(|| "<unprintable>".into());
            let mut at = 0usize;
            let mut ordered = real.text.is_some();
            for i in p.to_instructions() {
                match text[at..].find(&canon_text(&i)) {
                    Some(k) => at += k + 1,
                    None => {
                        ordered = false;
                        break;
                    }
                }
            }
            if full {
                self.events.push(json!({"ev": "ObsText", "r": RN[r], "text": text}));
            }
            ev[RN[r]] = json!({"listing": real.listing, "into": real.into, "used": used_json(&real.used), "len": real.len,
                "text_ordered": ordered,
                "rebuilt_eq": rebuilt == p, "rebuilt_text": rebuilt.to_quil().ok() == real.text});
        }
        ev["reset_frames_same"] = json!(frames[0] == frames[1]);
        if let Some(d) = det {
            ev["det"] = json!(d);
        }
        self.events.push(ev);
    }
}

pub fn drive(ctx: &Ctx) -> Summary {
    let pid = pid_of(ctx);
    let n = ctx.arg_u64("n", 100);
    let max_len = ctx.arg_u64("len", 40) as usize;
    let path = ctx.arg_str("out").expect("--out");
    let mut out = std::io::BufWriter::new(std::fs::File::create(path).expect("create trace"));
    let stream = match pid.as_str() {
        "C08" => 8,
        "C09" => 9,
        "C10" => 10,
        _ => 11,
    };
    let mut rng = util::rng(ctx.seed, stream);
    let gen = generator(&pid);
    let mut sum = Summary::default();
    for h in 0..n {
        let mut rec = Recorder::new();
        let len = if h < 3 { h as usize + 1 } else { rng.gen_range(max_len / 2..=max_len) };
        match pid.as_str() {
            "C08" | "C09" => {
                // adds (every kind several times: the alphabet has ~10 texts per kind over 2-4 keys), bulk
                // adds, and for C08 a concatenation of the two registers at the end
                for _ in 0..len {
                    let r = if pid == "C08" && rng.gen_bool(0.35) { "B" } else { "A" };
                    match rng.gen_range(0..100) {
                        0..=84 => {
                            let id = rec.sid(&gen.pick(&mut rng, 25));
                            rec.mutate(json!({"ev": "Add", "dst": r, "i": id}));
                        }
                        85..=94 => {
                            let k = rng.gen_range(0..4);
                            let ids: Vec<String> = (0..k).map(|_| rec.sid(&gen.pick(&mut rng, 25))).collect();
                            rec.mutate(json!({"ev": "AddMany", "dst": r, "is": ids}));
                        }
                        _ => {
                            // rebuild from the own listing followed by more adds
                            let ids = project(&rec.m.p[ri(r)], &mut rec.sym).listing;
                            rec.mutate(json!({"ev": "FromInstructions", "dst": r, "is": ids}));
                        }
                    }
                    if rng.gen_range(0..100) < 8 {
                        rec.observe(None, true);
                    }
                }
                if pid == "C08" {
                    match rng.gen_range(0..3) {
                        0 => {
                            rec.mutate(json!({"ev": "Concat", "dst": "A", "a": "A", "b": "B"}));
                        }
                        1 => {
                            rec.mutate(json!({"ev": "Concat", "dst": "A", "a": "B", "b": "A"}));
                        }
                        _ => {
                            rec.mutate(json!({"ev": "AddAssign", "dst": "A", "b": "B"}));
                        }
                    }
                }
            }
            "C11" => {
                let la = rng.gen_range(0..=len / 2);
                let lb = rng.gen_range(0..=len / 2);
                for _ in 0..la {
                    let id = rec.sid(&gen.pick(&mut rng, 30));
                    rec.mutate(json!({"ev": "Add", "dst": "A", "i": id}));
                }
                for _ in 0..lb {
                    let id = rec.sid(&gen.pick(&mut rng, 30));
                    rec.mutate(json!({"ev": "Add", "dst": "B", "i": id}));
                }
                for _ in 0..rng.gen_range(1..=3) {
                    let (x, y) = if rng.gen_bool(0.5) { ("A", "B") } else { ("B", "A") };
                    if rng.gen_bool(0.5) {
                        rec.mutate(json!({"ev": "Concat", "dst": x, "a": x, "b": y}));
                    } else {
                        rec.mutate(json!({"ev": "AddAssign", "dst": x, "b": y}));
                    }
                    let id = rec.sid(&gen.pick(&mut rng, 30));
                    rec.mutate(json!({"ev": "Add", "dst": y, "i": id}));
                }
            }
            _ => {
                // C10: every public operation, observation of the cache and of == after every step
                for _ in 0..len {
                    let (x, y) = if rng.gen_bool(0.5) { ("A", "B") } else { ("B", "A") };
                    let ok = match rng.gen_range(0..100) {
                        0..=54 => {
                            let id = rec.sid(&gen.pick(&mut rng, 40));
                            rec.mutate(json!({"ev": "Add", "dst": x, "i": id}))
                        }
                        55..=59 => rec.mutate(json!({"ev": "Concat", "dst": x, "a": x, "b": y})),
                        60..=64 => rec.mutate(json!({"ev": "AddAssign", "dst": x, "b": y})),
                        65..=68 => rec.mutate(json!({"ev": "CloneWithoutBody", "dst": x, "a": y})),
                        69..=71 => rec.mutate(json!({"ev": "Clone", "dst": x, "a": y})),
                        72..=74 => rec.mutate(json!({"ev": "Resolve", "mode": "default", "dst": x})),
                        75 => rec.mutate(json!({"ev": "Supplied", "name": "Dagger", "dst": x, "a": y})),
                        76..=79 => {
                            let ids = project(&rec.m.p[ri(y)], &mut rec.sym).listing;
                            let via = ["from_instructions", "from_vec", "from_str"][rng.gen_range(0..3)];
                            rec.mutate(json!({"ev": "FromInstructions", "via": via, "dst": x, "is": ids}))
                        }
                        80..=83 => {
                            let drop: Vec<&str> = match rng.gen_range(0..3) {
                                0 => vec!["Body"],
                                1 => vec!["DefCal", "DefCalMeasure"],
                                _ => vec!["Declare", "DefGate"],
                            };
                            rec.mutate(json!({"ev": "Filter", "dst": x, "a": y, "drop": drop}))
                        }
                        84..=87 => {
                            let name = if rng.gen_bool(0.5) { "ExpandCalibrations" } else { "ExpandCalibrationsWithSourceMap" };
                            rec.mutate(json!({"ev": "Supplied", "name": name, "dst": x, "a": y}))
                        }
                        88..=90 => rec.mutate(json!({"ev": "Supplied", "name": "Simplify", "dst": x, "a": y})),
                        91..=93 => match rng.gen_range(0..4u64) {
                            0 => rec.mutate(json!({"ev": "CloneWithoutBody", "dst": x, "a": y, "via": "wrap_in_loop"})),
                            1 => rec.mutate(json!({"ev": "Clone", "dst": x, "a": y, "via": "wrap_in_loop"})),
                            k => rec.mutate(json!({"ev": "Supplied", "name": "WrapInLoop", "n": k, "dst": x, "a": y})),
                        },
                        94..=95 => {
                            let name = if rng.gen_bool(0.5) { "ExpandDefGateSequences" } else { "ExpandDefGateSequencesWithSourceMap" };
                            rec.mutate(json!({"ev": "Supplied", "name": name, "dst": x, "a": y}))
                        }
                        96..=97 => {
                            // a custom qubit resolver: a random partial map over the history's placeholders
                            let mut map: Vec<Value> = vec![];
                            for k in 1..=3u64 {
                                if rng.gen_bool(0.5) {
                                    map.push(json!({"ph": k, "n": rng.gen_range(0..8u64)}));
                                }
                            }
                            rec.mutate(json!({"ev": "Resolve", "mode": "custom", "dst": x, "map": map}))
                        }
                        _ => {
                            let k = rng.gen_range(0..4);
                            let ids: Vec<String> = (0..k).map(|_| rec.sid(&gen.pick(&mut rng, 40))).collect();
                            rec.mutate(json!({"ev": "AddMany", "dst": x, "is": ids}))
                        }
                    };
                    if ok {
                        rec.observe(None, false);
                    }
                }
            }
        }
        // final observation; for C08 with the determinism verdict of a second build here and one in a fresh process
        let det = if pid == "C08" {
            let history = json!({"sym": rec.sym.sym_json(), "ops": rec.ops});
            let first: Vec<String> = rec.m.p.iter().map(|p| p.to_quil().unwrap_or_default()).collect();
            let second = final_texts(&history);
            let third = texts_in_fresh_process("C08", &history);
            Some(first == second && third.as_ref() == Some(&first))
        } else {
            None
        };
        rec.observe(det, pid != "C10");
        util::emit(&mut out, &json!({"ev": "reset", "sym": rec.sym.sym_json()}));
        for e in &rec.events {
            util::emit(&mut out, e);
        }
        let mut o = Outcome::ok(nontrivial(&pid, &rec.ops, &rec.sym, &rec.m));
        o.count_n("events", rec.events.len() as u64 + 1);
        if rec.kf_hits > 0 && pid == "C10" {
            o.count_n("kf16_steps", rec.kf_hits);
            o.violate(
                Violation::new("get_used_qubits", json!("qubits of the retained calibrations"), json!("missing"))
                    .note("recorded history goes through clone_without_body_instructions with calibrations that mention qubits")
                    .finding(KF16),
            );
        }
        sum.absorb(&json!({"ops": rec.ops.iter().take(12).collect::<Vec<_>>()}), &o, true);
    }
    sum
}
