//! C34 — placeholder resolution assigns unique, consistent values.
//!
//! replay: TLC cases {body, mode, tmap, qmap, result} from spec/mc/MC_Placeholders.tla are executed on
//!         `Program::resolve_placeholders` (mode "default") or
//!         `Program::resolve_placeholders_with_custom_resolvers` (mode "custom", the partial maps of the case).
//!         The model's instruction classes are spelled as concrete instructions in three ways so that every
//!         qubit-carrying instruction kind (GATE, MEASURE, RESET, DELAY, FENCE, PULSE, CAPTURE, RAW-CAPTURE,
//!         SET-FREQUENCY/PHASE/SCALE, SHIFT-FREQUENCY/PHASE, SWAP-PHASES) and every target-carrying kind is hit.
//! drive:  seeded random bodies (longer, more placeholders, all kinds, arities 1..3), default and custom
//!         resolution, recorded as reset / tresolver / qresolver / resolved events for
//!         spec/trace/PlaceholdersTrace.tla.
//!
//! Programs are built by parsing a template per kind and overwriting its public qubit / target fields;
//! results are read back through the same public fields (`read_back`) - never through `get_qubits`, which
//! is part of what is being checked.
//!
//! Verdict = the statement (`requirement_failures`): every placeholder replaced, consistently, injectively,
//! away from fixed qubits / labels of the body (default); exactly the returned ones replaced (custom).
//! The exact numbers / names chosen by the default resolvers are divergence only.
//! Guards fix 3e5db1c (qubit placeholders inside the frames of SET-*, SHIFT-*, SWAP-PHASES).

use crate::runner::{Outcome, Summary, Violation};
use crate::util::{self, arr, instr, s};
use crate::Ctx;
use quil_rs::instruction::{Instruction, Qubit, QubitPlaceholder, Target, TargetPlaceholder};
use quil_rs::quil::Quil;
use quil_rs::Program;
use rand::seq::SliceRandom;
use rand::Rng;
use serde_json::{json, Value};
use std::collections::{BTreeMap, BTreeSet};

const T_KINDS: [&str; 4] = ["Label", "Jump", "JumpWhen", "JumpUnless"];
const GATE_LIKE_1: [&str; 8] = ["Gate", "Measure", "Reset", "Delay", "Fence", "Pulse", "Capture", "RawCapture"];
const GATE_LIKE_N: [&str; 6] = ["Gate", "Fence", "Delay", "Pulse", "Capture", "RawCapture"];
const UPDATES: [&str; 5] = ["ShiftPhase", "SetFrequency", "SetPhase", "SetScale", "ShiftFrequency"];

fn is_t(kind: &str) -> bool {
    T_KINDS.contains(&kind)
}

/// identity table of the placeholders of one program
#[derive(Default)]
struct Ids {
    q: BTreeMap<u64, QubitPlaceholder>,
    t: BTreeMap<u64, TargetPlaceholder>,
}

impl Ids {
    fn qubit(&mut self, v: &Value) -> Qubit {
        match s(v, "t").as_str() {
            "fixed" => Qubit::Fixed(util::u(v, "n")),
            "var" => Qubit::Variable(s(v, "s")),
            "ph" => Qubit::Placeholder(self.q.entry(util::u(v, "id")).or_default().clone()),
            other => panic!("unknown qubit tag {other}"),
        }
    }
    fn target(&mut self, v: &Value) -> Target {
        match s(v, "t").as_str() {
            "fixed" => Target::Fixed(s(v, "s")),
            "ph" => {
                let base = s(v, "base");
                Target::Placeholder(self.t.entry(util::u(v, "id")).or_insert_with(|| TargetPlaceholder::new(base)).clone())
            }
            other => panic!("unknown target tag {other}"),
        }
    }
    fn qubit_abs(&self, q: &Qubit) -> Value {
        match q {
            Qubit::Fixed(n) => json!({"t": "fixed", "n": n}),
            Qubit::Variable(v) => json!({"t": "var", "s": v}),
            Qubit::Placeholder(p) => match self.q.iter().find(|(_, x)| *x == p) {
                Some((id, _)) => json!({"t": "ph", "id": id}),
                None => json!({"t": "ph", "id": 999}), // a placeholder the body never contained
            },
        }
    }
    fn target_abs(&self, t: &Target) -> Value {
        match t {
            Target::Fixed(name) => json!({"t": "fixed", "s": name}),
            Target::Placeholder(p) => match self.t.iter().find(|(_, x)| *x == p) {
                Some((id, _)) => json!({"t": "ph", "id": id, "base": p.as_inner()}),
                None => json!({"t": "ph", "id": 999, "base": p.as_inner()}),
            },
        }
    }
}

/// build one concrete instruction of the given kind on the given qubits / target
fn make(kind: &str, qs: Vec<Qubit>, target: Option<Target>) -> Instruction {
    let template = match kind {
        "Gate" => "X 0",
        "Measure" => "MEASURE 0 ro[0]",
        "Reset" => "RESET 0",
        "Delay" => "DELAY 0 1.0",
        "Fence" => "FENCE 0",
        "Pulse" => "PULSE 0 \"rf\" wf",
        "Capture" => "CAPTURE 0 \"ro\" wf ro[0]",
        "RawCapture" => "RAW-CAPTURE 0 \"ro\" 1.0 raw[0]",
        "SetFrequency" => "SET-FREQUENCY 0 \"rf\" 1.0",
        "SetPhase" => "SET-PHASE 0 \"rf\" 1.0",
        "SetScale" => "SET-SCALE 0 \"rf\" 1.0",
        "ShiftFrequency" => "SHIFT-FREQUENCY 0 \"rf\" 1.0",
        "ShiftPhase" => "SHIFT-PHASE 0 \"rf\" 1.0",
        "SwapPhases" => "SWAP-PHASES 0 \"rf\" 1 \"rf\"",
        "Label" => "LABEL @x",
        "Jump" => "JUMP @x",
        "JumpWhen" => "JUMP-WHEN @x ro[0]",
        "JumpUnless" => "JUMP-UNLESS @x ro[0]",
        other => panic!("unknown kind {other}"),
    };
    let mut i = instr(template);
    let one = |qs: &Vec<Qubit>| -> Qubit {
        assert!(qs.len() == 1, "{kind} takes one qubit");
        qs[0].clone()
    };
    match &mut i {
        Instruction::Gate(g) => g.qubits = qs,
        Instruction::Measurement(m) => m.qubit = one(&qs),
        Instruction::Reset(r) => r.qubit = Some(one(&qs)),
        Instruction::Delay(d) => d.qubits = qs,
        Instruction::Fence(f) => f.qubits = qs,
        Instruction::Pulse(p) => p.frame.qubits = qs,
        Instruction::Capture(c) => c.frame.qubits = qs,
        Instruction::RawCapture(c) => c.frame.qubits = qs,
        Instruction::SetFrequency(x) => x.frame.qubits = qs,
        Instruction::SetPhase(x) => x.frame.qubits = qs,
        Instruction::SetScale(x) => x.frame.qubits = qs,
        Instruction::ShiftFrequency(x) => x.frame.qubits = qs,
        Instruction::ShiftPhase(x) => x.frame.qubits = qs,
        Instruction::SwapPhases(x) => {
            let cut = (qs.len() + 1) / 2;
            x.frame_1.qubits = qs[..cut].to_vec();
            x.frame_2.qubits = qs[cut..].to_vec();
        }
        Instruction::Label(l) => l.target = target.expect("target"),
        Instruction::Jump(j) => j.target = target.expect("target"),
        Instruction::JumpWhen(j) => j.target = target.expect("target"),
        Instruction::JumpUnless(j) => j.target = target.expect("target"),
        other => panic!("template of {kind} parsed as {other:?}"),
    }
    i
}

/// abstraction of a real instruction through its public fields
fn read_back(i: &Instruction, ids: &Ids) -> Value {
    let q = |k: &str, qs: Vec<&Qubit>| json!({"k": k, "qs": qs.into_iter().map(|x| ids.qubit_abs(x)).collect::<Vec<_>>()});
    match i {
        Instruction::Gate(g) => q("Gate", g.qubits.iter().collect()),
        Instruction::Measurement(m) => q("Measure", vec![&m.qubit]),
        Instruction::Reset(r) => q("Reset", r.qubit.iter().collect()),
        Instruction::Delay(d) => q("Delay", d.qubits.iter().collect()),
        Instruction::Fence(f) => q("Fence", f.qubits.iter().collect()),
        Instruction::Pulse(p) => q("Pulse", p.frame.qubits.iter().collect()),
        Instruction::Capture(c) => q("Capture", c.frame.qubits.iter().collect()),
        Instruction::RawCapture(c) => q("RawCapture", c.frame.qubits.iter().collect()),
        Instruction::SetFrequency(x) => q("SetFrequency", x.frame.qubits.iter().collect()),
        Instruction::SetPhase(x) => q("SetPhase", x.frame.qubits.iter().collect()),
        Instruction::SetScale(x) => q("SetScale", x.frame.qubits.iter().collect()),
        Instruction::ShiftFrequency(x) => q("ShiftFrequency", x.frame.qubits.iter().collect()),
        Instruction::ShiftPhase(x) => q("ShiftPhase", x.frame.qubits.iter().collect()),
        Instruction::SwapPhases(x) => q("SwapPhases", x.frame_1.qubits.iter().chain(&x.frame_2.qubits).collect()),
        Instruction::Label(l) => json!({"k": "Label", "target": ids.target_abs(&l.target)}),
        Instruction::Jump(j) => json!({"k": "Jump", "target": ids.target_abs(&j.target)}),
        Instruction::JumpWhen(j) => json!({"k": "JumpWhen", "target": ids.target_abs(&j.target)}),
        Instruction::JumpUnless(j) => json!({"k": "JumpUnless", "target": ids.target_abs(&j.target)}),
        other => json!({"k": "Other", "text": other.to_quil_or_debug()}),
    }
}

fn build(body: &[Value]) -> (Program, Ids) {
    let mut ids = Ids::default();
    let mut p = Program::new();
    for i in body {
        let kind = s(i, "k");
        let ins = if is_t(&kind) {
            let t = ids.target(&i["target"]);
            make(&kind, vec![], Some(t))
        } else {
            let qs = arr(i, "qs").iter().map(|q| ids.qubit(q)).collect();
            make(&kind, qs, None)
        };
        p.add_instruction(ins);
    }
    (p, ids)
}

fn pairs_u64(v: &Value) -> BTreeMap<u64, u64> {
    v.as_array().map(|a| a.iter().map(|p| (util::u(p, "id"), util::u(p, "v"))).collect()).unwrap_or_default()
}
fn pairs_str(v: &Value) -> BTreeMap<u64, String> {
    v.as_array().map(|a| a.iter().map(|p| (util::u(p, "id"), s(p, "v"))).collect()).unwrap_or_default()
}

/// run the real resolution; returns the resolved body (abstract)
fn resolve_real(
    body: &[Value],
    mode: &str,
    tmap: &BTreeMap<u64, String>,
    qmap: &BTreeMap<u64, u64>,
) -> (Vec<Value>, Value, Value, bool) {
    let (mut p, ids) = build(body);
    // the default resolvers, queried on every placeholder of the body (recorded for the trace)
    let tr = p.default_target_resolver();
    let qr = p.default_qubit_resolver();
    let tres: Vec<Value> = ids.t.iter().filter_map(|(id, ph)| tr(ph).map(|v| json!({"id": id, "v": v}))).collect();
    let qres: Vec<Value> = ids.q.iter().filter_map(|(id, ph)| qr(ph).map(|v| json!({"id": id, "v": v}))).collect();
    drop(tr);
    drop(qr);
    if mode == "default" {
        p.resolve_placeholders();
    } else {
        let tt: Vec<(TargetPlaceholder, String)> =
            tmap.iter().filter_map(|(id, v)| ids.t.get(id).map(|ph| (ph.clone(), v.clone()))).collect();
        let qq: Vec<(QubitPlaceholder, u64)> = qmap.iter().filter_map(|(id, v)| ids.q.get(id).map(|ph| (ph.clone(), *v))).collect();
        p.resolve_placeholders_with_custom_resolvers(
            Box::new(move |ph| tt.iter().find(|(x, _)| x == ph).map(|(_, v)| v.clone())),
            Box::new(move |ph| qq.iter().find(|(x, _)| x == ph).map(|(_, v)| *v)),
        );
    }
    let result: Vec<Value> = p.body_instructions().map(|i| read_back(i, &ids)).collect();
    let printable = p.to_quil().is_ok();
    (result, Value::Array(tres), Value::Array(qres), printable)
}

fn occurrences(b: &[Value]) -> Vec<(usize, usize)> {
    // (instruction, 0) = its target; (instruction, j >= 1) = its j-th qubit
    let mut v = vec![];
    for (m, i) in b.iter().enumerate() {
        if i.get("target").is_some() {
            v.push((m, 0));
        } else if let Some(qs) = i.get("qs").and_then(|q| q.as_array()) {
            for j in 0..qs.len() {
                v.push((m, j + 1));
            }
        }
    }
    v
}
fn at<'a>(b: &'a [Value], o: (usize, usize)) -> &'a Value {
    if o.1 == 0 {
        &b[o.0]["target"]
    } else {
        &b[o.0]["qs"][o.1 - 1]
    }
}
fn is_ph(v: &Value) -> bool {
    v["t"] == "ph"
}

/// The statement on (body, result): list of (observable, detail) for every requirement that fails.
pub fn requirement_failures(
    b: &[Value],
    r: &[Value],
    mode: &str,
    tmap: &BTreeMap<u64, String>,
    qmap: &BTreeMap<u64, u64>,
) -> Vec<(String, String)> {
    let mut f = vec![];
    // shape: same instructions, only placeholder operands may change
    let shape_ok = r.len() == b.len()
        && b.iter().zip(r).all(|(x, y)| {
            x["k"] == y["k"]
                && x.get("target").is_some() == y.get("target").is_some()
                && x.get("qs").and_then(|q| q.as_array()).map(|q| q.len())
                    == y.get("qs").and_then(|q| q.as_array()).map(|q| q.len())
        });
    if !shape_ok {
        f.push(("body shape".to_string(), "instructions or operand counts changed".to_string()));
        return f;
    }
    let occ = occurrences(b);
    for &o in &occ {
        if !is_ph(at(b, o)) && at(b, o) != at(r, o) {
            f.push(("non-placeholder operand changed".to_string(), format!("{} -> {}", at(b, o), at(r, o))));
        }
    }
    let phs: Vec<(usize, usize)> = occ.iter().cloned().filter(|&o| is_ph(at(b, o))).collect();
    if mode == "default" {
        let fixed_q: BTreeSet<u64> = occ.iter().filter(|&&o| o.1 > 0 && at(b, o)["t"] == "fixed").map(|&o| at(b, o)["n"].as_u64().unwrap()).collect();
        let fixed_t: BTreeSet<String> =
            occ.iter().filter(|&&o| o.1 == 0 && at(b, o)["t"] == "fixed").map(|&o| s(at(b, o), "s")).collect();
        for &o in &phs {
            let v = at(r, o);
            if v["t"] != "fixed" {
                f.push((
                    if o.1 == 0 { "unresolved label placeholder" } else { "unresolved qubit placeholder" }.to_string(),
                    format!("instruction {} ({}) still holds {}", o.0, r[o.0]["k"], v),
                ));
                continue;
            }
            if o.1 > 0 && fixed_q.contains(&v["n"].as_u64().unwrap()) {
                f.push(("resolved qubit equals a fixed qubit of the body".to_string(), format!("{v}")));
            }
            if o.1 == 0 && fixed_t.contains(v["s"].as_str().unwrap()) {
                f.push(("resolved label equals an existing label or jump target".to_string(), format!("{v}")));
            }
        }
        for &o1 in &phs {
            for &o2 in &phs {
                if o1 >= o2 || (o1.1 == 0) != (o2.1 == 0) {
                    continue;
                }
                let same = at(b, o1)["id"] == at(b, o2)["id"];
                let both_fixed = at(r, o1)["t"] == "fixed" && at(r, o2)["t"] == "fixed";
                if same && at(r, o1) != at(r, o2) {
                    f.push(("one placeholder, two values".to_string(), format!("{} vs {}", at(r, o1), at(r, o2))));
                }
                if !same && both_fixed && at(r, o1) == at(r, o2) {
                    f.push(("two placeholders, one value".to_string(), format!("{}", at(r, o1))));
                }
            }
        }
    } else {
        for &o in &phs {
            let id = at(b, o)["id"].as_u64().unwrap();
            let want = if o.1 == 0 {
                tmap.get(&id).map(|n| json!({"t": "fixed", "s": n}))
            } else {
                qmap.get(&id).map(|n| json!({"t": "fixed", "n": n}))
            }
            .unwrap_or_else(|| at(b, o).clone());
            if at(r, o) != &want {
                f.push((
                    "custom resolver: not exactly the returned placeholders replaced".to_string(),
                    format!("instruction {} ({}): expected {}, found {}", o.0, r[o.0]["k"], want, at(r, o)),
                ));
            }
        }
    }
    f
}

/// concrete spelling of a model class
fn spell(kind: &str, arity: usize, pos: usize, spelling: usize) -> &'static str {
    let n = pos + spelling;
    match kind {
        "Gate" if arity == 1 => GATE_LIKE_1[(n * 3 + spelling) % GATE_LIKE_1.len()],
        "Gate" => GATE_LIKE_N[(n * 5 + spelling) % GATE_LIKE_N.len()],
        "ShiftPhase" => UPDATES[n % UPDATES.len()],
        "SwapPhases" => "SwapPhases",
        // one target-carrying model class: every position is a LABEL, a JUMP and a conditional jump once
        // over the three spellings (so fixed names also occur only as jump targets, without a LABEL)
        "Label" => match n % 3 {
            0 => "Label",
            1 => "Jump",
            _ => ["JumpWhen", "JumpUnless"][pos % 2],
        },
        "Jump" => "Jump",
        "JumpWhen" => ["JumpWhen", "JumpUnless"][n % 2],
        other => panic!("unknown model class {other}"),
    }
}

fn spelled_body(body: &[Value], spelling: usize) -> Vec<Value> {
    body.iter()
        .enumerate()
        .map(|(pos, i)| {
            let mut i = i.clone();
            let arity = i.get("qs").and_then(|q| q.as_array()).map(|q| q.len()).unwrap_or(0);
            i["k"] = json!(spell(&s(&i, "k"), arity, pos, spelling));
            i
        })
        .collect()
}

fn nontrivial(body: &[Value]) -> bool {
    let occ = occurrences(body);
    occ.iter().any(|&o| is_ph(at(body, o))) && occ.iter().any(|&o| at(body, o)["t"] == "fixed")
}

fn judge(o: &mut Outcome, body: &[Value], mode: &str, tmap: &BTreeMap<u64, String>, qmap: &BTreeMap<u64, u64>, want: Option<&[Value]>, what: &str) {
    let (result, _, _, printable) = resolve_real(body, mode, tmap, qmap);
    o.sub_evaluations += 1;
    let fails = requirement_failures(body, &result, mode, tmap, qmap);
    if let Some((obs, detail)) = fails.first() {
        o.violate(
            Violation::new(obs, want.map(|w| json!(w)).unwrap_or(Value::Null), json!(result))
                .note(format!("{what}: {detail}; body {}; all: {:?}", json!(body), fails.iter().map(|x| &x.0).collect::<Vec<_>>())),
        );
        return;
    }
    if mode == "default" && !printable {
        o.diverge(format!("{what}: requirements hold on the body but the program does not print"));
    }
    if let Some(w) = want {
        if w != result.as_slice() {
            o.diverge(format!("{what}: result satisfies the requirements but differs from the model: {}", json!(result)));
        }
    }
}

pub fn replay(_ctx: &Ctx, case: &Value) -> Outcome {
    if let Some(h) = case.get("history") {
        let r = &h[0];
        let body = arr(r, "body").clone();
        let mut o = Outcome::ok(nontrivial(&body));
        judge(&mut o, &body, &s(r, "mode"), &pairs_str(&r["tmap"]), &pairs_u64(&r["qmap"]), None, "recorded body");
        return o;
    }
    let body = arr(case, "body");
    let mode = s(case, "mode");
    let (tmap, qmap) = (pairs_str(&case["tmap"]), pairs_u64(&case["qmap"]));
    let mut o = Outcome::ok(nontrivial(body));
    for spelling in 0..3 {
        let b = spelled_body(body, spelling);
        let want = spelled_body(arr(case, "result"), spelling);
        judge(&mut o, &b, &mode, &tmap, &qmap, Some(&want), &format!("spelling {spelling}"));
    }
    o
}

// ------------------------------------------------------------------------------------------- drive

/// label placeholders of the driver: id -> base (several placeholders share a base)
const BASES: [&str; 7] = ["a", "a", "a", "loop", "loop", "loop", "b"];
/// fixed labels / jump targets of the shape the default resolver generates, for a base: holes in the suffix
/// sequence, two-digit and zero-padded suffixes, the base itself, a longer name starting with the base
fn shaped_labels(base: &str) -> Vec<String> {
    let mut v: Vec<String> = (0..=4).map(|k| format!("{base}_{k}")).collect();
    v.extend([format!("{base}_10"), format!("{base}_00"), base.to_string(), format!("{base}x_0"), format!("{base}_"), "x".to_string()]);
    v
}
const FRAME_KINDS: [&str; 9] =
    ["Pulse", "Capture", "RawCapture", "ShiftPhase", "SetFrequency", "SetPhase", "SetScale", "ShiftFrequency", "SwapPhases"];

fn q_instr(rng: &mut impl Rng, kinds: &[&str], mut qs: Vec<Value>) -> Value {
    let kind = *kinds.choose(rng).unwrap();
    match kind {
        "Measure" | "Reset" => qs.truncate(1),
        "SwapPhases" if qs.len() < 2 => qs.push(qs[0].clone()),
        _ => {}
    }
    json!({"k": kind, "qs": qs})
}

/// style "labels": a set of shaped fixed names (as LABELs, or only as jump targets) with gaps and extras and
/// several placeholders sharing that base
fn label_body(rng: &mut impl Rng, max_len: usize) -> Vec<Value> {
    let base = *["a", "loop", "b"].choose(rng).unwrap();
    let pool = shaped_labels(base);
    let only_jumps = rng.gen_bool(0.3);
    let mut fixed: Vec<Value> = vec![];
    for name in &pool {
        if rng.gen_bool(0.4) && fixed.len() + 2 < max_len {
            let kind = if only_jumps { *["Jump", "JumpWhen", "JumpUnless"].choose(rng).unwrap() } else { *T_KINDS.choose(rng).unwrap() };
            fixed.push(json!({"k": kind, "target": {"t": "fixed", "s": name}}));
        }
    }
    let ids: Vec<u64> = (1..=BASES.len() as u64).filter(|id| BASES[(*id - 1) as usize] == base || rng.gen_bool(0.15)).collect();
    let mut phs: Vec<Value> = vec![];
    for id in &ids {
        for _ in 0..rng.gen_range(1..=2) {
            if fixed.len() + phs.len() < max_len {
                phs.push(json!({"k": T_KINDS.choose(rng).unwrap(), "target": {"t": "ph", "id": id, "base": BASES[(*id - 1) as usize]}}));
            }
        }
    }
    let mut body = match rng.gen_range(0..3) {
        0 => [fixed, phs].concat(),
        1 => [phs, fixed].concat(),
        _ => {
            let mut b = [fixed, phs].concat();
            b.shuffle(rng);
            b
        }
    };
    if rng.gen_bool(0.3) && body.len() < max_len {
        body.insert(rng.gen_range(0..=body.len()), json!({"k": "Gate", "qs": [{"t": "fixed", "n": 0}]}));
    }
    body
}

/// style "qubits": fixed qubits with gaps - placed before / after / among the placeholders, in gate-like
/// instructions of every kind or only inside frames - and up to 6 placeholders (more than there are gaps)
fn qubit_body(rng: &mut impl Rng, max_len: usize) -> Vec<Value> {
    let pool: [u64; 7] = [0, 2, 3, 7, 1, 4, 5];
    let nfix = rng.gen_range(1..=5);
    let fixed_set: Vec<u64> = pool.choose_multiple(rng, nfix).cloned().collect();
    let frames_only = rng.gen_bool(0.35);
    let all_q: Vec<&str> = GATE_LIKE_1.iter().chain(UPDATES.iter()).chain(["SwapPhases"].iter()).cloned().collect();
    let carriers: Vec<&str> = if frames_only { FRAME_KINDS.to_vec() } else { all_q.clone() };
    let mut fixed: Vec<Value> = vec![];
    for n in &fixed_set {
        let mut qs = vec![json!({"t": "fixed", "n": n})];
        if rng.gen_bool(0.3) {
            qs.push(json!({"t": "fixed", "n": fixed_set.choose(rng).unwrap()}));
        }
        fixed.push(q_instr(rng, &carriers, qs));
    }
    let nph = rng.gen_range(1..=6u64);
    let mut phs: Vec<Value> = vec![];
    for id in 1..=nph {
        let mut qs = vec![json!({"t": "ph", "id": id})];
        if rng.gen_bool(0.3) {
            qs.push(json!({"t": "ph", "id": rng.gen_range(1..=nph)}));
        }
        phs.push(q_instr(rng, &all_q, qs));
    }
    let mut body = match rng.gen_range(0..3) {
        0 => [fixed, phs].concat(),
        1 => [phs, fixed].concat(),
        _ => {
            let mut b = [fixed, phs].concat();
            b.shuffle(rng);
            b
        }
    };
    body.truncate(max_len.max(2));
    body
}

fn mixed_body(rng: &mut impl Rng, len: usize, nqph: u64, ntph: u64) -> Vec<Value> {
    let nfixed = rng.gen_range(1..=6u64);
    let fixed_labels = shaped_labels(["a", "loop", "b"].choose(rng).unwrap());
    let mut body: Vec<Value> = vec![];
    for _ in 0..len {
        if rng.gen_bool(0.3) {
            let kind = T_KINDS.choose(rng).unwrap();
            let target = if ntph > 0 && rng.gen_bool(0.55) {
                let id = rng.gen_range(1..=ntph);
                json!({"t": "ph", "id": id, "base": BASES[(id - 1) as usize]})
            } else {
                json!({"t": "fixed", "s": fixed_labels.choose(rng).unwrap()})
            };
            body.push(json!({"k": kind, "target": target}));
        } else {
            let all: Vec<&str> = GATE_LIKE_1.iter().chain(UPDATES.iter()).chain(["SwapPhases"].iter()).cloned().collect();
            let kind = *all.choose(rng).unwrap();
            let arity = match kind {
                "Measure" | "Reset" => 1,
                "SwapPhases" => rng.gen_range(2..=3),
                _ => rng.gen_range(1..=3),
            };
            let mut qs: Vec<Value> = vec![];
            while qs.len() < arity {
                let q = match rng.gen_range(0..100) {
                    0..=44 if nqph > 0 => json!({"t": "ph", "id": rng.gen_range(1..=nqph)}),
                    45..=49 => json!({"t": "var", "s": "q"}),
                    _ => {
                        let n = [0u64, 2, 3, 7, 1, 4][rng.gen_range(0..nfixed) as usize];
                        json!({"t": "fixed", "n": n})
                    }
                };
                qs.push(q);
            }
            body.push(json!({"k": kind, "qs": qs}));
        }
    }
    body
}

pub fn drive(ctx: &Ctx) -> Summary {
    let n = ctx.arg_u64("n", 100);
    let max_len = ctx.arg_u64("len", 12) as usize;
    let path = ctx.arg_str("out").expect("--out");
    let mut out = std::io::BufWriter::new(std::fs::File::create(path).expect("create trace"));
    let mut rng = util::rng(ctx.seed, 34);
    let mut sum = Summary::default();
    let mut seen = std::collections::HashSet::new();
    for h in 0..n {
        let len = if h < 3 { h as usize } else { rng.gen_range(1..=max_len) };
        let nqph = rng.gen_range(0..=5u64);
        let ntph = rng.gen_range(0..=BASES.len() as u64);
        let body: Vec<Value> = match h % 3 {
            _ if h < 3 => mixed_body(&mut rng, len, nqph, ntph),
            0 => mixed_body(&mut rng, len, nqph, ntph),
            1 => label_body(&mut rng, max_len),
            _ => qubit_body(&mut rng, max_len),
        };
        let (nqph, ntph) = (6u64, BASES.len() as u64);
        let custom = rng.gen_bool(0.3);
        let mode = if custom { "custom" } else { "default" };
        let mut tmap = BTreeMap::new();
        let mut qmap = BTreeMap::new();
        if custom {
            for id in 1..=ntph {
                if rng.gen_bool(0.5) {
                    tmap.insert(id, ["x", "a_0", "z_1", "loop_0"].choose(&mut rng).unwrap().to_string());
                }
            }
            for id in 1..=nqph {
                if rng.gen_bool(0.5) {
                    qmap.insert(id, rng.gen_range(0..10u64));
                }
            }
        }
        let pairs_t: Vec<Value> = tmap.iter().map(|(id, v)| json!({"id": id, "v": v})).collect();
        let pairs_q: Vec<Value> = qmap.iter().map(|(id, v)| json!({"id": id, "v": v})).collect();
        let (result, tres, qres, _) = resolve_real(&body, mode, &tmap, &qmap);
        util::emit(&mut out, &json!({"ev": "reset", "body": body, "mode": mode, "tmap": pairs_t, "qmap": pairs_q}));
        util::emit(&mut out, &json!({"ev": "tresolver", "map": tres}));
        util::emit(&mut out, &json!({"ev": "qresolver", "map": qres}));
        util::emit(&mut out, &json!({"ev": "resolved", "result": result}));
        let mut o = Outcome::ok(nontrivial(&body));
        o.count_n("events", 4);
        let case = json!({"body": body, "mode": mode, "tmap": pairs_t, "qmap": pairs_q});
        let distinct = seen.insert(case.to_string());
        sum.absorb(&case, &o, distinct);
    }
    sum
}
