//! C12 — expression simplification preserves the expression's value.
//!
//! replay: TLC cases {tree, arm, out, cmp} of spec/mc/MC_ExprSimplify.tla (numbers are elements of
//!         GF(1009); the literal table is `c03::literal_of_gf`) are built through the public
//!         constructors, simplified with `Expression::simplify` and `into_simplified`, and judged by the
//!         statement itself: same value at 4 assignments where the original is finite (DESIGN.md §2.2
//!         filter), no new variable or memory reference, never `pi`.  Closed trees also go through
//!         `Gate::to_unitary` (parameter folding).  The model's result is compared only as MODEL-DIVERGENCE.
//! drive:  seeded random trees up to depth 6.  "field" histories (variables, addresses, rationals, + - * /,
//!         prefixes) are recorded with every literal mapped into GF(1009) and TLC judges the real output
//!         with ExprSimplify!Contract; "numeric" histories (all operators, functions, pi, complex literals)
//!         are judged in floating point here and TLC judges the names / never-pi part.

use super::c03::{self, Alphabet, Judged};
use crate::runner::{Outcome, Summary, Violation};
use crate::util;
use crate::Ctx;
use num_complex::Complex64;
use quil_rs::expression::Expression;
use quil_rs::instruction::{Gate, Qubit};
use rand::Rng;
use serde_json::{json, Value};
use std::collections::BTreeSet;

/// structural comparison of the real result (numbers as GF images, -1 = not an exact rational) with the
/// model's result
fn matches_model(real: &Value, model: &Value) -> bool {
    let t = real["t"].as_str();
    if t != model["t"].as_str() {
        return false;
    }
    match t.unwrap_or("") {
        "num" => real["n"].as_i64() == Some(-1) || real["n"] == model["n"],
        "pi" => true,
        "var" => real["v"] == model["v"],
        "addr" => real["m"] == model["m"],
        "neg" | "pos" => matches_model(&real["e"], &model["e"]),
        "fn" => real["f"] == model["f"] && matches_model(&real["e"], &model["e"]),
        "inf" => {
            real["op"] == model["op"] && matches_model(&real["l"], &model["l"]) && matches_model(&real["r"], &model["r"])
        }
        _ => false,
    }
}

/// The statement of C12 on (e, s).  `stream` selects the assignment stream.
fn contract(ctx: &Ctx, e: &Expression, s: &Expression, how: &str, o: &mut Outcome) {
    let pts = c03::points(ctx.seed, 12, &[e], 3);
    for p in &pts {
        o.sub_evaluations += 1;
        match c03::judge_opts(e, s, p, true) {
            Judged::Same => o.count("points_judged"),
            Judged::NotJudged(why) => o.count(&format!("not_judged_{}", why.replace(' ', "_"))),
            Judged::Differs { original, other } => {
                o.violate(
                    Violation::new(
                        &format!("evaluate({how}(e))"),
                        c03::cplx_json(Some(original)),
                        c03::cplx_json(other),
                    )
                    .note(format!(
                        "simplified form {}; assignment {}",
                        quil_rs::quil::Quil::to_quil_or_debug(s),
                        c03::point_json(p)
                    )),
                );
                break;
            }
        }
    }
    let (mut ve, mut vs) = (BTreeSet::new(), BTreeSet::new());
    c03::variables(e, &mut ve);
    c03::variables(s, &mut vs);
    if !vs.is_subset(&ve) {
        o.violate(Violation::new(&format!("variables of {how}(e)"), json!(ve), json!(vs)));
    }
    let (mut ae, mut as_) = (vec![], vec![]);
    c03::addresses(e, &mut ae);
    c03::addresses(s, &mut as_);
    let ae: BTreeSet<_> = ae.into_iter().collect();
    let as_: BTreeSet<_> = as_.into_iter().collect();
    if !as_.is_subset(&ae) {
        o.violate(Violation::new(&format!("memory references of {how}(e)"), json!(ae), json!(as_)));
    }
    if c03::has_node(s, &|x| matches!(x, Expression::PiConstant())) {
        o.violate(Violation::new(&format!("{how}(e) contains pi"), json!("no PiConstant"), c03::to_abs(s)));
    }
}

/// consumer named in the statement: Gate::to_unitary folds its parameter with into_simplified
fn unitary_consumer(e: &Expression, o: &mut Outcome) {
    let (mut vs, mut ads) = (BTreeSet::new(), vec![]);
    c03::variables(e, &mut vs);
    c03::addresses(e, &mut ads);
    if !vs.is_empty() || !ads.is_empty() {
        return;
    }
    let p = c03::Point { vars: Default::default(), mem: Default::default() };
    // the same exclusions as for direct evaluation (finite, inside no tolerance band); on a branch cut every
    // admissible value of the parameter is accepted
    let Some(values) = c03::legitimate_values(e, &p, true) else { return };
    let wants: Vec<(Complex64, Complex64)> =
        values.iter().map(|v| (*v, v.cos() + Complex64::new(0.0, 1.0) * v.sin())).collect();
    if wants.iter().any(|(_, w)| !w.re.is_finite() || !w.im.is_finite()) {
        return;
    }
    let mut gate = Gate::new("PHASE", vec![e.clone()], vec![Qubit::Fixed(0)], vec![]).expect("PHASE gate");
    o.count("unitary_consumer");
    match gate.to_unitary(1) {
        Ok(m) => {
            let got = m[[1, 1]];
            // cis amplifies an absolute error of its argument by |cis|: compare with the scale of v
            if !wants.iter().any(|(v, want)| c03::close(*want, got, want.norm() * (1.0 + v.norm()))) {
                o.violate(Violation::new(
                    "Gate::to_unitary parameter folding",
                    c03::cplx_json(Some(wants[0].1)),
                    c03::cplx_json(Some(got)),
                ));
            }
        }
        // not folding a closed parameter to a number is not a change of value: informational
        Err(err) => o.diverge(format!("Gate::to_unitary does not fold a closed parameter: {err:?}")),
    }
}

fn check_tree(ctx: &Ctx, e: &Expression, consumers: bool, o: &mut Outcome) -> Expression {
    let s1 = e.clone().into_simplified();
    let mut s2 = e.clone();
    s2.simplify();
    contract(ctx, e, &s1, "into_simplified", o);
    if s2 != s1 {
        contract(ctx, e, &s2, "simplify", o);
        o.diverge("simplify and into_simplified return different expressions".to_string());
    }
    if consumers {
        unitary_consumer(e, o);
    }
    o.nontrivial = s1 != *e;
    s1
}

pub fn replay(ctx: &Ctx, case: &Value) -> Outcome {
    let tree = if let Some(h) = case.get("history") { h[0]["tree"].clone() } else { case["tree"].clone() };
    let e = c03::build(&tree);
    // the abstraction function must be the identity on the alphabet (GF form for TLC cases and field
    // histories, literal form for numeric histories)
    let gf_form = tree.to_string().contains("\"n\":") || !tree.to_string().contains("\"re\":");
    let back = c03::to_abs_opts(&e, gf_form);
    if back != tree {
        panic!("abstraction mismatch: {back} vs {tree}");
    }
    let mut o = Outcome::ok(false);
    let s = check_tree(ctx, &e, true, &mut o);
    if let Some(arm) = case.get("arm").and_then(|a| a.as_str()) {
        o.count(&format!("arm_{arm}"));
    }
    if !o.violations.is_empty() {
        return o;
    }
    if case.get("cmp").and_then(|c| c.as_bool()) == Some(true) {
        let real = c03::to_abs_opts(&s, true);
        if !matches_model(&real, &case["out"]) {
            o.diverge(format!("simplified form {} differs from the model's {} for {}", real, case["out"], tree));
        } else {
            o.count("model_result_matches");
        }
    }
    o
}

// ------------------------------------------------------------------------------------------- drive

const FIELD_LITERALS: &[(f64, f64)] =
    &[(0.0, 0.0), (1.0, 0.0), (2.0, 0.0), (3.0, 0.0), (-1.0, 0.0), (0.5, 0.0), (1.5, 0.0), (-2.0, 0.0), (4.0, 0.0)];
/// magnitudes in {0} ∪ [0.5, 10]: the simplifier's absolute tolerances never decide a case
const NUMERIC_LITERALS: &[(f64, f64)] = &[
    (0.0, 0.0), (1.0, 0.0), (2.0, 0.0), (3.0, 0.0), (-1.0, 0.0), (0.5, 0.0), (1.5, 0.0), (-2.0, 0.0), (0.0, 1.0),
    (0.0, 2.0), (1.0, 2.0), (1.0, -2.0), (-1.5, -0.5), (7.25, 0.0),
];

pub fn drive(ctx: &Ctx) -> Summary {
    let n = ctx.arg_u64("n", 100);
    let max_depth = ctx.arg_u64("depth", 6) as usize;
    let path = ctx.arg_str("out").expect("--out");
    let mut out = std::io::BufWriter::new(std::fs::File::create(path).expect("create trace"));
    let mut rng = util::rng(ctx.seed, 1212);
    let field = Alphabet {
        literals: FIELD_LITERALS,
        vars: &["x", "y", "z"],
        addrs: &[("m", 0), ("m", 1), ("n", 0)],
        ops: &["+", "-", "*", "/"],
        fns: &[],
        pi: false,
        pos: true,
    };
    let numeric = Alphabet {
        literals: NUMERIC_LITERALS,
        vars: &["x", "y", "z"],
        addrs: &[("m", 0), ("m", 1), ("n", 0)],
        ops: c03::OPS,
        fns: c03::FUNCTIONS,
        pi: true,
        pos: true,
    };
    let mut sum = Summary::default();
    let mut seen = std::collections::HashSet::new();
    for h in 0..n {
        let is_field = h % 3 != 2;
        let d = 2 + (rng.gen_range(0..max_depth.max(2) - 1));
        let lit_tree = c03::random_tree(&mut rng, if is_field { &field } else { &numeric }, d);
        let e = c03::build(&lit_tree);
        let mut o = Outcome::ok(false);
        let s = check_tree(ctx, &e, false, &mut o);
        // field histories: every literal of input and output must have an exact image in GF(1009)
        let exact = is_field && c03::gf_exact(&e) && c03::gf_exact(&s);
        let (tree, res) = if exact {
            (c03::to_abs_opts(&e, true), c03::to_abs_opts(&s, true))
        } else {
            (c03::to_abs(&e), c03::to_abs(&s))
        };
        o.count(if exact { "histories_judged_in_gf" } else { "histories_judged_in_f64_only" });
        util::emit(&mut out, &json!({"ev": "reset", "tree": tree, "exact": exact, "small": c03::depth(&e) <= 3 && exact}));
        util::emit(&mut out, &json!({"ev": "simplify", "out": res}));
        util::emit(&mut out, &json!({"ev": "done"}));
        o.count_n("events", 3);
        let distinct = seen.insert(tree.to_string());
        sum.absorb(&json!({"tree": tree}), &o, distinct);
    }
    sum
}
