//! C25 — computed schedules are as-soon-as-possible and frame-exclusive (spec/Schedule.tla).
//!
//! replay: TLC cases {frames, wfs, cals, src, flat, ok, items, total, spans, sdur} from
//!         spec/mc/MC_Schedule.tla are realised as a real program; both entry points are run
//!         (`ScheduledBasicBlock::as_schedule_seconds` on the calibration-expanded block,
//!         `BasicBlock::as_schedule_seconds` on the source block) and compared with the model.
//!         A mismatch is a VIOLATION only if the property itself (evaluated here on the real results, see
//!         `property_failures`) is false; otherwise it is a divergence.
//! drive:  seeded random blocks (longer, random durations, random calibrations, three frame tables); the real
//!         instructions are abstracted structurally (`abs_instr`), the real Scheduled edges, the real items in
//!         the order the scheduling loop pushed them and the real spans are recorded for
//!         spec/trace/ScheduleTrace.tla.
//!
//! Shared with C35 (`super::c25::…`): program construction, `abs_instr`, `observe_block`.

use crate::runner::{Outcome, Summary, Violation};
use crate::util::{self, arr, s};
use crate::Ctx;
use quil_rs::expression::Expression;
use quil_rs::instruction::{
    DefaultHandler, FrameIdentifier, Instruction, InstructionHandler, Qubit, WaveformInvocation,
};
use quil_rs::program::analysis::{BasicBlock, ControlFlowGraph};
use quil_rs::program::scheduling::{ExecutionDependency, ScheduledBasicBlock, ScheduledGraphNode};
use quil_rs::quil::Quil;
use quil_rs::Program;
use rand::seq::SliceRandom;
use rand::Rng;
use serde_json::{json, Value};
use std::collections::{BTreeMap, BTreeSet};

// ------------------------------------------------------------------------------ program construction

pub fn frame_text(f: &Value) -> String {
    let qs: Vec<String> = arr(f, "qubits").iter().map(|q| q.as_u64().unwrap().to_string()).collect();
    let mut t = format!("DEFFRAME {} \"{}\":\n\tINITIAL-FREQUENCY: 1\n", qs.join(" "), s(f, "name"));
    let rate = util::u(f, "rate");
    if rate > 0 {
        t.push_str(&format!("\tSAMPLE-RATE: {rate}\n"));
    }
    t
}

pub fn waveform_text(w: &Value) -> String {
    let n = util::u(w, "len") as usize;
    format!("DEFWAVEFORM {}:\n\t{}\n", s(w, "name"), vec!["1"; n].join(", "))
}

/// `DEFCAL <head>:` with the given body lines.  An empty body is not expressible in Quil text, so the
/// calibration is then built from a one-line body and emptied through the API.
pub fn add_calibration(program: &mut Program, head: &str, body: &[String]) {
    let text = if body.is_empty() {
        format!("DEFCAL {head}:\n\tNOP\n")
    } else {
        format!("DEFCAL {head}:\n{}", body.iter().map(|b| format!("\t{b}\n")).collect::<String>())
    };
    let parsed = util::program(&text);
    for i in parsed.to_instructions() {
        match i {
            Instruction::CalibrationDefinition(mut c) => {
                if body.is_empty() {
                    c.instructions.clear();
                }
                program.add_instruction(Instruction::CalibrationDefinition(c));
            }
            Instruction::MeasureCalibrationDefinition(mut c) => {
                if body.is_empty() {
                    c.instructions.clear();
                }
                program.add_instruction(Instruction::MeasureCalibrationDefinition(c));
            }
            other => panic!("calibration text produced {}", other.to_quil_or_debug()),
        }
    }
}

pub const DECLS: &str = "DECLARE ro BIT[4]\nDECLARE raw REAL[16]\n";

/// A program with the given definition tables and body lines.
pub fn build_program(frames: &[Value], wfs: &[Value], cals: &[Value], extra_header: &str, body: &[String]) -> Program {
    let mut text = String::new();
    for f in frames {
        text.push_str(&frame_text(f));
    }
    for w in wfs {
        text.push_str(&waveform_text(w));
    }
    text.push_str(DECLS);
    text.push_str(extra_header);
    let mut program = util::program(&text);
    for c in cals {
        let body: Vec<String> = arr(c, "body").iter().map(|b| b.as_str().unwrap().to_string()).collect();
        add_calibration(&mut program, &s(c, "head"), &body);
    }
    for line in body {
        program.add_instruction(util::instr(line));
    }
    program
}

// ------------------------------------------------------------------------------ abstraction function

fn qubit_index(q: &Qubit) -> Value {
    match q {
        Qubit::Fixed(n) => json!(n),
        other => panic!("only fixed qubits are in the C25 alphabet: {other:?}"),
    }
}

pub fn frame_abs(f: &FrameIdentifier) -> Value {
    json!({"name": f.name, "qubits": f.qubits.iter().map(qubit_index).collect::<Vec<_>>()})
}

/// exact small non-negative integer value of an expression, if it is one
fn expr_int(e: &Expression) -> Option<i64> {
    e.to_real().ok().and_then(as_int)
}

pub fn as_int(x: f64) -> Option<i64> {
    if x.is_finite() && x.fract() == 0.0 && x.abs() < 1e9 {
        Some(x as i64)
    } else {
        None
    }
}

fn wf_abs(w: &WaveformInvocation) -> Value {
    match w.parameters.get("duration").and_then(expr_int) {
        Some(d) => json!({"t": "tmpl", "name": w.name, "dur": d,
            "padl": w.parameters.get("pad_left").and_then(expr_int).unwrap_or(0),
            "padr": w.parameters.get("pad_right").and_then(expr_int).unwrap_or(0)}),
        None => json!({"t": "def", "name": w.name}),
    }
}

/// Real instruction -> the structured instruction of spec/Schedule.tla (Part 1).
pub fn abs_instr(i: &Instruction) -> Value {
    let text = i.to_quil_or_debug();
    let other = || json!({"k": "Other", "text": text});
    match i {
        Instruction::Pulse(p) => {
            json!({"k": "Pulse", "text": text, "blocking": p.blocking, "frame": frame_abs(&p.frame), "wf": wf_abs(&p.waveform)})
        }
        Instruction::Capture(p) => {
            json!({"k": "Capture", "text": text, "blocking": p.blocking, "frame": frame_abs(&p.frame), "wf": wf_abs(&p.waveform)})
        }
        Instruction::RawCapture(p) => match expr_int(&p.duration) {
            Some(d) => json!({"k": "RawCapture", "text": text, "blocking": p.blocking, "frame": frame_abs(&p.frame), "dur": d}),
            None => other(),
        },
        Instruction::Delay(d) => match expr_int(&d.duration) {
            Some(x) => json!({"k": "Delay", "text": text, "qubits": d.qubits.iter().map(qubit_index).collect::<Vec<_>>(),
                              "names": d.frame_names, "dur": x}),
            None => other(),
        },
        Instruction::Fence(f) => json!({"k": "Fence", "text": text, "qubits": f.qubits.iter().map(qubit_index).collect::<Vec<_>>()}),
        Instruction::SetFrequency(x) => json!({"k": "Set", "text": text, "frame": frame_abs(&x.frame)}),
        Instruction::SetPhase(x) => json!({"k": "Set", "text": text, "frame": frame_abs(&x.frame)}),
        Instruction::SetScale(x) => json!({"k": "Set", "text": text, "frame": frame_abs(&x.frame)}),
        Instruction::ShiftFrequency(x) => json!({"k": "Set", "text": text, "frame": frame_abs(&x.frame)}),
        Instruction::ShiftPhase(x) => json!({"k": "Set", "text": text, "frame": frame_abs(&x.frame)}),
        Instruction::SwapPhases(x) => {
            json!({"k": "Swap", "text": text, "frame": frame_abs(&x.frame_1), "frame2": frame_abs(&x.frame_2)})
        }
        // RESET q; a bare RESET depends on the program's used qubits and is not in any alphabet
        Instruction::Reset(r) if r.qubit.is_some() => json!({"k": "Reset", "text": text, "qubits": [qubit_index(r.qubit.as_ref().unwrap())]}),
        Instruction::Gate(_) => json!({"k": "Gate", "text": text}),
        Instruction::Call(c) => json!({"k": "Call", "text": text, "ext": c.name}),
        Instruction::Label(_) => json!({"k": "Label", "text": text}),
        _ => other(),
    }
}

/// 1-based index of a real frame identifier in the case's frame table (0 = not in the table)
pub fn frame_index(frames: &[Value], id: &FrameIdentifier) -> u64 {
    let a = frame_abs(id);
    frames.iter().position(|f| f["name"] == a["name"] && f["qubits"] == a["qubits"]).map(|p| p as u64 + 1).unwrap_or(0)
}

// ------------------------------------------------------------------------------ observation

#[derive(Clone, Debug)]
pub struct BlockObs {
    /// texts of the source block
    pub src: Vec<String>,
    /// real expansion of each source instruction (calibrations.expand, or the instruction itself)
    pub exp: Vec<Vec<Instruction>>,
    /// the expanded block
    pub flat: Vec<Instruction>,
    /// per flat instruction: frames used / blocked according to the real handler (1-based table indices)
    pub used: Vec<BTreeSet<u64>>,
    pub blocked: Vec<BTreeSet<u64>>,
    /// Scheduled edges of the real graph between instruction nodes (0-based)
    pub edges: BTreeSet<(usize, usize)>,
    /// ScheduledBasicBlock::as_schedule_seconds on the expanded block: items in the order pushed, duration
    pub flat_sched: Result<(Vec<(usize, f64, f64)>, f64), String>,
    /// BasicBlock::as_schedule_seconds on the source block
    pub src_sched: Result<(Vec<(usize, f64, f64)>, f64), String>,
}

/// Run both entry points on block `block_no` of `program`.
pub fn observe_block(program: &Program, frames: &[Value], block_no: usize) -> Option<BlockObs> {
    let handler = DefaultHandler;
    let blocks = ControlFlowGraph::from(program).into_blocks();
    let block: &BasicBlock = blocks.get(block_no)?;
    let mut obs = BlockObs { src: vec![], exp: vec![], flat: vec![], used: vec![], blocked: vec![], edges: BTreeSet::new(),
        flat_sched: Err(String::new()), src_sched: Err(String::new()) };
    let mut expansion_failed = None;
    for i in block.instructions() {
        obs.src.push(i.to_quil_or_debug());
        let e = match program.calibrations.expand(i, &[]) {
            Ok(Some(v)) => v,
            Ok(None) => vec![(*i).clone()],
            Err(e) => {
                expansion_failed = Some(e.to_string());
                vec![(*i).clone()]
            }
        };
        obs.flat.extend(e.iter().cloned());
        obs.exp.push(e);
    }
    obs.src_sched = block
        .as_schedule_seconds(program, &handler)
        .map(|sch| {
            let d = sch.duration().0;
            (sch.items().iter().map(|it| (it.instruction_index, it.time_span.start_time.0, it.time_span.duration.0)).collect(), d)
        })
        .map_err(|e| e.to_string());
    // the expanded block, scheduled directly
    let mut expanded = program.clone_without_body_instructions();
    for i in &obs.flat {
        expanded.add_instruction(i.clone());
    }
    for i in &obs.flat {
        let m = handler.matching_frames(&expanded, i);
        obs.used.push(m.as_ref().map(|m| m.used.iter().map(|f| frame_index(frames, f)).collect()).unwrap_or_default());
        obs.blocked.push(m.as_ref().map(|m| m.blocked.iter().map(|f| frame_index(frames, f)).collect()).unwrap_or_default());
    }
    obs.flat_sched = if let Some(e) = expansion_failed {
        Err(e)
    } else if obs.flat.is_empty() {
        Ok((vec![], 0.0))
    } else {
        let eblocks = ControlFlowGraph::from(&expanded).into_blocks();
        if eblocks.len() != 1 {
            Err(format!("expanded block splits into {} blocks", eblocks.len()))
        } else {
            match ScheduledBasicBlock::build(eblocks.into_iter().next().unwrap(), &expanded, &handler) {
                Err(e) => Err(e.to_string()),
                Ok(sb) => {
                    for (a, b, w) in sb.get_dependency_graph().all_edges() {
                        if let (ScheduledGraphNode::InstructionIndex(a), ScheduledGraphNode::InstructionIndex(b)) = (a, b) {
                            if w.contains(&ExecutionDependency::Scheduled) {
                                obs.edges.insert((a, b));
                            }
                        }
                    }
                    sb.as_schedule_seconds(&expanded, &handler)
                        .map(|sch| {
                            let d = sch.duration().0;
                            (sch.items().iter().map(|it| (it.instruction_index, it.time_span.start_time.0, it.time_span.duration.0)).collect(), d)
                        })
                        .map_err(|e| e.to_string())
                }
            }
        }
    };
    Some(obs)
}

/// What the property needs to know about a flat instruction, independent of the real handler:
/// frames used / blocked by the Quil-T rules and the documented duration (both from the specification).
#[derive(Clone, Debug)]
pub struct Summ {
    pub used: BTreeSet<u64>,
    pub blocked: BTreeSet<u64>,
    pub dur: Option<i64>,
}

pub fn summ_of(v: &Value) -> Summ {
    let set = |k: &str| arr(v, k).iter().map(|x| x.as_u64().unwrap()).collect::<BTreeSet<u64>>();
    Summ { used: set("use"), blocked: set("blk"), dur: v["dur"].get("some").and_then(|d| d.as_i64()) }
}

fn conflict(a: &Summ, b: &Summ) -> bool {
    a.used.iter().any(|f| b.used.contains(f) || b.blocked.contains(f)) || b.used.iter().any(|f| a.used.contains(f) || a.blocked.contains(f))
}

/// The property C25 evaluated directly on the real results (both Ok).  Returns (observable, note) per failure.
pub fn property_failures(summ: &[Summ], obs: &BlockObs) -> Vec<(String, String)> {
    let mut fails = vec![];
    let n = summ.len();
    if let Ok((items, total)) = &obs.flat_sched {
        let mut by: BTreeMap<usize, Vec<(f64, f64)>> = BTreeMap::new();
        for (i, st, d) in items {
            by.entry(*i).or_default().push((*st, *d));
        }
        let once = items.len() == n && (0..n).all(|j| by.get(&j).map(|v| v.len()) == Some(1));
        if !once {
            fails.push(("each_once".into(), format!("{} items for {} timed instructions: {:?}", items.len(), n, items)));
            return fails;
        }
        let st = |j: usize| by[&j][0].0;
        let en = |j: usize| by[&j][0].0 + by[&j][0].1;
        for j in 0..n {
            if summ[j].dur.map(|d| d as f64) != Some(by[&j][0].1) {
                fails.push(("documented_duration".into(),
                    format!("instruction {j} `{}` has duration {} instead of {:?}", obs.flat[j].to_quil_or_debug(), by[&j][0].1, summ[j].dur)));
            }
            // starts when its last timed predecessor (in the real graph) ends, or at 0
            let want = obs.edges.iter().filter(|e| e.1 == j).map(|e| en(e.0)).fold(0.0, f64::max);
            if st(j) != want {
                fails.push(("asap_start".into(),
                    format!("instruction {j} starts at {} but its last Scheduled predecessor ends at {want}", st(j))));
            }
            for i in 0..j {
                if conflict(&summ[i], &summ[j]) && st(i) < en(j) && st(j) < en(i) {
                    fails.push(("frame_exclusive".into(),
                        format!("instructions {i} [{}, {}) and {j} [{}, {}) share a frame and overlap", st(i), en(i), st(j), en(j))));
                }
            }
        }
        let max_end = (0..n).map(en).fold(0.0, f64::max);
        if *total != max_end {
            fails.push(("duration_is_max_end".into(), format!("duration {total}, latest end {max_end}")));
        }
        // spans of the source instructions
        if let Ok((spans, sdur)) = &obs.src_sched {
            let mut first = 0usize;
            let mut sby: BTreeMap<usize, Vec<(f64, f64)>> = BTreeMap::new();
            for (i, a, d) in spans {
                sby.entry(*i).or_default().push((*a, *d));
            }
            for (k, e) in obs.exp.iter().enumerate() {
                let idx: Vec<usize> = (first..first + e.len()).collect();
                first += e.len();
                let got = sby.remove(&k).unwrap_or_default();
                if idx.is_empty() {
                    if !got.is_empty() {
                        fails.push(("spans_cover".into(), format!("source instruction {k} expanded to nothing but has span {got:?}")));
                    }
                    continue;
                }
                let lo = idx.iter().map(|&j| st(j)).fold(f64::INFINITY, f64::min);
                let hi = idx.iter().map(|&j| en(j)).fold(0.0, f64::max);
                if got.len() != 1 || got[0].0 != lo || got[0].0 + got[0].1 != hi {
                    fails.push(("spans_cover".into(),
                        format!("source instruction {k} `{}` has span {got:?}, its expansion covers [{lo}, {hi})", obs.src[k])));
                }
            }
            if !sby.is_empty() {
                fails.push(("spans_cover".into(), format!("spans for non-existent source instructions: {sby:?}")));
            }
            let smax = spans.iter().map(|x| x.1 + x.2).fold(0.0, f64::max);
            if *sdur != smax {
                fails.push(("duration_is_max_end".into(), format!("source-level duration {sdur}, latest span end {smax}")));
            }
        }
    }
    fails
}

fn sched_json(r: &Result<(Vec<(usize, f64, f64)>, f64), String>) -> Value {
    match r {
        Ok((items, d)) => json!({"ok": items.iter().map(|(i, a, b)| json!([i, a, b])).collect::<Vec<_>>(), "duration": d}),
        Err(e) => json!({"err": e}),
    }
}

// ------------------------------------------------------------------------------ replay

pub fn replay(_ctx: &Ctx, case: &Value) -> Outcome {
    if let Some(h) = case.get("history") {
        return replay_history(h);
    }
    let frames = arr(case, "frames");
    let src: Vec<String> = arr(case, "src").iter().map(|x| x.as_str().unwrap().to_string()).collect();
    if src.is_empty() {
        return Outcome::ok(false); // an empty body has no basic block
    }
    let program = build_program(frames, arr(case, "wfs"), arr(case, "cals"), "", &src);
    let obs = observe_block(&program, frames, 0).expect("one block");
    let want_flat = arr(case, "flat");
    let summ: Vec<Summ> = want_flat.iter().map(summ_of).collect();
    let want_ok = case["ok"].as_bool().unwrap();
    let timed = summ.iter().filter(|x| x.dur.is_some()).count();
    let mut o = Outcome::ok(want_ok && timed >= 2 && obs.flat_sched.is_ok());
    if obs.exp.iter().any(|e| e.len() != 1) {
        o.count("calibrated_blocks");
    }

    // the expansion and the frame summaries are other properties' business (C17, C26): informational
    let flat_texts: Vec<String> = obs.flat.iter().map(|i| i.to_quil_or_debug()).collect();
    // (canonical printed form of the model's text)
    let want_texts: Vec<String> = want_flat.iter().map(|x| util::instr(&s(x, "text")).to_quil_or_debug()).collect();
    if flat_texts != want_texts {
        o.diverge(format!("expanded block differs from the model: {flat_texts:?} vs {want_texts:?}"));
        return o;
    }
    for (j, sm) in summ.iter().enumerate() {
        // (the frames of an instruction without a duration never matter for a schedule)
        if sm.dur.is_some() && (sm.used != obs.used[j] || sm.blocked != obs.blocked[j]) {
            o.diverge(format!("matching_frames of `{}`: used {:?} blocked {:?}, Quil-T rules of the model: {:?} / {:?}",
                flat_texts[j], obs.used[j], obs.blocked[j], sm.used, sm.blocked));
        }
    }
    match (&obs.flat_sched, &obs.src_sched, want_ok) {
        (Err(_), Err(_), false) => {
            o.count("err_cases");
            return o;
        }
        (Ok(_), Ok(_), true) => {}
        (a, b, _) => {
            // the statement is conditional on the schedule being computable: Ok/Err is not its observable,
            // unless the two entry points disagree with each other on a block without calibrations
            o.count("ok_err_mismatch");
            o.diverge(format!("model ok={want_ok}, expanded-block call {}, source-block call {}",
                if a.is_ok() { "Ok" } else { "Err" }, if b.is_ok() { "Ok" } else { "Err" }));
            if !(a.is_ok() && b.is_ok()) {
                return o;
            }
        }
    }
    // both real calls Ok: compare with the model
    let (items, total) = obs.flat_sched.as_ref().unwrap();
    let (spans, sdur) = obs.src_sched.as_ref().unwrap();
    let mut same = want_ok;
    if want_ok {
        let want_items = arr(case, "items");
        let mut got: Vec<Option<(f64, f64)>> = vec![None; want_items.len()];
        for (i, a, d) in items {
            if *i < got.len() && got[*i].is_none() {
                got[*i] = Some((*a, *d));
            } else {
                same = false;
            }
        }
        for (j, w) in want_items.iter().enumerate() {
            if got[j] != Some((w["start"].as_f64().unwrap(), w["dur"].as_f64().unwrap())) {
                same = false;
            }
        }
        same = same && items.len() == want_items.len() && Some(*total) == case["total"].as_f64();
        let want_spans = arr(case, "spans");
        let mut sgot: BTreeMap<usize, (f64, f64)> = BTreeMap::new();
        for (i, a, d) in spans {
            if sgot.insert(*i, (*a, *d)).is_some() {
                same = false;
            }
        }
        for (k, w) in want_spans.iter().enumerate() {
            let ws = w.get("some").map(|x| (x["start"].as_f64().unwrap(), x["dur"].as_f64().unwrap()));
            if sgot.remove(&k) != ws {
                same = false;
            }
        }
        same = same && sgot.is_empty() && Some(*sdur) == case["sdur"].as_f64();
    }
    // the property is evaluated on every real result (with the model's summaries: Quil-T frame sets, documented
    // durations); a difference from the model's schedule that satisfies it is only a divergence
    let fails = if summ.iter().all(|x| x.dur.is_some()) { property_failures(&summ, &obs) } else { vec![] };
    if !same || !fails.is_empty() {
        let got = json!({"expanded_block": sched_json(&obs.flat_sched), "source_block": sched_json(&obs.src_sched)});
        let want = json!({"items": case["items"], "total": case["total"], "spans": case["spans"], "sdur": case["sdur"]});
        if fails.is_empty() {
            o.diverge(format!("schedule differs from the model but satisfies the property: {got}"));
        } else {
            let note = fails.iter().map(|f| f.1.clone()).collect::<Vec<_>>().join("; ");
            o.violate(Violation::new(&fails[0].0, want, got).note(note));
        }
    }
    o
}

/// Replay of a history rejected by trace validation: re-run the recorded block and evaluate the property.
fn replay_history(h: &Value) -> Outcome {
    let reset = &h[0];
    let frames = arr(reset, "frames");
    let wfs = arr(reset, "wfs");
    let src: Vec<String> = arr(reset, "src").iter().map(|x| s(x, "text")).collect();
    let program = build_program(frames, wfs, arr(reset, "cals"), "", &src);
    let mut o = Outcome::ok(true);
    if let Some(obs) = observe_block(&program, frames, 0) {
        let summ = quilt_summaries(&obs, frames, wfs);
        if obs.flat_sched.is_ok() && summ.iter().all(|x| x.dur.is_some()) {
            for f in property_failures(&summ, &obs) {
                o.violate(Violation::new(&f.0, json!("property C25"), json!({"expanded_block": sched_json(&obs.flat_sched),
                    "source_block": sched_json(&obs.src_sched)})).note(f.1));
            }
        }
    }
    o
}

/// The Quil-T frame rules and documented durations of spec/Schedule.tla (Part 1), re-stated on the structured
/// instruction: used where no TLC-computed summaries exist (drive, replay of a recorded history).
pub fn quilt_summ(i: &Value, frames: &[Value], wfs: &[Value]) -> Summ {
    let qset = |v: &Value| v.as_array().unwrap().iter().map(|q| q.as_u64().unwrap()).collect::<BTreeSet<u64>>();
    let all = || (1..=frames.len() as u64).collect::<BTreeSet<u64>>();
    let any_of = |qs: &BTreeSet<u64>| {
        all().into_iter().filter(|n| !qset(&frames[*n as usize - 1]["qubits"]).is_disjoint(qs)).collect::<BTreeSet<u64>>()
    };
    let exact = |qs: &BTreeSet<u64>| all().into_iter().filter(|n| qset(&frames[*n as usize - 1]["qubits"]) == *qs).collect::<BTreeSet<u64>>();
    let specific = |f: &Value| {
        all().into_iter().filter(|n| frames[*n as usize - 1]["name"] == f["name"] && frames[*n as usize - 1]["qubits"] == f["qubits"]).collect::<BTreeSet<u64>>()
    };
    let k = i["k"].as_str().unwrap();
    let play = matches!(k, "Pulse" | "Capture" | "RawCapture");
    let used: BTreeSet<u64> = match k {
        "Pulse" | "Capture" | "RawCapture" | "Set" => specific(&i["frame"]),
        "Swap" => specific(&i["frame"]).union(&specific(&i["frame2"])).cloned().collect(),
        "Delay" => {
            let e = exact(&qset(&i["qubits"]));
            let names: Vec<&str> = i["names"].as_array().unwrap().iter().map(|x| x.as_str().unwrap()).collect();
            if names.is_empty() { e } else { e.into_iter().filter(|n| names.contains(&frames[*n as usize - 1]["name"].as_str().unwrap())).collect() }
        }
        "Fence" => {
            let qs = qset(&i["qubits"]);
            if qs.is_empty() { all() } else { any_of(&qs) }
        }
        "Reset" => exact(&qset(&i["qubits"])),
        _ => BTreeSet::new(),
    };
    let blocked: BTreeSet<u64> = if play && i["blocking"].as_bool().unwrap() {
        any_of(&qset(&i["frame"]["qubits"])).difference(&used).cloned().collect()
    } else if k == "Reset" {
        any_of(&qset(&i["qubits"])).difference(&used).cloned().collect()
    } else {
        BTreeSet::new()
    };
    let dur = match k {
        "Pulse" | "Capture" => {
            let wf = &i["wf"];
            match wfs.iter().find(|w| w["name"] == wf["name"]) {
                Some(w) => {
                    let rates: BTreeSet<u64> = used.iter().map(|n| frames[*n as usize - 1]["rate"].as_u64().unwrap()).filter(|r| *r > 0).collect();
                    if rates.len() == 1 { Some((w["len"].as_u64().unwrap() / rates.iter().next().unwrap()) as i64) } else { None }
                }
                None if wf["t"] == "tmpl" => Some(wf["dur"].as_i64().unwrap() + wf["padl"].as_i64().unwrap() + wf["padr"].as_i64().unwrap()),
                None => None,
            }
        }
        "Delay" | "RawCapture" => i["dur"].as_i64(),
        "Fence" | "Set" | "Swap" => Some(0),
        _ => None,
    };
    Summ { used, blocked, dur }
}

fn quilt_summaries(obs: &BlockObs, frames: &[Value], wfs: &[Value]) -> Vec<Summ> {
    obs.flat.iter().map(|i| quilt_summ(&abs_instr(i), frames, wfs)).collect()
}

// ------------------------------------------------------------------------------ drive

pub fn frame_tables() -> Vec<Vec<Value>> {
    let f = |name: &str, qubits: &[u64], rate: u64| json!({"name": name, "qubits": qubits, "rate": rate});
    vec![
        vec![f("a", &[0], 2), f("b", &[0], 4), f("a", &[1], 2), f("c", &[0, 1], 0)],
        vec![f("a", &[0], 1), f("a", &[1], 1), f("a", &[2], 2), f("c", &[0, 1], 2), f("c", &[1, 2], 1), f("b", &[1], 1)],
        vec![f("x", &[0], 2), f("y", &[0], 2), f("x", &[0, 1, 2], 4)],
    ]
}

fn frame_ref(r: &mut impl Rng, frames: &[Value]) -> String {
    // mostly defined frames, sometimes an undefined one
    if r.gen_range(0..12) == 0 {
        return "3 \"nowhere\"".to_string();
    }
    let f = frames.choose(r).unwrap();
    let qs: Vec<String> = arr(f, "qubits").iter().map(|q| q.to_string()).collect();
    format!("{} \"{}\"", qs.join(" "), s(f, "name"))
}

fn some_qubits(r: &mut impl Rng) -> String {
    let mut qs: Vec<u64> = (0..3).filter(|_| r.gen_bool(0.45)).collect();
    if qs.is_empty() {
        qs.push(r.gen_range(0..3));
    }
    qs.iter().map(|q| q.to_string()).collect::<Vec<_>>().join(" ")
}

/// one timed instruction (as Quil text) over the frame table
pub fn random_timed(r: &mut impl Rng, frames: &[Value], wf_names: &[String]) -> String {
    let nb = if r.gen_bool(0.5) { "NONBLOCKING " } else { "" };
    let d = r.gen_range(0..=5);
    let names: Vec<String> = frames.iter().map(|f| s(f, "name")).collect();
    match r.gen_range(0..100) {
        0..=24 => {
            let wf = match r.gen_range(0..10) {
                0 | 3 if !wf_names.is_empty() => wf_names.choose(r).unwrap().clone(),
                1 => format!("erf_square(duration: {d}, pad_left: {}, pad_right: {}, risetime: 1)", r.gen_range(0..3), r.gen_range(0..3)),
                2 => format!("gaussian(duration: {d}, fwhm: 2, t0: 3)"),
                _ => format!("flat(duration: {d}, iq: 1)"),
            };
            format!("{nb}PULSE {} {wf}", frame_ref(r, frames))
        }
        25..=34 => format!("{nb}CAPTURE {} flat(duration: {d}, iq: 1) ro[{}]", frame_ref(r, frames), r.gen_range(0..4)),
        35..=42 => format!("{nb}RAW-CAPTURE {} {d} raw", frame_ref(r, frames)),
        43..=52 => format!("DELAY {} {d}", some_qubits(r)),
        53..=62 => {
            let k = r.gen_range(1..=2);
            let ns: Vec<String> = (0..k).map(|_| format!("\"{}\"", names.choose(r).unwrap())).collect();
            format!("DELAY {} {} {d}", some_qubits(r), ns.join(" "))
        }
        63..=68 => "FENCE".to_string(),
        69..=80 => format!("FENCE {}", some_qubits(r)),
        81..=92 => {
            let op = ["SET-FREQUENCY", "SET-PHASE", "SET-SCALE", "SHIFT-FREQUENCY", "SHIFT-PHASE"].choose(r).unwrap();
            format!("{op} {} 1", frame_ref(r, frames))
        }
        _ => format!("SWAP-PHASES {} {}", frame_ref(r, frames), frame_ref(r, frames)),
    }
}

/// random calibration table: gate heads G0..Gk on fixed qubits; later calibrations may call earlier ones
pub fn random_cals(r: &mut impl Rng, frames: &[Value], n: usize, wf_names: &[String]) -> Vec<Value> {
    let mut cals: Vec<Value> = vec![];
    for k in 0..n {
        let len = r.gen_range(0..=3);
        let mut body = vec![];
        for _ in 0..len {
            if k > 0 && r.gen_bool(0.25) {
                body.push(s(&cals[r.gen_range(0..k)], "head"));
            } else {
                body.push(random_timed(r, frames, wf_names));
            }
        }
        cals.push(json!({"head": format!("G{k} {}", k % 2), "body": body}));
    }
    cals
}

pub fn drive(ctx: &Ctx) -> Summary {
    let n = ctx.arg_u64("n", 100);
    let max_len = ctx.arg_u64("len", 10) as usize;
    let path = ctx.arg_str("out").expect("--out");
    let mut out = std::io::BufWriter::new(std::fs::File::create(path).expect("create trace"));
    let mut rng = util::rng(ctx.seed, 25);
    let tables = frame_tables();
    let mut sum = Summary::default();
    for h in 0..n {
        let frames = &tables[(h % tables.len() as u64) as usize];
        let with_wf = rng.gen_bool(0.5);
        let wfs = if with_wf { vec![json!({"name": "w", "len": 4})] } else { vec![] };
        let ncals = rng.gen_range(1..=3);
        let wf_names: Vec<String> = if with_wf { vec!["w".to_string()] } else { vec![] };
        let cals = if rng.gen_bool(0.6) { random_cals(&mut rng, frames, ncals, &wf_names) } else { vec![] };
        let len = if h < 2 { 1 } else { rng.gen_range(2..=max_len) };
        let untimed = rng.gen_range(0..12) == 0;
        let mut src = vec![];
        for _ in 0..len {
            if !cals.is_empty() && rng.gen_bool(0.3) {
                src.push(s(cals.choose(&mut rng).unwrap(), "head"));
            } else if untimed && rng.gen_bool(0.2) {
                src.push(["NOP", "RESET 0", "MOVE ro[0] 1", "H 2"].choose(&mut rng).unwrap().to_string());
            } else {
                src.push(random_timed(&mut rng, frames, &wf_names));
            }
        }
        let program = build_program(frames, &wfs, &cals, "", &src);
        let obs = observe_block(&program, frames, 0).expect("one block");
        let case = json!({"frames": frames, "wfs": wfs, "cals": cals, "src": src});
        let mut o = Outcome::ok(obs.flat_sched.is_ok() && obs.flat.len() >= 2);
        // Rust-side evaluation of the property (TLC evaluates it again, with the module's own definitions, on the
        // recorded events)
        let mut exact = true;
        if let Ok((items, total)) = &obs.flat_sched {
            exact = items.iter().all(|x| as_int(x.1).is_some() && as_int(x.2).is_some()) && as_int(*total).is_some();
            let summ = quilt_summaries(&obs, frames, &wfs);
            if summ.iter().all(|x| x.dur.is_some()) {
                for f in property_failures(&summ, &obs) {
                    o.violate(Violation::new(&f.0, json!("property C25"), json!({"expanded_block": sched_json(&obs.flat_sched),
                        "source_block": sched_json(&obs.src_sched)})).note(f.1));
                }
            } else {
                // the real call computed a schedule although the specification knows no duration: Ok/Err is not judged
                o.diverge("schedule computed for a block with an instruction without documented duration");
            }
            if !exact && o.violations.is_empty() {
                o.violate(Violation::new("documented_duration", json!("integer times for integer durations"), sched_json(&obs.flat_sched)));
            }
        }
        if exact {
            let src_abs: Vec<Value> = obs
                .exp
                .iter()
                .zip(&obs.src)
                .map(|(e, t)| json!({"text": t, "exp": e.iter().map(abs_instr).collect::<Vec<_>>()}))
                .collect();
            let sets: Vec<Value> = (0..obs.flat.len()).map(|j| json!({"use": obs.used[j], "blk": obs.blocked[j]})).collect();
            util::emit(&mut out, &json!({"ev": "reset", "frames": frames, "wfs": wfs, "cals": cals, "src": src_abs,
                "real_frames": sets, "real_ok": obs.flat_sched.is_ok(),
                "edges": obs.edges.iter().map(|e| json!([e.0 + 1, e.1 + 1])).collect::<Vec<_>>()}));
            let mut events = 1;
            match &obs.flat_sched {
                Ok((items, total)) => {
                    for (i, a, d) in items {
                        util::emit(&mut out, &json!({"ev": "item", "index": i + 1, "start": as_int(*a), "dur": as_int(*d)}));
                        events += 1;
                    }
                    util::emit(&mut out, &json!({"ev": "done", "ok": true, "total": as_int(*total)}));
                }
                Err(_) => util::emit(&mut out, &json!({"ev": "done", "ok": false, "total": 0})),
            }
            match &obs.src_sched {
                Ok((spans, sdur)) if spans.iter().all(|x| as_int(x.1).is_some() && as_int(x.2).is_some()) && as_int(*sdur).is_some() => {
                    util::emit(&mut out, &json!({"ev": "spans", "ok": true, "sdur": as_int(*sdur),
                        "spans": spans.iter().map(|(i, a, d)| json!({"src": i + 1, "start": as_int(*a), "dur": as_int(*d)})).collect::<Vec<_>>()}));
                }
                Ok(_) => {
                    o.violate(Violation::new("spans_cover", json!("integer spans"), sched_json(&obs.src_sched)));
                    util::emit(&mut out, &json!({"ev": "spans", "ok": false, "sdur": 0, "spans": []}));
                }
                Err(_) => util::emit(&mut out, &json!({"ev": "spans", "ok": false, "sdur": 0, "spans": []})),
            }
            o.count_n("events", events + 2);
            if obs.exp.iter().any(|e| e.len() != 1) {
                o.count("calibrated_blocks");
            }
            if obs.flat_sched.is_err() {
                o.count("err_histories");
            }
        }
        sum.absorb(&case, &o, true);
    }
    sum
}
