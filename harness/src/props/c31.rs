//! C31 — extern signatures round-trip and CALL resolution follows the rules.
//!
//! replay: TLC cases from spec/mc/MC_Extern.tla.
//!   kind "sig":  the signature is built through ExternParameter::try_new / ExternSignature::new, printed
//!                (Quil::to_quil) and parsed back three ways: ExternSignature::from_str, a PRAGMA EXTERN
//!                instruction through Program::try_extern_signature_map_from_pragma_map, and the same
//!                pragma through the program parser.  The first two must give the same signature (VIOLATION
//!                otherwise; the third also involves the pragma printer and is divergence level).  The printed text, tokenized, is compared with the model's PrintSig and the
//!                model's ParseSig of near-miss token lists with the real parser (divergence level).
//!   kind "call": a program with the DECLAREs, the PRAGMA EXTERN and the CALL; Call::resolve_arguments
//!                succeeds iff the model's declarative Resolves says so (VIOLATION otherwise); the
//!                collected errors / resolved arguments are compared with the model's loop (divergence).
//! drive:  seeded larger signatures (up to 6 parameters, all four scalar types, lengths 0..1000, tricky
//!         but valid parameter names) and calls over larger declared alphabets; events
//!         reset/print/lex/call/callinfo go to spec/trace/ExternTrace.tla.

use crate::runner::{Outcome, Summary, Violation};
use crate::util::{self, arr, s};
use crate::Ctx;
use num_complex::Complex64;
use quil_rs::instruction::{
    Call, CallArgumentError, CallArgumentResolutionError, CallResolutionError, CallSignatureError, Declaration,
    ExternParameter, ExternParameterType, ExternSignature, Instruction, MemoryReference, Pragma, PragmaArgument,
    ResolvedCallArgument, ScalarType, UnresolvedCallArgument, Vector,
};
use quil_rs::quil::Quil;
use quil_rs::Program;
use rand::seq::SliceRandom;
use rand::Rng;
use serde_json::{json, Value};
use std::str::FromStr;

// ------------------------------------------------------------------------------ abstraction function

fn scalar_from(name: &str) -> ScalarType {
    match name {
        "BIT" => ScalarType::Bit,
        "INTEGER" => ScalarType::Integer,
        "OCTET" => ScalarType::Octet,
        "REAL" => ScalarType::Real,
        o => panic!("unknown scalar type {o}"),
    }
}

fn scalar_name(t: &ScalarType) -> &'static str {
    match t {
        ScalarType::Bit => "BIT",
        ScalarType::Integer => "INTEGER",
        ScalarType::Octet => "OCTET",
        ScalarType::Real => "REAL",
    }
}

fn type_from_abs(v: &Value) -> ExternParameterType {
    let ty = scalar_from(&s(v, "ty"));
    match s(v, "t").as_str() {
        "scalar" => ExternParameterType::Scalar(ty),
        "fixed" => ExternParameterType::FixedLengthVector(Vector::new(ty, util::u(v, "len"))),
        "var" => ExternParameterType::VariableLengthVector(ty),
        o => panic!("unknown parameter type tag {o}"),
    }
}

fn type_to_abs(t: &ExternParameterType) -> Value {
    match t {
        ExternParameterType::Scalar(ty) => json!({"t": "scalar", "ty": scalar_name(ty)}),
        ExternParameterType::FixedLengthVector(v) => json!({"t": "fixed", "ty": scalar_name(&v.data_type), "len": v.length}),
        ExternParameterType::VariableLengthVector(ty) => json!({"t": "var", "ty": scalar_name(ty)}),
    }
}

pub fn sig_from_abs(v: &Value) -> ExternSignature {
    let ret = v["ret"].get("some").map(|t| scalar_from(t.as_str().unwrap()));
    let params = arr(v, "params")
        .iter()
        .map(|p| {
            ExternParameter::try_new(s(p, "name"), p["mut"].as_bool().unwrap(), type_from_abs(&p["ty"]))
                .unwrap_or_else(|e| panic!("alphabet parameter rejected by ExternParameter::try_new: {p}: {e}"))
        })
        .collect();
    ExternSignature::new(ret, params)
}

pub fn sig_to_abs(sig: &ExternSignature) -> Value {
    json!({
        "ret": util::opt_json(sig.return_type().map(|t| scalar_name(t))),
        "params": sig.parameters().iter().map(|p| json!({"name": p.name(), "mut": p.mutable(), "ty": type_to_abs(p.data_type())})).collect::<Vec<_>>(),
    })
}

/// the harness' own tokenizer of a printed signature (the crate's lexer is private): same token classes
/// as spec/Extern.tla
pub fn tokenize(text: &str) -> Vec<Value> {
    let cs: Vec<char> = text.chars().collect();
    let mut out = vec![];
    let mut i = 0;
    while i < cs.len() {
        let c = cs[i];
        if c.is_whitespace() {
            i += 1;
            continue;
        }
        let punct = match c {
            '(' => Some("LParen"),
            ')' => Some("RParen"),
            ',' => Some("Comma"),
            ':' => Some("Colon"),
            '[' => Some("LBracket"),
            ']' => Some("RBracket"),
            _ => None,
        };
        if let Some(k) = punct {
            out.push(json!({ "k": k }));
            i += 1;
        } else if c.is_ascii_digit() {
            let st = i;
            while i < cs.len() && cs[i].is_ascii_digit() {
                i += 1;
            }
            let n: u64 = cs[st..i].iter().collect::<String>().parse().unwrap_or(u64::MAX);
            out.push(json!({"k": "Int", "n": n}));
        } else if c.is_ascii_alphabetic() || c == '_' {
            let st = i;
            while i < cs.len() && (cs[i].is_ascii_alphanumeric() || cs[i] == '_' || cs[i] == '-') {
                i += 1;
            }
            let w: String = cs[st..i].iter().collect();
            match w.as_str() {
                "mut" => out.push(json!({"k": "Mut"})),
                "BIT" | "INTEGER" | "OCTET" | "REAL" => out.push(json!({"k": "DataType", "v": w})),
                _ => out.push(json!({"k": "Ident", "v": w})),
            }
        } else {
            out.push(json!({"k": "Other"}));
            i += 1;
        }
    }
    out
}

/// token list -> text (single spaces), for feeding near-miss token lists to the real parser
pub fn render(tokens: &[Value]) -> String {
    tokens
        .iter()
        .map(|t| match t["k"].as_str().unwrap() {
            "DataType" | "Ident" => t["v"].as_str().unwrap().to_string(),
            "Int" => format!("{}", t["n"]),
            "LParen" => "(".into(),
            "RParen" => ")".into(),
            "Comma" => ",".into(),
            "Colon" => ":".into(),
            "Mut" => "mut".into(),
            "LBracket" => "[".into(),
            "RBracket" => "]".into(),
            _ => "?".into(),
        })
        .collect::<Vec<_>>()
        .join(" ")
}

fn imm_str(c: &Complex64) -> String {
    if c.im == 0.0 && c.re.fract() == 0.0 && c.re.abs() < 1e15 {
        format!("{}", c.re as i64)
    } else if c.im == 0.0 {
        format!("{}", c.re)
    } else {
        format!("{}+{}i", c.re, c.im)
    }
}

pub fn arg_from_abs(v: &Value) -> UnresolvedCallArgument {
    match s(v, "t").as_str() {
        "id" => UnresolvedCallArgument::Identifier(s(v, "s")),
        "mref" => UnresolvedCallArgument::MemoryReference(MemoryReference::new(s(v, "name"), util::u(v, "index"))),
        "imm" => UnresolvedCallArgument::Immediate(Complex64::new(s(v, "v").parse::<f64>().expect("imm"), 0.0)),
        o => panic!("unknown argument tag {o}"),
    }
}

fn resolved_to_abs(r: &ResolvedCallArgument) -> Value {
    match r {
        ResolvedCallArgument::Vector { memory_region_name, vector, mutable } => json!({
            "t": "Vector", "name": memory_region_name, "ty": scalar_name(&vector.data_type), "len": vector.length, "mut": mutable}),
        ResolvedCallArgument::MemoryReference { memory_reference, scalar_type, mutable } => json!({
            "t": "MemoryReference", "name": memory_reference.name, "index": memory_reference.index,
            "ty": scalar_name(scalar_type), "mut": mutable}),
        ResolvedCallArgument::Immediate { value, scalar_type } => json!({
            "t": "Immediate", "v": imm_str(value), "ty": scalar_name(scalar_type)}),
    }
}

fn resolution_error_kind(e: &CallArgumentResolutionError) -> &'static str {
    match e {
        CallArgumentResolutionError::UndeclaredMemoryReference(_) => "UndeclaredMemoryReference",
        CallArgumentResolutionError::MismatchedVector { .. } => "MismatchedVector",
        CallArgumentResolutionError::MismatchedScalar { .. } => "MismatchedScalar",
        CallArgumentResolutionError::InvalidVectorArgument(_) => "InvalidVectorArgument",
        CallArgumentResolutionError::ReturnArgument { .. } => "ReturnArgument",
        CallArgumentResolutionError::ImmediateArgumentForMutable(_) => "ImmediateArgumentForMutable",
    }
}

/// the outcome of Call::resolve_arguments in the encoding of Extern!outcome
fn outcome_to_abs(r: &Result<Vec<ResolvedCallArgument>, CallResolutionError>) -> Value {
    match r {
        Ok(v) => json!({"ok": v.iter().map(resolved_to_abs).collect::<Vec<_>>()}),
        Err(CallResolutionError::Signature { error: CallSignatureError::ParameterCount { .. }, .. }) => {
            json!({"err": {"t": "ParameterCount"}})
        }
        Err(CallResolutionError::Signature { error: CallSignatureError::Arguments(es), .. }) => json!({"err": {
            "t": "Arguments",
            "errors": es.iter().map(|e| match e {
                CallArgumentError::Return(x) => json!({"slot": "return", "index": 0, "kind": resolution_error_kind(x)}),
                CallArgumentError::Argument { index, error } => json!({"slot": "argument", "index": index, "kind": resolution_error_kind(error)}),
            }).collect::<Vec<_>>()}}),
        Err(CallResolutionError::NoMatchingExternInstruction(_)) => json!({"err": {"t": "NoMatchingExternInstruction"}}),
        Err(CallResolutionError::ExternSignature(_)) => json!({"err": {"t": "ExternSignature"}}),
    }
}

// ------------------------------------------------------------------------------------ the real runs

pub struct SigRun {
    pub text: String,
    /// ExternSignature::from_str(text)
    pub direct: Option<ExternSignature>,
    /// Pragma::new("EXTERN", [foo], text) -> Program -> try_extern_signature_map_from_pragma_map
    pub via_pragma: Option<ExternSignature>,
    /// the same pragma printed and parsed by the program parser
    pub via_program_text: Option<ExternSignature>,
}

fn extern_pragma(name: &str, text: &str) -> Instruction {
    Instruction::Pragma(Pragma::new("EXTERN".to_string(), vec![PragmaArgument::Identifier(name.to_string())], Some(text.to_string())))
}

fn lookup(p: &Program, name: &str) -> Option<ExternSignature> {
    p.try_extern_signature_map_from_pragma_map().ok().and_then(|m| m.iter().find(|(k, _)| k.as_str() == name).map(|(_, v)| v.clone()))
}

pub fn run_sig(sig: &ExternSignature) -> SigRun {
    let text = sig.to_quil().unwrap_or_else(|e| panic!("signature does not print: {e}"));
    let direct = ExternSignature::from_str(&text).ok();
    let mut p = Program::new();
    p.add_instruction(extern_pragma("foo", &text));
    let via_pragma = lookup(&p, "foo");
    let via_program_text =
        p.to_quil().ok().and_then(|t| Program::from_str(&t).ok()).and_then(|q| lookup(&q, "foo"));
    SigRun { text, direct, via_pragma, via_program_text }
}

fn roundtrip_failures(sig: &ExternSignature, r: &SigRun) -> Vec<(String, Value)> {
    let mut f = vec![];
    let show = |x: &Option<ExternSignature>| x.as_ref().map(sig_to_abs).unwrap_or(json!("does not parse"));
    if r.direct.as_ref() != Some(sig) {
        f.push(("signature round trip (ExternSignature::from_str)".to_string(), show(&r.direct)));
    }
    if r.via_pragma.as_ref() != Some(sig) {
        f.push(("signature round trip (try_extern_signature_map_from_pragma_map)".to_string(), show(&r.via_pragma)));
    }
    f
}

/// The third route (the PRAGMA printed inside a program and parsed by the program parser) also involves the
/// pragma printer / parser and string escaping, which belong to other properties: reported as divergence.
fn program_text_divergence(sig: &ExternSignature, r: &SigRun) -> Option<String> {
    if r.via_program_text.as_ref() != Some(sig) {
        Some(format!("signature does not survive the program-text route: {:?} -> {:?}", r.text, r.via_program_text.as_ref().map(sig_to_abs)))
    } else {
        None
    }
}

pub fn run_call(sig: &ExternSignature, decls: &[Value], args: &[Value]) -> Result<Vec<ResolvedCallArgument>, CallResolutionError> {
    let mut p = Program::new();
    for d in decls {
        p.add_instruction(Instruction::Declaration(Declaration::new(
            s(d, "name"),
            Vector::new(scalar_from(&s(d, "ty")), util::u(d, "len")),
            None,
        )));
    }
    let text = sig.to_quil().unwrap_or_else(|e| panic!("signature does not print: {e}"));
    p.add_instruction(extern_pragma("foo", &text));
    let call = Call::try_new("foo".to_string(), args.iter().map(arg_from_abs).collect()).expect("call name");
    p.add_instruction(Instruction::Call(call.clone()));
    let map = p
        .try_extern_signature_map_from_pragma_map()
        .unwrap_or_else(|(_, e)| panic!("extern signature map of a valid signature fails: {e}"));
    call.resolve_arguments(&p.memory_regions, &map)
}

/// The statement says "a scalar slot takes a declared reference of its type"; whether a bare region name
/// (an Identifier argument) counts as such a reference is not fixed by it (quil-rs reads `a` as `a[0]`).
/// Disagreements on calls of that shape are therefore not judged.
fn has_identifier_in_scalar_slot(sig: &Value, args: &[Value]) -> bool {
    let off = if sig["ret"].get("some").is_some() { 1 } else { 0 };
    args.iter().enumerate().any(|(n, a)| {
        a["t"] == "id" && n >= off && sig["params"].get(n - off).map(|p| p["ty"]["t"] == "scalar").unwrap_or(false)
    })
}

// ------------------------------------------------------------------------------------------- replay

pub fn replay(_ctx: &Ctx, case: &Value) -> Outcome {
    // a violation replay file from trace validation carries a recorded history
    if let Some(h) = case.get("history") {
        return replay_history(h.as_array().unwrap());
    }
    match s(case, "kind").as_str() {
        "sig" => replay_sig(case),
        "call" => replay_call(case),
        o => panic!("unknown case kind {o}"),
    }
}

fn replay_history(h: &[Value]) -> Outcome {
    let sig_abs = &h[0]["sig"];
    let sig = sig_from_abs(sig_abs);
    let mut o = Outcome::ok(true);
    let r = run_sig(&sig);
    for (obs, got) in roundtrip_failures(&sig, &r) {
        o.violate(Violation::new(&obs, sig_abs.clone(), got).note(format!("printed as {:?}", r.text)));
    }
    // the verdict on a recorded history was TLC's; here we establish whether the real code still produces the
    // recorded observations.  All of them reproduced => the rejected history is reproduced.
    let mut all_same = true;
    if let Some(p) = h.iter().find(|e| e["ev"] == "print") {
        let same2 = r.direct == r.via_pragma;
        let now = util::opt_json(if same2 { r.direct.as_ref().map(sig_to_abs) } else { None });
        all_same &= p["reparsed"] == now;
    }
    for e in h.iter().filter(|e| e["ev"] == "call") {
        let real = run_call(&sig, arr(&h[0], "decls"), arr(e, "args"));
        all_same &= e["ok"] == json!(real.is_ok());
    }
    if all_same && o.violations.is_empty() {
        o.violate(Violation::new("history rejected by trace validation (reproduced)", Value::Null, json!(h.len()))
            .note("the real code produces the same print / call observations that spec/trace/ExternTrace.tla rejected"));
    }
    o
}

fn replay_sig(case: &Value) -> Outcome {
    let sig_abs = &case["sig"];
    let sig = sig_from_abs(sig_abs);
    let mut o = Outcome::ok(!sig.parameters().is_empty());
    if sig_to_abs(&sig) != *sig_abs {
        panic!("abstraction function not invertible on {sig_abs}");
    }
    let r = run_sig(&sig);
    for (obs, got) in roundtrip_failures(&sig, &r) {
        o.violate(Violation::new(&obs, sig_abs.clone(), got).note(format!("printed as {:?}", r.text)));
    }
    if let Some(d) = program_text_divergence(&sig, &r) {
        o.diverge(d);
    }
    let toks = Value::Array(tokenize(&r.text));
    if toks != case["tokens"] {
        o.diverge(format!("printed tokens differ from PrintSig: {:?} vs model {}", r.text, case["tokens"]));
    }
    // the parser on near-miss inputs: accept/reject and the parsed value (beyond the statement)
    for m in arr(case, "mutants") {
        let text = render(arr(m, "tokens"));
        let real = ExternSignature::from_str(&text);
        o.sub_evaluations += 1;
        let same = match (&real, m["parse"].get("ok")) {
            (Ok(x), Some(w)) => sig_to_abs(x) == *w,
            (Err(_), None) => true,
            _ => false,
        };
        if !same {
            o.diverge(format!(
                "parser differs from ParseSig on {text:?}: model {} real {}",
                m["parse"],
                real.as_ref().map(sig_to_abs).unwrap_or_else(|e| json!(format!("{e}")[..40.min(format!("{e}").len())].to_string()))
            ));
        }
    }
    o
}

fn replay_call(case: &Value) -> Outcome {
    let sig_abs = &case["sig"];
    let sig = sig_from_abs(sig_abs);
    let args = arr(case, "args");
    let mut o = Outcome::ok(!args.is_empty());
    let real = run_call(&sig, arr(case, "decls"), args);
    let want = case["resolves"].as_bool().expect("resolves");
    if real.is_ok() != want {
        if has_identifier_in_scalar_slot(sig_abs, args) {
            o.diverge(format!("resolution of a bare region name in a scalar slot differs: model {want}, real {}", outcome_to_abs(&real)));
        } else {
            o.violate(
                Violation::new("CALL resolves", json!(want), json!(real.is_ok()))
                    .note(format!("real outcome {}", outcome_to_abs(&real))),
            );
        }
    } else if outcome_to_abs(&real) != case["outcome"] {
        o.diverge(format!("resolution detail differs: model {} real {}", case["outcome"], outcome_to_abs(&real)));
    }
    o.count(if real.is_ok() { "resolved" } else { "rejected" });
    o
}

// ------------------------------------------------------------------------------------------- drive

const PARAM_NAMES: &[&str] = &[
    "x", "bar", "a_b", "a-b", "q0", "mutable", "muta", "integer", "real_1", "Bit", "mut_", "_mut", "i1", "pie", "x-1-y", "REALLY",
    "ro", "theta", "I0", "defgate",
];
const REGION_NAMES: &[&str] = &["a", "v", "b", "ro", "theta", "mem-1", "w_2", "o"];
const TYPES: &[&str] = &["BIT", "INTEGER", "OCTET", "REAL"];

fn random_type(r: &mut impl Rng) -> Value {
    let ty = *TYPES.choose(r).unwrap();
    match r.gen_range(0..3) {
        0 => json!({"t": "scalar", "ty": ty}),
        1 => json!({"t": "fixed", "ty": ty, "len": *[0u64, 1, 2, 3, 16, 1000].choose(r).unwrap()}),
        _ => json!({"t": "var", "ty": ty}),
    }
}

fn fitting_arg(r: &mut impl Rng, slot: &Value, decls: &[Value]) -> Option<Value> {
    // try to build an argument that fits the slot (may be impossible with the declared regions)
    let want_ty = if slot["slot"] == "ret" { slot["ty"].clone() } else { slot["p"]["ty"]["ty"].clone() };
    let kind = if slot["slot"] == "ret" { "scalar".to_string() } else { s(&slot["p"]["ty"], "t") };
    let cands: Vec<&Value> = decls
        .iter()
        .filter(|d| d["ty"] == want_ty && (kind != "fixed" || d["len"] == slot["p"]["ty"]["len"]))
        .collect();
    if kind == "scalar" && slot["slot"] != "ret" && slot["p"]["mut"] == false && r.gen_bool(0.3) {
        return Some(json!({"t": "imm", "v": *["0", "1", "2.5", "7"].choose(r).unwrap()}));
    }
    let d = cands.choose(r)?;
    if kind == "scalar" {
        let len = d["len"].as_u64().unwrap();
        if len == 0 || r.gen_bool(0.3) {
            if len == 0 {
                return None;
            }
            Some(json!({"t": "id", "s": d["name"]}))
        } else {
            Some(json!({"t": "mref", "name": d["name"], "index": r.gen_range(0..len)}))
        }
    } else {
        Some(json!({"t": "id", "s": d["name"]}))
    }
}

fn random_arg(r: &mut impl Rng, decls: &[Value]) -> Value {
    let names: Vec<String> = decls.iter().map(|d| s(d, "name")).chain(["undeclared".to_string()]).collect();
    let n = names.choose(r).unwrap().clone();
    match r.gen_range(0..3) {
        0 => json!({"t": "id", "s": n}),
        1 => {
            // keep the index inside the region (see the exclusion in MC_Extern.tla)
            let len = decls.iter().find(|d| d["name"] == n.as_str()).map(|d| d["len"].as_u64().unwrap()).unwrap_or(1).max(1);
            json!({"t": "mref", "name": n, "index": r.gen_range(0..len)})
        }
        _ => json!({"t": "imm", "v": *["0", "1", "2.5"].choose(r).unwrap()}),
    }
}

pub fn drive(ctx: &Ctx) -> Summary {
    let n = ctx.arg_u64("n", 200);
    let calls_per = ctx.arg_u64("calls", 4);
    let path = ctx.arg_str("out").expect("--out");
    let mut out = std::io::BufWriter::new(std::fs::File::create(path).expect("create trace"));
    let mut rng = util::rng(ctx.seed, 31);
    let mut sum = Summary::default();
    // "valid signature" = accepted by the public constructor: names the constructor rejects are not inputs
    let param_names: Vec<&str> = PARAM_NAMES
        .iter()
        .copied()
        .filter(|n| ExternParameter::try_new(n.to_string(), false, ExternParameterType::Scalar(ScalarType::Bit)).is_ok())
        .collect();
    for h in 0..n {
        let np = if h < 3 { h as usize % 2 } else { rng.gen_range(0..=6) };
        let ret = if np == 0 || rng.gen_bool(0.5) { json!({"some": *TYPES.choose(&mut rng).unwrap()}) } else { json!({"none": true}) };
        let params: Vec<Value> = (0..np)
            .map(|_| json!({"name": *param_names.choose(&mut rng).unwrap(), "mut": rng.gen_bool(0.5), "ty": random_type(&mut rng)}))
            .collect();
        let sig_abs = json!({"ret": ret, "params": params});
        let sig = sig_from_abs(&sig_abs);
        let mut names: Vec<&str> = REGION_NAMES.to_vec();
        names.shuffle(&mut rng);
        let nd = rng.gen_range(3..=8);
        let decls: Vec<Value> = names[..nd]
            .iter()
            .map(|nm| json!({"name": nm, "ty": *TYPES.choose(&mut rng).unwrap(), "len": *[1u64, 1, 2, 3, 16].choose(&mut rng).unwrap()}))
            .collect();
        util::emit(&mut out, &json!({"ev": "reset", "sig": sig_abs, "decls": decls}));
        let r = run_sig(&sig);
        let all_same = r.direct == r.via_pragma;
        // verdict event: what the text parses back to (None = does not parse / the two routes disagree)
        util::emit(&mut out, &json!({"ev": "print",
            "reparsed": util::opt_json(if all_same { r.direct.as_ref().map(sig_to_abs) } else { None })}));
        util::emit(&mut out, &json!({"ev": "lex", "tokens": tokenize(&r.text)}));
        let mut o = Outcome::ok(np >= 1);
        if let Some(d) = program_text_divergence(&sig, &r) {
            o.diverge(d);
        }
        let mut events = 3;
        // the slots, as the spec numbers them
        let mut slots: Vec<Value> = vec![];
        if let Some(t) = sig_abs["ret"].get("some") {
            slots.push(json!({"slot": "ret", "ty": t}));
        }
        for p in arr(&sig_abs, "params") {
            slots.push(json!({"slot": "param", "p": p}));
        }
        for _ in 0..calls_per {
            let mut args: Vec<Value> = slots
                .iter()
                .map(|sl| {
                    if rng.gen_bool(0.93) {
                        fitting_arg(&mut rng, sl, &decls).unwrap_or_else(|| random_arg(&mut rng, &decls))
                    } else {
                        random_arg(&mut rng, &decls)
                    }
                })
                .collect();
            if rng.gen_bool(0.04) {
                args.pop();
            } else if rng.gen_bool(0.04) {
                args.push(random_arg(&mut rng, &decls));
            }
            let real = run_call(&sig, &decls, &args);
            // verdict event: resolves or not; calls with a bare region name in a scalar slot are not judged
            let judged = !has_identifier_in_scalar_slot(&sig_abs, &args);
            util::emit(&mut out, &json!({"ev": "call", "args": args, "ok": real.is_ok(), "judged": judged}));
            util::emit(&mut out, &json!({"ev": "callinfo", "outcome": outcome_to_abs(&real)}));
            events += 2;
            o.count(if real.is_ok() { "resolved" } else { "rejected" });
        }
        o.count_n("events", events);
        sum.absorb(&json!({"sig": sig_abs, "decls": decls}), &o, true);
    }
    sum
}
