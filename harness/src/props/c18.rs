//! C18 — calibration expansion always terminates without crashing; error iff re-entry.
//!
//! replay: TLC cases from spec/mc/MC_CalExpand.tla (families struct with cycles through every name, param
//!         with growing parameters that a literal calibration stops): the program is expanded on the real
//!         library; the result category (done | recursive) must be the model's, which TLC has checked to
//!         be "recursive iff a cycle is reachable in the expands-to graph" (ErrIffReentry) and to be
//!         reached on every fair behaviour (Terminates).  A crash or timeout of the worker is a violation
//!         (reported by the replay pool).
//!         Programs with a *growing parameter on a call cycle* (the shape of the known finding
//!         calibration-parameter-growth) are expanded in a helper process, one at a time, on a 512 KiB
//!         thread stack so that unbounded recursion is observed quickly; the death of the helper is the
//!         tagged violation (the next such program gets a fresh helper).  Programs for which the model
//!         expects the recursive-calibration error run in the helper too (a missed re-entry recurses without
//!         end; the helper shows that quickly), but their crash stays untagged.  Everything else runs in the
//!         pool worker, where a crash stays untagged as well.
//! drive:  the C17 driver with more cyclic programs; spec/trace/CalExpandTrace.tla judges with Judge = "C18".

use super::c16::abs;
use super::c17;
use crate::runner::{Outcome, Summary, Violation};
use crate::Ctx;
use serde_json::{json, Value};
use std::io::{BufRead, BufReader, Write};
use std::process::{Command, Stdio};
use std::time::Duration;

pub const FINDING: &str = "calibration-parameter-growth";

fn contains_var(e: &Value) -> bool {
    match e["t"].as_str() {
        Some("var") => true,
        Some("plus1") | Some("neg") => contains_var(&e["e"]),
        _ => false,
    }
}

/// The shape of the known finding, as a predicate on the program alone: some gate calibration with a
/// parameter variable invokes, with a parameter expression that properly contains a variable (so that it
/// grows with every expansion), a gate that a calibration on a call cycle back to it could match
/// (same name, parameter count and qubit count).
pub fn has_growing_cycle(case: &Value) -> bool {
    let cals: Vec<&Value> = case["gcals"].as_array().map(|a| a.iter().collect()).unwrap_or_default();
    let n = cals.len();
    let could_match = |g: &Value, d: &Value| {
        g["name"] == d["name"]
            && g["params"].as_array().map(|a| a.len()) == d["params"].as_array().map(|a| a.len())
            && g["qubits"].as_array().map(|a| a.len()) == d["qubits"].as_array().map(|a| a.len())
    };
    // edges[i][j] = Some(growing)
    let mut edge = vec![vec![None::<bool>; n]; n];
    for (i, c) in cals.iter().enumerate() {
        let has_var = c["params"].as_array().map(|a| a.iter().any(|p| p["t"] == "var")).unwrap_or(false);
        for b in c["body"].as_array().into_iter().flatten() {
            if b["k"] != "Gate" {
                continue;
            }
            let growing = has_var
                && b["params"].as_array().map(|a| a.iter().any(|p| p["t"] != "var" && contains_var(p))).unwrap_or(false);
            for (j, d) in cals.iter().enumerate() {
                if could_match(b, d) {
                    edge[i][j] = Some(edge[i][j].unwrap_or(false) || growing);
                }
            }
        }
    }
    // reachability
    let mut reach = vec![vec![false; n]; n];
    for i in 0..n {
        for j in 0..n {
            reach[i][j] = edge[i][j].is_some();
        }
    }
    for k in 0..n {
        for i in 0..n {
            for j in 0..n {
                if reach[i][k] && reach[k][j] {
                    reach[i][j] = true;
                }
            }
        }
    }
    (0..n).any(|i| (0..n).any(|j| edge[i][j] == Some(true) && (i == j || reach[j][i])))
}

/// expand in this process; (category, max depth reported by the hooks)
fn expand_here(case: &Value) -> (String, usize) {
    let (_, res, depth) = c17::run_hooked(case, false);
    (c17::category(&res).to_string(), depth)
}

struct Helper {
    child: std::process::Child,
    stdin: std::process::ChildStdin,
    lines: std::sync::mpsc::Receiver<Option<String>>,
}

thread_local! {
    /// the helper process of this worker; it lives until a case kills it (then the next case gets a new one),
    /// so a program that makes it die is alone in it from the point of view of the verdict
    static HELPER: std::cell::RefCell<Option<Helper>> = const { std::cell::RefCell::new(None) };
}

fn spawn_helper(ctx: &Ctx) -> Helper {
    let exe = std::env::current_exe().expect("current_exe");
    let mut child = Command::new(exe)
        .args(["worker", "C18.child", "--seed", &ctx.seed.to_string()])
        .stdin(Stdio::piped())
        .stdout(Stdio::piped())
        .stderr(Stdio::null())
        .spawn()
        .expect("spawn C18 child");
    let stdin = child.stdin.take().unwrap();
    let stdout = child.stdout.take().unwrap();
    let (tx, rx) = std::sync::mpsc::channel();
    std::thread::spawn(move || {
        let mut rd = BufReader::new(stdout);
        loop {
            let mut resp = String::new();
            let n = rd.read_line(&mut resp).unwrap_or(0);
            if tx.send(if n > 0 { Some(resp) } else { None }).is_err() || n == 0 {
                break;
            }
        }
    });
    Helper { child, stdin, lines: rx }
}

/// expand in a separate process (one case at a time); Err(how it died)
fn expand_in_child(ctx: &Ctx, case: &Value) -> Result<(String, usize), String> {
    let mut h = HELPER.with(|c| c.borrow_mut().take()).unwrap_or_else(|| spawn_helper(ctx));
    let line = serde_json::to_string(case).unwrap();
    let _ = h.stdin.write_all(line.as_bytes());
    let _ = h.stdin.write_all(b"\n");
    let _ = h.stdin.flush();
    let limit = ctx.arg_u64("child-timeout", 20);
    match h.lines.recv_timeout(Duration::from_secs(limit)) {
        Ok(Some(resp)) => {
            HELPER.with(|c| *c.borrow_mut() = Some(h));
            let o: Outcome = serde_json::from_str(&resp).map_err(|e| format!("child answer not parseable: {e}"))?;
            if let Some(v) = o.violations.first() {
                return Err(format!("{}: {}", v.observable, v.actual));
            }
            let cat = o.divergences.first().cloned().unwrap_or_default();
            let depth = o.counters.get("depth").copied().unwrap_or(0) as usize;
            Ok((cat, depth))
        }
        Ok(None) | Err(std::sync::mpsc::RecvTimeoutError::Disconnected) => {
            use std::os::unix::process::ExitStatusExt;
            drop(h.stdin);
            let st = h.child.wait().ok();
            Err(match st.and_then(|s| s.signal()) {
                Some(sig) => format!("signal {sig}"),
                None => format!("exit {:?}", st.and_then(|s| s.code())),
            })
        }
        Err(std::sync::mpsc::RecvTimeoutError::Timeout) => {
            let _ = h.child.kill();
            let _ = h.child.wait();
            Err("timeout".to_string())
        }
    }
}

pub fn replay(ctx: &Ctx, case: &Value) -> Outcome {
    let case = match case.get("history") {
        Some(h) => h[0].clone(),
        None => case.clone(),
    };
    if ctx.mode == "C18.child" {
        // the answer travels in an Outcome: category in `divergences[0]`, depth in a counter
        let c2 = case.clone();
        let h = std::thread::Builder::new().stack_size(512 << 10).spawn(move || expand_here(&c2)).expect("spawn thread");
        let (cat, depth) = h.join().unwrap_or_else(|_| ("panic".to_string(), 0));
        let mut o = Outcome::ok(true);
        if cat == "panic" {
            o.violate(Violation::new("panic", json!("no panic"), json!("panic during expansion")));
        }
        o.divergences.push(cat);
        o.count_n("depth", depth as u64);
        return o;
    }
    // make sure the program is inside the modelled alphabet before anything runs (tool error otherwise)
    let _ = abs::program_from_abs(&case);
    let growing = has_growing_cycle(&case);
    let cyc = case.get("cycle").and_then(|c| c.as_bool());
    let mut o = Outcome::ok(growing || cyc.unwrap_or(false));
    // Programs that can make a broken expansion recurse without end go to the helper process (512 KiB thread
    // stack, 20 s limit), so that such a crash is observed within a fraction of a second and does not cost a
    // pool worker: the known-finding shape, and every program for which the model expects the
    // recursive-calibration error (if the breadcrumb check misses the re-entry, the recursion never ends).
    let result = if growing || cyc == Some(true) {
        o.count("own_child");
        expand_in_child(ctx, &case)
    } else {
        Ok(expand_here(&case))
    };
    let want = case.get("status").and_then(|s| s.as_str()).unwrap_or("");
    match result {
        Err(how) => {
            // the helper died or did not answer: tagged only for the known-finding shape
            let mut v = Violation::new("crash", json!("expanded program or recursive-calibration error"), json!(how));
            if growing {
                v = v
                    .note("a calibration re-invokes a gate with a parameter that grows on every expansion: no instruction repeats, the recursion never ends")
                    .finding(FINDING);
            } else {
                v = v.note("the expansion of a program without a growing parameter crashed or did not return (expected: the expanded program or the recursive-calibration error)");
            }
            o.violate(v);
        }
        Ok((cat, depth)) => {
            match (cat.as_str(), cyc) {
                ("recursive", Some(false)) => o.violate(
                    Violation::new("recursive-calibration error without re-entry", json!("done"), json!(cat))
                        .note("no instruction reachable from the body can reach itself in the expands-to graph"),
                ),
                ("done", Some(true)) => o.violate(
                    Violation::new("re-entry not reported", json!("recursive"), json!(cat))
                        .note("some instruction reachable from the body expands (indirectly) into itself"),
                ),
                ("done", _) | ("recursive", _) => {}
                (other, _) => o.violate(Violation::new("result category", json!("done | recursive"), json!(other))),
            }
            if want == "diverges" {
                o.diverge(format!("the model expects unbounded recursion, the code returned {cat}"));
            } else if !want.is_empty() && want != cat && cyc.is_none() {
                o.diverge(format!("model status {want}, code {cat}"));
            }
            if let Some(d) = case.get("depth").and_then(|d| d.as_u64()) {
                if want != "diverges" && d as usize != depth {
                    o.diverge(format!("deepest nesting: model {d}, hooks {depth}"));
                }
            }
        }
    }
    o
}

pub fn drive(ctx: &Ctx) -> Summary {
    c17::drive_traces(ctx, 18, 0.5)
}
