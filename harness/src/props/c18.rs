//! C18 — not built yet.
use crate::runner::{Outcome, Summary};
use crate::Ctx;
use serde_json::Value;

pub fn replay(_ctx: &Ctx, _case: &Value) -> Outcome {
    panic!("C18: replay not implemented")
}

pub fn drive(_ctx: &Ctx) -> Summary {
    panic!("C18: drive not implemented")
}
