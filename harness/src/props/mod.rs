//! One module per property; a mode `Cnn[.suffix]` is dispatched to `cnn`.
use crate::runner::{Outcome, Summary};
use crate::Ctx;
use serde_json::Value;

pub mod c01;
pub mod c02;
pub mod c03;
pub mod c04;
pub mod c05;
pub mod c06;
pub mod c07;
pub mod c08;
pub mod c09;
pub mod c10;
pub mod c11;
pub mod c12;
pub mod c13;
pub mod c14;
pub mod c15;
pub mod c16;
pub mod c17;
pub mod c18;
pub mod c19;
pub mod c20;
pub mod c21;
pub mod c22;
pub mod c23;
pub mod c24;
pub mod c25;
pub mod c26;
pub mod c27;
pub mod c28;
pub mod c29;
pub mod c30;
pub mod c31;
pub mod c32;
pub mod c33;
pub mod c34;
pub mod c35;
pub mod x01;

fn pid(mode: &str) -> &str {
    mode.split('.').next().unwrap_or(mode)
}

pub fn replay(ctx: &Ctx, case: &Value) -> Outcome {
    match pid(&ctx.mode) {
        "C01" => c01::replay(ctx, case),
        "C02" => c02::replay(ctx, case),
        "C03" => c03::replay(ctx, case),
        "C04" => c04::replay(ctx, case),
        "C05" => c05::replay(ctx, case),
        "C06" => c06::replay(ctx, case),
        "C07" => c07::replay(ctx, case),
        "C08" => c08::replay(ctx, case),
        "C09" => c09::replay(ctx, case),
        "C10" => c10::replay(ctx, case),
        "C11" => c11::replay(ctx, case),
        "C12" => c12::replay(ctx, case),
        "C13" => c13::replay(ctx, case),
        "C14" => c14::replay(ctx, case),
        "C15" => c15::replay(ctx, case),
        "C16" => c16::replay(ctx, case),
        "C17" => c17::replay(ctx, case),
        "C18" => c18::replay(ctx, case),
        "C19" => c19::replay(ctx, case),
        "C20" => c20::replay(ctx, case),
        "C21" => c21::replay(ctx, case),
        "C22" => c22::replay(ctx, case),
        "C23" => c23::replay(ctx, case),
        "C24" => c24::replay(ctx, case),
        "C25" => c25::replay(ctx, case),
        "C26" => c26::replay(ctx, case),
        "C27" => c27::replay(ctx, case),
        "C28" => c28::replay(ctx, case),
        "C29" => c29::replay(ctx, case),
        "C30" => c30::replay(ctx, case),
        "C31" => c31::replay(ctx, case),
        "C32" => c32::replay(ctx, case),
        "C33" => c33::replay(ctx, case),
        "C34" => c34::replay(ctx, case),
        "C35" => c35::replay(ctx, case),
        "X01" => x01::replay(ctx, case),
        other => panic!("unknown mode {other}"),
    }
}

pub fn drive(ctx: &Ctx) -> Summary {
    match pid(&ctx.mode) {
        "C01" => c01::drive(ctx),
        "C02" => c02::drive(ctx),
        "C03" => c03::drive(ctx),
        "C04" => c04::drive(ctx),
        "C05" => c05::drive(ctx),
        "C06" => c06::drive(ctx),
        "C07" => c07::drive(ctx),
        "C08" => c08::drive(ctx),
        "C09" => c09::drive(ctx),
        "C10" => c10::drive(ctx),
        "C11" => c11::drive(ctx),
        "C12" => c12::drive(ctx),
        "C13" => c13::drive(ctx),
        "C14" => c14::drive(ctx),
        "C15" => c15::drive(ctx),
        "C16" => c16::drive(ctx),
        "C17" => c17::drive(ctx),
        "C18" => c18::drive(ctx),
        "C19" => c19::drive(ctx),
        "C20" => c20::drive(ctx),
        "C21" => c21::drive(ctx),
        "C22" => c22::drive(ctx),
        "C23" => c23::drive(ctx),
        "C24" => c24::drive(ctx),
        "C25" => c25::drive(ctx),
        "C26" => c26::drive(ctx),
        "C27" => c27::drive(ctx),
        "C28" => c28::drive(ctx),
        "C29" => c29::drive(ctx),
        "C30" => c30::drive(ctx),
        "C31" => c31::drive(ctx),
        "C32" => c32::drive(ctx),
        "C33" => c33::drive(ctx),
        "C34" => c34::drive(ctx),
        "C35" => c35::drive(ctx),
        "X01" => x01::drive(ctx),
        other => panic!("unknown mode {other}"),
    }
}
