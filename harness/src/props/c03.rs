//! C03 — serialized expressions denote the same value when parsed back.
//!
//! This file also holds the code shared by the expression group (C03, C12, C13):
//!   * `build` / `to_abs`: the abstraction function between `quil_rs::expression::Expression` and the
//!     JSON encoding of spec/ExprAbs.tla (DESIGN.md Appendix B).  Trees are built through the public
//!     constructors of `quil_rs::expression` (`interned::*`), never by parsing;
//!   * `gf_of`: the image of a literal in GF(1009) (exact rationals only), used for recorded real
//!     outputs that TLC judges;
//!   * sampled assignments, the floating-point comparison and the signed-zero / branch-cut filter of
//!     DESIGN.md §2.2.
//!
//! replay: TLC cases {tree, text, parsed} of spec/mc/MC_ExprSyntax.tla are built, printed with
//!         `to_quil`, re-parsed with `Expression::from_str` and both trees evaluated at 4 assignments.
//! drive:  seeded random trees up to depth 6 over the full leaf alphabet; events reset/print/parse/done
//!         go to spec/trace/ExprSyntaxTrace.tla, which re-prints and re-parses the tree with the model
//!         and judges the recorded re-parsed tree by its value in GF(1009).

use crate::runner::{Outcome, Summary, Violation};
use crate::util::{self, s};
use crate::Ctx;
use num_complex::Complex64;
use quil_rs::expression::{
    interned, Expression, ExpressionFunction, FunctionCallExpression, InfixExpression, InfixOperator,
    PrefixExpression, PrefixOperator,
};
use quil_rs::instruction::MemoryReference;
use quil_rs::quil::Quil;
use rand::seq::SliceRandom;
use rand::Rng;
use serde_json::{json, Value};
use std::collections::{BTreeSet, HashMap};
use std::str::FromStr;

// ------------------------------------------------------------------------------------ abstraction

pub const P: i64 = 1009;
/// a square root of -1 in GF(1009) (spec/ExprAbs.tla: `ImagUnit`)
pub const IMAG_UNIT: i64 = 469;

pub fn fmt_f64(x: f64) -> String {
    if x.is_nan() {
        "nan".into()
    } else if x.is_infinite() {
        if x > 0.0 { "inf".into() } else { "-inf".into() }
    } else if x == 0.0 {
        "0".into() // the sign of zero is not part of the encoding
    } else {
        format!("{x}")
    }
}

fn parse_f64(t: &str) -> f64 {
    match t {
        "nan" => f64::NAN,
        "inf" => f64::INFINITY,
        "-inf" => f64::NEG_INFINITY,
        other => other.parse::<f64>().unwrap_or_else(|_| panic!("bad decimal in case: {other:?}")),
    }
}

fn infix_op(t: &str) -> InfixOperator {
    match t {
        "+" => InfixOperator::Plus,
        "-" => InfixOperator::Minus,
        "*" => InfixOperator::Star,
        "/" => InfixOperator::Slash,
        "^" => InfixOperator::Caret,
        o => panic!("unknown infix operator {o}"),
    }
}

fn infix_name(o: InfixOperator) -> &'static str {
    match o {
        InfixOperator::Plus => "+",
        InfixOperator::Minus => "-",
        InfixOperator::Star => "*",
        InfixOperator::Slash => "/",
        InfixOperator::Caret => "^",
    }
}

fn function(t: &str) -> ExpressionFunction {
    match t {
        "cis" => ExpressionFunction::Cis,
        "cos" => ExpressionFunction::Cosine,
        "exp" => ExpressionFunction::Exponent,
        "sin" => ExpressionFunction::Sine,
        "sqrt" => ExpressionFunction::SquareRoot,
        o => panic!("unknown function {o}"),
    }
}

fn function_name(f: ExpressionFunction) -> &'static str {
    match f {
        ExpressionFunction::Cis => "cis",
        ExpressionFunction::Cosine => "cos",
        ExpressionFunction::Exponent => "exp",
        ExpressionFunction::Sine => "sin",
        ExpressionFunction::SquareRoot => "sqrt",
    }
}

fn inv_mod(a: i64) -> i64 {
    let (mut r, mut b, mut e) = (1i64, a.rem_euclid(P), P - 2);
    while e > 0 {
        if e & 1 == 1 {
            r = r * b % P;
        }
        b = b * b % P;
        e >>= 1;
    }
    r
}

/// p/q with small p and q such that p/q == x exactly in f64, if any (large magnitudes are not recognised:
/// there the grid of such rationals is finer than the floating-point spacing and anything would match).
fn rational(x: f64) -> Option<(i64, i64)> {
    if !x.is_finite() {
        return None;
    }
    for q in 1..=720i64 {
        let p = (x * q as f64).round();
        if p.abs() <= 1e6 && p / q as f64 == x {
            return Some((p as i64, q));
        }
    }
    None
}

fn gf_real(x: f64) -> Option<i64> {
    // 1e-7 and 1e20 of the C03 alphabet are exact powers of ten, not small rationals
    if x == 1e-7 {
        return Some(inv_mod(10i64.pow(7) % P));
    }
    if x == 1e20 {
        return Some(((10i64.pow(10) % P) * (10i64.pow(10) % P)) % P);
    }
    let (p, q) = rational(x)?;
    if q % P == 0 {
        return None;
    }
    Some(p.rem_euclid(P) * inv_mod(q) % P)
}

/// The image of a literal in GF(1009): `Some(1009)` is the NaN marker of the specification, `None`
/// means "not an exactly representable rational" (then TLC does not judge the value).
pub fn gf_of(c: Complex64) -> Option<i64> {
    if c.re.is_nan() || c.im.is_nan() {
        return Some(P);
    }
    Some((gf_real(c.re)? + IMAG_UNIT * gf_real(c.im)?) % P)
}

/// C12 alphabet: GF leaf -> literal (spec/mc/MC_ExprSimplify.tla `Leaves`)
pub fn literal_of_gf(n: i64) -> Complex64 {
    match n {
        0 => Complex64::new(0.0, 0.0),
        1 => Complex64::new(1.0, 0.0),
        2 => Complex64::new(2.0, 0.0),
        3 => Complex64::new(3.0, 0.0),
        1008 => Complex64::new(-1.0, 0.0),
        505 => Complex64::new(0.5, 0.0),
        506 => Complex64::new(1.5, 0.0),
        1007 => Complex64::new(-2.0, 0.0),
        4 => Complex64::new(4.0, 0.0),
        938 => Complex64::new(0.0, 2.0), // 2 * ImagUnit
        other => panic!("GF leaf {other} is not in the literal table of the harness"),
    }
}

/// JSON -> Expression, through the public constructors (`quil_rs::expression::interned`); the
/// interned pointer type is never named (`.into()`), the harness has no direct dependency on `internment`.
pub fn build(v: &Value) -> Expression {
    build_rec(v)
}

fn build_rec(v: &Value) -> Expression {
    let t = s(v, "t");
    match t.as_str() {
        "num" => {
            let c = if let Some(n) = v.get("n").and_then(|n| n.as_i64()) {
                literal_of_gf(n)
            } else {
                Complex64::new(parse_f64(&s(v, "re")), parse_f64(&s(v, "im")))
            };
            (*interned::number(c)).clone()
        }
        "pi" => (*interned::pi()).clone(),
        "var" => (*interned::variable(s(v, "v"))).clone(),
        "addr" => {
            let m = &v["m"];
            (*interned::address(MemoryReference::new(s(m, "name"), util::u(m, "index")))).clone()
        }
        "neg" => (*interned::neg(build_rec(&v["e"]).into())).clone(),
        "pos" => (*interned::unary_plus(build_rec(&v["e"]).into())).clone(),
        "fn" => (*interned::function_call(function(&s(v, "f")), build_rec(&v["e"]).into())).clone(),
        "inf" => {
            (*interned::infix(build_rec(&v["l"]).into(), infix_op(&s(v, "op")), build_rec(&v["r"]).into())).clone()
        }
        o => panic!("unknown expression tag {o}"),
    }
}

/// Expression -> JSON.  Numbers carry `re`/`im` (decimal strings) and, when `with_gf`, the field `n`
/// (image in GF(1009)) or `"n": -1` when the literal is not an exact small rational.
pub fn to_abs_opts(e: &Expression, with_gf: bool) -> Value {
    match e {
        Expression::Number(c) => {
            if with_gf {
                json!({"t": "num", "n": gf_of(*c).unwrap_or(-1)})
            } else {
                json!({"t": "num", "re": fmt_f64(c.re), "im": fmt_f64(c.im)})
            }
        }
        Expression::PiConstant() => json!({"t": "pi"}),
        Expression::Variable(v) => json!({"t": "var", "v": v}),
        Expression::Address(m) => json!({"t": "addr", "m": {"name": m.name, "index": m.index}}),
        Expression::Prefix(PrefixExpression { operator, expression }) => match operator {
            PrefixOperator::Minus => json!({"t": "neg", "e": to_abs_opts(expression, with_gf)}),
            PrefixOperator::Plus => json!({"t": "pos", "e": to_abs_opts(expression, with_gf)}),
        },
        Expression::FunctionCall(FunctionCallExpression { function, expression }) => {
            json!({"t": "fn", "f": function_name(*function), "e": to_abs_opts(expression, with_gf)})
        }
        Expression::Infix(InfixExpression { left, operator, right }) => json!({
            "t": "inf", "op": infix_name(*operator), "l": to_abs_opts(left, with_gf), "r": to_abs_opts(right, with_gf)}),
    }
}

pub fn to_abs(e: &Expression) -> Value {
    to_abs_opts(e, false)
}

/// every literal is an exact small rational (so `to_abs_opts(e, true)` has no `-1`)
pub fn gf_exact(e: &Expression) -> bool {
    match e {
        Expression::Number(c) => gf_of(*c).is_some(),
        Expression::Prefix(p) => gf_exact(&p.expression),
        Expression::FunctionCall(f) => gf_exact(&f.expression),
        Expression::Infix(i) => gf_exact(&i.left) && gf_exact(&i.right),
        _ => true,
    }
}

pub fn has_node(e: &Expression, pred: &dyn Fn(&Expression) -> bool) -> bool {
    if pred(e) {
        return true;
    }
    match e {
        Expression::Prefix(p) => has_node(&p.expression, pred),
        Expression::FunctionCall(f) => has_node(&f.expression, pred),
        Expression::Infix(i) => has_node(&i.left, pred) || has_node(&i.right, pred),
        _ => false,
    }
}

pub fn variables(e: &Expression, out: &mut BTreeSet<String>) {
    match e {
        Expression::Variable(v) => {
            out.insert(v.clone());
        }
        Expression::Prefix(p) => variables(&p.expression, out),
        Expression::FunctionCall(f) => variables(&f.expression, out),
        Expression::Infix(i) => {
            variables(&i.left, out);
            variables(&i.right, out);
        }
        _ => {}
    }
}

/// addresses by an independent recursive walk (left to right), *not* through `memory_references`
pub fn addresses(e: &Expression, out: &mut Vec<(String, u64)>) {
    match e {
        Expression::Address(m) => out.push((m.name.clone(), m.index)),
        Expression::Prefix(p) => addresses(&p.expression, out),
        Expression::FunctionCall(f) => addresses(&f.expression, out),
        Expression::Infix(i) => {
            addresses(&i.left, out);
            addresses(&i.right, out);
        }
        _ => {}
    }
}

pub fn depth(e: &Expression) -> usize {
    match e {
        Expression::Prefix(p) => 1 + depth(&p.expression),
        Expression::FunctionCall(f) => 1 + depth(&f.expression),
        Expression::Infix(i) => 1 + depth(&i.left).max(depth(&i.right)),
        _ => 0,
    }
}

// ------------------------------------------------------------------------- sampled evaluation

pub struct Point {
    pub vars: HashMap<String, Complex64>,
    pub mem: HashMap<String, Vec<f64>>,
}

/// `n` seeded generic assignments plus one fixed one, for the names occurring in `e` (and `extra`).
pub fn points(seed: u64, stream: u64, exprs: &[&Expression], n: usize) -> Vec<Point> {
    let mut vs = BTreeSet::new();
    let mut ads = vec![];
    for e in exprs {
        variables(e, &mut vs);
        addresses(e, &mut ads);
    }
    let mut r = util::rng(seed, stream);
    let mut out = vec![];
    for k in 0..=n {
        let mut vars = HashMap::new();
        let mut mem: HashMap<String, Vec<f64>> = HashMap::new();
        for (j, v) in vs.iter().enumerate() {
            let c = if k == n {
                // the fixed assignment
                Complex64::new(1.25 + 0.5 * j as f64, 0.75 - 0.375 * j as f64)
            } else {
                let m: f64 = r.gen_range(0.6..2.5);
                let a: f64 = r.gen_range(0.2..1.3) * if r.gen_bool(0.5) { 1.0 } else { -1.0 };
                Complex64::from_polar(m, a)
            };
            vars.insert(v.clone(), c);
        }
        for (name, idx) in &ads {
            let cell = mem.entry(name.clone()).or_default();
            while cell.len() <= *idx as usize {
                let j = cell.len();
                let x = if k == n {
                    0.625 + 0.25 * j as f64
                } else {
                    r.gen_range(0.6..2.5) * if r.gen_bool(0.3) { -1.0 } else { 1.0 }
                };
                cell.push(x);
            }
        }
        out.push(Point { vars, mem });
    }
    out
}

pub fn eval(e: &Expression, p: &Point) -> Option<Complex64> {
    e.evaluate(&p.vars, &p.mem).ok()
}

fn near_cut(c: Complex64) -> bool {
    // on (or within rounding of) the negative real axis, or within rounding of the origin: `ln` jumps
    // there.  An *exact* zero is not sensitive: 0^y is 0, 1 (y = 0) or not finite whatever the signs of
    // the zeros, and sqrt(0) = 0 - so 0^0 and (x-x)^y stay judged.
    if c.re == 0.0 && c.im == 0.0 {
        return false;
    }
    let n = c.norm();
    !n.is_finite() || n < 1e-9 || (c.re < 0.0 && c.im.abs() <= 1e-6 * c.re.abs())
}

/// max |value| over all sub-expressions, whether a `^` base / `sqrt` argument sits on the cut, and whether
/// some sub-expression has a value inside the simplifier's absolute tolerances (`is_zero`: |v| < 1e-10,
/// `is_one`: |v - 1| < 1e-10) without being exactly 0 or 1
fn scan(e: &Expression, p: &Point, scale: &mut f64, cut: &mut bool, tol: &mut bool) {
    if let Some(v) = eval(e, p) {
        if v.norm().is_finite() {
            *scale = scale.max(v.norm());
        }
        let (z, o) = (v.norm(), (v - 1.0).norm());
        *tol |= (z > 0.0 && z < 1e-8) || (o > 0.0 && o < 1e-8);
    }
    match e {
        Expression::Prefix(x) => scan(&x.expression, p, scale, cut, tol),
        Expression::FunctionCall(f) => {
            if f.function == ExpressionFunction::SquareRoot {
                if let Some(v) = eval(&f.expression, p) {
                    *cut |= near_cut(v);
                }
            }
            scan(&f.expression, p, scale, cut, tol)
        }
        Expression::Infix(i) => {
            if i.operator == InfixOperator::Caret {
                if let Some(v) = eval(&i.left, p) {
                    *cut |= near_cut(v);
                }
            }
            scan(&i.left, p, scale, cut, tol);
            scan(&i.right, p, scale, cut, tol);
        }
        _ => {}
    }
}

/// the tree with the sign of every zero imaginary part of its literals flipped (DESIGN.md §2.2)
fn flip_zero_im(e: &Expression) -> Expression {
    match e {
        Expression::Number(c) if c.im == 0.0 => (*interned::number(Complex64::new(c.re, -c.im))).clone(),
        Expression::Prefix(p) => match p.operator {
            PrefixOperator::Minus => (*interned::neg(flip_zero_im(&p.expression).into())).clone(),
            PrefixOperator::Plus => (*interned::unary_plus(flip_zero_im(&p.expression).into())).clone(),
        },
        Expression::FunctionCall(f) => {
            (*interned::function_call(f.function, flip_zero_im(&f.expression).into())).clone()
        }
        Expression::Infix(i) => {
            (*interned::infix(flip_zero_im(&i.left).into(), i.operator, flip_zero_im(&i.right).into())).clone()
        }
        other => other.clone(),
    }
}

pub fn close(a: Complex64, b: Complex64, scale: f64) -> bool {
    if a == b {
        return true;
    }
    let d = (a - b).norm();
    d <= 1e-9 * a.norm().max(b.norm()) || d <= 1e-9 * scale
}

pub enum Judged {
    /// the original is not finite here, or the point is genuinely ambiguous: the statement excludes it
    NotJudged(&'static str),
    Same,
    Differs { original: Complex64, other: Option<Complex64> },
}

/// Compare `other` with `original` at `p` under the rules of DESIGN.md §2.2.
pub fn judge(original: &Expression, other: &Expression, p: &Point) -> Judged {
    judge_opts(original, other, p, false)
}

fn on_negative_axis(c: Complex64) -> bool {
    c.re < 0.0 && c.im.abs() <= 1e-6 * c.re.abs()
}

/// The ADMISSIBLE values of `e` at `p`: the evaluation of `e` where, at every `^` base / `sqrt` argument
/// that lies on the negative real axis (within rounding), both signs of the zero imaginary part - i.e. both
/// branches - are followed.  Quil has no negative literals (`-1.5` re-parses as `-(1.5)` = -1.5 - 0.0i) and
/// rewriting `0 - 2` to `-(2)` flips the same sign, so either branch is a legitimate value of the expression;
/// any *other* value (or NaN) is not.  None: a base within rounding of the origin (its argument is
/// arbitrary), a missing name, or more than 32 combinations - genuinely ambiguous, not judged.
fn admissible(e: &Expression, p: &Point) -> Option<Vec<Complex64>> {
    fn push(out: &mut Vec<Complex64>, v: Complex64) {
        if !out.iter().any(|w| *w == v || (w.is_nan() && v.is_nan())) {
            out.push(v);
        }
    }
    fn forks(base: Complex64) -> Option<Vec<Complex64>> {
        if base.re == 0.0 && base.im == 0.0 {
            return Some(vec![base]);
        }
        let n = base.norm();
        if n.is_finite() && n < 1e-9 {
            return None;
        }
        if on_negative_axis(base) {
            // both sides of the cut, at the distance the value actually has (0.0 / -0.0 when it is exactly on it)
            Some(vec![Complex64::new(base.re, base.im.abs()), Complex64::new(base.re, -base.im.abs())])
        } else {
            Some(vec![base])
        }
    }
    let out = match e {
        Expression::Number(c) => vec![*c],
        Expression::PiConstant() => vec![Complex64::new(std::f64::consts::PI, 0.0)],
        Expression::Variable(v) => vec![*p.vars.get(v)?],
        Expression::Address(m) => vec![Complex64::new(*p.mem.get(&m.name)?.get(m.index as usize)?, 0.0)],
        Expression::Prefix(x) => {
            let inner = admissible(&x.expression, p)?;
            match x.operator {
                PrefixOperator::Minus => inner.into_iter().map(|v| -v).collect(),
                PrefixOperator::Plus => inner,
            }
        }
        Expression::FunctionCall(f) => {
            let mut out = vec![];
            for v in admissible(&f.expression, p)? {
                let args = if f.function == ExpressionFunction::SquareRoot { forks(v)? } else { vec![v] };
                for a in args {
                    push(&mut out, match f.function {
                        ExpressionFunction::Sine => a.sin(),
                        ExpressionFunction::Cosine => a.cos(),
                        ExpressionFunction::Exponent => a.exp(),
                        ExpressionFunction::SquareRoot => a.sqrt(),
                        ExpressionFunction::Cis => a.cos() + Complex64::new(0.0, 1.0) * a.sin(),
                    });
                }
            }
            out
        }
        Expression::Infix(i) => {
            let ls = admissible(&i.left, p)?;
            let rs = admissible(&i.right, p)?;
            let mut out = vec![];
            for l in &ls {
                let bases = if i.operator == InfixOperator::Caret { forks(*l)? } else { vec![*l] };
                for b in bases {
                    for r in &rs {
                        push(&mut out, match i.operator {
                            InfixOperator::Caret => b.powc(*r),
                            InfixOperator::Plus => b + r,
                            InfixOperator::Minus => b - r,
                            InfixOperator::Slash => b / r,
                            InfixOperator::Star => b * r,
                        });
                    }
                }
            }
            out
        }
    };
    if out.len() > 32 {
        return None;
    }
    Some(out)
}

/// The values `original` may legitimately take at `p` (one value, or the admissible set on a branch cut);
/// None when the point is not judged at all (same exclusions as `judge_opts`).
pub fn legitimate_values(original: &Expression, p: &Point, tolerances: bool) -> Option<Vec<Complex64>> {
    let a = eval(original, p)?;
    if !matches!(judge_opts(original, original, p, tolerances), Judged::Same) {
        return None;
    }
    let (mut scale, mut cut, mut tol) = (0.0, false, false);
    scan(original, p, &mut scale, &mut cut, &mut tol);
    if cut {
        let mut adm = admissible(original, p)?;
        adm.push(a);
        Some(adm)
    } else {
        Some(vec![a])
    }
}

/// `tolerances`: also exclude points where a sub-expression of the original falls inside the simplifier's
/// absolute tolerances (DESIGN.md §6 C12: "the tolerance behaviour itself is not judged")
pub fn judge_opts(original: &Expression, other: &Expression, p: &Point, tolerances: bool) -> Judged {
    let Some(a) = eval(original, p) else { return Judged::NotJudged("incomplete") };
    if !a.re.is_finite() || !a.im.is_finite() {
        return Judged::NotJudged("original not finite");
    }
    let mut scale = 0.0;
    let mut cut = false;
    let mut tol = false;
    scan(original, p, &mut scale, &mut cut, &mut tol);
    if tolerances && tol {
        return Judged::NotJudged("inside simplifier tolerance");
    }
    if cut {
        // branch-cut sensitive: the value under test must be one of the admissible values
        let Some(adm) = admissible(original, p) else { return Judged::NotJudged("branch cut") };
        if adm.iter().any(|v| !v.re.is_finite() || !v.im.is_finite()) {
            return Judged::NotJudged("branch cut");
        }
        let big = adm.iter().fold(scale, |s, v| s.max(v.norm()));
        return match eval(other, p) {
            Some(b) if close(a, b, scale) || adm.iter().any(|v| close(*v, b, big)) => Judged::Same,
            b => Judged::Differs { original: a, other: b },
        };
    }
    match eval(&flip_zero_im(original), p) {
        Some(f) if close(a, f, scale) => {}
        _ => return Judged::NotJudged("signed zero"),
    }
    match eval(other, p) {
        Some(b) if close(a, b, scale) => Judged::Same,
        b => Judged::Differs { original: a, other: b },
    }
}

pub fn cplx_json(c: Option<Complex64>) -> Value {
    match c {
        Some(c) => json!([fmt_f64(c.re), fmt_f64(c.im)]),
        None => json!("error"),
    }
}

pub fn point_json(p: &Point) -> Value {
    let mut vars: Vec<(String, Value)> = p.vars.iter().map(|(k, v)| (k.clone(), cplx_json(Some(*v)))).collect();
    vars.sort_by(|a, b| a.0.cmp(&b.0));
    let mut mem: Vec<(String, Value)> = p.mem.iter().map(|(k, v)| (k.clone(), json!(v))).collect();
    mem.sort_by(|a, b| a.0.cmp(&b.0));
    json!({"vars": vars, "mem": mem})
}

// ------------------------------------------------------------------------------------------ C03

/// The property on one tree: prints, re-parses, same value at the sampled assignments.
/// Returns the printed text and the re-parsed tree when both steps succeeded.
fn round_trip(ctx: &Ctx, e: &Expression, o: &mut Outcome) -> (Option<String>, Option<Expression>) {
    let text = match e.to_quil() {
        Ok(t) => t,
        Err(err) => {
            o.violate(Violation::new("to_quil", json!("Ok(text)"), json!(format!("{err:?}"))));
            return (None, None);
        }
    };
    let parsed = match Expression::from_str(&text) {
        Ok(p) => p,
        Err(err) => {
            o.violate(
                Violation::new("from_str(to_quil(e))", json!("Ok(expression)"), json!(format!("{err}")))
                    .note(format!("printed text: {text}")),
            );
            return (Some(text), None);
        }
    };
    let pts = points(ctx.seed, 3, &[e], 3);
    for p in &pts {
        o.sub_evaluations += 1;
        match judge(e, &parsed, p) {
            Judged::Same => o.count("points_judged"),
            Judged::NotJudged(why) => o.count(&format!("not_judged_{}", why.replace(' ', "_"))),
            Judged::Differs { original, other } => {
                o.violate(
                    Violation::new("evaluate(from_str(to_quil(e)))", cplx_json(Some(original)), cplx_json(other))
                        .note(format!("printed text: {text}; assignment {}", point_json(p))),
                );
                break;
            }
        }
    }
    (Some(text), Some(parsed))
}

fn nontrivial(e: &Expression) -> bool {
    matches!(e, Expression::Infix(_) | Expression::Prefix(_))
        || has_node(e, &|x| matches!(x, Expression::Infix(_) | Expression::Prefix(_)))
}

pub fn replay(ctx: &Ctx, case: &Value) -> Outcome {
    let tree = if let Some(h) = case.get("history") { h[0]["tree"].clone() } else { case["tree"].clone() };
    let e = build(&tree);
    let mut o = Outcome::ok(nontrivial(&e));
    // the abstraction function must be the identity on the alphabet
    if to_abs(&e) != tree {
        panic!("abstraction mismatch: {} vs {}", to_abs(&e), tree);
    }
    let (text, parsed) = round_trip(ctx, &e, &mut o);
    if !o.violations.is_empty() {
        return o;
    }
    // model's opinion: informational only
    if let (Some(want), Some(text)) = (case.get("text").and_then(|t| t.as_str()), &text) {
        if want != text {
            o.diverge(format!("printed text {text:?} differs from the model's {want:?}"));
        }
    }
    if let (Some(want), Some(parsed)) = (case.get("parsed"), &parsed) {
        match want.get("some") {
            Some(w) if *w != to_abs(parsed) => {
                o.diverge(format!("re-parsed tree {} differs from the model's {}", to_abs(parsed), w))
            }
            None => o.diverge("the model does not parse its own text, the real parser does".to_string()),
            _ => {}
        }
        // ExprSyntax!ReparseExact on the real code (not part of the statement)
        let again = parsed.to_quil().ok().and_then(|t| Expression::from_str(&t).ok());
        if again.as_ref() != Some(parsed) {
            o.diverge(format!("second round trip is not exact for {}", to_abs(parsed)));
        }
    }
    o
}

// ------------------------------------------------------------------------------------ C03 drive

/// the full leaf alphabet of DESIGN.md §6 C03 (all in the `Lit` table of spec/ExprAbs.tla)
pub const LITERALS: &[(f64, f64)] = &[
    (0.0, 0.0), (1.0, 0.0), (2.0, 0.0), (3.0, 0.0), (-1.0, 0.0), (0.5, 0.0), (-0.5, 0.0), (1.5, 0.0), (1e-7, 0.0),
    (1e20, 0.0), (0.0, 1.0), (0.0, 2.0), (0.0, -2.0), (1.0, 2.0), (1.0, -2.0), (-1.0, 2.0), (-1.5, -0.5), (0.0, 0.5),
];
pub const FUNCTIONS: &[&str] = &["cis", "cos", "exp", "sin", "sqrt"];
pub const OPS: &[&str] = &["+", "-", "*", "/", "^"];

pub struct Alphabet<'a> {
    pub literals: &'a [(f64, f64)],
    pub vars: &'a [&'a str],
    pub addrs: &'a [(&'a str, u64)],
    pub ops: &'a [&'a str],
    pub fns: &'a [&'a str],
    pub pi: bool,
    pub pos: bool,
}

pub fn random_tree(r: &mut impl Rng, a: &Alphabet, depth: usize) -> Value {
    let leaf = depth == 0 || r.gen_bool(0.22);
    if leaf {
        let k = r.gen_range(0..100);
        if k < 35 || (a.vars.is_empty() && a.addrs.is_empty()) {
            let (re, im) = *a.literals.choose(r).unwrap();
            return json!({"t": "num", "re": fmt_f64(re), "im": fmt_f64(im)});
        } else if k < 45 && a.pi {
            return json!({"t": "pi"});
        } else if k < 75 && !a.vars.is_empty() {
            return json!({"t": "var", "v": a.vars.choose(r).unwrap()});
        } else if !a.addrs.is_empty() {
            let (n, i) = a.addrs.choose(r).unwrap();
            return json!({"t": "addr", "m": {"name": n, "index": i}});
        } else {
            return json!({"t": "var", "v": a.vars.choose(r).unwrap()});
        }
    }
    let k = r.gen_range(0..100);
    if k < 60 {
        json!({"t": "inf", "op": a.ops.choose(r).unwrap(), "l": random_tree(r, a, depth - 1), "r": random_tree(r, a, depth - 1)})
    } else if k < 80 {
        json!({"t": "neg", "e": random_tree(r, a, depth - 1)})
    } else if k < 85 && a.pos {
        json!({"t": "pos", "e": random_tree(r, a, depth - 1)})
    } else if !a.fns.is_empty() {
        json!({"t": "fn", "f": a.fns.choose(r).unwrap(), "e": random_tree(r, a, depth - 1)})
    } else {
        json!({"t": "neg", "e": random_tree(r, a, depth - 1)})
    }
}

pub fn drive(ctx: &Ctx) -> Summary {
    let n = ctx.arg_u64("n", 100);
    let max_depth = ctx.arg_u64("depth", 6) as usize;
    let path = ctx.arg_str("out").expect("--out");
    let mut out = std::io::BufWriter::new(std::fs::File::create(path).expect("create trace"));
    let mut rng = util::rng(ctx.seed, 303);
    let alphabet = Alphabet {
        literals: LITERALS,
        // names that collide, exactly or up to case, with the reserved words of the expression grammar
        // (all of these round-trip on the unchanged tree: `name[index]` is tried before the reserved words)
        vars: &["x", "y", "theta", "sin", "pi", "I", "Exp"],
        addrs: &[
            ("m", 0), ("m", 1), ("n", 1), ("ro", 2), ("exp", 1), ("Sin", 0), ("SIN", 1), ("pi", 0), ("PI", 1),
            ("i", 0), ("I", 1), ("sqrt", 0), ("cos", 0), ("cis", 2),
        ],
        ops: OPS,
        fns: FUNCTIONS,
        pi: true,
        pos: true,
    };
    let mut sum = Summary::default();
    let mut seen = std::collections::HashSet::new();
    for h in 0..n {
        let d = 1 + (h as usize % max_depth);
        let tree = random_tree(&mut rng, &alphabet, d);
        let e = build(&tree);
        let mut o = Outcome::ok(nontrivial(&e));
        util::emit(&mut out, &json!({"ev": "reset", "tree": tree}));
        let (text, parsed) = round_trip(ctx, &e, &mut o);
        util::emit(&mut out, &json!({"ev": "print", "text": util::opt_json(text.clone())}));
        util::emit(&mut out, &json!({"ev": "parse", "parsed": match &parsed {
            Some(p) => json!({"some": to_abs(p)}),
            None => json!({"none": true}),
        }}));
        util::emit(&mut out, &json!({"ev": "done"}));
        o.count_n("events", 4);
        let distinct = seen.insert(tree.to_string());
        sum.absorb(&json!({"tree": tree}), &o, distinct);
    }
    sum
}
