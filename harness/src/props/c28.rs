//! C28 — the control-flow graph partitions the body and locates its blocks.
//!
//! replay: TLC cases {body, blocks, dynamic} from spec/mc/MC_ControlFlowGraph.tla are executed on
//!         `ControlFlowGraph::from(&Program)`; the projected real blocks must equal the model's.
//! drive:  seeded random bodies (longer than the exhaustive bound, every instruction class) with the
//!         CfgStep hook installed; events reset/step/done go to spec/trace/ControlFlowGraphTrace.tla.

use crate::abs::target_name;
use crate::runner::{Outcome, Summary, Violation};
use crate::util::{self, arr, instr, s};
use crate::Ctx;
use quil_rs::instruction::Instruction;
use quil_rs::program::analysis::{BasicBlock, BasicBlockTerminator, ControlFlowGraph};
use quil_rs::quil::Quil;
use quil_rs::Program;
use rand::seq::SliceRandom;
use rand::Rng;
use serde_json::{json, Value};

fn term_json(t: &BasicBlockTerminator) -> Value {
    match t {
        BasicBlockTerminator::Continue => json!({"t": "Continue"}),
        BasicBlockTerminator::Halt => json!({"t": "Halt"}),
        BasicBlockTerminator::Jump { target } => json!({"t": "Jump", "target": target_name(target)}),
        BasicBlockTerminator::ConditionalJump { condition, target, jump_if_condition_zero } => json!({
            "t": "Cond", "target": target_name(target), "cond": condition.to_quil_or_debug(),
            "ifzero": jump_if_condition_zero}),
    }
}

pub fn block_json(b: &BasicBlock) -> Value {
    json!({
        "label": util::opt_json(b.label().map(|t| target_name(t))),
        "instrs": b.instructions().iter().map(|i| i.to_quil_or_debug()).collect::<Vec<_>>(),
        "offset": b.instruction_index_offset(),
        "term": term_json(b.terminator()),
    })
}

/// the class the builder sees (spec: ControlFlowGraph!k)
pub fn class_of(i: &Instruction) -> &'static str {
    match i {
        Instruction::Label(_) => "Label",
        Instruction::Jump(_) => "Jump",
        Instruction::JumpWhen(_) => "JumpWhen",
        Instruction::JumpUnless(_) => "JumpUnless",
        Instruction::Halt() => "Halt",
        Instruction::Include(_) => "Skipped",
        _ => "Plain",
    }
}

pub fn instr_json(i: &Instruction) -> Value {
    let text = i.to_quil_or_debug();
    match i {
        Instruction::Label(l) => json!({"k": "Label", "text": text, "target": target_name(&l.target)}),
        Instruction::Jump(j) => json!({"k": "Jump", "text": text, "target": target_name(&j.target)}),
        Instruction::JumpWhen(j) => json!({"k": "JumpWhen", "text": text, "target": target_name(&j.target),
                                           "cond": j.condition.to_quil_or_debug()}),
        Instruction::JumpUnless(j) => json!({"k": "JumpUnless", "text": text, "target": target_name(&j.target),
                                             "cond": j.condition.to_quil_or_debug()}),
        other => json!({"k": class_of(other), "text": text}),
    }
}

/// The property, evaluated directly on (body texts, real blocks): used only to classify a mismatch
/// with the model as violation or mere divergence.
fn property_failures(body: &[Instruction], blocks: &[Value], dynamic: bool) -> Vec<String> {
    let mut fails = vec![];
    let stripped: Vec<String> =
        body.iter().filter(|i| class_of(i) != "Skipped").map(|i| i.to_quil_or_debug()).collect();
    let has_include = stripped.len() != body.len();
    let mut flat: Vec<String> = vec![];
    for b in blocks {
        let start = flat.len();
        if let Some(l) = b["label"].get("some") {
            flat.push(format!("LABEL @{}", l.as_str().unwrap()));
        }
        for i in b["instrs"].as_array().unwrap() {
            flat.push(i.as_str().unwrap().to_string());
        }
        let t = &b["term"];
        match t["t"].as_str().unwrap() {
            "Continue" => {}
            "Halt" => flat.push("HALT".into()),
            "Jump" => flat.push(format!("JUMP @{}", t["target"].as_str().unwrap())),
            _ => flat.push(format!(
                "{} @{} {}",
                if t["ifzero"].as_bool().unwrap() { "JUMP-UNLESS" } else { "JUMP-WHEN" },
                t["target"].as_str().unwrap(),
                t["cond"].as_str().unwrap()
            )),
        }
        if !has_include && b["offset"].as_u64().unwrap() as usize != start {
            fails.push(format!("offset {} of a block whose first element is at body position {}", b["offset"], start));
        }
    }
    if flat != stripped {
        fails.push("blocks do not re-assemble to the body".into());
    }
    let want_dynamic =
        body.iter().any(|i| matches!(i, Instruction::JumpWhen(_) | Instruction::JumpUnless(_)));
    if dynamic != want_dynamic {
        fails.push(format!("has_dynamic_control_flow = {dynamic}, conditional jump present = {want_dynamic}"));
    }
    fails
}

pub fn replay(_ctx: &Ctx, case: &Value) -> Outcome {
    // a violation replay file from trace validation carries a recorded history instead of a TLC case
    if let Some(h) = case.get("history") {
        let body: Vec<Value> = h[0]["body"].as_array().cloned().unwrap_or_default();
        return replay_body(&body, None, None);
    }
    let body = arr(case, "body").clone();
    replay_body(&body, Some(&case["blocks"]), case["dynamic"].as_bool())
}

fn replay_body(body_abs: &[Value], want_blocks: Option<&Value>, want_dynamic: Option<bool>) -> Outcome {
    let body: Vec<Instruction> = body_abs.iter().map(|i| instr(&s(i, "text"))).collect();
    let mut program = Program::new();
    for i in &body {
        program.add_instruction(i.clone());
    }
    let nontrivial = body.iter().any(|i| !matches!(class_of(i), "Plain" | "Skipped"));
    let mut o = Outcome::ok(nontrivial);
    // the abstraction function must agree with the model on the class of each alphabet symbol
    for (a, i) in body_abs.iter().zip(&body) {
        if a["k"].as_str() != Some(class_of(i)) {
            panic!("alphabet class mismatch: {a} vs {}", class_of(i));
        }
    }
    let graph = ControlFlowGraph::from(&program);
    let dynamic = graph.has_dynamic_control_flow();
    let blocks: Vec<Value> = graph.into_blocks().iter().map(block_json).collect();
    let got = Value::Array(blocks.clone());
    let same = want_blocks.map(|w| *w == got).unwrap_or(false) && want_dynamic == Some(dynamic);
    if !same {
        let fails = property_failures(&program.to_instructions(), &blocks, dynamic);
        if fails.is_empty() {
            if want_blocks.is_some() {
                o.diverge(format!("blocks differ from the model but satisfy the property: {got}"));
            }
        } else {
            o.violate(
                Violation::new(&fails[0], want_blocks.cloned().unwrap_or(Value::Null), got).note(fails.join("; ")),
            );
        }
    }
    o
}

// ------------------------------------------------------------------------------------------- drive

const PLAIN: &[&str] = &[
    "X 0", "CNOT 0 1", "RX(pi/2) 1", "MEASURE 0 ro[0]", "MOVE r[0] 1", "ADD r[0] 2", "NOP", "WAIT", "RESET",
    "RESET 1", "PRAGMA foo", "FENCE 0 1", "DELAY 0 1.0", "PULSE 0 \"rf\" flat(duration: 1.0, iq: 1.0)",
    "SHIFT-PHASE 0 \"rf\" 1.0", "EXCHANGE r[0] r[1]", "NOT ro[0]", "EQ ro[0] r[0] 1", "LOAD r[0] r q[0]",
    "STORE r q[0] r[1]", "CONVERT r[0] ro[0]", "CAPTURE 0 \"ro\" flat(duration: 1.0, iq: 1.0) w[0]",
    "SWAP-PHASES 0 \"rf\" 1 \"rf\"", "SET-FREQUENCY 0 \"rf\" 1.0",
];
const LABELS: &[&str] = &["a", "b", "c", "end", "loop-1"];

fn random_instruction(r: &mut impl Rng) -> String {
    let l = LABELS.choose(r).unwrap();
    match r.gen_range(0..100) {
        0..=44 => PLAIN.choose(r).unwrap().to_string(),
        45..=64 => format!("LABEL @{l}"),
        65..=72 => format!("JUMP @{l}"),
        73..=80 => format!("JUMP-WHEN @{l} ro[0]"),
        81..=88 => format!("JUMP-UNLESS @{l} r[1]"),
        89..=94 => "HALT".to_string(),
        _ => "INCLUDE \"lib.quil\"".to_string(),
    }
}

pub fn drive(ctx: &Ctx) -> Summary {
    use std::cell::RefCell;
    use std::rc::Rc;
    let n = ctx.arg_u64("n", 100);
    let max_len = ctx.arg_u64("len", 40) as usize;
    let path = ctx.arg_str("out").expect("--out");
    let mut out = std::io::BufWriter::new(std::fs::File::create(path).expect("create trace"));
    let mut rng = util::rng(ctx.seed, 28);
    let mut sum = Summary::default();
    for h in 0..n {
        let len = if h < 4 { h as usize } else { rng.gen_range(1..=max_len) };
        let include_free = rng.gen_bool(0.7);
        let mut program = Program::new();
        for _ in 0..len {
            let mut t = random_instruction(&mut rng);
            while include_free && t.starts_with("INCLUDE") {
                t = random_instruction(&mut rng);
            }
            program.add_instruction(instr(&t));
        }
        let body = program.to_instructions();
        let body_abs: Vec<Value> = body.iter().map(instr_json).collect();
        util::emit(&mut out, &json!({"ev": "reset", "body": body_abs}));
        let events: Rc<RefCell<Vec<Value>>> = Rc::new(RefCell::new(vec![]));
        let sink = events.clone();
        quil_rs::verif::set_sink(Box::new(move |e| {
            if let quil_rs::verif::VerifEvent::CfgStep { instruction, offset, blocks, open_label, open_instructions } = e {
                sink.borrow_mut().push(json!({
                    "ev": "step", "instr": instr_json(instruction), "offset": offset, "nblocks": blocks,
                    "open_label": util::opt_json(open_label.map(|t| target_name(t))),
                    "nopen": open_instructions}));
            }
        }));
        let graph = ControlFlowGraph::from(&program);
        quil_rs::verif::clear_sink();
        for e in events.borrow().iter() {
            util::emit(&mut out, e);
        }
        let dynamic = graph.has_dynamic_control_flow();
        let blocks: Vec<Value> = graph.into_blocks().iter().map(block_json).collect();
        let done = json!({"ev": "done", "blocks": blocks, "dynamic": dynamic});
        util::emit(&mut out, &done);
        let mut o = Outcome::ok(body.iter().any(|i| !matches!(class_of(i), "Plain" | "Skipped")));
        o.count_n("events", events.borrow().len() as u64 + 2);
        sum.absorb(&json!({"body": body.iter().map(|i| i.to_quil_or_debug()).collect::<Vec<_>>()}), &o, true);
    }
    sum
}
