//! C13 — substitution, evaluation and memory-reference listing agree.
//!
//! replay: TLC cases {tree, refs, vars} of spec/mc/MC_ExprEval.tla.  The real `memory_references()` must
//!         list exactly the addresses occurring in the tree (bag; order vs. the model is divergence only);
//!         for *every* partial assignment of the tree's variables and regions, `evaluate` must succeed iff
//!         everything is supplied, and `substitute_variables(numbers)` followed by `evaluate` must agree
//!         with `evaluate` under the same bindings (success pattern and value).
//! drive:  seeded random trees up to depth 6 with random partial assignments; events
//!         reset/refs/subst/eval/done go to spec/trace/ExprEvalTrace.tla.

use super::c03::{self, Alphabet};
use crate::runner::{Outcome, Summary, Violation};
use crate::util;
use crate::Ctx;
use num_complex::Complex64;
use quil_rs::expression::{interned, EvaluationError, Expression};
use rand::Rng;
use serde_json::{json, Value};
use std::collections::{BTreeMap, BTreeSet, HashMap};

type Refs = Vec<(String, u64)>;

fn refs_json(r: &Refs) -> Value {
    Value::Array(r.iter().map(|(n, i)| json!({"name": n, "index": i})).collect())
}

fn bag(r: &Refs) -> BTreeMap<(String, u64), usize> {
    let mut b = BTreeMap::new();
    for x in r {
        *b.entry(x.clone()).or_insert(0) += 1;
    }
    b
}

fn real_refs(e: &Expression) -> Refs {
    let mut it = e.memory_references();
    let mut out = vec![];
    for m in it.by_ref() {
        out.push((m.name.clone(), m.index));
    }
    // FusedIterator: exhausted stays exhausted
    assert!(it.next().is_none(), "memory_references yields again after None");
    out
}

fn number(c: Complex64) -> Expression {
    (*interned::number(c)).clone()
}

fn same_value(a: Complex64, b: Complex64) -> bool {
    let same = |x: f64, y: f64| x == y || (x.is_nan() && y.is_nan());
    (same(a.re, b.re) && same(a.im, b.im)) || c03::close(a, b, a.norm())
}

fn res_json(r: &Result<Complex64, EvaluationError>) -> Value {
    match r {
        Ok(c) => c03::cplx_json(Some(*c)),
        Err(e) => json!(format!("{e:?}")),
    }
}

/// scheme 0: generic complex values; scheme 1: real values with negative reals and fractional magnitudes
/// (x = -4, y = 0.5, ...: `%x^%y` sits on the branch cut of `^`; both evaluation paths receive exactly the
/// same complex numbers, so they must still agree bit for bit - no filter is needed or applied here)
fn sigma_value(j: usize, scheme: usize) -> Complex64 {
    if scheme == 1 {
        Complex64::new([-4.0, 0.5, -2.25, 1.5, -0.75][j % 5], 0.0)
    } else {
        Complex64::new(1.25 + 0.5 * j as f64, -0.75 + 0.25 * j as f64)
    }
}
fn rho_value(j: usize, scheme: usize) -> Complex64 {
    if scheme == 1 {
        Complex64::new([-9.0, 1.5, 0.25, -0.5, 3.0][j % 5], 0.0)
    } else {
        Complex64::new(-0.625 + 0.375 * j as f64, 1.5 - 0.5 * j as f64)
    }
}

struct Assignment {
    sdom: Vec<String>,
    vdom: Vec<String>,
    shape: BTreeMap<String, usize>,
}

/// one partial assignment: the three laws of the statement
fn check_assignment(
    e: &Expression,
    names: &[String],
    a: &Assignment,
    supplied: bool,
    scheme: usize,
    o: &mut Outcome,
) -> (bool, bool) {
    let idx = |v: &String| names.iter().position(|n| n == v).unwrap_or(0);
    let sigma: HashMap<String, Expression> =
        a.sdom.iter().map(|v| (v.clone(), number(sigma_value(idx(v), scheme)))).collect();
    let rho: HashMap<String, Complex64> = a.vdom.iter().map(|v| (v.clone(), rho_value(idx(v), scheme))).collect();
    let mut both = rho.clone();
    for v in &a.sdom {
        both.insert(v.clone(), sigma_value(idx(v), scheme));
    }
    let mem: HashMap<String, Vec<f64>> =
        a.shape.iter().map(|(r, n)| (r.clone(), (0..*n).map(|k| 0.75 + 0.5 * k as f64).collect())).collect();
    let direct = e.evaluate(&both, &mem);
    let substituted = e.substitute_variables(&sigma);
    let via = substituted.evaluate(&rho, &mem);
    // substitution by numbers leaves the memory references alone (ExprEval!SubstNames; informational - the
    // statement's verdict on such a defect is the value / success disagreement below)
    {
        let (mut before, mut after) = (vec![], vec![]);
        c03::addresses(e, &mut before);
        c03::addresses(&substituted, &mut after);
        if bag(&before) != bag(&after) {
            o.diverge(format!("substitute_variables changed the memory references: {} -> {}", refs_json(&before), refs_json(&after)));
        }
    }
    o.sub_evaluations += 1;
    let describe = || {
        json!({"substituted": a.sdom, "bound": a.vdom, "memory_lengths": a.shape, "value_scheme": scheme}).to_string()
    };
    if direct.is_ok() != supplied || matches!(&direct, Err(x) if *x != EvaluationError::Incomplete) {
        o.violate(
            Violation::new(
                "evaluate succeeds iff every variable and memory cell is supplied",
                json!(if supplied { "Ok" } else { "Err(Incomplete)" }),
                res_json(&direct),
            )
            .note(describe()),
        );
    }
    let agree = match (&direct, &via) {
        (Ok(x), Ok(y)) => same_value(*x, *y),
        (Err(x), Err(y)) => x == y,
        _ => false,
    };
    if !agree {
        o.violate(
            Violation::new("evaluate(substitute_variables(e, numbers)) vs evaluate(e, bindings)", res_json(&direct), res_json(&via))
                .note(describe()),
        );
    }
    (direct.is_ok(), via.is_ok())
}

/// substitution by expressions composes with evaluation (ExprEval!SubstCompose; not part of the statement)
fn check_compose(e: &Expression, a: &Assignment, names: &[String], o: &mut Outcome) {
    let idx = |v: &String| names.iter().position(|n| n == v).unwrap_or(0);
    let images: Vec<Expression> = vec![
        (*interned::add(interned::variable("y".to_string()), interned::number(Complex64::new(1.0, 0.0)))).clone(),
        (*interned::address(quil_rs::instruction::MemoryReference::new("m".to_string(), 1))).clone(),
        (*interned::neg(interned::variable("x".to_string()))).clone(),
    ];
    let sigma: HashMap<String, Expression> =
        a.sdom.iter().map(|v| (v.clone(), images[idx(v) % images.len()].clone())).collect();
    let rho: HashMap<String, Complex64> = a.vdom.iter().map(|v| (v.clone(), rho_value(idx(v), 0))).collect();
    let mem: HashMap<String, Vec<f64>> =
        a.shape.iter().map(|(r, n)| (r.clone(), (0..*n).map(|k| 0.75 + 0.5 * k as f64).collect())).collect();
    let lhs = e.substitute_variables(&sigma).evaluate(&rho, &mem);
    let mut used = BTreeSet::new();
    c03::variables(e, &mut used);
    let mut env = rho.clone();
    let mut missing = false;
    for v in used.iter().filter(|v| a.sdom.contains(v)) {
        match sigma[v].evaluate(&rho, &mem) {
            Ok(c) => {
                env.insert(v.clone(), c);
            }
            Err(_) => missing = true,
        }
    }
    let ok = if missing {
        lhs.is_err()
    } else {
        match (&lhs, &e.evaluate(&env, &mem)) {
            (Ok(x), Ok(y)) => same_value(*x, *y),
            (Err(x), Err(y)) => x == y,
            _ => false,
        }
    };
    if !ok {
        o.diverge(format!(
            "substitution by expressions does not compose with evaluation for {} (substituted {:?}, bound {:?})",
            c03::to_abs(e), a.sdom, a.vdom
        ));
    }
}

fn subsets(names: &[String]) -> Vec<Vec<String>> {
    (0..(1usize << names.len()))
        .map(|mask| names.iter().enumerate().filter(|(k, _)| mask >> k & 1 == 1).map(|(_, n)| n.clone()).collect())
        .collect()
}

fn is_supplied(vars: &BTreeSet<String>, addrs: &Refs, vdom: &[String], shape: &BTreeMap<String, usize>) -> bool {
    vars.iter().all(|v| vdom.contains(v))
        && addrs.iter().all(|(n, i)| shape.get(n).map(|len| (*i as usize) < *len).unwrap_or(false))
}

pub fn replay(_ctx: &Ctx, case: &Value) -> Outcome {
    let tree = if let Some(h) = case.get("history") { h[0]["tree"].clone() } else { case["tree"].clone() };
    let e = c03::build(&tree);
    let gf_form = tree.to_string().contains("\"n\":") || !tree.to_string().contains("\"re\":");
    let back = c03::to_abs_opts(&e, gf_form);
    if back != tree {
        panic!("abstraction mismatch: {back} vs {tree}");
    }
    // independent of the code under test: a plain recursive walk
    let mut occurring: Refs = vec![];
    c03::addresses(&e, &mut occurring);
    let mut vars = BTreeSet::new();
    c03::variables(&e, &mut vars);
    let mut o = Outcome::ok(!vars.is_empty() || !occurring.is_empty());

    // (1) memory_references
    let listed = real_refs(&e);
    if bag(&listed) != bag(&occurring) {
        o.violate(Violation::new("memory_references (as a bag)", refs_json(&occurring), refs_json(&listed)));
    } else if listed != occurring {
        o.diverge(format!("memory_references order {} is not left to right {}", refs_json(&listed), refs_json(&occurring)));
    }
    if let Some(model) = case.get("refs") {
        if *model != refs_json(&listed) {
            o.diverge(format!("memory_references {} differ from the model's {}", refs_json(&listed), model));
        }
    }
    if let Some(model) = case.get("vars").and_then(|v| v.as_array()) {
        let mv: BTreeSet<String> = model.iter().map(|x| x.as_str().unwrap_or("").to_string()).collect();
        if mv != vars {
            o.diverge(format!("variables {vars:?} differ from the model's {mv:?}"));
        }
    }

    // (2) + (3): every partial assignment of the tree's variables (at least x) and regions (at least m)
    let mut names: Vec<String> = vars.iter().cloned().collect();
    if names.is_empty() {
        names.push("x".into());
    }
    let mut regions: BTreeMap<String, u64> = BTreeMap::new();
    for (n, i) in &occurring {
        let m = regions.entry(n.clone()).or_insert(0);
        *m = (*m).max(*i);
    }
    if regions.is_empty() {
        regions.insert("m".into(), 0);
    }
    // region -> absent (None) or a length 0..=max_index+1
    let mut shapes: Vec<BTreeMap<String, usize>> = vec![BTreeMap::new()];
    for (r, max_index) in &regions {
        let mut next = vec![];
        for s in &shapes {
            next.push(s.clone());
            for len in 0..=(*max_index as usize + 1) {
                let mut t = s.clone();
                t.insert(r.clone(), len);
                next.push(t);
            }
        }
        shapes = next;
    }
    let doms = subsets(&names);
    'all: for sdom in &doms {
        for vdom in &doms {
            for shape in &shapes {
                let a = Assignment { sdom: sdom.clone(), vdom: vdom.clone(), shape: shape.clone() };
                let mut bound: Vec<String> = sdom.clone();
                bound.extend(vdom.iter().cloned());
                let supplied = is_supplied(&vars, &occurring, &bound, shape);
                check_assignment(&e, &names, &a, supplied, 0, &mut o);
                check_assignment(&e, &names, &a, supplied, 1, &mut o);
                check_compose(&e, &a, &names, &mut o);
                if !o.violations.is_empty() || o.divergences.len() > 3 {
                    break 'all;
                }
            }
        }
    }
    o
}

// ------------------------------------------------------------------------------------------- drive

pub fn drive(ctx: &Ctx) -> Summary {
    let n = ctx.arg_u64("n", 100);
    let max_depth = ctx.arg_u64("depth", 6) as usize;
    let path = ctx.arg_str("out").expect("--out");
    let mut out = std::io::BufWriter::new(std::fs::File::create(path).expect("create trace"));
    let mut rng = util::rng(ctx.seed, 1313);
    let alphabet = Alphabet {
        literals: c03::LITERALS,
        vars: &["x", "y", "theta"],
        // two regions are named like reserved words of the expression grammar (no text is involved in C13,
        // the listing and the lookup must simply not care)
        // and two regions share their name with a variable (theta, x), at index 0 and 1
        addrs: &[
            ("m", 0), ("m", 1), ("n", 1), ("ro", 2), ("ro", 0), ("exp", 1), ("pi", 0), ("theta", 0), ("theta", 1),
            ("x", 0), ("x", 1),
        ],
        ops: c03::OPS,
        fns: c03::FUNCTIONS,
        pi: true,
        pos: true,
    };
    let universe: Vec<String> = ["x", "y", "theta"].iter().map(|s| s.to_string()).collect();
    let mut sum = Summary::default();
    let mut seen = std::collections::HashSet::new();
    for _ in 0..n {
        let d = 1 + rng.gen_range(0..max_depth);
        let tree = c03::random_tree(&mut rng, &alphabet, d);
        let e = c03::build(&tree);
        let mut occurring: Refs = vec![];
        c03::addresses(&e, &mut occurring);
        let mut vars = BTreeSet::new();
        c03::variables(&e, &mut vars);
        let mut o = Outcome::ok(!vars.is_empty() || !occurring.is_empty());
        util::emit(&mut out, &json!({"ev": "reset", "tree": tree}));
        let listed = real_refs(&e);
        if bag(&listed) != bag(&occurring) {
            o.violate(Violation::new("memory_references (as a bag)", refs_json(&occurring), refs_json(&listed)));
        }
        util::emit(&mut out, &json!({"ev": "refs", "refs": refs_json(&listed)}));
        // one recorded substitution (numbers from the literal table of the specification)
        let sdom: Vec<String> = universe.iter().filter(|_| rng.gen_bool(0.5)).cloned().collect();
        let lits = [(2.0, 0.0), (0.5, 0.0), (0.0, 2.0)];
        let sigma: HashMap<String, Expression> = sdom
            .iter()
            .map(|v| {
                let (re, im) = lits[universe.iter().position(|u| u == v).unwrap()];
                (v.clone(), number(Complex64::new(re, im)))
            })
            .collect();
        let substituted = e.substitute_variables(&sigma);
        let mut sig_list: Vec<Value> = sigma.iter().map(|(v, x)| json!({"v": v, "e": c03::to_abs(x)})).collect();
        sig_list.sort_by_key(|x| x["v"].as_str().unwrap().to_string());
        util::emit(&mut out, &json!({"ev": "subst", "sigma": sig_list, "out": c03::to_abs(&substituted)}));
        // a few random partial assignments
        let mut events = 3;
        for k in 0..4usize {
            let sd: Vec<String> = universe.iter().filter(|_| rng.gen_bool(0.45)).cloned().collect();
            let vd: Vec<String> = universe.iter().filter(|_| rng.gen_bool(0.6)).cloned().collect();
            let mut shape = BTreeMap::new();
            for r in ["m", "n", "ro", "exp", "pi", "theta", "x"] {
                if rng.gen_bool(0.8) {
                    shape.insert(r.to_string(), rng.gen_range(0..=3usize));
                }
            }
            let a = Assignment { sdom: sd.clone(), vdom: vd.clone(), shape: shape.clone() };
            let mut bound = sd.clone();
            bound.extend(vd.iter().cloned());
            let supplied = is_supplied(&vars, &occurring, &bound, &shape);
            let (ok_direct, ok_subst) = check_assignment(&e, &universe, &a, supplied, k % 2, &mut o);
            let mem: Vec<Value> = shape.iter().map(|(r, l)| json!({"name": r, "len": l})).collect();
            util::emit(&mut out, &json!({"ev": "eval", "sdom": sd, "vdom": vd, "mem": mem,
                                         "ok_direct": ok_direct, "ok_subst": ok_subst}));
            events += 1;
        }
        util::emit(&mut out, &json!({"ev": "done", "evals": events - 3}));
        o.count_n("events", events + 1);
        let distinct = seen.insert(tree.to_string());
        sum.absorb(&json!({"tree": tree}), &o, distinct);
    }
    sum
}
