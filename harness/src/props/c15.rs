//! C15 — gate modifiers, daggers and program unitaries compose correctly (module Unitary; shared code
//! in c14.rs).
//!
//! replay (spec -> code), cases of spec/mc/MC_Unitary.tla:
//!   kind "gate": a modifier stack grown by the builder machine with its expected sparse symbolic
//!       matrix: evaluated for 19 parameter assignments and compared (1e-10) with `Gate::to_unitary`
//!       of the gate written directly AND built through `Gate::dagger/controlled/forked` (the two
//!       values must be equal), with `Program::to_unitary` of the one-gate program; unitarity.
//!   kind "prog": {n, gates, mats, dagger}: `Program::to_unitary` against the ordered product of the
//!       specification's per-gate matrices, `Program::dagger` against the specification's dagger
//!       program (gate list) and its unitary against the adjoint, unitarity.
//! drive (code -> spec): seeded random builder histories (deeper stacks, larger registers) and
//!   programs; each builder call is one event carrying the real gate value and the real matrix
//!   abstracted to symbols, `pdagger` carries the real dagger program; validated by TLC against
//!   spec/trace/UnitaryTrace.tla.  The numeric program laws are checked between real runs.

use super::c14::{
    abstract_matrix, adjoint, assignments, base_params, build_by_builder, build_direct, check_gate_case, eval_entries,
    generic_thetas, judge, max_diff, real_gate_unitary, reference_unitary, rejudge_gate, thetas_of,
    unitarity_defect, GateCase, Mat, GATES,
};
use crate::runner::{Outcome, Summary, Violation};
use crate::util::{self, arr, u};
use crate::Ctx;
use quil_rs::instruction::{Gate, Instruction, Qubit};
use quil_rs::quil::Quil;
use quil_rs::Program;
use rand::seq::SliceRandom;
use rand::Rng;
use serde_json::{json, Value};
use std::str::FromStr;

const TOL: f64 = 1e-10;

fn program_of(gates: &[Gate]) -> Program {
    let mut p = Program::new();
    for g in gates {
        p.add_instruction(Instruction::Gate(g.clone()));
    }
    p
}

fn gates_of(p: &Program) -> Option<Vec<Gate>> {
    p.to_instructions().into_iter().map(|i| if let Instruction::Gate(g) = i { Some(g) } else { None }).collect()
}

/// ordered product: the LAST gate is the leftmost factor
fn product(mats: &[Mat], dim: usize) -> Mat {
    let mut acc = Mat::eye(dim);
    for m in mats {
        acc = m.dot(&acc);
    }
    acc
}

fn check_prog_case(ctx: &Ctx, o: &mut Outcome, case: &Value) {
    let n = u(case, "n");
    let dim = 1usize << n;
    let gcs: Vec<GateCase> = arr(case, "gates").iter().map(GateCase::from_json).collect();
    let want_dagger: Vec<GateCase> = arr(case, "dagger").iter().map(GateCase::from_json).collect();
    let np = gcs.iter().map(|g| g.np).max().unwrap_or(0);
    let key = format!("prog|{n}|{}", gcs.iter().map(|g| g.text()).collect::<Vec<_>>().join(";"));
    for thetas in assignments(ctx.seed, &key, np) {
        let gates: Vec<Gate> = gcs.iter().map(|g| build_direct(g, &thetas)).collect();
        let program = program_of(&gates);
        let text = program.to_quil_or_debug();
        let want_mats: Vec<Mat> = arr(case, "mats").iter().map(|e| eval_entries(e, dim, &thetas)).collect();
        let ref_mats: Vec<Mat> = gcs.iter().map(|g| reference_unitary(g, n, &thetas)).collect();
        let want = product(&want_mats, dim);
        let reference = product(&ref_mats, dim);
        let real = program.to_unitary(n).map_err(|e| format!("{e}"));
        judge(o, "program unitary", &format!("Program::to_unitary of `{}`", text.replace('\n', "; ")), &real, &want, &reference, TOL);
        // the law between real runs: product of the real per-gate unitaries, in order
        if let Ok(u_real) = &real {
            let per_gate: Result<Vec<Mat>, String> = gates.iter().map(|g| real_gate_unitary(g, n)).collect();
            if let Ok(ms) = per_gate {
                let (d, r, c) = max_diff(u_real, &product(&ms, dim));
                if d > TOL {
                    o.violate(
                        Violation::new("program unitary", json!("product of the gates' unitaries in order"), json!(format!("differs by {d:.3e} at [{r}][{c}]")))
                            .note(text.replace('\n', "; ")),
                    );
                }
            }
            let defect = unitarity_defect(u_real);
            if defect > TOL {
                o.violate(Violation::new("unitarity", json!("U U^dagger = Id"), json!(format!("defect {defect:.3e}"))).note(text.replace('\n', "; ")));
            }
        }
        // Program::dagger: the gate list the specification predicts, and the adjoint unitary
        match program.dagger() {
            Err(e) => o.violate(Violation::new("program dagger", json!("a program"), json!(format!("error: {e}")))),
            Ok(dp) => {
                let got: Option<Vec<GateCase>> = gates_of(&dp).map(|gs| gs.iter().map(GateCase::from_gate).collect());
                let want_values: Vec<Gate> = want_dagger.iter().zip(gcs.iter().rev()).map(|(d, g)| {
                    // the dagger program's j-th gate carries the parameters of the (len+1-j)-th original gate
                    let mut v = build_direct(g, &thetas);
                    v.modifiers = d.mods.iter().map(|m| super::c14::modifier_of(m)).collect();
                    v
                }).collect();
                let same_shape = got.as_ref() == Some(&want_dagger) && gates_of(&dp).as_ref() == Some(&want_values);
                let du = dp.to_unitary(n).map_err(|e| format!("{e}"));
                let mut adjoint_ok = false;
                if let (Ok(du), Ok(u_real)) = (&du, &real) {
                    adjoint_ok = max_diff(du, &adjoint(u_real)).0 <= TOL;
                }
                if !adjoint_ok {
                    o.violate(
                        Violation::new("program dagger", json!("to_unitary(dagger(p)) = adjoint of to_unitary(p)"), json!(du.as_ref().map(|_| "a different matrix".to_string()).unwrap_or_else(|e| e.clone())))
                            .note(format!("`{}` -> `{}`", text.replace('\n', "; "), dp.to_quil_or_debug().replace('\n', "; "))),
                    );
                } else if !same_shape {
                    // the statement only fixes the unitary of the dagger program
                    o.diverge(format!("Program::dagger gives `{}`, the model expects {:?}", dp.to_quil_or_debug().replace('\n', "; "), want_dagger.iter().map(|g| g.text()).collect::<Vec<_>>()));
                }
                judge(o, "program dagger", "unitary of the dagger program", &du, &adjoint(&want), &adjoint(&reference), TOL);
            }
        }
        // the printed program parses back to a program with the same unitary (outside the statement: divergence only)
        match Program::from_str(&text) {
            Ok(p2) => match (p2.to_unitary(n), &real) {
                (Ok(m2), Ok(m)) if max_diff(&m2, m).0 <= TOL => {}
                (other, _) => o.diverge(format!("re-parsed program `{}` has another unitary / fails: {:?}", text.replace('\n', "; "), other.err().map(|e| e.to_string()))),
            },
            Err(e) => o.diverge(format!("printed program does not parse: {e}")),
        }
        o.sub_evaluations += 1;
    }
}

pub fn replay(ctx: &Ctx, case: &Value) -> Outcome {
    if let Some(h) = case.get("history") {
        return replay_history(ctx, h);
    }
    match case["kind"].as_str() {
        Some("gate") => {
            let gc = GateCase::from_json(&case["gate"]);
            let mut o = Outcome::ok(!gc.mods.is_empty());
            check_gate_case(ctx, &mut o, case, TOL, "unitary");
            o
        }
        Some("prog") => {
            let gates = arr(case, "gates");
            let mut o = Outcome::ok(gates.len() >= 2 || gates.iter().any(|g| !arr(g, "mods").is_empty()));
            check_prog_case(ctx, &mut o, case);
            o
        }
        other => panic!("C15: unknown case kind {other:?}"),
    }
}

/// A recorded history judged again on the real code with the harness reference (replay of a
/// trace-validation rejection).
fn replay_history(_ctx: &Ctx, h: &Value) -> Outcome {
    let mut o = Outcome::ok(true);
    let mut n = 0;
    let mut thetas = vec![];
    let mut prog: Vec<GateCase> = vec![];
    let mut cur: Option<GateCase> = None;
    for e in h.as_array().cloned().unwrap_or_default() {
        match e["ev"].as_str() {
            Some("reset") => {
                n = u(&e, "n");
                thetas = thetas_of(&e["thetas"]);
                prog.clear();
                cur = None;
            }
            Some("new") | Some("dagger") | Some("controlled") | Some("forked") => {
                let gc = GateCase::from_json(&e["post"]);
                rejudge_gate(&mut o, &gc, n, &thetas, TOL);
                cur = Some(gc);
            }
            Some("append") => {
                if let Some(g) = cur.take() {
                    prog.push(g);
                }
            }
            Some("pdagger") => {
                let gates: Vec<Gate> = prog.iter().map(|g| build_direct(g, &thetas)).collect();
                let p = program_of(&gates);
                let dim = 1usize << n;
                let reference = product(&prog.iter().map(|g| reference_unitary(g, n, &thetas)).collect::<Vec<_>>(), dim);
                let real = p.to_unitary(n).map_err(|e| format!("{e}"));
                judge(&mut o, "program unitary", "Program::to_unitary of the recorded program", &real, &reference, &reference, TOL);
                let du = p.dagger().map_err(|e| format!("{e}")).and_then(|d| d.to_unitary(n).map_err(|e| format!("{e}")));
                judge(&mut o, "program dagger", "unitary of the dagger of the recorded program", &du, &adjoint(&reference), &adjoint(&reference), TOL);
            }
            _ => {}
        }
    }
    o
}

// ------------------------------------------------------------------------------------------- drive

fn theta_strings(thetas: &[f64]) -> Vec<String> {
    thetas.iter().map(|t| format!("{t:?}")).collect()
}

fn observe(gate: &Gate, n: u64, thetas: &[f64]) -> Vec<Value> {
    match real_gate_unitary(gate, n) {
        Ok(m) => abstract_matrix(&m, thetas),
        Err(e) => vec![json!([0, 0, {"s": "?", "p": 0, "error": e}])],
    }
}

pub fn drive(ctx: &Ctx) -> Summary {
    let count = ctx.arg_u64("n", 40);
    let max_n = ctx.arg_u64("maxn", 5);
    let max_depth = ctx.arg_u64("depth", 3) as usize;
    let max_prog = ctx.arg_u64("prog", 4) as usize;
    let path = ctx.arg_str("out").expect("--out");
    let mut out = std::io::BufWriter::new(std::fs::File::create(path).expect("create trace"));
    let mut rng = util::rng(ctx.seed, 1500);
    let mut sum = Summary::default();
    for h in 0..count {
        let n = rng.gen_range(3..=max_n.max(3));
        // parameters theta_1 .. theta_16 shared by every gate of the history (depth <= 4 forks)
        // theta_1 .. theta_16 from the four magnitude bands in turn (inside / outside (-2 pi, 2 pi), large)
        let thetas = generic_thetas(&mut rng, 16, 4 + h % 4);
        util::emit(&mut out, &json!({"ev": "reset", "n": n, "thetas": theta_strings(&thetas)}));
        let mut o = Outcome::ok(true);
        let mut events = 1;
        let len = if h % 3 == 0 { 1 } else { rng.gen_range(2..=max_prog.max(2)) };
        let mut gates: Vec<Gate> = vec![];
        for _ in 0..len {
            // a base gate that leaves room for modifiers
            let (name, k, _) = loop {
                let g = GATES.choose(&mut rng).unwrap();
                if (g.1 as u64) <= n {
                    break *g;
                }
            };
            let depth = if len == 1 { rng.gen_range(1..=max_depth) } else { rng.gen_range(0..=2.min(max_depth)) };
            let mut free: Vec<u64> = (0..n).collect();
            free.shuffle(&mut rng);
            let qs: Vec<u64> = free.drain(..k).collect();
            let base = GateCase { name: name.into(), mods: vec![], qubits: qs.clone(), np: base_params(name) };
            let mut gate = build_direct(&base, &thetas);
            util::emit(&mut out, &json!({"ev": "new", "name": name, "qs": qs, "post": GateCase::from_gate(&gate).to_json(),
                                         "entries": observe(&gate, n, &thetas)}));
            events += 1;
            for _ in 0..depth {
                let choice = rng.gen_range(0..3);
                if choice == 0 || free.is_empty() {
                    gate = gate.dagger();
                    util::emit(&mut out, &json!({"ev": "dagger", "post": GateCase::from_gate(&gate).to_json(),
                                                 "entries": observe(&gate, n, &thetas)}));
                } else if choice == 1 {
                    let q = free.pop().unwrap();
                    gate = gate.controlled(Qubit::Fixed(q));
                    util::emit(&mut out, &json!({"ev": "controlled", "q": q, "post": GateCase::from_gate(&gate).to_json(),
                                                 "entries": observe(&gate, n, &thetas)}));
                } else {
                    let q = free.pop().unwrap();
                    let have = gate.parameters.len();
                    let alt = thetas[have..2 * have].iter().map(|t| quil_rs::expression::Expression::Number(num_complex::Complex64::new(*t, 0.0))).collect();
                    gate = gate.forked(Qubit::Fixed(q), alt).expect("Gate::forked");
                    util::emit(&mut out, &json!({"ev": "forked", "q": q, "post": GateCase::from_gate(&gate).to_json(),
                                                 "entries": observe(&gate, n, &thetas)}));
                }
                events += 1;
            }
            util::emit(&mut out, &json!({"ev": "append"}));
            events += 1;
            gates.push(gate);
        }
        // the program: its dagger as the real code builds it (validated by TLC), numeric laws between real runs
        let program = program_of(&gates);
        let text = program.to_quil_or_debug().replace('\n', "; ");
        let dim = 1usize << n;
        match program.dagger() {
            Ok(dp) => {
                let dgates: Vec<Value> = gates_of(&dp).unwrap_or_default().iter().map(|g| GateCase::from_gate(g).to_json()).collect();
                util::emit(&mut out, &json!({"ev": "pdagger", "gates": dgates}));
                events += 1;
                let per_gate: Result<Vec<Mat>, String> = gates.iter().map(|g| real_gate_unitary(g, n)).collect();
                match (program.to_unitary(n), dp.to_unitary(n), per_gate) {
                    (Ok(pu), Ok(du), Ok(ms)) => {
                        let d1 = max_diff(&pu, &product(&ms, dim)).0;
                        let d2 = max_diff(&du, &adjoint(&pu)).0;
                        let d3 = unitarity_defect(&pu);
                        if d1 > TOL {
                            o.violate(Violation::new("program unitary", json!("product of the gates' unitaries in order"), json!(format!("differs by {d1:.3e}"))).note(text.clone()));
                        }
                        if d2 > TOL {
                            o.violate(Violation::new("program dagger", json!("adjoint of the program's unitary"), json!(format!("differs by {d2:.3e}"))).note(text.clone()));
                        }
                        if d3 > TOL {
                            o.violate(Violation::new("unitarity", json!("U U^dagger = Id"), json!(format!("defect {d3:.3e}"))).note(text.clone()));
                        }
                    }
                    (a, b, c) => o.violate(Violation::new("program unitary", json!("matrices"), json!(format!("{:?} {:?} {:?}", a.err().map(|e| e.to_string()), b.err().map(|e| e.to_string()), c.err()))).note(text.clone())),
                }
            }
            Err(e) => o.violate(Violation::new("program dagger", json!("a program"), json!(format!("error: {e}"))).note(text.clone())),
        }
        // the builder route and the direct route give the same value
        for g in &gates {
            let gc = GateCase::from_gate(g);
            if build_by_builder(&gc, &thetas) != *g || build_direct(&gc, &thetas) != *g {
                o.diverge(format!("harness builders disagree on {}", gc.text()));
            }
        }
        o.count_n("events", events);
        sum.absorb(&json!({"n": n, "program": text}), &o, true);
    }
    sum
}
