//! C19 — the calibration source map exactly accounts for every expansion.
//!
//! replay: TLC cases from spec/mc/MC_CalExpand.tla carry the source map the model builds (with the removal
//!         that keeps it well-formed).  The real `Program::expand_calibrations_with_source_map` result is
//!         projected to the same entries tree and compared.  A difference is classified with the property
//!         itself (`shape_failures`: order, tiling, nesting, identity of unmodified entries, inverse
//!         queries): violation iff the real map is ill-formed, tagged with the known finding iff the only
//!         failures sit in the nested records of an expansion that hoisted a DECLARE.
//! drive:  exports the *real* artefact (calibrations, body, expanded body, entries tree, the answers of
//!         `list_sources` / `list_targets` for every index) for a sample of the TLC cases and for seeded
//!         random larger programs; TLC evaluates `WellFormedExcept` on it (spec/trace/SourceMapTrace.tla),
//!         i.e. the invariant is judged by TLC on the code's artefact.

use super::c16::abs;
use super::c17;
use crate::runner::{Outcome, Summary, Violation};
use crate::util;
use crate::Ctx;
use quil_rs::instruction::Instruction;
use quil_rs::program::InstructionIndex;
use quil_rs::Program;
use rand::Rng;
use serde_json::{json, Value};
use std::collections::BTreeSet;

pub const FINDING: &str = "calibration-source-map-declare-hoisting";

/// The real artefact of one expansion with source map, in the encoding of spec/SourceMapAlgebra.tla.
pub struct Artefact {
    pub status: &'static str,
    pub out: Vec<Value>,
    pub map: Value,
    /// list_sources(t) for every t in 0..len(out)
    pub sources: Vec<Vec<u64>>,
    /// list_targets(s) for every s in 0..len(src), each target as its span [from, to)
    pub targets: Vec<Vec<(u64, u64)>>,
    /// body indices whose expansion output (Calibrations::expand) contains a DECLARE
    pub hoisting: BTreeSet<u64>,
    pub has_rewritten: bool,
    pub has_nested: bool,
}

pub fn artefact(program: &Program) -> Artefact {
    let src: Vec<Instruction> = program.body_instructions().cloned().collect();
    let mut hoisting = BTreeSet::new();
    for (s, i) in src.iter().enumerate() {
        if let Ok(Some(v)) = program.calibrations.expand(i, &[]) {
            if v.iter().any(|x| matches!(x, Instruction::Declaration(_))) {
                hoisting.insert(s as u64);
            }
        }
    }
    match program.expand_calibrations_with_source_map() {
        Err(e) => Artefact {
            status: c17::category::<()>(&Err(e)),
            out: vec![],
            map: json!([]),
            sources: vec![],
            targets: vec![],
            hoisting,
            has_rewritten: false,
            has_nested: false,
        },
        Ok((p, m)) => {
            let out = c17::body_abs(&p);
            let map = abs::entries_to_abs(program, &m);
            let sources = (0..out.len())
                .map(|t| m.list_sources(&InstructionIndex(t)).into_iter().map(|s| s.0 as u64).collect())
                .collect();
            let targets = (0..src.len())
                .map(|s| {
                    m.list_targets(&InstructionIndex(s))
                        .into_iter()
                        .map(|t| match t {
                            quil_rs::program::ExpansionResult::Unmodified(i) => (i.0 as u64, i.0 as u64 + 1),
                            quil_rs::program::ExpansionResult::Rewritten(x) => (x.range().start.0 as u64, x.range().end.0 as u64),
                        })
                        .collect()
                })
                .collect();
            let rew: Vec<&Value> = map.as_array().unwrap().iter().filter(|e| e["t"].get("r").is_some()).collect();
            let has_nested = rew.iter().any(|e| e["t"]["r"]["exps"].as_array().unwrap().iter().any(|x| x["t"].get("r").is_some()));
            Artefact { status: "done", out, map: map.clone(), sources, targets, hoisting, has_rewritten: !rew.is_empty(), has_nested }
        }
    }
}

fn span(t: &Value) -> (i64, i64) {
    match t.get("r") {
        Some(d) => (d["from"].as_i64().unwrap_or(-1), d["to"].as_i64().unwrap_or(-1)),
        None => {
            let u = t["u"].as_i64().unwrap_or(-1);
            (u, u + 1)
        }
    }
}

/// The shape half of the property on an entries tree; returns (failures at this level, failures in nested
/// records of entries whose source index is in `skip_nested`).
fn level_failures(es: &[Value], lo: i64, hi: i64, path: &str, fails: &mut Vec<String>) {
    let mut pos = lo;
    let mut last_s = -1;
    for e in es {
        let s = e["s"].as_i64().unwrap_or(-1);
        if s <= last_s {
            fails.push(format!("{path}: source indices not strictly ascending at {s}"));
        }
        last_s = s;
        let (a, b) = span(&e["t"]);
        if a >= b {
            fails.push(format!("{path}/{s}: empty or inverted range {a}..{b}"));
        }
        if a != pos {
            fails.push(format!("{path}/{s}: range starts at {a}, previous entry ends at {pos}"));
        }
        pos = b;
    }
    if pos != hi {
        fails.push(format!("{path}: entries end at {pos}, the range ends at {hi}"));
    }
}

fn nested_failures(d: &Value, path: &str, fails: &mut Vec<String>) {
    let es = d["exps"].as_array().cloned().unwrap_or_default();
    let (a, b) = (d["from"].as_i64().unwrap_or(0), d["to"].as_i64().unwrap_or(0));
    level_failures(&es, 0, b - a, path, fails);
    for e in &es {
        if let Some(c) = e["t"].get("r") {
            nested_failures(c, &format!("{path}/{}", e["s"]), fails);
        }
    }
}

/// (top-level failures, failures inside the nested records per top-level source index)
pub fn shape_failures(src: &[Value], a: &Artefact) -> (Vec<String>, Vec<(u64, Vec<String>)>) {
    let es = a.map.as_array().cloned().unwrap_or_default();
    let mut top = vec![];
    level_failures(&es, 0, a.out.len() as i64, "map", &mut top);
    let mut nested = vec![];
    for e in &es {
        let s = e["s"].as_u64().unwrap_or(0);
        match e["t"].get("r") {
            Some(d) => {
                let mut f = vec![];
                nested_failures(d, &format!("map/{s}"), &mut f);
                if !f.is_empty() {
                    nested.push((s, f));
                }
            }
            None => {
                // "an unmodified entry points to an identical instruction in the output"
                let u = e["t"]["u"].as_u64().unwrap_or(u64::MAX) as usize;
                if a.out.get(u) != src.get(s as usize) || src.get(s as usize).is_none() {
                    top.push(format!("map/{s}: Unmodified({u}) does not point to the source instruction"));
                }
            }
        }
    }
    // "querying sources of a target and targets of a source are inverse"
    for (t, ss) in a.sources.iter().enumerate() {
        if ss.len() != 1 {
            top.push(format!("list_sources({t}) = {ss:?}, expected exactly one source"));
        } else if !a.targets.get(ss[0] as usize).map(|v| v.iter().any(|(x, y)| *x <= t as u64 && (t as u64) < *y)).unwrap_or(false) {
            top.push(format!("list_sources({t}) = {ss:?} but list_targets({}) does not contain {t}", ss[0]));
        }
    }
    for (s, spans) in a.targets.iter().enumerate() {
        if spans.len() > 1 {
            top.push(format!("list_targets({s}) has {} entries, expected at most one", spans.len()));
        }
        for (x, y) in spans {
            for t in *x..*y {
                if a.sources.get(t as usize) != Some(&vec![s as u64]) {
                    top.push(format!("list_targets({s}) contains {t} but list_sources({t}) is not [{s}]"));
                }
            }
        }
    }
    (top, nested)
}

pub fn replay(_ctx: &Ctx, case: &Value) -> Outcome {
    let case = match case.get("history") {
        Some(h) => h[0].clone(),
        None => case.clone(),
    };
    let program = abs::program_from_abs(&case);
    let a = artefact(&program);
    let mut o = Outcome::ok(a.has_rewritten);
    if a.has_nested || !a.hoisting.is_empty() {
        o.count("deep");
    }
    if a.status != "done" {
        if case.get("status").and_then(|s| s.as_str()) == Some("done") {
            o.diverge(format!("model expands the program, the code answers {}", a.status));
        }
        return o;
    }
    let same = case.get("map").map(|m| *m == a.map).unwrap_or(false) && case.get("out").map(|x| *x == json!(a.out)).unwrap_or(false);
    let src = case["src"].as_array().cloned().unwrap_or_default();
    let (top, nested) = shape_failures(&src, &a);
    if top.is_empty() && nested.is_empty() {
        if !same && case.get("map").is_some() {
            o.diverge(format!("source map differs from the model's but is well-formed: {}", a.map));
        }
        return o;
    }
    // ill-formed: the known finding iff every failure sits in the nested records of an expansion that
    // hoisted a DECLARE
    let known = top.is_empty() && nested.iter().all(|(s, _)| a.hoisting.contains(s));
    let all: Vec<String> = top.iter().cloned().chain(nested.iter().flat_map(|(_, f)| f.iter().cloned())).collect();
    let mut v = Violation::new("source map well-formedness", case.get("map").cloned().unwrap_or(Value::Null), a.map.clone()).note(all.join("; "));
    if known {
        v = v.finding(FINDING);
    }
    o.violate(v);
    o
}

// ------------------------------------------------------------------------------------------- drive

fn record(prog: &Value) -> (Value, Outcome) {
    let program = abs::program_from_abs(prog);
    let a = artefact(&program);
    let mut o = Outcome::ok(a.has_rewritten);
    if a.has_nested || !a.hoisting.is_empty() {
        o.count("deep");
    }
    if !a.hoisting.is_empty() {
        o.count("hoisting");
    }
    let rec = json!({"ev": "map", "gcals": prog["gcals"], "mcals": prog["mcals"], "src": prog["src"],
                     "status": a.status, "out": a.out, "map": a.map, "sources": a.sources,
                     "targets": a.targets.iter().map(|v| v.iter().map(|(x, y)| json!([x, y])).collect::<Vec<_>>()).collect::<Vec<_>>(),
                     "hoisting": a.hoisting.iter().collect::<Vec<_>>()});
    (rec, o)
}

pub fn drive(ctx: &Ctx) -> Summary {
    let n = ctx.arg_u64("n", 100);
    let max_body = ctx.arg_u64("body", 4) as usize;
    let stride = ctx.arg_u64("stride", 1).max(1) as usize;
    let path = ctx.arg_str("out").expect("--out");
    let mut out = std::io::BufWriter::new(std::fs::File::create(path).expect("create trace"));
    let mut rng = util::rng(ctx.seed, 19);
    let mut sum = Summary::default();
    let mut emit = |prog: &Value, sum: &mut Summary| {
        util::emit(&mut out, &json!({"ev": "reset"}));
        let (rec, mut o) = record(prog);
        util::emit(&mut out, &rec);
        util::emit(&mut out, &json!({"ev": "cmp"}));
        o.count_n("events", 3);
        sum.absorb(prog, &o, true);
    };
    // (a) the programs TLC enumerated (every `stride`-th)
    if let Some(cases) = ctx.arg_str("cases") {
        let text = std::fs::read_to_string(cases).expect("read cases");
        for (k, line) in text.lines().enumerate() {
            if k % stride != 0 || line.trim().is_empty() {
                continue;
            }
            let c: Value = serde_json::from_str(line).expect("case");
            emit(&json!({"gcals": c["gcals"], "mcals": c["mcals"], "src": c["src"]}), &mut sum);
        }
    }
    // (b) seeded random larger programs, declarations at every level
    for _ in 0..n {
        let cyclic = rng.gen_bool(0.05);
        let prog = c17::random_program(&mut rng, cyclic, true, max_body);
        emit(&prog, &mut sum);
    }
    sum
}
