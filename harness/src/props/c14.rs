//! C14 — standard gate unitaries match the Quil specification (module Unitary).
//! Shared code of the group C14 / C15 lives here.
//!
//! replay (spec -> code), cases of spec/mc/MC_Unitary.tla and spec/mc/MC_UnitaryLift.tla:
//!   kind "gate": {n, gate:{name, mods, qubits, np}, entries:[[r, c, {s, p}]]} — the sparse SYMBOLIC
//!       matrix the specification expects.  The symbols are evaluated in f64 for 19 parameter
//!       assignments (see `assignments`) and compared entry-wise with `Gate::to_unitary(n)` and with
//!       `Program::to_unitary(n)` of the one-gate program.
//!   kind "lift": {n, qubits, sub:[index map], steps, arr} — a placement explored by the model of the
//!       lifting algorithm.  Probe gates of that arity are lifted by the real code to (qubits, n) and
//!       compared with the same gate on (k-1 .. 0, k) moved through the specification's index map
//!       (a relation between two runs of the code, stated by the specification).
//! drive (code -> spec): seeded random gates on registers larger than the exhaustive bound; the real
//!   matrix is abstracted back to symbols (numeric value -> unique symbol of the vocabulary for
//!   generic parameters) and TLC validates it against spec/trace/UnitaryTrace.tla.

use crate::runner::{Outcome, Summary, Violation};
use crate::util::{self, arr, s, u};
use crate::Ctx;
use ndarray::Array2;
use num_complex::Complex64;
use quil_rs::expression::Expression;
use quil_rs::instruction::{Gate, GateModifier, Instruction, Qubit};
use quil_rs::quil::Quil;
use quil_rs::Program;
use rand::Rng;
use serde_json::{json, Value};
use std::f64::consts::{FRAC_1_SQRT_2, FRAC_PI_4, PI};

pub type Mat = Array2<Complex64>;

pub const GATES: &[(&str, usize, usize)] = &[
    ("I", 1, 0), ("X", 1, 0), ("Y", 1, 0), ("Z", 1, 0), ("H", 1, 0), ("S", 1, 0), ("T", 1, 0),
    ("CNOT", 2, 0), ("CCNOT", 3, 0), ("CZ", 2, 0), ("SWAP", 2, 0), ("CSWAP", 3, 0), ("ISWAP", 2, 0),
    ("RX", 1, 1), ("RY", 1, 1), ("RZ", 1, 1), ("PHASE", 1, 1), ("CPHASE", 2, 1), ("CPHASE00", 2, 1),
    ("CPHASE01", 2, 1), ("CPHASE10", 2, 1), ("PSWAP", 2, 1),
];

#[allow(dead_code)]
pub fn arity(name: &str) -> usize {
    GATES.iter().find(|g| g.0 == name).map(|g| g.1).unwrap_or_else(|| panic!("not a standard gate: {name}"))
}
pub fn base_params(name: &str) -> usize {
    GATES.iter().find(|g| g.0 == name).map(|g| g.2).unwrap_or_else(|| panic!("not a standard gate: {name}"))
}

// ------------------------------------------------------------------------------- gate description

/// A gate value in the vocabulary of the specification (Unitary!GateRec).
#[derive(Clone, Debug, PartialEq)]
pub struct GateCase {
    pub name: String,
    pub mods: Vec<String>, // first = outermost
    pub qubits: Vec<u64>,
    pub np: usize,
}

impl GateCase {
    pub fn from_json(v: &Value) -> GateCase {
        GateCase {
            name: s(v, "name"),
            mods: arr(v, "mods").iter().map(|m| m.as_str().expect("modifier").to_string()).collect(),
            qubits: arr(v, "qubits").iter().map(|q| q.as_u64().expect("qubit")).collect(),
            np: u(v, "np") as usize,
        }
    }
    pub fn to_json(&self) -> Value {
        json!({"name": self.name, "mods": self.mods, "qubits": self.qubits, "np": self.np})
    }
    pub fn from_gate(g: &Gate) -> GateCase {
        GateCase {
            name: g.name.clone(),
            mods: g.modifiers.iter().map(|m| modifier_name(*m).to_string()).collect(),
            qubits: g.qubits.iter().map(|q| match q { Qubit::Fixed(i) => *i, other => panic!("qubit {other:?}") }).collect(),
            np: g.parameters.len(),
        }
    }
    pub fn text(&self) -> String {
        format!("{} {}({}) {:?}", self.mods.join(" "), self.name, self.np, self.qubits)
    }
}

pub fn modifier_name(m: GateModifier) -> &'static str {
    match m {
        GateModifier::Controlled => "CONTROLLED",
        GateModifier::Dagger => "DAGGER",
        GateModifier::Forked => "FORKED",
    }
}
pub fn modifier_of(name: &str) -> GateModifier {
    match name {
        "CONTROLLED" => GateModifier::Controlled,
        "DAGGER" => GateModifier::Dagger,
        "FORKED" => GateModifier::Forked,
        other => panic!("unknown modifier {other}"),
    }
}

fn num(x: f64) -> Expression {
    Expression::Number(Complex64::new(x, 0.0))
}

/// `Gate::new` with the whole modifier list (thetas[k-1] is the value of theta_k).
pub fn build_direct(gc: &GateCase, thetas: &[f64]) -> Gate {
    Gate::new(
        &gc.name,
        thetas[..gc.np].iter().map(|t| num(*t)).collect(),
        gc.qubits.iter().map(|q| Qubit::Fixed(*q)).collect(),
        gc.mods.iter().map(|m| modifier_of(m)).collect(),
    )
    .expect("Gate::new")
}

/// The same gate built inside-out through the public builder calls `dagger`, `controlled`, `forked`.
pub fn build_by_builder(gc: &GateCase, thetas: &[f64]) -> Gate {
    let extra = gc.mods.iter().filter(|m| *m != "DAGGER").count();
    let base_np = base_params(&gc.name);
    let mut g = Gate::new(
        &gc.name,
        thetas[..base_np].iter().map(|t| num(*t)).collect(),
        gc.qubits[extra..].iter().map(|q| Qubit::Fixed(*q)).collect(),
        vec![],
    )
    .expect("Gate::new");
    let mut next_q = extra;
    for m in gc.mods.iter().rev() {
        match m.as_str() {
            "DAGGER" => g = g.dagger(),
            "CONTROLLED" => {
                next_q -= 1;
                g = g.controlled(Qubit::Fixed(gc.qubits[next_q]));
            }
            "FORKED" => {
                next_q -= 1;
                let have = g.parameters.len();
                let alt = thetas[have..2 * have].iter().map(|t| num(*t)).collect();
                g = g.forked(Qubit::Fixed(gc.qubits[next_q]), alt).expect("Gate::forked");
            }
            other => panic!("unknown modifier {other}"),
        }
    }
    g
}

pub fn real_gate_unitary(g: &Gate, n: u64) -> Result<Mat, String> {
    let mut g = g.clone(); // to_unitary consumes the modifiers of the value it is called on
    g.to_unitary(n).map_err(|e| format!("{e}"))
}

pub fn one_gate_program_unitary(g: &Gate, n: u64) -> Result<Mat, String> {
    let mut p = Program::new();
    p.add_instruction(Instruction::Gate(g.clone()));
    p.to_unitary(n).map_err(|e| format!("{e}"))
}

// ------------------------------------------------------------------------------ symbols (f64 side)

pub const CONST_SYMBOLS: &[&str] = &["1", "-1", "i", "-i", "h", "-h", "t", "t_conj"];
pub const PARAM_SYMBOLS: &[&str] = &[
    "cos_half", "-isin_half", "isin_half", "sin_half", "-sin_half", "cis", "cis_conj", "cis_half", "cis_half_conj",
];

/// Numeric value of a symbol of Unitary.tla (theta is the value of the symbol's parameter, if any).
pub fn eval_symbol(name: &str, theta: f64) -> Complex64 {
    let c = Complex64::new;
    let h = theta / 2.0;
    match name {
        "0" => c(0.0, 0.0),
        "1" => c(1.0, 0.0),
        "-1" => c(-1.0, 0.0),
        "i" => c(0.0, 1.0),
        "-i" => c(0.0, -1.0),
        "h" => c(FRAC_1_SQRT_2, 0.0),
        "-h" => c(-FRAC_1_SQRT_2, 0.0),
        "t" => Complex64::cis(FRAC_PI_4),
        "t_conj" => Complex64::cis(-FRAC_PI_4),
        "cos_half" => c(h.cos(), 0.0),
        "sin_half" => c(h.sin(), 0.0),
        "-sin_half" => c(-h.sin(), 0.0),
        "-isin_half" => c(0.0, -h.sin()),
        "isin_half" => c(0.0, h.sin()),
        "cis" => Complex64::cis(theta),
        "cis_conj" => Complex64::cis(-theta),
        "cis_half" => Complex64::cis(h),
        "cis_half_conj" => Complex64::cis(-h),
        other => panic!("unknown symbol {other}"),
    }
}

/// Dense numeric matrix of a sparse symbolic one ([[r, c, {s, p}]]).
pub fn eval_entries(entries: &Value, dim: usize, thetas: &[f64]) -> Mat {
    let mut m = Mat::zeros((dim, dim));
    for e in entries.as_array().expect("entries") {
        let r = e[0].as_u64().expect("row") as usize;
        let c = e[1].as_u64().expect("col") as usize;
        let sym = e[2]["s"].as_str().expect("symbol");
        let p = e[2]["p"].as_u64().expect("param index") as usize;
        let theta = if p == 0 { 0.0 } else { thetas[p - 1] };
        m[[r, c]] = eval_symbol(sym, theta);
    }
    m
}

/// Largest entry-wise distance and where it is.
pub fn max_diff(a: &Mat, b: &Mat) -> (f64, usize, usize) {
    if a.shape() != b.shape() {
        return (f64::INFINITY, 0, 0);
    }
    let mut best = (0.0, 0, 0);
    for ((r, c), x) in a.indexed_iter() {
        let d = (x - b[[r, c]]).norm();
        if d > best.0 || d.is_nan() {
            best = (if d.is_nan() { f64::INFINITY } else { d }, r, c);
        }
    }
    best
}

pub fn adjoint(a: &Mat) -> Mat {
    a.t().mapv(|c| c.conj())
}

pub fn unitarity_defect(a: &Mat) -> f64 {
    let id = Mat::eye(a.shape()[0]);
    max_diff(&a.dot(&adjoint(a)), &id).0
}

/// The parameter assignments of a case (thetas[k-1] is the value of theta_k; FORKED gates have several).
/// The rotation gates have period 4 pi, the phase gates 2 pi, so the values deliberately leave
/// (-2 pi, 2 pi): a refactoring that "normalises" the angle (reduction modulo 2 pi, |theta| by symmetry,
/// dropping a global phase, flushing tiny entries to zero) must show up as an entry-wise difference.
///   g1        seeded reals in (-pi, pi)
///   g2, g3    seeded reals in +-[2 pi, 20], g3 with the signs of g2 flipped
///   a0 .. a2  the special angles 0, pi, -pi/3 (DESIGN.md section 6, C14)
///   b0 .. b7  2 pi, -2 pi, 3 pi, -3 pi, 4 pi, 5 pi/2, -7 pi/2, -4 pi, rotated over the parameter positions
///             (every parameter, hence every FORKED half, takes every one of them)
///   c0, c1    large magnitudes (about +-1e3, and seeded +-[100, 1000])
///   d0, d1    tiny magnitudes (1e-9 and 1e-11: entries of size 5e-10 / 5e-12 must not be flushed to 0)
/// `key` makes the seeded values depend on the case.
pub fn assignments(seed: u64, key: &str, np: usize) -> Vec<Vec<f64>> {
    let m = np.max(1);
    let mut r = util::rng(seed ^ crate::runner::hash_line(key), 14);
    let g1: Vec<f64> = (0..m).map(|_| r.gen_range(-PI..PI)).collect();
    if np == 0 {
        return vec![g1];
    }
    let g2: Vec<f64> = (0..m).map(|_| r.gen_range(2.0 * PI..20.0) * if r.gen_bool(0.5) { 1.0 } else { -1.0 }).collect();
    let g3: Vec<f64> = g2.iter().map(|t| -t.signum() * r.gen_range(2.0 * PI..20.0)).collect();
    let a0: Vec<f64> = (0..m).map(|k| if k % 2 == 0 { 0.0 } else { PI }).collect();
    let a1: Vec<f64> = (0..m).map(|k| if k % 2 == 0 { PI } else { -PI / 3.0 }).collect();
    let a2: Vec<f64> = (0..m).map(|k| -PI / 3.0 * (k as f64 + 1.0)).collect();
    let outside = [2.0 * PI, -2.0 * PI, 3.0 * PI, -3.0 * PI, 4.0 * PI, 2.5 * PI, -3.5 * PI, -4.0 * PI];
    let mut all = vec![g1, g2, g3, a0, a1, a2];
    for j in 0..outside.len() {
        all.push((0..m).map(|k| outside[(j + k) % outside.len()]).collect());
    }
    all.push((0..m).map(|k| (1000.0 + 37.0 * k as f64) * if k % 2 == 0 { 1.0 } else { -1.0 }).collect());
    all.push((0..m).map(|_| r.gen_range(100.0..1000.0) * if r.gen_bool(0.5) { 1.0 } else { -1.0 }).collect());
    all.push((0..m).map(|k| 1e-9 * (k as f64 + 1.0) * if k % 2 == 0 { 1.0 } else { -1.0 }).collect());
    all.push((0..m).map(|k| 1e-11 * (k as f64 + 1.0) * if k % 2 == 0 { -1.0 } else { 1.0 }).collect());
    all
}

// ---------------------------------------------------------- the property, evaluated in Rust (reference)
//
// Used only (i) to classify a difference between the real code and the model as violation (the real
// matrix is not what the statement demands) or divergence (the model is off), and (ii) to judge a
// recorded history when a trace-validation rejection is replayed.  Written from the Quil
// specification, like the tables of Unitary.tla, but independently of them.

fn reference_table(name: &str, theta: f64) -> Mat {
    let z = Complex64::new(0.0, 0.0);
    let o = Complex64::new(1.0, 0.0);
    let i = Complex64::new(0.0, 1.0);
    let diag = |d: &[Complex64]| {
        let mut m = Mat::zeros((d.len(), d.len()));
        for (k, x) in d.iter().enumerate() {
            m[[k, k]] = *x;
        }
        m
    };
    let perm = |p: &[usize]| {
        let mut m = Mat::zeros((p.len(), p.len()));
        for (c, r) in p.iter().enumerate() {
            m[[*r, c]] = o;
        }
        m
    };
    let (c, sn) = ((theta / 2.0).cos(), (theta / 2.0).sin());
    let e = Complex64::from_polar(1.0, theta);
    match name {
        "I" => diag(&[o, o]),
        "X" => perm(&[1, 0]),
        "Y" => ndarray::array![[z, -i], [i, z]],
        "Z" => diag(&[o, -o]),
        "H" => ndarray::array![[o, o], [o, -o]].mapv(|x| x * FRAC_1_SQRT_2),
        "S" => diag(&[o, i]),
        "T" => diag(&[o, Complex64::from_polar(1.0, FRAC_PI_4)]),
        "CNOT" => perm(&[0, 1, 3, 2]),
        "CZ" => diag(&[o, o, o, -o]),
        "SWAP" => perm(&[0, 2, 1, 3]),
        "ISWAP" => {
            let mut m = perm(&[0, 2, 1, 3]);
            m[[1, 2]] = i;
            m[[2, 1]] = i;
            m
        }
        "CCNOT" => perm(&[0, 1, 2, 3, 4, 5, 7, 6]),
        "CSWAP" => perm(&[0, 1, 2, 3, 4, 6, 5, 7]),
        "RX" => ndarray::array![[o * c, -i * sn], [-i * sn, o * c]],
        "RY" => ndarray::array![[o * c, -o * sn], [o * sn, o * c]],
        "RZ" => diag(&[Complex64::from_polar(1.0, -theta / 2.0), Complex64::from_polar(1.0, theta / 2.0)]),
        "PHASE" => diag(&[o, e]),
        "CPHASE00" => diag(&[e, o, o, o]),
        "CPHASE01" => diag(&[o, e, o, o]),
        "CPHASE10" => diag(&[o, o, e, o]),
        "CPHASE" => diag(&[o, o, o, e]),
        "PSWAP" => {
            let mut m = perm(&[0, 2, 1, 3]);
            m[[1, 2]] = e;
            m[[2, 1]] = e;
            m
        }
        other => panic!("not a standard gate: {other}"),
    }
}

fn block(m0: &Mat, m1: &Mat) -> Mat {
    let d = m0.shape()[0];
    let mut m = Mat::zeros((2 * d, 2 * d));
    for r in 0..d {
        for c in 0..d {
            m[[r, c]] = m0[[r, c]];
            m[[d + r, d + c]] = m1[[r, c]];
        }
    }
    m
}

fn reference_local(name: &str, mods: &[String], thetas: &[f64]) -> Mat {
    match mods.first().map(|m| m.as_str()) {
        None => reference_table(name, thetas.first().copied().unwrap_or(0.0)),
        Some("DAGGER") => adjoint(&reference_local(name, &mods[1..], thetas)),
        Some("CONTROLLED") => {
            let m = reference_local(name, &mods[1..], thetas);
            block(&Mat::eye(m.shape()[0]), &m)
        }
        Some("FORKED") => {
            let half = thetas.len() / 2;
            block(&reference_local(name, &mods[1..], &thetas[..half]), &reference_local(name, &mods[1..], &thetas[half..]))
        }
        Some(other) => panic!("unknown modifier {other}"),
    }
}

/// qubit 0 least significant in the register; first listed qubit most significant inside the gate
pub fn reference_lift(local: &Mat, qubits: &[u64], n: u64) -> Mat {
    let dim = 1usize << n;
    let k = qubits.len();
    let sub = |r: usize| qubits.iter().enumerate().fold(0usize, |acc, (j, q)| acc | (((r >> q) & 1) << (k - 1 - j)));
    let mask: usize = qubits.iter().fold(0, |acc, q| acc | (1 << q));
    let mut m = Mat::zeros((dim, dim));
    for r in 0..dim {
        for c in 0..dim {
            if (r & !mask) == (c & !mask) {
                m[[r, c]] = local[[sub(r), sub(c)]];
            }
        }
    }
    m
}

pub fn reference_unitary(gc: &GateCase, n: u64, thetas: &[f64]) -> Mat {
    reference_lift(&reference_local(&gc.name, &gc.mods, &thetas[..gc.np]), &gc.qubits, n)
}

// ------------------------------------------------------------------------------------ comparisons

/// Compare one real matrix with the model's expectation; classify a difference with the reference.
pub fn judge(o: &mut Outcome, observable: &str, what: &str, real: &Result<Mat, String>, want: &Mat, reference: &Mat, tol: f64) {
    match real {
        Err(e) => {
            o.violate(Violation::new(observable, json!("a matrix"), json!(format!("error: {e}"))).note(what.to_string()));
        }
        Ok(m) => {
            let (d, r, c) = max_diff(m, want);
            if d > tol {
                let (dr, rr, rc) = max_diff(m, reference);
                if dr > tol {
                    o.violate(
                        Violation::new(
                            observable,
                            json!(format!("entry [{r}][{c}] = {}", fmt_c(want.get((r, c)).copied()))),
                            json!(format!("entry [{r}][{c}] = {}", fmt_c(m.get((r, c)).copied()))),
                        )
                        .note(format!("{what}: max entry-wise distance {d:.3e} from the specification's matrix (and {dr:.3e} at [{rr}][{rc}] from the harness reference)")),
                    );
                } else {
                    o.diverge(format!("{what}: the model's matrix differs from the real one at [{r}][{c}] by {d:.3e} but the real one satisfies the reference tables"));
                }
            }
        }
    }
}

fn fmt_c(c: Option<Complex64>) -> String {
    match c {
        Some(c) => format!("{:.6}{:+.6}i", c.re, c.im),
        None => "<out of range>".into(),
    }
}

/// One "gate" case against the real code: direct construction, builder construction (must be the same
/// value), `Gate::to_unitary`, `Program::to_unitary` of the one-gate program, unitarity.
pub fn check_gate_case(ctx: &Ctx, o: &mut Outcome, case: &Value, tol: f64, observable: &str) {
    let gc = GateCase::from_json(&case["gate"]);
    let n = u(case, "n");
    let dim = 1usize << n;
    let key = format!("{}|{n}", gc.text());
    let mut evals = 0;
    for thetas in assignments(ctx.seed, &key, gc.np) {
        let want = eval_entries(&case["entries"], dim, &thetas);
        let reference = reference_unitary(&gc, n, &thetas);
        let direct = build_direct(&gc, &thetas);
        let built = build_by_builder(&gc, &thetas);
        if built != direct {
            o.violate(
                Violation::new("builder", json!(direct.to_quil_or_debug()), json!(built.to_quil_or_debug()))
                    .note("Gate::dagger/controlled/forked do not build the modifier list / qubits / parameters of the written gate"),
            );
        }
        let what = format!("{} with thetas {:?} in {n} qubits", direct.to_quil_or_debug(), &thetas[..gc.np]);
        let real = real_gate_unitary(&direct, n);
        judge(o, observable, &format!("Gate::to_unitary of {what}"), &real, &want, &reference, tol);
        let via_program = one_gate_program_unitary(&built, n);
        judge(o, observable, &format!("Program::to_unitary of {what}"), &via_program, &want, &reference, tol);
        if let Ok(m) = &real {
            let defect = unitarity_defect(m);
            if defect > 1e-10 {
                o.violate(Violation::new("unitarity", json!("U U^dagger = Id"), json!(format!("defect {defect:.3e}"))).note(what.clone()));
            }
        }
        evals += 1;
    }
    o.sub_evaluations += evals;
}

/// C14 §10: multi-qubit, or placed on a qubit other than 0, or n > arity
fn nontrivial_c14(gc: &GateCase, n: u64) -> bool {
    gc.qubits.len() > 1 || gc.qubits.iter().any(|q| *q != 0) || n as usize > gc.qubits.len()
}

/// probe gates of total arity k (name, modifiers): together they distinguish every index map
fn probes(k: usize) -> Vec<(&'static str, Vec<&'static str>)> {
    match k {
        1 => vec![("RX", vec![]), ("H", vec![]), ("T", vec![])],
        2 => vec![("CNOT", vec![]), ("CPHASE01", vec![]), ("CPHASE10", vec![]), ("PSWAP", vec![])],
        3 => vec![("CCNOT", vec![]), ("CSWAP", vec![]), ("CPHASE01", vec!["CONTROLLED"]), ("CNOT", vec!["FORKED"])],
        4 => vec![("CCNOT", vec!["CONTROLLED"]), ("CSWAP", vec!["CONTROLLED"]), ("CPHASE10", vec!["CONTROLLED", "CONTROLLED"])],
        _ => vec![("CPHASE01", vec!["CONTROLLED", "CONTROLLED", "CONTROLLED"]), ("CSWAP", vec!["CONTROLLED", "CONTROLLED"])],
    }
}

fn check_lift_case(ctx: &Ctx, o: &mut Outcome, case: &Value) {
    let n = u(case, "n");
    let qubits: Vec<u64> = arr(case, "qubits").iter().map(|q| q.as_u64().unwrap()).collect();
    let sub: Vec<usize> = arr(case, "sub").iter().map(|x| x.as_u64().unwrap() as usize).collect();
    let k = qubits.len();
    let dim = 1usize << n;
    let mask: usize = qubits.iter().fold(0, |acc, q| acc | (1 << q));
    for (name, mods) in probes(k) {
        let np = base_params(name) << mods.iter().filter(|m| **m == "FORKED").count();
        let gc = GateCase { name: name.into(), mods: mods.iter().map(|m| m.to_string()).collect(), qubits: qubits.clone(), np };
        let thetas = assignments(ctx.seed, &format!("lift|{}", gc.text()), np).remove(0);
        // the same gate on qubits k-1 .. 0 of a k-qubit register: its matrix is the gate-local matrix
        let compact = GateCase { qubits: (0..k as u64).rev().collect(), ..gc.clone() };
        let local = match real_gate_unitary(&build_direct(&compact, &thetas), k as u64) {
            Ok(m) => m,
            Err(e) => {
                o.violate(Violation::new("unitary", json!("a matrix"), json!(e)).note(compact.text()));
                continue;
            }
        };
        // moved through the specification's index map
        let mut want = Mat::zeros((dim, dim));
        for r in 0..dim {
            for c in 0..dim {
                if (r & !mask) == (c & !mask) {
                    want[[r, c]] = local[[sub[r], sub[c]]];
                }
            }
        }
        let reference = reference_unitary(&gc, n, &thetas);
        let real = real_gate_unitary(&build_direct(&gc, &thetas), n);
        judge(o, "unitary", &format!("lifting of {} to {n} qubits", gc.text()), &real, &want, &reference, 1e-12);
        o.sub_evaluations += 1;
    }
}

pub fn replay(ctx: &Ctx, case: &Value) -> Outcome {
    if let Some(h) = case.get("history") {
        return replay_history(ctx, h);
    }
    match case["kind"].as_str() {
        Some("gate") => {
            let gc = GateCase::from_json(&case["gate"]);
            let mut o = Outcome::ok(nontrivial_c14(&gc, u(case, "n")));
            check_gate_case(ctx, &mut o, case, 1e-12, "unitary");
            o
        }
        Some("lift") => {
            let mut o = Outcome::ok(true);
            check_lift_case(ctx, &mut o, case);
            o
        }
        other => panic!("C14: unknown case kind {other:?}"),
    }
}

// --------------------------------------------------------------------- abstraction: numbers -> symbols

/// Parameter values for which every symbol of the vocabulary has a different value (so that a numeric
/// entry determines its symbol).
pub fn generic_thetas(r: &mut impl Rng, np: usize, band: u64) -> Vec<f64> {
    // band 0: +-(0.2, 3.0);  band 1: +-(2 pi + 0.3, 4 pi - 0.3) -- an odd number of whole turns dropped
    // flips the sign of the 4 pi-periodic rotation gates;  band 2: +-[4 pi, 20];  band 3: +-[100, 1000];
    // band >= 4: every parameter position takes another band (k + band) % 4
    let draw = |r: &mut dyn rand::RngCore, b: u64| -> f64 {
        let mag = match b % 4 {
            0 => r.gen_range(0.2..3.0),
            1 => r.gen_range(2.0 * PI + 0.3..4.0 * PI - 0.3),
            2 => r.gen_range(4.0 * PI..20.0),
            _ => r.gen_range(100.0..1000.0),
        };
        mag * if r.gen_bool(0.5) { 1.0 } else { -1.0 }
    };
    loop {
        let thetas: Vec<f64> = (0..np).map(|k| draw(&mut *r, if band >= 4 { k as u64 + band } else { band })).collect();
        let mut vals: Vec<Complex64> = CONST_SYMBOLS.iter().map(|s| eval_symbol(s, 0.0)).collect();
        vals.push(Complex64::new(0.0, 0.0));
        for t in &thetas {
            for s in PARAM_SYMBOLS {
                vals.push(eval_symbol(s, *t));
            }
        }
        let mut ok = true;
        'outer: for a in 0..vals.len() {
            for b in a + 1..vals.len() {
                if (vals[a] - vals[b]).norm() < 1e-3 {
                    ok = false;
                    break 'outer;
                }
            }
        }
        if ok {
            return thetas;
        }
    }
}

/// The symbol whose value is `v` (within 1e-9), as the JSON of an entry of Unitary.tla; a value that is
/// no symbol's value is recorded as {"s":"?", ...} and makes the trace validation reject.
pub fn abstract_value(v: Complex64, thetas: &[f64]) -> Value {
    for s in CONST_SYMBOLS {
        if (eval_symbol(s, 0.0) - v).norm() < 1e-9 {
            return json!({"s": s, "p": 0});
        }
    }
    for (k, t) in thetas.iter().enumerate() {
        for s in PARAM_SYMBOLS {
            if (eval_symbol(s, *t) - v).norm() < 1e-9 {
                return json!({"s": s, "p": k + 1});
            }
        }
    }
    json!({"s": "?", "p": 0, "re": format!("{:?}", v.re), "im": format!("{:?}", v.im)})
}

pub fn abstract_matrix(m: &Mat, thetas: &[f64]) -> Vec<Value> {
    let mut out = vec![];
    for ((r, c), v) in m.indexed_iter() {
        if v.norm() > 1e-12 || v.re.is_nan() || v.im.is_nan() {
            out.push(json!([r, c, abstract_value(*v, thetas)]));
        }
    }
    out
}

fn theta_strings(thetas: &[f64]) -> Vec<String> {
    thetas.iter().map(|t| format!("{t:?}")).collect()
}
pub fn thetas_of(v: &Value) -> Vec<f64> {
    v.as_array().map(|a| a.iter().map(|x| x.as_str().and_then(|s| s.parse().ok()).expect("theta")).collect()).unwrap_or_default()
}

pub fn random_placement(r: &mut impl Rng, k: usize, n: u64) -> Vec<u64> {
    let mut all: Vec<u64> = (0..n).collect();
    use rand::seq::SliceRandom;
    all.shuffle(r);
    all.truncate(k);
    all
}

/// Judge one recorded `unitary` observation again on the real code (replay of a trace rejection).
pub fn rejudge_gate(o: &mut Outcome, gc: &GateCase, n: u64, thetas: &[f64], tol: f64) {
    let reference = reference_unitary(gc, n, thetas);
    let real = real_gate_unitary(&build_direct(gc, thetas), n);
    judge(o, "unitary", &format!("Gate::to_unitary of {} with thetas {:?} in {n} qubits", gc.text(), thetas), &real, &reference, &reference, tol);
}

fn replay_history(_ctx: &Ctx, h: &Value) -> Outcome {
    let mut o = Outcome::ok(true);
    let events = h.as_array().cloned().unwrap_or_default();
    let mut n = 0;
    let mut thetas = vec![];
    for e in &events {
        match e["ev"].as_str() {
            Some("reset") => {
                n = u(e, "n");
                thetas = thetas_of(&e["thetas"]);
            }
            Some("new") | Some("dagger") | Some("controlled") | Some("forked") => {
                let gc = GateCase::from_json(&e["post"]);
                rejudge_gate(&mut o, &gc, n, &thetas, 1e-12);
            }
            _ => {}
        }
    }
    o
}

pub fn drive(ctx: &Ctx) -> Summary {
    let count = ctx.arg_u64("n", 40);
    let max_n = ctx.arg_u64("maxn", 5);
    let path = ctx.arg_str("out").expect("--out");
    let mut out = std::io::BufWriter::new(std::fs::File::create(path).expect("create trace"));
    let mut rng = util::rng(ctx.seed, 1400);
    let mut sum = Summary::default();
    for h in 0..count {
        // every gate once, then random ones; registers beyond the exhaustive bound
        let (name, k, np) = GATES[(h as usize) % GATES.len()];
        let n = rng.gen_range((k as u64).max(4)..=max_n.max(4));
        let qubits = random_placement(&mut rng, k, n);
        // first pass over the 22 gates: small angles; second: angles in +-(2 pi, 4 pi); then larger ones
        let thetas = generic_thetas(&mut rng, np, (h / GATES.len() as u64) % 4);
        let gc = GateCase { name: name.into(), mods: vec![], qubits, np };
        let gate = build_direct(&gc, &thetas);
        util::emit(&mut out, &json!({"ev": "reset", "n": n, "thetas": theta_strings(&thetas)}));
        let mut o = Outcome::ok(nontrivial_c14(&gc, n));
        let entries = match real_gate_unitary(&gate, n) {
            Ok(m) => abstract_matrix(&m, &thetas),
            Err(e) => vec![json!([0, 0, {"s": "?", "p": 0, "error": e}])],
        };
        util::emit(&mut out, &json!({"ev": "new", "name": name, "qs": gc.qubits, "post": gc.to_json(), "entries": entries}));
        o.count_n("events", 2);
        sum.absorb(&json!({"gate": gc.to_json(), "n": n}), &o, true);
    }
    sum
}
