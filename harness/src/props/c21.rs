//! C21 — the gate-sequence source map matches the expansion.
//!
//! replay: TLC cases from spec/mc/MC_GateSequence.tla are executed on both entry points,
//!         `expand_defgate_sequences` and `expand_defgate_sequences_with_source_map`; the two programs must
//!         be equal (VIOLATION otherwise).  The real map is compared with the map built by the model's
//!         stack machine; a difference is reported as divergence here, because the verdict on the map is
//!         TLC's: see drive.
//! drive:  mode `C21.cases` re-runs the TLC cases (argument `cases`), mode `C21` runs the seeded larger
//!         families of c20::random_case; both export the real (body, expanded body, entries tree) as
//!         events reset/map/info for spec/trace/GateSequenceTrace.tla, where TLC evaluates WFMap on the
//!         real artefact (the predicate is not re-implemented in Rust).

use super::c20::{self, Real};
use crate::runner::{Outcome, Summary, Violation};
use crate::util;
use crate::Ctx;
use quil_rs::program::InstructionIndex;
use quil_rs::Program;
use serde_json::{json, Value};
use std::collections::BTreeSet;
use std::io::BufRead;

struct Both {
    plain: Real,
    mapped: Real,
    /// the two entry points returned equal programs (or both failed)
    same: bool,
    /// SourceMap::list_sources for every target index
    sources: Vec<Vec<usize>>,
}

fn run_both(program: &Program, filter: &BTreeSet<String>) -> Both {
    let plain_p = program.clone().expand_defgate_sequences(|n| filter.contains(n));
    let mapped_p = program.expand_defgate_sequences_with_source_map(|n| filter.contains(n));
    let same = match (&plain_p, &mapped_p) {
        (Ok(a), Ok((b, _))) => a == b && a.to_instructions() == b.to_instructions(),
        (Err(_), Err(_)) => true,
        _ => false,
    };
    let mut sources = vec![];
    if let Ok((p, m)) = &mapped_p {
        for ti in 0..p.body_instructions().count() {
            sources.push(m.list_sources(&InstructionIndex(ti)).into_iter().map(|s| s.0).collect());
        }
    }
    Both { plain: c20::run_plain(program, filter), mapped: c20::run_mapped(program, filter), same, sources }
}

pub fn replay(_ctx: &Ctx, case: &Value) -> Outcome {
    let (defs, filter, body) = c20::case_parts(case);
    let program = c20::build_program(&defs, &body);
    let b = run_both(&program, &filter);
    let mut o = Outcome::ok(c20::nontrivial(&defs, &filter, &body, &b.mapped));
    if !b.same {
        o.violate(Violation::new(
            "both entry points give the same program",
            c20::real_json(&b.plain),
            c20::real_json(&b.mapped),
        ));
    }
    if let (Real::Err(x), Real::Err(y)) = (&b.plain, &b.mapped) {
        if x != y {
            o.diverge(format!("the entry points fail with different categories: {x} / {y}"));
        }
    }
    if let Some(rec) = c20::recorded_event(case, "map") {
        // replay of a history that TLC's trace validation rejected (the verdict on the map is TLC's): establish
        // whether the real code still exports the rejected artefact
        let mut res = c20::real_json(&b.mapped);
        if let Some(m) = res.get_mut("ok").and_then(|k| k.get_mut("map")) {
            *m = c20::strip_names(m);
        }
        if rec["res"] == res && rec["same"] == json!(b.same) && b.same {
            o.violate(Violation::new("source map rejected by trace validation (reproduced)", Value::Null, res)
                .note("the real code exports the same (body, expanded body, map) that WFMap in spec/trace/GateSequenceTrace.tla rejected"));
        }
    }
    if let Some(w) = case.get("res") {
        match (&b.mapped, w.get("ok")) {
            (Real::Ok { map: Some(m), .. }, Some(k)) => {
                if c20::strip_names(m) != c20::strip_names(&k["map"]) {
                    // the verdict on the real map is TLC's (WFMap in the validate step)
                    o.diverge(format!("source map differs from the model's: model {} real {m}", k["map"]));
                } else if *m != k["map"] {
                    o.diverge(format!("definition names in the source map differ: model {} real {m}", k["map"]));
                }
                if matches!(m.as_array(), Some(es) if es.iter().any(|e| e["t"].get("r").is_some())) {
                    o.count("with_rewritten");
                }
            }
            (Real::Err(_), None) => {}
            _ => o.diverge(format!("ok/err differs from the model: model {w} real {}", c20::real_json(&b.mapped))),
        }
    }
    o
}

/// `sample_trivial`: Some(k) = the caller re-runs exhaustive TLC cases: export every Ok result whose body has
/// a selected invocation (so its map must have a Rewritten entry), plus every k-th of the others (bodies
/// without selected invocation, and error results, whose only C21 demand "same program" is already judged
/// by replay); None = export everything, with info events.
fn emit_history(
    out: &mut dyn std::io::Write,
    defs: &[Value],
    filter: &BTreeSet<String>,
    body: &[Value],
    sample_trivial: Option<(u64, u64)>,
) -> Outcome {
    let program = c20::build_program(defs, body);
    let b = run_both(&program, filter);
    if let Some((k, nth)) = sample_trivial {
        // "must have a Rewritten entry" is decided from the INPUT (the body has a selected invocation of a
        // sequence definition), not from the real map: a map that wrongly lacks the entry is still exported
        let expects_rewritten = matches!(&b.mapped, Real::Ok { .. }) && c20::nontrivial(defs, filter, body, &b.mapped);
        if !expects_rewritten && nth % k.max(1) != 0 {
            return Outcome::skip();
        }
    }
    util::emit(out, &json!({"ev": "reset", "defs": defs, "filter": c20::filter_json(filter), "body": body}));
    // verdict event: the two programs equal + the exported real map
    let mut res = c20::real_json(&b.mapped);
    let with_names = res.clone();
    if let Some(m) = res.get_mut("ok").and_then(|k| k.get_mut("map")) {
        *m = c20::strip_names(m);
    }
    util::emit(out, &json!({"ev": "map", "res": res, "same": b.same}));
    let mut o = Outcome::ok(c20::nontrivial(defs, filter, body, &b.mapped));
    if sample_trivial.is_none() {
        util::emit(out, &json!({"ev": "info", "res": with_names, "sources": b.sources}));
        o.count_n("events", 3);
    } else {
        o.count_n("events", 2);
    }
    if let Real::Ok { map: Some(m), .. } = &b.mapped {
        fn depth(m: &Value) -> u64 {
            m.as_array().map(|es| es.iter().map(|e| e["t"].get("r").map(|r| 1 + depth(&r["nested"])).unwrap_or(0)).max().unwrap_or(0)).unwrap_or(0)
        }
        let d = depth(m);
        if d >= 1 {
            o.count("with_rewritten");
        }
        if d >= 2 {
            o.count("with_nested");
        }
    }
    o
}

pub fn drive(ctx: &Ctx) -> Summary {
    let path = ctx.arg_str("out").expect("--out");
    let mut out = std::io::BufWriter::new(std::fs::File::create(path).expect("create trace"));
    let mut sum = Summary::default();
    if ctx.mode == "C21.cases" {
        // re-run the TLC cases and export the real artefacts
        // `cases`: one file or a comma-separated list of files
        let cases = ctx.arg_str("cases").expect("--cases");
        let limit = ctx.arg_u64("n", u64::MAX);
        let every = ctx.arg_u64("trivial_every", 10);
        let mut seen = std::collections::HashSet::new();
        let lines = cases.split(',').flat_map(|path| {
            std::io::BufReader::new(std::fs::File::open(path).unwrap_or_else(|e| panic!("open cases {path}: {e}"))).lines()
        });
        for (k, line) in lines.enumerate() {
            if k as u64 >= limit {
                break;
            }
            let line = line.expect("read");
            if line.trim().is_empty() {
                continue;
            }
            let case: Value = serde_json::from_str(&line).expect("case json");
            let (defs, filter, body) = c20::case_parts(&case);
            let o = crate::runner::run_guarded(std::panic::AssertUnwindSafe(|| {
                // sampled by the hash of the case text, so that the selection does not depend on the order in
                // which TLC's workers printed the cases
                emit_history(&mut out, &defs, &filter, &body, Some((every, crate::runner::hash_line(&line))))
            }));
            let distinct = seen.insert(crate::runner::hash_line(&line));
            sum.absorb(&json!({"defs": defs, "filter": c20::filter_json(&filter), "body": body}), &o, distinct);
        }
        return sum;
    }
    let n = ctx.arg_u64("n", 200);
    let mut rng = util::rng(ctx.seed, 21);
    for _ in 0..n {
        let (defs, filter, body) = c20::random_case(&mut rng);
        let o = emit_history(&mut out, &defs, &filter, &body, None);
        sum.absorb(&json!({"defs": defs, "filter": c20::filter_json(&filter), "body": body}), &o, true);
    }
    sum
}
