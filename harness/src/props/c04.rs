//! C04 — programs built through the API serialize to text that parses back.
//!
//! replay: TLC cases {prog, text, t1, has_ph, ambiguous} from spec/mc/MC_QuilPrint.tla (Family "C04").  The values
//!         are built with the public constructors (c02::from_abs), put into a Program, and
//!           * to_quil_or_debug must return (a panic is a violation of "the debug serializer never fails");
//!           * with a placeholder, to_quil must fail with an unresolved-placeholder error;
//!           * without, to_quil must succeed, the text must parse, and the result must be equivalent:
//!             equal, with expressions compared by value (evaluated at three assignments).
//! drive:  seeded random values beyond the model's bound (deeper expressions, every kind); events
//!         value/vprinted/vdone go to spec/trace/QuilPrintTrace.tla where the model printer must reproduce the
//!         real text and the placeholder law / round-trip verdict are evaluated by TLC on the recorded outcome.
//!
//! Known findings (tagged, never hidden):
//!   call-immediate-sign-or-complex       CALL immediates that print with a sign or as a sum (DESIGN §7, 11)
//! (two DELAY findings of this check were repaired in /repo: bf4c513, 57c1d21 -- see known_findings.d/C04.json)

use super::c02::{self, AbsCtx, ExprMode, PhCtx};
use crate::runner::{Outcome, Summary, Violation};
use crate::util;
use crate::Ctx;
use quil_rs::instruction::{Instruction, UnresolvedCallArgument};
use quil_rs::quil::{Quil, ToQuilError};
use quil_rs::Program;
use rand::seq::SliceRandom;
use rand::Rng;
use serde_json::{json, Value};
use std::str::FromStr;

pub const FINDING_CALL: &str = "call-immediate-sign-or-complex";

fn contains_ph(v: &Value) -> bool {
    match v {
        Value::Object(m) => m.get("t").and_then(|t| t.as_str()) == Some("ph") || m.values().any(contains_ph),
        Value::Array(a) => a.iter().any(contains_ph),
        _ => false,
    }
}

/// DESIGN §10: the value has an expression, string or numeric operand position
fn nontrivial(v: &Value) -> bool {
    match v {
        Value::Object(m) => {
            matches!(m.get("t").and_then(|t| t.as_str()),
                     Some("num" | "pi" | "var" | "addr" | "neg" | "pos" | "inf" | "fn" | "int" | "real" | "str" | "imm"))
                || m.contains_key("filename")
                || m.get("frame_names").map(|f| f.as_array().map(|a| !a.is_empty()).unwrap_or(false)).unwrap_or(false)
                || m.get("data").map(|d| d.get("some").is_some()).unwrap_or(false)
                || m.values().any(nontrivial)
        }
        Value::Array(a) => a.iter().any(nontrivial),
        _ => false,
    }
}

pub fn approx_eq(a: &Value, b: &Value) -> bool {
    let sensitive = |v: &Value| v.get("t").and_then(|t| t.as_str()) == Some("val") && v["v"].as_str() == Some("branch-cut-sensitive");
    if sensitive(a) || sensitive(b) {
        return true; // not judged (see c02::expr_values)
    }
    match (a, b) {
        (Value::Number(x), Value::Number(y)) => {
            let (x, y) = (x.as_f64().unwrap(), y.as_f64().unwrap());
            x == y || (x - y).abs() <= 1e-9 * x.abs().max(y.abs()).max(1.0)
        }
        (Value::Array(x), Value::Array(y)) => x.len() == y.len() && x.iter().zip(y).all(|(p, q)| approx_eq(p, q)),
        (Value::Object(x), Value::Object(y)) => x.len() == y.len() && x.iter().all(|(k, p)| y.get(k).map(|q| approx_eq(p, q)).unwrap_or(false)),
        _ => a == b,
    }
}

fn by_value(is: &[Instruction]) -> Value {
    let mut ph = PhCtx::default();
    Value::Array(is.iter().map(|i| c02::to_abs_with(i, &mut AbsCtx { mode: ExprMode::Value, ph: &mut ph })).collect())
}

/// the instructions and, recursively, the instructions of their bodies
fn flatten(is: &[Instruction], out: &mut Vec<Instruction>) {
    for i in is {
        out.push(i.clone());
        match i {
            Instruction::CalibrationDefinition(d) => flatten(&d.instructions, out),
            Instruction::MeasureCalibrationDefinition(d) => flatten(&d.instructions, out),
            Instruction::CircuitDefinition(d) => flatten(&d.instructions, out),
            _ => {}
        }
    }
}
fn flat(is: &[Instruction]) -> Vec<Instruction> {
    let mut out = vec![];
    flatten(is, &mut out);
    out
}

/// a CALL immediate that prints with a leading minus or as a sum of two parts (anywhere, bodies included)
fn call_immediate_signed(is: &[Instruction]) -> bool {
    flat(is).iter().any(|i| match i {
        Instruction::Call(c) => c.arguments().iter().any(|a| match a {
            UnresolvedCallArgument::Immediate(v) => {
                (v.re != 0.0 && v.im != 0.0) || (v.re < 0.0) || (v.im < 0.0)
            }
            _ => false,
        }),
        _ => false,
    })
}

#[allow(dead_code)]
pub struct Verdict {
    pub text: Option<String>,
    pub debug_text: String,
    pub fails: bool,
    pub parsed: bool,
    pub equivalent: bool,
}

/// The statement of C04 on one program value.  Violations are pushed into `o`.
pub fn check_value(o: &mut Outcome, instrs: &[Instruction], has_ph: bool, label: &str) -> Verdict {
    let mut program = Program::new();
    program.add_instructions(instrs.to_vec());
    let listing = program.to_instructions();
    // the debug serializer never fails: it returns (a panic is caught by the worker and reported as such)
    let debug_text = program.to_quil_or_debug();
    // ... and the placeholder law holds for every instruction on its own, at every nesting level it is printed from
    for i in instrs {
        let dbg = i.to_quil_or_debug();
        let mut ph = PhCtx::default();
        let holds = contains_ph(&c02::to_abs_with(i, &mut AbsCtx { mode: ExprMode::Structure, ph: &mut ph }));
        match i.to_quil() {
            Ok(t) if holds => o.violate(
                Violation::new("serialization fails when a placeholder is present", json!("Err(Unresolved*Placeholder)"), json!(t)).note(format!("{label}: one instruction"))),
            Err(e) if !holds => o.violate(
                Violation::new("serialization succeeds without placeholders", json!("Ok"), json!(e.to_string())).note(format!("{label}: one instruction"))),
            Err(e) if !matches!(e, ToQuilError::UnresolvedQubitPlaceholder | ToQuilError::UnresolvedLabelPlaceholder) => o.violate(
                Violation::new("serialization fails with an unresolved-placeholder error", json!("Unresolved*Placeholder"), json!(e.to_string())).note(format!("{label}: one instruction"))),
            _ => {}
        }
        if holds && !dbg.contains("Placeholder") {
            o.diverge(format!("the debug form {dbg:?} does not show the placeholder"));
        }
    }
    let mut v = Verdict { text: None, debug_text, fails: false, parsed: false, equivalent: false };
    match program.to_quil() {
        Err(e) => {
            v.fails = true;
            let unresolved = matches!(e, ToQuilError::UnresolvedQubitPlaceholder | ToQuilError::UnresolvedLabelPlaceholder);
            if !has_ph {
                o.violate(Violation::new("serialization succeeds without placeholders", json!("Ok"), json!(e.to_string())).note(label));
            } else if !unresolved {
                o.violate(Violation::new("serialization fails with an unresolved-placeholder error", json!("Unresolved*Placeholder"), json!(e.to_string())).note(label));
            }
        }
        Ok(text) => {
            v.text = Some(text.clone());
            if has_ph {
                o.violate(Violation::new("serialization fails when a placeholder is present", json!("Err(Unresolved*Placeholder)"), json!(text)).note(label));
                return v;
            }
            match Program::from_str(&text) {
                Err(e) => {
                    let mut viol = Violation::new("printed text parses", json!("Ok"), json!(format!("{e}"))).note(format!("{label}: {text:?}"));
                    if call_immediate_signed(&listing) {
                        viol = viol.finding(FINDING_CALL);
                    }
                    o.violate(viol);
                }
                Ok(p1) => {
                    v.parsed = true;
                    let l1 = p1.to_instructions();
                    let (a, b) = (by_value(&listing), by_value(&l1));
                    if a.to_string().contains("branch-cut-sensitive") || b.to_string().contains("branch-cut-sensitive") {
                        o.count("holds an expression not judged by value (sign of zero selects a branch)");
                    }
                    if approx_eq(&a, &b) {
                        v.equivalent = true;
                    } else {
                        let mut viol = Violation::new("re-parsed program is equivalent", json!(c02::program_abs(&program)), json!(c02::program_abs(&p1)))
                            .note(format!("{label}: {text:?}; by value: {a} vs {b}"));
                        if call_immediate_signed(&listing) {
                            viol = viol.finding(FINDING_CALL);
                        }
                        o.violate(viol);
                    }
                }
            }
        }
    }
    v
}

pub fn replay(_ctx: &Ctx, case: &Value) -> Outcome {
    let prog = match case.get("history") {
        Some(h) => vec![h[0]["v"].clone()],
        None => case["prog"].as_array().expect("prog").clone(),
    };
    let mut ph = PhCtx::default();
    let instrs: Vec<Instruction> = prog.iter().map(|v| c02::from_abs_with(v, &mut ph)).collect();
    let has_ph = prog.iter().any(contains_ph);
    let mut o = Outcome::ok(prog.iter().any(nontrivial));
    for v in &prog {
        o.count(v["k"].as_str().unwrap_or("?"));
    }
    // the abstraction function must be the inverse of from_abs on the alphabet (else the case is not what TLC meant)
    for (v, i) in prog.iter().zip(&instrs) {
        let back = c02::strip_q(&c02::to_abs(i));
        if back != c02::strip_q(v) && !has_ph {
            o.diverge(format!("to_abs(from_abs(v)) # v: {back} vs {v}"));
        }
    }
    let verdict = check_value(&mut o, &instrs, has_ph, "model case");
    if case.get("history").is_some() {
        return o;
    }
    // model vs code (informational)
    if case["has_ph"].as_bool() != Some(has_ph) {
        o.diverge("model and harness disagree on the presence of a placeholder".to_string());
    }
    if !has_ph {
        if let (Some(t), Some(want)) = (&verdict.text, case["t1"].as_str()) {
            if t != want {
                o.diverge(format!("printed text {t:?} differs from the model's {want:?}"));
            }
        }
        if case["ambiguous"].as_bool().unwrap_or(false) {
            o.diverge("the model finds the printed DELAY ambiguous".to_string());
        }
    }
    o
}

// ------------------------------------------------------------------------------------------- drive

/// magnitudes the trace specification knows (spec/trace/QuilPrintTrace.tla TraceMags)
const MAGS: &[f64] = &[0.0, 1.0, 2.0, 3.0, 0.5, 1.5, 10.0, 0.25];
const NAMES: &[&str] = &["ro", "Theta", "a-b", "_x1", "m2"];

fn pick(r: &mut impl Rng, xs: &[&'static str]) -> &'static str {
    xs[r.gen_range(0..xs.len())]
}
/// the first n of the given names, n random (0 ..= all): formal parameter lists of every length
fn some_of(r: &mut impl Rng, xs: &[&str]) -> Value {
    let n = r.gen_range(0..=xs.len());
    json!(xs[..n].to_vec())
}
fn pick_perm(r: &mut impl Rng) -> Value {
    match r.gen_range(0..3) {
        0 => json!([0, 1]),
        1 => json!([1, 0]),
        _ => json!([0, 2, 1, 3]),
    }
}

fn r_num(r: &mut impl Rng, api: bool) -> Value {
    let m = |r: &mut dyn rand::RngCore| *MAGS.choose(r).unwrap();
    let (re, im) = match r.gen_range(0..10) {
        0..=5 => (m(r), 0.0),
        6..=7 => (0.0, m(r)),
        _ if api => (m(r), m(r)),
        _ => (m(r), 0.0),
    };
    let s = |r: &mut dyn rand::RngCore, x: f64| if api && r.gen_bool(0.3) { -x } else { x };
    c02::num_abs(&num_complex::Complex64::new(s(r, re), s(r, im)))
}

pub fn r_expr(r: &mut impl Rng, depth: u32, api: bool) -> Value {
    if depth == 0 || r.gen_bool(0.3) {
        return match r.gen_range(0..10) {
            0..=4 => r_num(r, api),
            5 => json!({"t": "pi"}),
            6..=7 => json!({"t": "var", "v": pick(r, NAMES)}),
            _ => json!({"t": "addr", "m": {"name": pick(r, NAMES), "index": r.gen_range(0..3)}}),
        };
    }
    match r.gen_range(0..10) {
        0..=5 => json!({"t": "inf", "op": pick(r, &["+", "-", "*", "/", "^"]),
                        "l": r_expr(r, depth - 1, api), "r": r_expr(r, depth - 1, api)}),
        6..=7 => json!({"t": "neg", "e": r_expr(r, depth - 1, api)}),
        8 if api => json!({"t": "pos", "e": r_expr(r, depth - 1, api)}),
        _ => json!({"t": "fn", "f": pick(r, &["cis", "cos", "exp", "sin", "sqrt"]), "e": r_expr(r, depth - 1, api)}),
    }
}

fn r_qubit(r: &mut impl Rng, ph: bool) -> Value {
    match r.gen_range(0..10) {
        0..=5 => json!({"t": "fixed", "n": r.gen_range(0..5)}),
        6..=8 => json!({"t": "var", "s": pick(r, &["q", "r", "Q1"])}),
        _ if ph => json!({"t": "ph", "id": r.gen_range(1..3)}),
        _ => json!({"t": "fixed", "n": 7}),
    }
}
fn r_qubits(r: &mut impl Rng, min: usize, ph: bool) -> Value {
    let n = r.gen_range(min..=min + 2);
    Value::Array((0..n).map(|_| r_qubit(r, ph)).collect())
}
fn r_string(r: &mut impl Rng) -> Value {
    let n = r.gen_range(0..6);
    c02::chars(&(0..n).map(|_| *['a', 'b', ' ', '"', '\\', '#', 'x', '/'].choose(r).unwrap()).collect::<String>())
}
fn r_frame(r: &mut impl Rng, ph: bool) -> Value {
    json!({"name": r_string(r), "qubits": r_qubits(r, 1, ph)})
}
fn r_mref(r: &mut impl Rng) -> Value {
    json!({"name": pick(r, NAMES), "index": r.gen_range(0..4)})
}
fn r_wf(r: &mut impl Rng, d: u32, api: bool) -> Value {
    let keys = ["duration", "fwhm", "iq", "t0"];
    let n = r.gen_range(0..=3);
    let params: Vec<Value> = keys[..n].iter().map(|k| json!({"key": k, "val": r_expr(r, d, api)})).collect();
    let ext = if r.gen_bool(0.3) { json!({"some": "sub"}) } else { json!({"none": true}) };
    json!({"base": pick(r, &["flat", "gaussian", "wf_1"]), "ext": ext, "params": params})
}
fn r_operand(r: &mut impl Rng, real: bool) -> Value {
    match r.gen_range(0..3) {
        0 => json!({"t": "int", "neg": r.gen_bool(0.4), "lex": r.gen_range(0..1000u32).to_string()}),
        1 if real => json!({"t": "real", "neg": r.gen_bool(0.4), "lex": pick(r, &["2.0", "0.5", "1e20", "1e-7", "3.25", "100.0"])}),
        _ => json!({"t": "mref", "m": r_mref(r)}),
    }
}
fn r_gate(r: &mut impl Rng, d: u32, api: bool, ph: bool) -> Value {
    let np = r.gen_range(0..3);
    let mods: Vec<&str> = (0..r.gen_range(0..3)).map(|_| pick(r, &["CONTROLLED", "DAGGER", "FORKED"])).collect();
    json!({"k": "Gate", "name": pick(r, &["X", "RX", "my-gate", "Sin2"]),
           "params": (0..np).map(|_| r_expr(r, d, api)).collect::<Vec<_>>(), "qubits": r_qubits(r, 1, ph), "mods": mods})
}

/// a random instruction value of any kind (api: values only the constructors can build; ph: placeholders allowed)
pub fn r_instr(r: &mut impl Rng, d: u32, api: bool, ph: bool, nested: bool) -> Value {
    let none = json!({"none": true});
    let body = |r: &mut dyn rand::RngCore| -> Value {
        let n = r.gen_range(1..=3);
        Value::Array((0..n).map(|_| loop {
            let mut rr = &mut *r;
            let i = r_instr(&mut rr, d.min(2), api, ph, true);
            if !matches!(i["k"].as_str().unwrap(), "DefCal" | "DefCalMeasure" | "DefCircuit" | "DefGate" | "DefWaveform" | "DefFrame" | "Declare" | "Include" | "Label") {
                break i;
            }
        }).collect())
    };
    let top = if nested { 22 } else { 30 };
    match r.gen_range(0..top) {
        0 | 1 => r_gate(r, d, api, ph),
        2 => json!({"k": "Measure", "name": if r.gen_bool(0.3) { json!({"some": "fast"}) } else { none.clone() }, "qubit": r_qubit(r, ph),
                    "target": if r.gen_bool(0.6) { json!({"some": r_mref(r)}) } else { none.clone() }}),
        3 => json!({"k": "Reset", "qubit": if r.gen_bool(0.5) { json!({"some": r_qubit(r, ph)}) } else { none.clone() }}),
        4 | 5 => {
            let nf = r.gen_range(0..3);
            json!({"k": "Delay", "duration": r_expr(r, d, api), "frame_names": (0..nf).map(|_| r_string(r)).collect::<Vec<_>>(),
                   "qubits": r_qubits(r, if api { 0 } else { 1 }, ph)})
        }
        6 => json!({"k": "Fence", "qubits": r_qubits(r, 0, ph)}),
        7 => json!({"k": "Pulse", "blocking": r.gen_bool(0.5), "frame": r_frame(r, ph), "waveform": r_wf(r, d, api)}),
        8 => json!({"k": "Capture", "blocking": r.gen_bool(0.5), "frame": r_frame(r, ph), "waveform": r_wf(r, d, api), "mref": r_mref(r)}),
        9 => json!({"k": "RawCapture", "blocking": r.gen_bool(0.5), "frame": r_frame(r, ph), "duration": r_expr(r, d, api), "mref": r_mref(r)}),
        10 | 11 => json!({"k": "FrameExpr", "cmd": pick(r, &["SET-FREQUENCY", "SET-PHASE", "SET-SCALE", "SHIFT-FREQUENCY", "SHIFT-PHASE"]),
                          "frame": r_frame(r, ph), "e": r_expr(r, d, api)}),
        12 => json!({"k": "SwapPhases", "frame_1": r_frame(r, ph), "frame_2": r_frame(r, ph)}),
        13 => json!({"k": "Arith", "op": pick(r, &["ADD", "SUB", "MUL", "DIV"]), "dst": r_mref(r), "src": r_operand(r, true)}),
        14 => json!({"k": "Logic", "op": pick(r, &["AND", "IOR", "XOR", "SHL", "SHR", "ASHR"]), "dst": r_mref(r), "src": r_operand(r, false)}),
        15 => json!({"k": "Move", "dst": r_mref(r), "src": r_operand(r, true)}),
        16 => json!({"k": "Compare", "op": pick(r, &["EQ", "GE", "GT", "LE", "LT"]), "dst": r_mref(r), "lhs": r_mref(r), "rhs": r_operand(r, true)}),
        17 => match r.gen_range(0..5) {
            0 => json!({"k": "Unary", "op": pick(r, &["NEG", "NOT"]), "operand": r_mref(r)}),
            1 => json!({"k": "Convert", "dst": r_mref(r), "src": r_mref(r)}),
            2 => json!({"k": "Exchange", "left": r_mref(r), "right": r_mref(r)}),
            3 => json!({"k": "Load", "dst": r_mref(r), "source": pick(r, NAMES), "offset": r_mref(r)}),
            _ => json!({"k": "Store", "destination": pick(r, NAMES), "offset": r_mref(r), "src": r_operand(r, true)}),
        },
        18 => {
            let t = if ph && r.gen_bool(0.2) { json!({"t": "ph", "id": r.gen_range(1..3)}) } else { json!({"t": "fixed", "s": pick(r, &["end", "loop-1", "L_2"])}) };
            match r.gen_range(0..3) {
                0 => json!({"k": "Jump", "target": t}),
                1 => json!({"k": "JumpWhen", "target": t, "cond": r_mref(r)}),
                _ => json!({"k": "JumpUnless", "target": t, "cond": r_mref(r)}),
            }
        }
        19 => json!({"k": pick(r, &["Halt", "Nop", "Wait"])}),
        20 => {
            let na = r.gen_range(0..3);
            json!({"k": "Pragma", "name": pick(r, &["foo", "LOAD-MEMORY", "x_1"]),
                   "args": (0..na).map(|_| if r.gen_bool(0.5) { json!({"t": "id", "s": pick(r, NAMES)}) } else { json!({"t": "int", "lex": r.gen_range(0..99u32).to_string()}) }).collect::<Vec<_>>(),
                   "data": if r.gen_bool(0.5) { json!({"some": r_string(r)}) } else { none.clone() }})
        }
        21 => {
            let na = r.gen_range(0..4);
            json!({"k": "Call", "name": pick(r, &["f", "ext_fn"]),
                   "args": (0..na).map(|_| match r.gen_range(0..3) {
                       0 => json!({"t": "id", "s": pick(r, NAMES)}),
                       1 => json!({"t": "mref", "m": r_mref(r)}),
                       _ => {
                           let signed = api && r.gen_bool(0.3);
                           json!({"t": "imm", "v": r_num(r, signed)})
                       }
                   }).collect::<Vec<_>>()})
        }
        22 => json!({"k": "Label", "target": {"t": "fixed", "s": pick(r, &["end", "loop-1"])}}),
        23 => json!({"k": "Include", "filename": r_string(r)}),
        24 => {
            let sharing = if r.gen_bool(0.5) {
                let no = r.gen_range(0..3);
                json!({"some": {"name": pick(r, NAMES), "offsets": (0..no).map(|_| json!({"offset": r.gen_range(0..9), "ty": pick(r, &["BIT", "REAL", "INTEGER", "OCTET"])})).collect::<Vec<_>>()}})
            } else {
                none.clone()
            };
            json!({"k": "Declare", "name": pick(r, NAMES), "size": {"ty": pick(r, &["BIT", "REAL", "INTEGER", "OCTET"]), "len": r.gen_range(1..9)}, "sharing": sharing})
        }
        25 => {
            let g = r_gate(r, d, api, ph);
            json!({"k": "DefCal", "name": g["name"], "params": g["params"], "qubits": g["qubits"], "mods": g["mods"], "body": body(r)})
        }
        26 => json!({"k": "DefCalMeasure", "name": if r.gen_bool(0.3) { json!({"some": "fast"}) } else { none.clone() }, "qubit": r_qubit(r, ph),
                     "target": if r.gen_bool(0.5) { json!({"some": "addr"}) } else { none.clone() }, "body": body(r)}),
        27 => {
            json!({"k": "DefCircuit", "name": pick(r, &["BELL", "c-1"]), "params": (some_of(r, &["a", "b", "c"])),
                   "qubit_variables": (some_of(r, &["q", "r", "s"])), "body": body(r)})
        }
        28 => {
            let na = r.gen_range(1..=3);
            let attrs: Vec<Value> = ["DIRECTION", "INITIAL-FREQUENCY", "HARDWARE-OBJECT"][..na].iter().map(|k| json!({"key": k, "val":
                if r.gen_bool(0.5) { json!({"t": "str", "s": r_string(r)}) } else { json!({"t": "expr", "e": r_expr(r, d, api)}) }})).collect();
            json!({"k": "DefFrame", "id": r_frame(r, ph), "attrs": attrs})
        }
        _ => match r.gen_range(0..4) {
            0 => {
                let n = r.gen_range(1..=3);
                json!({"k": "DefWaveform", "base": "wf", "ext": if r.gen_bool(0.3) { json!({"some": "sub"}) } else { none.clone() },
                       "params": (some_of(r, &["t", "u", "v"])), "matrix": (0..n).map(|_| r_expr(r, d, api)).collect::<Vec<_>>()})
            }
            1 => {
                let n = r.gen_range(1..=2usize);
                let rows: Vec<Value> = (0..n).map(|_| Value::Array((0..n).map(|_| r_expr(r, d, api)).collect())).collect();
                json!({"k": "DefGate", "name": "G", "params": (some_of(r, &["a", "b", "c"])), "spec": {"t": "matrix", "rows": rows}})
            }
            2 => json!({"k": "DefGate", "name": "U", "params": (some_of(r, &["a", "b"])), "spec": {"t": "pauli", "args": ["p", "q"],
                        "terms": [{"word": pick(r, &["XY", "ZZ", "IX"]), "e": r_expr(r, d, api), "args": ["p", "q"]},
                                  {"word": "Y", "e": r_expr(r, d, api), "args": ["q"]}]}}),
            _ => json!({"k": "DefGate", "name": "P", "params": [], "spec": {"t": "perm", "p": pick_perm(r)}}),
        },
    }
}

/// the two known-finding families, decided on the value (same predicates as the trace specification)
pub fn drive(ctx: &Ctx) -> Summary {
    let n = ctx.arg_u64("n", 200);
    let depth = ctx.arg_u64("depth", 4) as u32;
    let path = ctx.arg_str("out").expect("--out");
    let mut out = std::io::BufWriter::new(std::fs::File::create(path).expect("create trace"));
    let mut rng = util::rng(ctx.seed, 4);
    let mut sum = Summary::default();
    for h in 0..n {
        let with_ph = h % 3 == 2;
        let v = r_instr(&mut rng, depth, true, with_ph, false);
        let has_ph = contains_ph(&v);
        let mut ph = PhCtx::default();
        let instr = c02::from_abs_with(&v, &mut ph);
        let mut o = Outcome::ok(nontrivial(&v));
        o.count(v["k"].as_str().unwrap());
        util::emit(&mut out, &json!({"ev": "reset", "fam": "value", "v": v}));
        let verdict = check_value(&mut o, std::slice::from_ref(&instr), has_ph, "random value");
        let one = instr.to_quil_or_debug();
        util::emit(&mut out, &json!({"ev": "vprinted", "ok": !verdict.fails,
                                     "text": if verdict.fails { json!("") } else { json!(instr.to_quil().unwrap_or_default()) },
                                     "debug_len": one.len()}));
        util::emit(&mut out, &json!({"ev": "vdone", "fails": verdict.fails, "parsed": verdict.parsed, "equivalent": verdict.equivalent}));
        o.count_n("events", 3);
        sum.absorb(&json!({"v": v}), &o, true);
    }
    sum
}
