//! C35 — dead-code removal keeps execution and removes exactly unused definitions (spec/Simplify.tla).
//!
//! replay: TLC cases {frames, wfs, exts, cals, body, out, scheds} from spec/mc/MC_Simplify.tla are realised as
//!         real programs; `Program::simplify(&DefaultHandler)` is compared with the model's result and, block by
//!         block, the schedules of the simplified and of the calibration-expanded program are compared.
//!         A mismatch with the model is a VIOLATION only if the property itself, evaluated here on the real
//!         results (`property_failures`), is false.
//! drive:  seeded random programs (random frame / waveform / extern tables, nested random calibrations, bodies
//!         with labels, calls, plain gates); events reset / out / sched / check for spec/trace/SimplifyTrace.tla.

use super::c25::{self, abs_instr, as_int, frame_abs, observe_block, quilt_summ, BlockObs};
use crate::runner::{Outcome, Summary, Violation};
use crate::util::{self, arr, s};
use crate::Ctx;
use quil_rs::instruction::{AttributeValue, DefaultHandler, Instruction, PragmaArgument};
use quil_rs::program::analysis::ControlFlowGraph;
use quil_rs::quil::Quil;
use quil_rs::Program;
use rand::seq::SliceRandom;
use rand::Rng;
use serde_json::{json, Value};
use std::collections::BTreeSet;

pub const HEADER: &str = "DECLARE i INTEGER[2]\nDEFGATE FOO:\n\t1, 0\n\t0, 1\nDEFCIRCUIT BELL:\n\tH 0\n\tCNOT 0 1\n";

fn extern_text(name: &str) -> String {
    format!("PRAGMA EXTERN {name} \"(x : mut INTEGER)\"\n")
}

pub fn build(frames: &[Value], wfs: &[Value], exts: &[Value], cals: &[Value], body: &[String]) -> Program {
    let mut header = String::from(HEADER);
    for e in exts {
        header.push_str(&extern_text(e.as_str().unwrap()));
    }
    c25::build_program(frames, wfs, cals, &header, body)
}

fn extern_names(p: &Program) -> Vec<String> {
    p.extern_pragma_map
        .to_instructions()
        .iter()
        .map(|i| match i {
            Instruction::Pragma(pr) => match pr.arguments.first() {
                Some(PragmaArgument::Identifier(n)) => n.clone(),
                _ => "<unnamed>".to_string(),
            },
            other => other.to_quil_or_debug(),
        })
        .collect()
}

fn frame_table(p: &Program) -> Vec<Value> {
    p.frames
        .iter()
        .map(|(id, attrs)| {
            let mut f = frame_abs(id);
            let rate = match attrs.get("SAMPLE-RATE") {
                Some(AttributeValue::Expression(e)) => e.to_real().ok().and_then(as_int).unwrap_or(0),
                _ => 0,
            };
            f["rate"] = json!(rate);
            f
        })
        .collect()
}

fn wf_table(p: &Program) -> Vec<Value> {
    p.waveforms.iter().map(|(n, w)| json!({"name": n, "len": w.matrix.len()})).collect()
}

fn body_texts(p: &Program) -> Vec<String> {
    p.body_instructions().map(|i| i.to_quil_or_debug()).collect()
}

/// block schedule as comparable JSON: {"some": {"items": [{index,start,dur}] sorted, "total"}} | {"none": true}
fn sched_value(r: &Result<(Vec<(usize, f64, f64)>, f64), String>) -> Value {
    match r {
        Ok((items, total)) => {
            let mut v: Vec<(usize, f64, f64)> = items.clone();
            v.sort_by(|a, b| a.partial_cmp(b).unwrap());
            let num = |x: f64| as_int(x).map(|n| json!(n)).unwrap_or(json!(format!("{x}")));
            json!({"some": {"items": v.iter().map(|(i, a, d)| json!({"index": i + 1, "start": num(*a), "dur": num(*d)})).collect::<Vec<_>>(),
                            "total": num(*total)}})
        }
        Err(_) => json!({"none": true}),
    }
}

pub struct Obs {
    pub simplified: Program,
    pub expanded: Program,
    /// per block: observation of the expanded program and of the simplified program
    pub blocks: Vec<(Option<BlockObs>, Option<BlockObs>)>,
}

pub fn observe(program: &Program) -> Result<Obs, String> {
    let expanded = program.expand_calibrations().map_err(|e| format!("expand_calibrations: {e}"))?;
    let simplified = program.simplify(&DefaultHandler).map_err(|e| format!("simplify: {e}"))?;
    let ft_e = frame_table(&expanded);
    let ft_s = frame_table(&simplified);
    let n = ControlFlowGraph::from(&expanded).into_blocks().len().max(ControlFlowGraph::from(&simplified).into_blocks().len());
    let blocks = (0..n).map(|k| (observe_block(&expanded, &ft_e, k), observe_block(&simplified, &ft_s, k))).collect();
    Ok(Obs { simplified, expanded, blocks })
}

/// The property C35 evaluated directly on the real results.
pub fn property_failures(program: &Program, obs: &Obs) -> Vec<(String, String)> {
    let mut fails = vec![];
    let q = &obs.simplified;
    let e = &obs.expanded;
    if body_texts(q) != body_texts(e) {
        fails.push(("body".into(), format!("body {:?} is not the calibration-expanded body {:?}", body_texts(q), body_texts(e))));
    }
    if !q.calibrations.is_empty() {
        fails.push(("calibrations".into(), format!("{} calibrations left", q.calibrations.len())));
    }
    // frames used by the expanded body, by the Quil-T rules of the specification (not by the handler under test)
    let ft = frame_table(program);
    let wfs = wf_table(program);
    let mut used: BTreeSet<u64> = BTreeSet::new();
    let mut invoked: BTreeSet<String> = BTreeSet::new();
    let mut called: BTreeSet<String> = BTreeSet::new();
    for i in e.body_instructions() {
        let a = abs_instr(i);
        used.extend(quilt_summ(&a, &ft, &wfs).used);
        if let Some(w) = a.get("wf") {
            invoked.insert(s(w, "name"));
        }
        if let Instruction::Call(c) = i {
            called.insert(c.name.clone());
        }
    }
    let want_frames: BTreeSet<String> = used.iter().map(|n| { let f = &ft[*n as usize - 1]; json!([f["name"], f["qubits"]]).to_string() }).collect();
    let got_frames: Vec<String> = q.frames.iter().map(|(id, _)| { let f = frame_abs(id); json!([f["name"], f["qubits"]]).to_string() }).collect();
    if got_frames.iter().cloned().collect::<BTreeSet<_>>() != want_frames || got_frames.len() != want_frames.len() {
        fails.push(("frames".into(), format!("frames kept {got_frames:?}, frames used by the expanded body {want_frames:?}")));
    }
    for (id, attrs) in q.frames.iter() {
        if program.frames.get(id) != Some(attrs) {
            fails.push(("frames".into(), format!("frame {} changed its attributes", frame_abs(id))));
        }
    }
    let want_wfs: BTreeSet<String> = program.waveforms.keys().filter(|k| invoked.contains(*k)).cloned().collect();
    let got_wfs: BTreeSet<String> = q.waveforms.keys().cloned().collect();
    if got_wfs != want_wfs || q.waveforms.iter().any(|(k, v)| program.waveforms.get(k) != Some(v)) {
        fails.push(("waveforms".into(), format!("waveforms kept {got_wfs:?}, invoked by the expanded body {want_wfs:?}")));
    }
    let want_ext: BTreeSet<String> = extern_names(program).into_iter().filter(|n| called.contains(n)).collect();
    let got_ext: Vec<String> = extern_names(q);
    if got_ext.iter().cloned().collect::<BTreeSet<_>>() != want_ext || got_ext.len() != want_ext.len() {
        fails.push(("externs".into(), format!("extern pragmas kept {got_ext:?}, called by the expanded body {want_ext:?}")));
    }
    if q.memory_regions != program.memory_regions {
        fails.push(("declarations".into(), "memory regions changed".into()));
    }
    if q.gate_definitions != program.gate_definitions {
        fails.push(("gate_definitions".into(), "gate definitions changed".into()));
    }
    if q.circuits != program.circuits {
        fails.push(("circuits".into(), "circuits changed".into()));
    }
    for (k, (a, b)) in obs.blocks.iter().enumerate() {
        match (a, b) {
            (Some(a), Some(b)) => {
                for (what, x, y) in [("ScheduledBasicBlock", &a.flat_sched, &b.flat_sched), ("BasicBlock", &a.src_sched, &b.src_sched)] {
                    if sched_value(x) != sched_value(y) {
                        fails.push(("schedules".into(), format!("block {k} ({what}::as_schedule_seconds): expanded program {}, simplified program {}",
                            sched_value(x), sched_value(y))));
                    }
                }
            }
            (None, None) => {}
            _ => fails.push(("schedules".into(), format!("block {k} exists in only one of the two programs"))),
        }
    }
    fails
}

fn nontrivial(program: &Program, obs: &Obs) -> bool {
    let q = &obs.simplified;
    q.frames.len() < program.frames.len()
        || q.waveforms.len() < program.waveforms.len()
        || extern_names(q).len() < extern_names(program).len()
        || body_texts(&obs.expanded) != body_texts(program)
}

fn strs(v: &Value, k: &str) -> Vec<String> {
    arr(v, k).iter().map(|x| x.as_str().unwrap().to_string()).collect()
}

pub fn replay(_ctx: &Ctx, case: &Value) -> Outcome {
    if let Some(h) = case.get("history") {
        let p = &h[0]["prog"];
        let program = program_of_abs(p);
        return judge(&program, None);
    }
    let body = strs(case, "body");
    let program = build(arr(case, "frames"), arr(case, "wfs"), arr(case, "exts"), arr(case, "cals"), &body);
    judge(&program, Some(case))
}

fn judge(program: &Program, case: Option<&Value>) -> Outcome {
    let obs = match observe(program) {
        Ok(o) => o,
        Err(e) => {
            // the generators exclude recursive calibrations, so the expansion cannot fail
            let mut o = Outcome::ok(true);
            if e.starts_with("simplify") {
                o.violate(Violation::new("simplify_result", json!("Ok"), json!(e)));
            } else {
                o.diverge(format!("expand_calibrations failed: {e}"));
            }
            return o;
        }
    };
    let mut o = Outcome::ok(nontrivial(program, &obs));
    let fails = property_failures(program, &obs);
    let got = json!({
        "frames": obs.simplified.frames.iter().map(|(id, _)| frame_abs(id)).collect::<Vec<_>>(),
        "wfs": obs.simplified.waveforms.keys().collect::<Vec<_>>(),
        "exts": extern_names(&obs.simplified),
        "body": body_texts(&obs.simplified),
        "ncals": obs.simplified.calibrations.len(),
        "scheds": obs.blocks.iter().map(|(_, b)| b.as_ref().map(|b| sched_value(&b.flat_sched)).unwrap_or(Value::Null)).collect::<Vec<_>>(),
    });
    if !fails.is_empty() {
        let note = fails.iter().map(|f| f.1.clone()).collect::<Vec<_>>().join("; ");
        o.violate(Violation::new(&fails[0].0, case.map(|c| json!({"out": c["out"], "scheds": c["scheds"]})).unwrap_or(Value::Null), got).note(note));
        return o;
    }
    if let Some(case) = case {
        // compare with the model (informational beyond the property)
        let w = &case["out"];
        let canon = |v: &Vec<String>| v.iter().map(|t| util::instr(t).to_quil_or_debug()).collect::<Vec<_>>();
        let mut diffs = vec![];
        if got["frames"] != w["frames"] {
            diffs.push("frames (order or content)");
        }
        if got["wfs"] != w["wfs"] {
            diffs.push("waveforms");
        }
        if got["exts"] != w["exts"] {
            diffs.push("externs");
        }
        if body_texts(&obs.simplified) != canon(&strs(w, "body")) {
            diffs.push("body");
        }
        let mut ws = case["scheds"].clone();
        // the model's item sets arrive in TLC's set order: sort like sched_value does
        if let Some(a) = ws.as_array_mut() {
            for x in a {
                if let Some(items) = x.get_mut("some").and_then(|y| y.get_mut("items")).and_then(|y| y.as_array_mut()) {
                    items.sort_by_key(|it| it["index"].as_u64());
                }
            }
        }
        if got["scheds"] != ws {
            diffs.push("block schedules");
        }
        if !diffs.is_empty() {
            o.diverge(format!("result satisfies the property but differs from the model in {diffs:?}: {got} vs {}", json!({"out": w, "scheds": ws})));
        }
    }
    o
}

// ------------------------------------------------------------------------------------------- drive

fn program_abs(p: &Program) -> Value {
    let mut cals = vec![];
    for c in p.calibrations.iter_calibrations() {
        let mut head = c.identifier.name.clone();
        for q in &c.identifier.qubits {
            head.push(' ');
            head.push_str(&q.to_quil_or_debug());
        }
        cals.push(json!({"head": head, "body": c.instructions.iter().map(abs_instr).collect::<Vec<_>>()}));
    }
    json!({
        "ft": frame_table(p), "wfs": wf_table(p), "exts": extern_names(p), "cals": cals,
        "other": {"decls": p.memory_regions.keys().collect::<Vec<_>>(), "gates": p.gate_definitions.keys().collect::<Vec<_>>(),
                  "circuits": p.circuits.keys().collect::<Vec<_>>()},
        "body": p.body_instructions().map(abs_instr).collect::<Vec<_>>(),
    })
}

/// rebuild a real program from a recorded abstract program (replay of a rejected history)
fn program_of_abs(p: &Value) -> Program {
    let texts = |v: &Value| v.as_array().unwrap().iter().map(|i| s(i, "text")).collect::<Vec<String>>();
    let cals: Vec<Value> = arr(p, "cals").iter().map(|c| json!({"head": c["head"], "body": texts(&c["body"])})).collect();
    build(arr(p, "ft"), arr(p, "wfs"), arr(p, "exts"), &cals, &texts(&p["body"]))
}

pub fn drive(ctx: &Ctx) -> Summary {
    let n = ctx.arg_u64("n", 100);
    let max_len = ctx.arg_u64("len", 10) as usize;
    let path = ctx.arg_str("out").expect("--out");
    let mut out = std::io::BufWriter::new(std::fs::File::create(path).expect("create trace"));
    let mut rng = util::rng(ctx.seed, 35);
    let tables = c25::frame_tables();
    let mut sum = Summary::default();
    for h in 0..n {
        let full = &tables[(h % tables.len() as u64) as usize];
        let frames: Vec<Value> = full.iter().filter(|_| rng.gen_bool(0.8)).cloned().collect();
        let wfs: Vec<Value> = [("w1", 4), ("w2", 8), ("w3", 4)].iter().filter(|_| rng.gen_bool(0.6)).map(|(n, l)| json!({"name": n, "len": l})).collect();
        let mut wf_names: Vec<String> = wfs.iter().map(|w| s(w, "name")).collect();
        if rng.gen_bool(0.2) {
            wf_names.push("w9".to_string()); // invoked but never defined
        }
        let exts: Vec<Value> = ["foo", "bar", "baz"].iter().filter(|_| rng.gen_bool(0.6)).map(|e| json!(e)).collect();
        let call = |r: &mut rand_chacha::ChaCha8Rng| -> Option<String> {
            exts.choose(r).map(|e| format!("CALL {} i[{}]", e.as_str().unwrap(), r.gen_range(0..2)))
        };
        // calibrations: bodies of timed instructions, calls and earlier calibrations
        let ncals = rng.gen_range(0..=4);
        let mut cals: Vec<Value> = vec![];
        for k in 0..ncals {
            let len = rng.gen_range(0..=3);
            let mut body = vec![];
            for _ in 0..len {
                match rng.gen_range(0..10) {
                    0 | 1 if k > 0 => body.push(s(&cals[rng.gen_range(0..k)], "head")),
                    2 => body.push(call(&mut rng).unwrap_or_else(|| "FENCE".to_string())),
                    _ => body.push(c25::random_timed(&mut rng, full, &wf_names)),
                }
            }
            cals.push(json!({"head": format!("G{k} {}", k % 3), "body": body}));
        }
        let len = if h < 2 { h as usize } else { rng.gen_range(1..=max_len) };
        let mut body = vec![];
        for _ in 0..len {
            match rng.gen_range(0..20) {
                0..=5 if !cals.is_empty() => body.push(s(cals.choose(&mut rng).unwrap(), "head")),
                6 => body.push(call(&mut rng).unwrap_or_else(|| "MOVE i[0] 1".to_string())),
                7 | 8 => body.push(format!("LABEL @l{}", body.len())),
                9 => body.push(["H 2", "MOVE i[1] 2", "NOP", "RESET 0"].choose(&mut rng).unwrap().to_string()),
                _ => body.push(c25::random_timed(&mut rng, full, &wf_names)),
            }
        }
        let program = build(&frames, &wfs, &exts, &cals, &body);
        let case = json!({"frames": frames, "wfs": wfs, "exts": exts, "cals": cals, "body": body});
        let o = judge(&program, None);
        util::emit(&mut out, &json!({"ev": "reset", "prog": program_abs(&program)}));
        let mut events = 1;
        if let Ok(obs) = observe(&program) {
            util::emit(&mut out, &json!({"ev": "out", "q": program_abs(&obs.simplified), "ncals": obs.simplified.calibrations.len()}));
            for (k, (a, b)) in obs.blocks.iter().enumerate() {
                let v = |x: &Option<BlockObs>| x.as_ref().map(|b| sched_value(&b.flat_sched)).unwrap_or(json!({"none": true}));
                let w = |x: &Option<BlockObs>| x.as_ref().map(|b| sched_value(&b.src_sched)).unwrap_or(json!({"none": true}));
                util::emit(&mut out, &json!({"ev": "sched", "block": k + 1, "a": v(a), "b": v(b), "a2": w(a), "b2": w(b)}));
                events += 1;
            }
            util::emit(&mut out, &json!({"ev": "check"}));
            events += 2;
        }
        let mut o = o;
        o.count_n("events", events);
        sum.absorb(&case, &o, true);
    }
    sum
}
