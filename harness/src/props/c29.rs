//! C29 — gate depth equals the longest chain of qualifying gates.
//!
//! replay: TLC cases {body:[{k,qs}], failed, depth:[d1..dK]} from spec/mc/MC_GateDepth.tla are executed on
//!         `QubitGraph::try_from_basic_block` + `gate_depth(k)`.  The model enumerates bodies up to qubit
//!         symmetry (qubits first mentioned in the order 0,1,2,..) and lists gate operands ascending, so
//!         every case is replayed under three concrete spellings (identity; operands reversed + a fixed
//!         relabeling; operands rotated + a relabeling picked from the case) to undo the reduction.
//! drive:  seeded random bodies (longer, 6 qubits, gates of arity 1..4) recorded as
//!         reset{body,res} / depth{k,depth} events for spec/trace/GateDepthTrace.tla.
//!
//! The verdict predicate is the statement itself (longest chain by dynamic programming on the abstract
//! body, `chain_depth`), independent of the model's expected value: real != statement -> violation;
//! real == statement but != model -> divergence.

use crate::runner::{Outcome, Summary, Violation};
use crate::util::{self, arr, instr, s};
use crate::Ctx;
use quil_rs::instruction::DefaultHandler;
use quil_rs::program::analysis::{ControlFlowGraph, QubitGraph};
use quil_rs::Program;
use rand::Rng;
use serde_json::{json, Value};

pub const MAX_K: usize = 4;

#[derive(Clone, Debug)]
pub struct AbsInstr {
    pub k: String,
    pub qs: Vec<u64>,
}

fn parse_body(v: &[Value]) -> Vec<AbsInstr> {
    v.iter()
        .map(|i| AbsInstr {
            k: s(i, "k"),
            qs: arr(i, "qs").iter().map(|q| q.as_u64().expect("qubit number")).collect(),
        })
        .collect()
}

fn body_json(b: &[AbsInstr]) -> Value {
    Value::Array(b.iter().map(|i| json!({"k": i.k, "qs": i.qs})).collect())
}

/// Quil text of an abstract instruction; `pos` only varies the spelling (the builder looks at the class
/// and the qubits alone).
fn text_of(i: &AbsInstr, pos: usize) -> String {
    let qs = i.qs.iter().map(|q| q.to_string()).collect::<Vec<_>>().join(" ");
    match i.k.as_str() {
        "Gate" => {
            let n = i.qs.len();
            let name = match (n, pos % 3) {
                (1, 0) => "X".to_string(),
                (1, 1) => "RZ(pi/2)".to_string(),
                (1, _) => "DAGGER H".to_string(),
                (2, 0) => "CNOT".to_string(),
                (2, 1) => "CPHASE(pi)".to_string(),
                (3, 0) => "CCNOT".to_string(),
                (3, 1) => "CSWAP".to_string(),
                _ => format!("{}X", "CONTROLLED ".repeat(n - 1)),
            };
            format!("{name} {qs}")
        }
        "Measure" => {
            if pos % 2 == 0 {
                format!("MEASURE {qs} ro[0]")
            } else {
                format!("MEASURE {qs}")
            }
        }
        "Classical" => ["MOVE r[0] 1", "NOP", "WAIT", "ADD r[0] 1", "NOT b[0]", "EXCHANGE r[0] r[1]"][pos % 6].to_string(),
        "Unsupported" => {
            if i.qs.is_empty() {
                ["PRAGMA foo", "RESET", "SHIFT-PHASE 0 \"rf\" 1.0", "PULSE 0 \"rf\" flat(duration: 1.0, iq: 1.0)"][pos % 4]
                    .to_string()
            } else {
                match pos % 3 {
                    0 => format!("FENCE {qs}"),
                    1 => format!("RESET {}", i.qs[0]),
                    _ => format!("DELAY {qs} 1.0"),
                }
            }
        }
        other => panic!("unknown instruction class {other}"),
    }
}

/// The statement: the largest number of gates on >= k qubits along any chain in which consecutive
/// instructions share a qubit, in program order, with no instruction on that qubit between them.
pub fn chain_depth(body: &[AbsInstr], k: usize) -> usize {
    let n = body.len();
    let mut t = vec![0usize; n];
    for j in 0..n {
        let mut best = 0;
        for i in 0..j {
            let adjacent = body[i].qs.iter().any(|q| {
                body[j].qs.contains(q) && body[i + 1..j].iter().all(|m| !m.qs.contains(q))
            });
            if adjacent {
                best = best.max(t[i]);
            }
        }
        let w = (body[j].k == "Gate" && body[j].qs.len() >= k) as usize;
        t[j] = best + w;
    }
    t.into_iter().max().unwrap_or(0)
}

/// number of source-to-sink paths of the multigraph the builder creates (path_fold visits every one)
fn path_count(body: &[AbsInstr]) -> u64 {
    let n = body.len();
    let mut succ: Vec<Vec<usize>> = vec![vec![]; n];
    let mut has_pred = vec![false; n];
    for j in 0..n {
        for q in &body[j].qs {
            if let Some(i) = (0..j).rev().find(|&i| body[i].qs.contains(q)) {
                succ[i].push(j);
                has_pred[j] = true;
            }
        }
    }
    let mut cnt = vec![0u64; n];
    for i in (0..n).rev() {
        cnt[i] = if succ[i].is_empty() { 1 } else { succ[i].iter().map(|&j| cnt[j]).fold(0u64, |a, b| a.saturating_add(b)) };
    }
    (0..n).filter(|&i| !has_pred[i]).map(|i| cnt[i]).fold(0u64, |a, b| a.saturating_add(b))
}

/// Run the real code: Ok(depths for k = 1..=MAX_K) or Err(text) when the graph cannot be built.
/// `None` when the program has no basic block (empty body).
fn run_real(body: &[AbsInstr], salt: usize) -> Option<Result<Vec<usize>, String>> {
    let mut program = Program::new();
    for (pos, i) in body.iter().enumerate() {
        program.add_instruction(instr(&text_of(i, pos + salt)));
    }
    let graph = ControlFlowGraph::from(&program);
    let blocks = graph.into_blocks();
    if blocks.len() != 1 {
        if body.is_empty() {
            return None;
        }
        panic!("harness: body is not one basic block ({} blocks)", blocks.len());
    }
    if blocks[0].instructions().len() != body.len() {
        panic!("harness: block has {} instructions, body {}", blocks[0].instructions().len(), body.len());
    }
    Some(match QubitGraph::try_from_basic_block(&blocks[0], &DefaultHandler) {
        Ok(g) => Ok((1..=MAX_K).map(|k| g.gate_depth(k)).collect()),
        Err(e) => Err(e.to_string()),
    })
}

fn spelled(body: &[AbsInstr], variant: usize, salt: u64) -> Vec<AbsInstr> {
    const PERMS: [[u64; 6]; 4] = [[0, 1, 2, 3, 4, 5], [5, 2, 0, 3, 1, 4], [3, 0, 7, 1, 9, 2], [1, 12, 0, 2, 5, 3]];
    let perm = match variant {
        0 => PERMS[0],
        1 => PERMS[1],
        _ => PERMS[2 + (salt % 2) as usize],
    };
    body.iter()
        .map(|i| {
            let mut qs: Vec<u64> = i.qs.iter().map(|&q| perm[q as usize % 6] + 20 * (q / 6)).collect();
            match variant {
                0 => {}
                1 => qs.reverse(),
                _ => {
                    if !qs.is_empty() {
                        qs.rotate_left(1)
                    }
                }
            }
            AbsInstr { k: i.k.clone(), qs }
        })
        .collect()
}

fn shares_qubit(body: &[AbsInstr]) -> bool {
    (0..body.len()).any(|j| (0..j).any(|i| body[i].qs.iter().any(|q| body[j].qs.contains(q))))
}

/// compare one concrete body with the statement (and with the model's expectation, if given)
fn judge(o: &mut Outcome, body: &[AbsInstr], want: Option<(&[usize], bool)>, what: &str, salt: usize) {
    let supported = body.iter().all(|i| i.k != "Unsupported");
    let real = match run_real(body, salt) {
        None => {
            o.count("empty_body");
            return;
        }
        Some(r) => r,
    };
    o.sub_evaluations += 1;
    match real {
        Err(e) => {
            if supported {
                o.violate(
                    Violation::new("gate_depth", json!((1..=MAX_K).map(|k| chain_depth(body, k)).collect::<Vec<_>>()), json!({"err": e}))
                        .note(format!("{what}: no graph for a block of gates, measurements and classical instructions: {}", body_json(body))),
                );
            } else if let Some((_, false)) = want {
                o.diverge(format!("{what}: model builds a graph, code returns Err({e})"));
            }
        }
        Ok(depths) => {
            if !supported {
                // outside the statement's quantifier; the model says Err
                o.diverge(format!("{what}: model says unsupported, code built a graph for {}", body_json(body)));
                return;
            }
            let stated: Vec<usize> = (1..=MAX_K).map(|k| chain_depth(body, k)).collect();
            if depths != stated {
                let k = (0..MAX_K).find(|&k| depths[k] != stated[k]).unwrap() + 1;
                o.violate(
                    Violation::new(&format!("gate_depth({k})"), json!(stated), json!(depths))
                        .note(format!("{what}: body {}", body_json(body))),
                );
            } else if let Some((w, _)) = want {
                if w != depths.as_slice() {
                    o.diverge(format!("{what}: code and statement agree on {depths:?}, model expects {w:?}"));
                }
            }
        }
    }
}

pub fn replay(_ctx: &Ctx, case: &Value) -> Outcome {
    if let Some(h) = case.get("history") {
        // a history rejected by trace validation: judge its body against the statement
        let body = parse_body(h[0]["body"].as_array().expect("reset event with body"));
        let mut o = Outcome::ok(shares_qubit(&body));
        judge(&mut o, &body, None, "recorded body", 0);
        return o;
    }
    let body = parse_body(arr(case, "body"));
    let want: Vec<usize> = arr(case, "depth").iter().map(|d| d.as_u64().unwrap() as usize).collect();
    let failed = case["failed"].as_bool().expect("failed");
    let mut o = Outcome::ok(shares_qubit(&body));
    let salt = crate::runner::hash_line(&case.to_string());
    for variant in 0..3 {
        let b = spelled(&body, variant, salt);
        // the spelling also shifts the gate names, so that every position is once a plain gate, once a
        // parametric gate and once a gate with modifiers (DAGGER / CONTROLLED: modifiers are not qubits)
        judge(&mut o, &b, Some((&want, failed)), &format!("spelling {variant}"), variant);
    }
    o
}

// ------------------------------------------------------------------------------------------- drive

fn random_instr(r: &mut impl Rng, nq: u64) -> AbsInstr {
    let pick = |r: &mut dyn rand::RngCore, n: usize| -> Vec<u64> {
        let mut qs: Vec<u64> = vec![];
        while qs.len() < n {
            let q = r.gen_range(0..nq);
            if !qs.contains(&q) {
                qs.push(q);
            }
        }
        qs
    };
    match r.gen_range(0..100) {
        0..=34 => AbsInstr { k: "Gate".into(), qs: pick(r, 1) },
        35..=64 => AbsInstr { k: "Gate".into(), qs: pick(r, 2) },
        65..=74 => AbsInstr { k: "Gate".into(), qs: pick(r, 3) },
        75..=79 => AbsInstr { k: "Gate".into(), qs: pick(r, 4.min(nq as usize)) },
        80..=89 => AbsInstr { k: "Measure".into(), qs: pick(r, 1) },
        90..=97 => AbsInstr { k: "Classical".into(), qs: vec![] },
        98 => AbsInstr { k: "Unsupported".into(), qs: vec![] },
        _ => AbsInstr { k: "Unsupported".into(), qs: pick(r, 1) },
    }
}

pub fn drive(ctx: &Ctx) -> Summary {
    let n = ctx.arg_u64("n", 100);
    let max_len = ctx.arg_u64("len", 12) as usize;
    let nq = ctx.arg_u64("qubits", 6);
    let max_paths = ctx.arg_u64("max-paths", 20000);
    let path = ctx.arg_str("out").expect("--out");
    let mut out = std::io::BufWriter::new(std::fs::File::create(path).expect("create trace"));
    let mut rng = util::rng(ctx.seed, 29);
    let mut sum = Summary::default();
    let mut seen = std::collections::HashSet::new();
    for h in 0..n {
        let len = if h < 3 { 1 + h as usize } else { rng.gen_range(2..=max_len) };
        let mut body: Vec<AbsInstr> = vec![];
        for _ in 0..len {
            body.push(random_instr(&mut rng, nq));
            // path_fold enumerates every path: keep the real run bounded
            if path_count(&body) > max_paths {
                body.pop();
                break;
            }
        }
        let mut o = Outcome::ok(shares_qubit(&body));
        let real = run_real(&body, (h % 3) as usize).expect("non-empty body");
        util::emit(&mut out, &json!({"ev": "reset", "body": body_json(&body),
                                     "res": if real.is_ok() { "ok" } else { "err" }}));
        o.count("events");
        if let Ok(depths) = &real {
            for (k, d) in depths.iter().enumerate() {
                util::emit(&mut out, &json!({"ev": "depth", "k": k + 1, "depth": d}));
                o.count("events");
            }
        }
        let case = json!({"body": body_json(&body)});
        let distinct = seen.insert(case.to_string());
        sum.absorb(&case, &o, distinct);
    }
    sum
}
