//! C32 — built-in waveforms sample to the right length and respond linearly (module Waveform).
//!
//! replay (spec -> code): a case of spec/mc/MC_Waveform.tla is one state of the parameter-knowledge
//!   automaton {kind, rate, dur, padL, padR, own, scale, phase, detuning} with the expected projection
//!   res = {t, shape, len, zeros}.  The harness builds the `Partial<Concrete>` parameter set, calls
//!   `partial_iq_values_at_sample_rate` and compares the projection.  In fully known states it also
//!   calls `iq_values_at_sample_rate` on the concrete parameters (must give the same samples) and checks
//!   the response laws numerically against the run with scale 1 and phase 0 that the model pairs up.
//! drive (code -> spec): seeded histories with much longer durations / paddings and arbitrary real
//!   values: a partially known parameter set, then one `supply` per unknown parameter; every result is
//!   recorded (projection) and validated by TLC against spec/trace/WaveformTrace.tla.

use crate::runner::{Outcome, Summary, Violation};
use crate::util::{self, s, u};
use crate::Ctx;
use num_complex::Complex64;
use quil_rs::units::Cycles;
use quil_rs::waveform::builtin::{
    BoxcarKernel, BuiltinWaveform, BuiltinWaveformParameters, CommonBuiltinParameters, DragGaussian, ErfSquare, Flat,
    Gaussian, HermiteGaussian, IqSamplesOrPlaceholder, PartialBuiltinWaveformParameters, RaisedCosine,
};
use quil_rs::waveform::sampling::IqSamples;
use quil_rs::waveform::{Concrete, Partial};
use rand::seq::SliceRandom;
use rand::Rng;
use serde_json::{json, Map, Value};

const KINDS: &[(&str, &[&str])] = &[
    ("flat", &["iq"]),
    ("gaussian", &["fwhm", "t0"]),
    ("drag_gaussian", &["fwhm", "t0", "anh", "alpha"]),
    ("erf_square", &["risetime"]),
    ("hermite_gaussian", &["fwhm", "t0", "anh", "alpha", "second_order_hrm_coeff"]),
    ("raised_cosine", &["rolloff"]),
    ("boxcar_kernel", &[]),
];

fn own_params(kind: &str) -> &'static [&'static str] {
    KINDS.iter().find(|k| k.0 == kind).map(|k| k.1).unwrap_or_else(|| panic!("unknown kind {kind}"))
}
fn padded(kind: &str) -> bool {
    matches!(kind, "erf_square" | "raised_cosine")
}

#[derive(Clone, Debug, PartialEq)]
enum Know {
    Absent,
    Unknown,
    Known(f64, String), // value, label
}

impl Know {
    fn to_json(&self) -> Value {
        match self {
            Know::Absent => json!({"t": "absent", "v": ""}),
            Know::Unknown => json!({"t": "unknown", "v": ""}),
            Know::Known(_, l) => json!({"t": "known", "v": l}),
        }
    }
    fn partial(&self) -> Option<Option<f64>> {
        match self {
            Know::Absent => None,
            Know::Unknown => Some(None),
            Know::Known(v, _) => Some(Some(*v)),
        }
    }
    fn concrete(&self) -> Option<f64> {
        match self {
            Know::Known(v, _) => Some(*v),
            _ => None,
        }
    }
    fn is_zero(&self) -> bool {
        matches!(self, Know::Known(v, _) if *v == 0.0)
    }
}

/// One state of the automaton with concrete numbers attached.
#[derive(Clone, Debug)]
struct State {
    kind: String,
    rate_label: String,
    rate: f64,
    dur: (u64, u64), // samples: num / den
    pad_l: (u64, u64),
    pad_r: (u64, u64),
    own_known: Vec<(String, bool)>,
    scale: Know,
    phase: Know,
    detuning: Know,
}

fn rate_of(label: &str) -> f64 {
    label.parse::<f64>().unwrap_or_else(|_| panic!("rate label {label}"))
}
fn label_value(label: &str, rate: f64) -> f64 {
    match label {
        "nz" => 0.05 * rate, // a detuning of 1/20 cycle per sample
        l if l.contains('/') => {
            let (a, b) = l.split_once('/').unwrap();
            a.parse::<f64>().unwrap() / b.parse::<f64>().unwrap()
        }
        l => l.parse::<f64>().unwrap_or_else(|_| panic!("value label {l}")),
    }
}
fn q_of(v: &Value) -> (u64, u64) {
    (u(v, "num"), u(v, "den"))
}
fn q_json(q: (u64, u64)) -> Value {
    json!({"num": q.0, "den": q.1})
}
fn know_of(v: &Value, rate: f64) -> Know {
    match v["t"].as_str() {
        Some("absent") => Know::Absent,
        Some("unknown") => Know::Unknown,
        Some("known") => {
            let l = s(v, "v");
            Know::Known(label_value(&l, rate), l)
        }
        other => panic!("knowledge tag {other:?}"),
    }
}

/// seconds for num/den samples.  An aligned non-zero padding must not exceed its sample count after the
/// code's own f64 multiplication (j / rate * rate may be j + 1ulp when the rate is not a power of two):
/// the generators only use aligned paddings where the arithmetic is exact (see MC_Waveform!PadPairs).
fn seconds(q: (u64, u64), rate: f64) -> f64 {
    q.0 as f64 / q.1 as f64 / rate
}

impl State {
    fn from_case(c: &Value) -> State {
        let kind = s(c, "kind");
        let rate_label = s(c, "rate");
        let rate = rate_of(&rate_label);
        let own_known = own_params(&kind).iter().map(|p| (p.to_string(), c["own"][*p].as_str() == Some("known"))).collect();
        State {
            kind,
            rate,
            dur: q_of(&c["dur"]),
            pad_l: q_of(&c["padL"]),
            pad_r: q_of(&c["padR"]),
            own_known,
            scale: know_of(&c["scale"], rate),
            phase: know_of(&c["phase"], rate),
            detuning: know_of(&c["detuning"], rate),
            rate_label,
        }
    }
    fn to_json(&self) -> Value {
        let mut own = Map::new();
        for (p, k) in &self.own_known {
            own.insert(p.clone(), json!(if *k { "known" } else { "unknown" }));
        }
        json!({"kind": self.kind, "rate": self.rate_label, "dur": q_json(self.dur), "padL": q_json(self.pad_l),
               "padR": q_json(self.pad_r), "own": Value::Object(own), "scale": self.scale.to_json(),
               "phase": self.phase.to_json(), "detuning": self.detuning.to_json()})
    }
    fn known(&self, p: &str) -> bool {
        self.own_known.iter().any(|(n, k)| n == p && *k)
    }
    fn something_unknown(&self) -> bool {
        self.own_known.iter().any(|(_, k)| !*k) || [&self.scale, &self.phase, &self.detuning].iter().any(|k| **k == Know::Unknown)
    }
    fn aligned(&self) -> bool {
        self.dur.0 % self.dur.1 == 0
    }
    /// the length the statement demands (independent of harness and model: count + rounded-up paddings)
    fn expected_len(&self) -> usize {
        let ceil = |q: (u64, u64)| q.0.div_ceil(q.1) as usize;
        (self.dur.0 / self.dur.1) as usize + if padded(&self.kind) { ceil(self.pad_l) + ceil(self.pad_r) } else { 0 }
    }
    /// value of an own real parameter (fixed per kind, scaled to the sample period)
    fn own_value(&self, p: &str) -> f64 {
        let t = 1.0 / self.rate;
        match p {
            "fwhm" => 2.0 * t,
            "t0" => 1.5 * t,
            "anh" => -0.21 * self.rate,
            "alpha" => 0.7,
            "second_order_hrm_coeff" => 0.4,
            "risetime" => 1.0 * t,
            "rolloff" => 0.5,
            other => panic!("own parameter {other}"),
        }
    }
    fn opt(&self, p: &str) -> Option<f64> {
        self.known(p).then(|| self.own_value(p))
    }
    fn iq(&self) -> Complex64 {
        Complex64::new(0.6, -0.3)
    }
    fn partial_waveform(&self) -> BuiltinWaveform<Partial<Concrete>> {
        let (pl, pr) = (seconds(self.pad_l, self.rate), seconds(self.pad_r, self.rate));
        match self.kind.as_str() {
            "flat" => Flat::<Partial<Concrete>> { iq: self.known("iq").then(|| self.iq()) }.into(),
            "gaussian" => Gaussian::<Partial<Concrete>> { fwhm: self.opt("fwhm"), t0: self.opt("t0") }.into(),
            "drag_gaussian" => DragGaussian::<Partial<Concrete>> {
                fwhm: self.opt("fwhm"), t0: self.opt("t0"), anh: self.opt("anh"), alpha: self.opt("alpha") }.into(),
            "erf_square" => ErfSquare::<Partial<Concrete>> { risetime: self.opt("risetime"), pad_left: pl, pad_right: pr }.into(),
            "hermite_gaussian" => HermiteGaussian::<Partial<Concrete>> {
                fwhm: self.opt("fwhm"), t0: self.opt("t0"), anh: self.opt("anh"), alpha: self.opt("alpha"),
                second_order_hrm_coeff: self.opt("second_order_hrm_coeff") }.into(),
            "raised_cosine" => RaisedCosine::<Partial<Concrete>> { rolloff: self.opt("rolloff"), pad_left: pl, pad_right: pr }.into(),
            "boxcar_kernel" => BuiltinWaveform::BoxcarKernel(BoxcarKernel),
            other => panic!("unknown kind {other}"),
        }
    }
    fn concrete_waveform(&self) -> BuiltinWaveform<Concrete> {
        let (pl, pr) = (seconds(self.pad_l, self.rate), seconds(self.pad_r, self.rate));
        let v = |p: &str| self.own_value(p);
        match self.kind.as_str() {
            "flat" => Flat::<Concrete> { iq: self.iq() }.into(),
            "gaussian" => Gaussian::<Concrete> { fwhm: v("fwhm"), t0: v("t0") }.into(),
            "drag_gaussian" => DragGaussian::<Concrete> { fwhm: v("fwhm"), t0: v("t0"), anh: v("anh"), alpha: v("alpha") }.into(),
            "erf_square" => ErfSquare::<Concrete> { risetime: v("risetime"), pad_left: pl, pad_right: pr }.into(),
            "hermite_gaussian" => HermiteGaussian::<Concrete> {
                fwhm: v("fwhm"), t0: v("t0"), anh: v("anh"), alpha: v("alpha"), second_order_hrm_coeff: v("second_order_hrm_coeff") }.into(),
            "raised_cosine" => RaisedCosine::<Concrete> { rolloff: v("rolloff"), pad_left: pl, pad_right: pr }.into(),
            "boxcar_kernel" => BuiltinWaveform::BoxcarKernel(BoxcarKernel),
            other => panic!("unknown kind {other}"),
        }
    }
    fn partial_common(&self) -> CommonBuiltinParameters<Partial<Concrete>> {
        CommonBuiltinParameters {
            duration: seconds(self.dur, self.rate),
            scale: self.scale.partial(),
            phase: self.phase.partial().map(Cycles),
            detuning: self.detuning.partial(),
        }
    }
    fn concrete_common(&self, scale: Option<f64>, phase: Option<f64>) -> CommonBuiltinParameters<Concrete> {
        CommonBuiltinParameters { duration: seconds(self.dur, self.rate), scale, phase: phase.map(Cycles), detuning: self.detuning.concrete() }
    }
}

/// projection of a real result: {t, shape, len, zeros}
fn project(r: &Result<IqSamplesOrPlaceholder, quil_rs::waveform::sampling::SamplingError>) -> Value {
    use quil_rs::waveform::sampling::SamplingError;
    match r {
        Err(SamplingError::MisalignedDuration { .. }) => json!({"t": "error", "shape": "misaligned", "len": 0, "zeros": false}),
        Err(_) => json!({"t": "error", "shape": "out_of_range", "len": 0, "zeros": false}),
        Ok(IqSamplesOrPlaceholder::Placeholder(p)) => {
            let shape = if matches!(p, IqSamples::Flat { .. }) { "flat" } else { "vec" };
            json!({"t": "placeholder", "shape": shape, "len": p.sample_count(), "zeros": false})
        }
        Ok(IqSamplesOrPlaceholder::Samples(sm)) => {
            let shape = if matches!(sm, IqSamples::Flat { .. }) { "flat" } else { "vec" };
            let zeros = sm.iter().all(|c| c.re == 0.0 && c.im == 0.0);
            json!({"t": "samples", "shape": shape, "len": sm.sample_count(), "zeros": zeros})
        }
    }
}

/// The property itself on (state, projected real result): what is a VIOLATION.
fn property_failures(st: &State, res: &Value) -> Vec<(String, String)> {
    let mut fails = vec![];
    let t = res["t"].as_str().unwrap_or("");
    if !st.aligned() {
        return fails; // the statement speaks about aligned durations only
    }
    if t == "error" {
        fails.push(("length".to_string(), format!("a sampling error ({}) for an aligned duration", res["shape"])));
        return fails;
    }
    let len = res["len"].as_u64().unwrap_or(u64::MAX) as usize;
    if len != st.expected_len() {
        fails.push(("length".to_string(), format!("{len} samples, the statement demands {}", st.expected_len())));
    }
    let unknown = st.something_unknown();
    let zs = st.scale.is_zero();
    let zeros = res["zeros"].as_bool().unwrap_or(false);
    if !unknown && t != "samples" {
        fails.push(("shape".to_string(), "a placeholder although every parameter is known".to_string()));
    }
    if unknown && !zs && t != "placeholder" {
        fails.push(("shape".to_string(), "samples although a needed parameter is unknown".to_string()));
    }
    if unknown && zs && !(t == "placeholder" || zeros) {
        fails.push(("shape".to_string(), "non-zero samples although a parameter is unknown".to_string()));
    }
    if !unknown && zs && !zeros {
        fails.push(("zero scale".to_string(), "non-zero samples for scale 0".to_string()));
    }
    fails
}

fn close(a: Complex64, b: Complex64, mag: f64) -> bool {
    (a - b).norm() <= 1e-12 * mag.max(1.0)
}

/// Fully known state: partial call = concrete call, and the response laws against the paired run.
fn numeric_laws(st: &State, partial: &IqSamples<Complex64>, o: &mut Outcome) {
    let what = || st.to_json().to_string();
    let direct = st.concrete_waveform().iq_values_at_sample_rate(st.concrete_common(st.scale.concrete(), st.phase.concrete()), st.rate);
    let direct = match direct {
        Ok(d) => d,
        Err(e) => {
            o.violate(Violation::new("partial then known", json!("the samples of the partial call"), json!(format!("error: {e}"))).note(what()));
            return;
        }
    };
    let a: Vec<Complex64> = partial.iter().cloned().collect();
    let b: Vec<Complex64> = direct.iter().cloned().collect();
    if a.len() != partial.sample_count() || b.len() != direct.sample_count() {
        o.violate(Violation::new("length", json!("sample_count() = number of samples"), json!(format!("{} vs {}", a.len(), partial.sample_count()))).note(what()));
    }
    if a.len() != b.len() || a.iter().zip(&b).any(|(x, y)| !close(*x, *y, y.norm())) {
        o.violate(Violation::new("partial then known", json!(format!("{} samples equal to the concrete call's", b.len())), json!(format!("{} samples, different", a.len()))).note(what()));
    }
    // the paired run: scale 1, phase 0, everything else the same
    let s_val = st.scale.concrete().unwrap_or(1.0);
    let p_val = st.phase.concrete().unwrap_or(0.0);
    let unit = match st.concrete_waveform().iq_values_at_sample_rate(st.concrete_common(Some(1.0), Some(0.0)), st.rate) {
        Ok(d) => d,
        Err(e) => {
            o.diverge(format!("paired run (scale 1, phase 0) fails: {e}"));
            return;
        }
    };
    let unit: Vec<Complex64> = unit.iter().cloned().collect();
    if unit.len() != b.len() {
        o.violate(Violation::new("length", json!(format!("{} samples as for scale 1, phase 0", unit.len())), json!(b.len())).note(what()));
        return;
    }
    let factor = Complex64::from_polar(s_val, 2.0 * std::f64::consts::PI * p_val);
    // the rounding error of cis(a + b) against cis(a) * cis(b) grows with the accumulated phase
    // (detuning cycles per sample times the number of samples): the tolerance is scaled with it
    let cycles = 1.0 + p_val.abs() + st.detuning.concrete().unwrap_or(0.0).abs() / st.rate * b.len() as f64;
    for (i, (x, u1)) in b.iter().zip(&unit).enumerate() {
        let want = factor * u1;
        let ok = if s_val == 0.0 { x.norm() == 0.0 } else { close(*x, want, want.norm().max(1.0) * cycles) };
        if !ok {
            o.violate(
                Violation::new(if s_val == 0.0 { "zero scale" } else { "response" },
                               json!(format!("sample {i} = scale * exp(2 pi i phase) * unit sample = {want}")), json!(format!("{x}")))
                    .note(format!("scale {s_val}, phase {p_val} cycles; {}", what())),
            );
            break;
        }
    }
    o.sub_evaluations += 2;
}

fn run_state(st: &State, want: Option<&Value>, o: &mut Outcome) -> Value {
    let real = st.partial_waveform().partial_iq_values_at_sample_rate(st.partial_common(), st.rate);
    let got = project(&real);
    let fails = property_failures(st, &got);
    for (obs, text) in &fails {
        o.violate(Violation::new(obs, want.cloned().unwrap_or(json!({"len": st.expected_len()})), got.clone()).note(format!("{text}; {}", st.to_json())));
    }
    if let Some(w) = want {
        if fails.is_empty() && *w != got {
            // the model says zeros = FALSE only when it does not KNOW them to be zero
            let same_but_zeros = w["t"] == got["t"] && w["shape"] == got["shape"] && w["len"] == got["len"] && w["zeros"] == json!(false);
            if !same_but_zeros {
                o.diverge(format!("result {got} differs from the model's {w} but satisfies the property; {}", st.to_json()));
            }
        }
    }
    if st.aligned() && !st.something_unknown() {
        if let Ok(IqSamplesOrPlaceholder::Samples(sm)) = &real {
            numeric_laws(st, sm, o);
        }
    }
    got
}

fn nontrivial(st: &State) -> bool {
    let k = st.dur.0 / st.dur.1;
    let pad = padded(&st.kind) && (st.pad_l.0 > 0 || st.pad_r.0 > 0);
    let non_default = matches!(&st.scale, Know::Known(v, _) if *v != 1.0) || matches!(&st.phase, Know::Known(v, _) if *v != 0.0);
    st.aligned() && k >= 1 && (pad || non_default || st.something_unknown())
}

pub fn replay(_ctx: &Ctx, case: &Value) -> Outcome {
    if let Some(h) = case.get("history") {
        return replay_history(h);
    }
    let st = State::from_case(case);
    let mut o = Outcome::ok(nontrivial(&st));
    run_state(&st, Some(&case["res"]), &mut o);
    o
}

/// A recorded history judged again on the real code (replay of a trace-validation rejection).
fn replay_history(h: &Value) -> Outcome {
    let mut o = Outcome::ok(true);
    let mut st: Option<State> = None;
    for e in h.as_array().cloned().unwrap_or_default() {
        match e["ev"].as_str() {
            Some("reset") => {
                let mut s0 = State::from_case(&e);
                apply_numbers(&mut s0, &e);
                run_state(&s0, None, &mut o);
                st = Some(s0);
            }
            Some("supply") => {
                if let Some(cur) = st.as_mut() {
                    let p = s(&e, "p");
                    let val = e["value"].as_str().and_then(|x| x.parse::<f64>().ok()).unwrap_or(0.0);
                    let label = s(&e, "v");
                    match p.as_str() {
                        "scale" => cur.scale = Know::Known(val, label),
                        "phase" => cur.phase = Know::Known(val, label),
                        "detuning" => cur.detuning = Know::Known(val, label),
                        own => {
                            for (n, k) in cur.own_known.iter_mut() {
                                if n == own {
                                    *k = true;
                                }
                            }
                        }
                    }
                    let cur = cur.clone();
                    run_state(&cur, None, &mut o);
                }
            }
            _ => {}
        }
    }
    o
}

/// recorded histories carry the real numbers of the known common parameters next to their labels
fn apply_numbers(st: &mut State, e: &Value) {
    for (name, slot) in [("scale", &mut st.scale), ("phase", &mut st.phase), ("detuning", &mut st.detuning)] {
        if let Know::Known(_, l) = slot.clone() {
            if let Some(v) = e["values"][name].as_str().and_then(|x| x.parse::<f64>().ok()) {
                *slot = Know::Known(v, l);
            }
        }
    }
}

// ------------------------------------------------------------------------------------------- drive

fn label_of(v: f64) -> String {
    if v == 0.0 { "0".into() } else { "nz".into() }
}

fn random_known(r: &mut impl Rng, what: &str, rate: f64) -> Know {
    let v = match what {
        "scale" => if r.gen_bool(0.2) { 0.0 } else { r.gen_range(-2.0..2.0) },
        "phase" => if r.gen_bool(0.2) { 0.0 } else { r.gen_range(-1.0..1.0) },
        _ => if r.gen_bool(0.4) { 0.0 } else { r.gen_range(-0.2..0.2) * rate },
    };
    Know::Known(v, label_of(v))
}

pub fn drive(ctx: &Ctx) -> Summary {
    let count = ctx.arg_u64("n", 200);
    let max_k = ctx.arg_u64("maxk", 300);
    let path = ctx.arg_str("out").expect("--out");
    let mut out = std::io::BufWriter::new(std::fs::File::create(path).expect("create trace"));
    let mut rng = util::rng(ctx.seed, 3200);
    let mut sum = Summary::default();
    // (label, exact binary arithmetic for aligned paddings?)
    let rates: &[(&str, bool)] = &[("1", true), ("4", true), ("64", true), ("1e9", false), ("2.5e8", false), ("1e6", false)];
    for h in 0..count {
        let (kind, own) = KINDS[(h as usize) % KINDS.len()];
        let (rate_label, exact) = *rates.choose(&mut rng).unwrap();
        let rate = rate_of(rate_label);
        let mut k = if h < 14 { h / 7 } else { rng.gen_range(1..=max_k) };
        if (14..35).contains(&h) && !exact {
            // a duration whose f64 product with the rate lands just BELOW the integer (round vs floor)
            if let Some(kk) = (1..=max_k.max(200)).filter(|kk| (*kk as f64 / rate) * rate < *kk as f64).nth((h % 5) as usize) {
                k = kk;
            }
        }
        let misaligned = h % 23 == 22;
        let pad = |r: &mut rand_chacha::ChaCha8Rng| -> (u64, u64) {
            match r.gen_range(0..4) {
                0 => (0, 1),
                1 if exact => (r.gen_range(1..=20), 1),
                2 => (4 * r.gen_range(0..=20u64) + 1, 4), // a quarter above an integer: ceil != round
                _ => (2 * r.gen_range(1..=20u64) - 1, 2),  // half-odd: ceil != floor
            }
        };
        let (pad_l, pad_r) = if padded(kind) { (pad(&mut rng), pad(&mut rng)) } else { ((0, 1), (0, 1)) };
        let mut final_state = State {
            kind: kind.to_string(),
            rate_label: rate_label.to_string(),
            rate,
            dur: if misaligned { (2 * k + 1, 2) } else { (k, 1) },
            pad_l,
            pad_r,
            own_known: own.iter().map(|p| (p.to_string(), true)).collect(),
            scale: if rng.gen_bool(0.25) { Know::Absent } else { random_known(&mut rng, "scale", rate) },
            phase: if rng.gen_bool(0.25) { Know::Absent } else { random_known(&mut rng, "phase", rate) },
            detuning: if rng.gen_bool(0.4) { Know::Absent } else { random_known(&mut rng, "detuning", rate) },
        };
        if h % 11 == 3 {
            final_state.scale = Know::Known(0.0, "0".into());
        }
        // what is unknown at the start, and in which order it becomes known
        let mut todo: Vec<String> = vec![];
        let mut st = final_state.clone();
        for (p, kn) in st.own_known.iter_mut() {
            if rng.gen_bool(0.6) {
                *kn = false;
                todo.push(p.clone());
            }
        }
        for (name, slot) in [("scale", &mut st.scale), ("phase", &mut st.phase), ("detuning", &mut st.detuning)] {
            if *slot != Know::Absent && rng.gen_bool(0.5) {
                *slot = Know::Unknown;
                todo.push(name.to_string());
            }
        }
        todo.shuffle(&mut rng);
        let mut o = Outcome::ok(nontrivial(&st));
        let values = |s0: &State| json!({"scale": s0.scale.concrete().map(|v| format!("{v:?}")).unwrap_or_default(),
                                          "phase": s0.phase.concrete().map(|v| format!("{v:?}")).unwrap_or_default(),
                                          "detuning": s0.detuning.concrete().map(|v| format!("{v:?}")).unwrap_or_default()});
        let mut res = run_state(&st, None, &mut o);
        let mut ev = st.to_json();
        ev["ev"] = json!("reset");
        ev["res"] = res.clone();
        ev["values"] = values(&st);
        util::emit(&mut out, &ev);
        util::emit(&mut out, &json!({"ev": "detail", "res": res}));
        let mut events = 2;
        for p in todo {
            let prev_len = res["len"].clone();
            let (label, value) = match p.as_str() {
                "scale" => { st.scale = final_state.scale.clone(); (st.scale.to_json()["v"].clone(), st.scale.concrete()) }
                "phase" => { st.phase = final_state.phase.clone(); (st.phase.to_json()["v"].clone(), st.phase.concrete()) }
                "detuning" => { st.detuning = final_state.detuning.clone(); (st.detuning.to_json()["v"].clone(), st.detuning.concrete()) }
                own_p => {
                    for (n, kn) in st.own_known.iter_mut() {
                        if n == own_p {
                            *kn = true;
                        }
                    }
                    (json!(""), None)
                }
            };
            res = run_state(&st, None, &mut o);
            util::emit(&mut out, &json!({"ev": "supply", "p": p, "v": label, "value": value.map(|v| format!("{v:?}")).unwrap_or_default(), "res": res, "prev_len": prev_len}));
            util::emit(&mut out, &json!({"ev": "detail", "res": res}));
            events += 2;
        }
        o.count_n("events", events);
        sum.absorb(&st.to_json(), &o, true);
    }
    sum
}
