//! C20 — gate-sequence expansion substitutes correctly and keeps needed definitions.
//! (Shared code of the group C20 / C21: abstraction function for spec/GateSequence.tla, program
//! construction through the public constructors, the two entry points, source-map export, the
//! seeded generator of larger families.)
//!
//! replay: TLC cases {defs, filter, body, res} from spec/mc/MC_GateSequence.tla are executed on
//!         `Program::expand_defgate_sequences(filter)`; body, kept `gate_definitions` keys and the error
//!         category are compared with the model's.
//! drive:  seeded random definition tables (up to 5 sequence definitions with up to 2 parameters and
//!         3 formal qubits, bodies of 0..3 elements incl. empty and transitively empty ones, plus a matrix
//!         definition), random filters and
//!         bodies of up to 6 instructions — beyond the exhaustive bound; events reset/result/info go to
//!         spec/trace/GateSequenceTrace.tla, where TLC evaluates the declarative expansion, the keep-set
//!         and the error conditions on the recorded real results.

use crate::runner::{Outcome, Summary, Violation};
use crate::util::{self, arr, s};
use crate::Ctx;
use num_complex::Complex64;
use quil_rs::expression::{Expression, InfixOperator, PrefixOperator};
use quil_rs::instruction::{
    DefGateSequence, DefGateSequenceExpansionError, Gate, GateDefinition, GateModifier, GateSpecification,
    Instruction, Qubit,
};
use quil_rs::program::{DefGateSequenceExpansion, ExpansionResult, InstructionIndex, ProgramError, SourceMap};
use quil_rs::quil::Quil;
use quil_rs::Program;
use rand::seq::SliceRandom;
use rand::Rng;
use serde_json::{json, Value};
use std::collections::BTreeSet;

// ------------------------------------------------------------------------------ abstraction function

pub fn expr_to_abs(e: &Expression) -> Value {
    match e {
        Expression::Number(c) if c.im == 0.0 && c.re.fract() == 0.0 && c.re.abs() < 1e9 && c.re >= 0.0 => {
            json!({"t": "num", "v": format!("{}", c.re as i64)})
        }
        Expression::Variable(v) => json!({"t": "var", "v": v}),
        Expression::Infix(i) => {
            let op = match i.operator {
                InfixOperator::Plus => "+",
                InfixOperator::Minus => "-",
                InfixOperator::Star => "*",
                InfixOperator::Slash => "/",
                InfixOperator::Caret => "^",
            };
            json!({"t": "inf", "op": op, "l": expr_to_abs(&i.left), "r": expr_to_abs(&i.right)})
        }
        Expression::Prefix(p) if p.operator == PrefixOperator::Minus => {
            json!({"t": "neg", "e": expr_to_abs(&p.expression)})
        }
        other => json!({"t": "leaf", "v": other.to_quil_or_debug()}),
    }
}

pub fn expr_from_abs(v: &Value) -> Expression {
    match s(v, "t").as_str() {
        "num" => Expression::Number(Complex64::new(s(v, "v").parse::<f64>().expect("num"), 0.0)),
        "var" => Expression::Variable(s(v, "v")),
        "inf" => {
            let (l, r) = (expr_from_abs(&v["l"]), expr_from_abs(&v["r"]));
            match s(v, "op").as_str() {
                "+" => l + r,
                "-" => l - r,
                "*" => l * r,
                "/" => l / r,
                "^" => l ^ r,
                o => panic!("unknown operator {o}"),
            }
        }
        "neg" => -expr_from_abs(&v["e"]),
        "leaf" => match s(v, "v").as_str() {
            "pi" => Expression::PiConstant(),
            o => panic!("unsupported leaf {o}"),
        },
        o => panic!("unknown expression tag {o}"),
    }
}

pub fn qubit_to_abs(q: &Qubit) -> Value {
    match q {
        Qubit::Fixed(n) => json!({"t": "fixed", "n": n}),
        Qubit::Variable(s) => json!({"t": "var", "s": s}),
        Qubit::Placeholder(_) => json!({"t": "ph", "id": 0}),
    }
}

pub fn qubit_from_abs(v: &Value) -> Qubit {
    match s(v, "t").as_str() {
        "fixed" => Qubit::Fixed(util::u(v, "n")),
        "var" => Qubit::Variable(s(v, "s")),
        o => panic!("unsupported qubit tag {o}"),
    }
}

fn modifier_name(m: &GateModifier) -> &'static str {
    match m {
        GateModifier::Controlled => "CONTROLLED",
        GateModifier::Dagger => "DAGGER",
        GateModifier::Forked => "FORKED",
    }
}

pub fn gate_to_abs(g: &Gate) -> Value {
    json!({"k": "Gate", "name": g.name,
           "params": g.parameters.iter().map(expr_to_abs).collect::<Vec<_>>(),
           "qubits": g.qubits.iter().map(qubit_to_abs).collect::<Vec<_>>(),
           "mods": g.modifiers.iter().map(modifier_name).collect::<Vec<_>>()})
}

pub fn gate_from_abs(v: &Value) -> Gate {
    let mods = arr(v, "mods")
        .iter()
        .map(|m| match m.as_str().unwrap() {
            "CONTROLLED" => GateModifier::Controlled,
            "DAGGER" => GateModifier::Dagger,
            "FORKED" => GateModifier::Forked,
            o => panic!("unknown modifier {o}"),
        })
        .collect();
    Gate::new(
        &s(v, "name"),
        arr(v, "params").iter().map(expr_from_abs).collect(),
        arr(v, "qubits").iter().map(qubit_from_abs).collect(),
        mods,
    )
    .unwrap_or_else(|e| panic!("alphabet gate rejected by Gate::new: {v}: {e}"))
}

pub fn instr_to_abs(i: &Instruction) -> Value {
    match i {
        Instruction::Gate(g) => gate_to_abs(g),
        other => json!({"k": "Other", "text": other.to_quil_or_debug()}),
    }
}

pub fn instr_from_abs(v: &Value) -> Instruction {
    match s(v, "k").as_str() {
        "Gate" => Instruction::Gate(gate_from_abs(v)),
        "Other" => util::instr(&s(v, "text")),
        o => panic!("unknown instruction class {o}"),
    }
}

pub fn def_from_abs(v: &Value) -> GateDefinition {
    let params: Vec<String> = arr(v, "params").iter().map(|p| p.as_str().unwrap().to_string()).collect();
    let spec = match s(v, "kind").as_str() {
        "seq" => GateSpecification::Sequence(
            DefGateSequence::try_new(
                arr(v, "qubits").iter().map(|p| p.as_str().unwrap().to_string()).collect(),
                arr(v, "gates").iter().map(gate_from_abs).collect(),
            )
            .unwrap_or_else(|e| panic!("alphabet definition rejected by DefGateSequence::try_new: {v}: {e}")),
        ),
        "other" => {
            let one = Expression::Number(Complex64::new(1.0, 0.0));
            let zero = Expression::Number(Complex64::new(0.0, 0.0));
            GateSpecification::Matrix(vec![vec![one.clone(), zero.clone()], vec![zero, one]])
        }
        o => panic!("unknown definition kind {o}"),
    };
    GateDefinition::new(s(v, "name"), params, spec)
        .unwrap_or_else(|e| panic!("alphabet definition rejected by GateDefinition::new: {v}: {e}"))
}

/// the program of a case: definitions in table order, then the body
pub fn build_program(defs: &[Value], body: &[Value]) -> Program {
    let mut p = Program::new();
    for d in defs {
        p.add_instruction(Instruction::GateDefinition(def_from_abs(d)));
    }
    for i in body {
        p.add_instruction(instr_from_abs(i));
    }
    // the abstraction function must be the identity on the alphabet (otherwise the case is mis-projected)
    let back: Vec<Value> = p.body_instructions().map(instr_to_abs).collect();
    if back != body {
        panic!("abstraction function not invertible on body {body:?} -> {back:?}");
    }
    p
}

pub fn error_kind(e: &ProgramError) -> String {
    match e {
        ProgramError::DefGateSequenceExpansionError(x) => match x {
            DefGateSequenceExpansionError::ParameterCount { .. } => "ParameterCount",
            DefGateSequenceExpansionError::CyclicSequenceGateDefinition(_) => "Cyclic",
            DefGateSequenceExpansionError::QubitCount { .. } => "QubitCount",
            DefGateSequenceExpansionError::NonFixedQubitArgument(_) => "NonFixedQubitArgument",
            DefGateSequenceExpansionError::GateModifiersUnsupported(_) => "GateModifiersUnsupported",
            DefGateSequenceExpansionError::InvalidGateSequenceElementQubit(_) => "InvalidGateSequenceElementQubit",
            DefGateSequenceExpansionError::UndefinedGateSequenceElementQubit(_) => "UndefinedGateSequenceElementQubit",
        }
        .to_string(),
        other => format!("Other({other})"),
    }
}

type GsMap<'a> = SourceMap<InstructionIndex, ExpansionResult<DefGateSequenceExpansion<'a>>>;

/// The definition name recorded in a Rewritten entry is only reachable through `Debug` without the
/// `python` feature (no public accessor for `source_signature`); it is exported for diagnostics
/// (MODEL-DIVERGENCE level) and "?" when the Debug text has another shape.
fn signature_name(x: &DefGateSequenceExpansion<'_>) -> String {
    let d = format!("{x:?}");
    let key = "source_signature: GateSignature { name: \"";
    d.find(key)
        .and_then(|at| {
            let rest = &d[at + key.len()..];
            rest.find('"').map(|end| rest[..end].to_string())
        })
        .unwrap_or_else(|| "?".to_string())
}

/// the entries tree of a gate-sequence source map (spec: GateSequence!WFMap)
pub fn map_to_abs(map: &GsMap<'_>) -> Value {
    Value::Array(
        map.entries()
            .iter()
            .map(|e| {
                let t = match e.target_location() {
                    ExpansionResult::Unmodified(i) => json!({"u": i.0}),
                    ExpansionResult::Rewritten(x) => json!({"r": {"name": signature_name(x),
                        "from": x.range().start.0, "to": x.range().end.0,
                        "nested": map_to_abs(x.nested_expansions())}}),
                };
                json!({"s": e.source_location().0, "t": t})
            })
            .collect(),
    )
}

/// the same tree without the (diagnostic) names
pub fn strip_names(map: &Value) -> Value {
    Value::Array(
        map.as_array()
            .map(|es| {
                es.iter()
                    .map(|e| match e["t"].get("r") {
                        Some(r) => json!({"s": e["s"], "t": {"r": {"from": r["from"], "to": r["to"], "nested": strip_names(&r["nested"])}}}),
                        None => e.clone(),
                    })
                    .collect()
            })
            .unwrap_or_default(),
    )
}

/// The real result of one entry point, projected: Ok{out, kept[, map]} or Err{kind}
#[derive(Clone, Debug, PartialEq)]
pub enum Real {
    Ok { out: Vec<Value>, kept: Vec<String>, map: Option<Value>, defs_same: bool, others_same: bool },
    Err(String),
}

fn project(before: &Program, after: &Program, map: Option<Value>) -> Real {
    let out: Vec<Value> = after.body_instructions().map(instr_to_abs).collect();
    let kept: Vec<String> = after.gate_definitions.keys().cloned().collect();
    // kept definitions are the original definitions, unchanged
    let defs_same = after.gate_definitions.iter().all(|(k, v)| before.gate_definitions.get(k) == Some(v));
    // everything that is not a gate definition or the body is carried over
    let others_same = after.memory_regions == before.memory_regions
        && after.calibrations == before.calibrations
        && after.frames == before.frames
        && after.waveforms == before.waveforms;
    Real::Ok { out, kept, map, defs_same, others_same }
}

pub fn run_plain(program: &Program, filter: &BTreeSet<String>) -> Real {
    match program.clone().expand_defgate_sequences(|n| filter.contains(n)) {
        Ok(p) => project(program, &p, None),
        Err(e) => Real::Err(error_kind(&e)),
    }
}

pub fn run_mapped(program: &Program, filter: &BTreeSet<String>) -> Real {
    match program.expand_defgate_sequences_with_source_map(|n| filter.contains(n)) {
        Ok((p, m)) => {
            let map = map_to_abs(&m);
            project(program, &p, Some(map))
        }
        Err(e) => Real::Err(error_kind(&e)),
    }
}

pub fn filter_of(case: &Value) -> BTreeSet<String> {
    arr(case, "filter").iter().map(|n| n.as_str().unwrap().to_string()).collect()
}

pub fn real_json(r: &Real) -> Value {
    match r {
        Real::Ok { out, kept, map, .. } => {
            let mut o = json!({"out": out, "kept": kept});
            if let Some(m) = map {
                o["map"] = m.clone();
            }
            json!({ "ok": o })
        }
        Real::Err(k) => json!({ "err": k }),
    }
}

/// DESIGN.md §10: a case is non-trivial when it has >= 1 selected invocation, or is an error case.
pub fn nontrivial(defs: &[Value], filter: &BTreeSet<String>, body: &[Value], real: &Real) -> bool {
    if matches!(real, Real::Err(_)) {
        return true;
    }
    body.iter().any(|i| {
        i["k"] == "Gate"
            && filter.contains(i["name"].as_str().unwrap())
            && defs.iter().any(|d| d["name"] == i["name"] && d["kind"] == "seq")
    })
}

// ------------------------------------------------------------- the property itself, for classification
//
// Used only when the real result differs from the model's expectation, to decide between VIOLATION and
// mere divergence (BUILDING.md §1).  An independent, direct reading of the statement on abstract values.

fn subst_expr(e: &Value, env: &[(String, Value)]) -> Value {
    match e["t"].as_str().unwrap() {
        "var" => env.iter().rev().find(|(k, _)| k == e["v"].as_str().unwrap()).map(|(_, v)| v.clone()).unwrap_or(e.clone()),
        "inf" => json!({"t": "inf", "op": e["op"], "l": subst_expr(&e["l"], env), "r": subst_expr(&e["r"], env)}),
        "neg" => json!({"t": "neg", "e": subst_expr(&e["e"], env)}),
        _ => e.clone(),
    }
}

fn find_def<'a>(defs: &'a [Value], name: &str) -> Option<&'a Value> {
    defs.iter().find(|d| d["name"] == name && d["kind"] == "seq")
}

/// Ok(expanded) or Err(set of conditions at the first offending invocation)
pub fn oracle_expand(
    defs: &[Value],
    filter: &BTreeSet<String>,
    instrs: &[Value],
    visiting: &mut Vec<String>,
) -> Result<Vec<Value>, BTreeSet<String>> {
    let mut out = vec![];
    for g in instrs {
        let def = if g["k"] == "Gate" && filter.contains(g["name"].as_str().unwrap()) {
            find_def(defs, g["name"].as_str().unwrap())
        } else {
            None
        };
        let Some(d) = def else {
            out.push(g.clone());
            continue;
        };
        let name = s(g, "name");
        let (dp, dq) = (arr(d, "params"), arr(d, "qubits"));
        let (gp, gq) = (arr(g, "params"), arr(g, "qubits"));
        let mut conds = BTreeSet::new();
        if dp.len() != gp.len() {
            conds.insert("ParameterCount".to_string());
        }
        if !arr(g, "mods").is_empty() {
            conds.insert("GateModifiersUnsupported".to_string());
        }
        if visiting.contains(&name) {
            conds.insert("Cyclic".to_string());
        }
        if dq.len() != gq.len() {
            conds.insert("QubitCount".to_string());
        }
        if gq.iter().any(|q| q["t"] != "fixed") {
            conds.insert("NonFixedQubitArgument".to_string());
        }
        if !conds.is_empty() {
            return Err(conds);
        }
        let penv: Vec<(String, Value)> = dp.iter().map(|p| p.as_str().unwrap().to_string()).zip(gp.iter().cloned()).collect();
        let qenv: Vec<(String, Value)> = dq.iter().map(|p| p.as_str().unwrap().to_string()).zip(gq.iter().cloned()).collect();
        let inner: Vec<Value> = arr(d, "gates")
            .iter()
            .map(|e| {
                let ps: Vec<Value> = arr(e, "params").iter().map(|p| subst_expr(p, &penv)).collect();
                let qs: Vec<Value> = arr(e, "qubits")
                    .iter()
                    .map(|q| qenv.iter().rev().find(|(k, _)| k == q["s"].as_str().unwrap()).map(|(_, v)| v.clone()).unwrap_or(q.clone()))
                    .collect();
                json!({"k": "Gate", "name": e["name"], "params": ps, "qubits": qs, "mods": e["mods"]})
            })
            .collect();
        visiting.push(name);
        let r = oracle_expand(defs, filter, &inner, visiting);
        visiting.pop();
        out.extend(r?);
    }
    Ok(out)
}

pub fn oracle_keep(defs: &[Value], filter: &BTreeSet<String>) -> BTreeSet<String> {
    let seq: Vec<&Value> = defs.iter().filter(|d| d["kind"] == "seq").collect();
    let mut keep: BTreeSet<String> =
        defs.iter().filter(|d| d["kind"] != "seq" || !filter.contains(d["name"].as_str().unwrap())).map(|d| s(d, "name")).collect();
    loop {
        let mut grew = false;
        for d in &seq {
            if keep.contains(d["name"].as_str().unwrap()) {
                for e in arr(d, "gates") {
                    let n = e["name"].as_str().unwrap();
                    if seq.iter().any(|x| x["name"] == n) && keep.insert(n.to_string()) {
                        grew = true;
                    }
                }
            }
        }
        if !grew {
            return keep;
        }
    }
}

/// failures of the C20 statement on a real result (empty = the property holds for this case)
pub fn property_failures(defs: &[Value], filter: &BTreeSet<String>, body: &[Value], real: &Real) -> Vec<(String, Value, Value)> {
    let mut fails = vec![];
    let want = oracle_expand(defs, filter, body, &mut vec![]);
    match (real, &want) {
        (Real::Ok { out, kept, defs_same, .. }, Ok(w)) => {
            if out != w {
                fails.push(("expanded body".to_string(), json!(w), json!(out)));
            }
            let wk = oracle_keep(defs, filter);
            let gk: BTreeSet<String> = kept.iter().cloned().collect();
            if gk != wk || kept.len() != gk.len() {
                fails.push(("kept definitions".to_string(), json!(wk), json!(kept)));
            }
            if !defs_same {
                fails.push(("kept definitions changed".to_string(), json!("unchanged definitions"), json!(kept)));
            }
        }
        (Real::Ok { out, .. }, Err(c)) => fails.push(("error reported".to_string(), json!({ "err": c }), json!({ "ok": out }))),
        (Real::Err(k), Ok(w)) => fails.push(("error reported".to_string(), json!({ "ok": w }), json!({ "err": k }))),
        (Real::Err(k), Err(c)) => {
            if !c.contains(k) {
                fails.push(("error category".to_string(), json!(c), json!(k)));
            }
        }
    }
    fails
}

// ------------------------------------------------------------------------------------------- replay

pub fn case_parts(case: &Value) -> (Vec<Value>, BTreeSet<String>, Vec<Value>) {
    // a violation replay file from trace validation carries a recorded history instead of a TLC case
    let c = if let Some(h) = case.get("history") { &h[0] } else { case };
    (arr(c, "defs").clone(), filter_of(c), arr(c, "body").clone())
}

/// the recorded event `ev` of a trace-validation replay file, if this is one
pub fn recorded_event<'a>(case: &'a Value, ev: &str) -> Option<&'a Value> {
    case.get("history").and_then(|h| h.as_array()).and_then(|h| h.iter().find(|e| e["ev"] == ev))
}

pub fn replay(_ctx: &Ctx, case: &Value) -> Outcome {
    let (defs, filter, body) = case_parts(case);
    let program = build_program(&defs, &body);
    let real = run_plain(&program, &filter);
    let mut o = Outcome::ok(nontrivial(&defs, &filter, &body, &real));
    // expected observables of the model (absent when replaying a recorded history)
    let want = case.get("res");
    let same = match (want, &real) {
        (Some(w), Real::Ok { out, kept, defs_same, others_same, .. }) => {
            w.get("ok").map(|k| k["out"] == json!(out) && k["kept"] == json!(kept)).unwrap_or(false) && *defs_same && *others_same
        }
        (Some(w), Real::Err(k)) => w.get("err").map(|e| e == k).unwrap_or(false),
        (None, _) => false,
    };
    if !same {
        let fails = property_failures(&defs, &filter, &body, &real);
        if let (true, Some(rec)) = (fails.is_empty(), recorded_event(case, "result")) {
            // replay of a history that TLC's trace validation rejected: the verdict was TLC's; here we only
            // establish whether the real code still produces the rejected result
            if rec["res"] == real_json(&real) {
                o.violate(Violation::new("result rejected by trace validation (reproduced)", Value::Null, real_json(&real))
                    .note("the real code returns the same result that spec/trace/GateSequenceTrace.tla rejected"));
            }
        }
        if fails.is_empty() {
            if let Some(w) = want {
                o.diverge(format!("result differs from the model but satisfies the property: model {w} real {}", real_json(&real)));
            }
        } else {
            let (obs, exp, act) = fails[0].clone();
            o.violate(
                Violation::new(&obs, exp, act)
                    .note(fails.iter().map(|f| f.0.clone()).collect::<Vec<_>>().join("; ")),
            );
        }
    }
    match &real {
        Real::Ok { .. } => o.count("ok"),
        Real::Err(k) => o.count(&format!("err_{k}")),
    }
    o
}

// ------------------------------------------------------------------------------------------- drive

const SEQ_NAMES: &[&str] = &["SA", "SB", "SC", "SD", "SE"];
const PARAM_NAMES: &[&str] = &["t", "s"];
const FORMALS: &[&str] = &["a", "b", "c"];

fn rand_expr(r: &mut impl Rng, params: &[String], depth: u32) -> Value {
    let leaf = |r: &mut dyn rand::RngCore| -> Value {
        if !params.is_empty() && r.gen_bool(0.6) {
            json!({"t": "var", "v": params[r.gen_range(0..params.len())]})
        } else if r.gen_bool(0.15) {
            json!({"t": "leaf", "v": "pi"})
        } else {
            json!({"t": "num", "v": format!("{}", r.gen_range(0..9))})
        }
    };
    if depth == 0 || r.gen_bool(0.5) {
        return leaf(r);
    }
    match r.gen_range(0..5) {
        0 => json!({"t": "neg", "e": rand_expr(r, params, depth - 1)}),
        k => {
            let op = ["+", "-", "*", "/"][k - 1];
            json!({"t": "inf", "op": op, "l": rand_expr(r, params, depth - 1), "r": rand_expr(r, params, depth - 1)})
        }
    }
}

/// one random case: (defs, filter, body)
pub fn random_case(r: &mut impl Rng) -> (Vec<Value>, BTreeSet<String>, Vec<Value>) {
    let nseq = r.gen_range(1..=SEQ_NAMES.len());
    // signatures first, so that elements can refer to later definitions with the right or a wrong arity
    let sigs: Vec<(String, Vec<String>, Vec<String>)> = (0..nseq)
        .map(|n| {
            let np = r.gen_range(0..=2);
            let nq = r.gen_range(1..=3);
            (
                SEQ_NAMES[n].to_string(),
                PARAM_NAMES[..np].iter().map(|x| x.to_string()).collect(),
                FORMALS[..nq].iter().map(|x| x.to_string()).collect(),
            )
        })
        .collect();
    let anomaly_rate = [0.0, 0.0, 0.03, 0.15][r.gen_range(0..4)];
    let mut defs = vec![];
    // degenerate sizes: a definition with an EMPTY body (not writable in Quil text; built through
    // DefGateSequence::try_new(qubits, vec![])), and definitions whose body refers to nothing but it
    let empty_def = if r.gen_bool(0.35) { Some(r.gen_range(0..sigs.len())) } else { None };
    for (at, (name, params, formals)) in sigs.iter().enumerate() {
        let ng = if Some(at) == empty_def { 0 } else { r.gen_range(1..=3) };
        let only_empty = empty_def.is_some() && Some(at) != empty_def && r.gen_bool(0.2);
        let mut gates = vec![];
        for _ in 0..ng {
            let refer = only_empty || r.gen_bool(if at + 1 < sigs.len() { 0.55 } else { 0.1 });
            if refer {
                // mostly forward references (deep acyclic nesting), sometimes any (cycles of every length)
                let target = if only_empty {
                    empty_def.unwrap()
                } else if at + 1 < sigs.len() && r.gen_bool(0.92) {
                    r.gen_range(at + 1..sigs.len())
                } else {
                    r.gen_range(0..sigs.len())
                };
                let (tn, tp, tq) = &sigs[target];
                let np = if r.gen_bool(anomaly_rate) { r.gen_range(0..=2) } else { tp.len() };
                let nq = if r.gen_bool(anomaly_rate) { r.gen_range(1..=3) } else { tq.len() };
                let mods = if r.gen_bool(anomaly_rate) { json!(["DAGGER"]) } else { json!([]) };
                gates.push(json!({"k": "Gate", "name": tn,
                    "params": (0..np).map(|_| rand_expr(r, params, 2)).collect::<Vec<_>>(),
                    "qubits": (0..nq).map(|_| json!({"t": "var", "s": formals[r.gen_range(0..formals.len())]})).collect::<Vec<_>>(),
                    "mods": mods}));
            } else {
                let (gn, np, nq) = *[("RZ", 1, 1), ("RX", 1, 1), ("CNOT", 0, 2), ("CPHASE", 1, 2), ("MG", 0, 1), ("UG", 2, 1)].choose(r).unwrap();
                let mods = if r.gen_bool(0.15) { json!(["DAGGER"]) } else { json!([]) };
                gates.push(json!({"k": "Gate", "name": gn,
                    "params": (0..np).map(|_| rand_expr(r, params, 2)).collect::<Vec<_>>(),
                    "qubits": (0..nq).map(|_| json!({"t": "var", "s": formals[r.gen_range(0..formals.len())]})).collect::<Vec<_>>(),
                    "mods": mods}));
            }
        }
        defs.push(json!({"name": name, "kind": "seq", "params": params, "qubits": formals, "gates": gates}));
    }
    if r.gen_bool(0.6) {
        let at = r.gen_range(0..=defs.len());
        defs.insert(at, json!({"name": "MG", "kind": "other", "params": [], "qubits": [], "gates": []}));
    }
    let mut filter = BTreeSet::new();
    let all = r.gen_bool(0.4);
    for n in SEQ_NAMES.iter().chain(["MG", "UG", "RZ"].iter()) {
        if all || r.gen_bool(0.7) {
            filter.insert(n.to_string());
        }
    }
    let nb = r.gen_range(0..=6);
    let mut body = vec![];
    for _ in 0..nb {
        match r.gen_range(0..10) {
            0 => {
                let text = *["NOP", "MEASURE 0 ro[0]", "RESET 1", "HALT", "FENCE 0 1"].choose(r).unwrap();
                body.push(json!({"k": "Other", "text": text}));
            }
            1 | 2 => {
                let (gn, np, nq) = *[("X", 0, 1), ("RZ", 1, 1), ("CNOT", 0, 2), ("MG", 0, 1), ("UG", 1, 2)].choose(r).unwrap();
                let mods = if r.gen_bool(0.2) { json!(["DAGGER"]) } else { json!([]) };
                body.push(json!({"k": "Gate", "name": gn,
                    "params": (0..np).map(|_| rand_expr(r, &[], 1)).collect::<Vec<_>>(),
                    "qubits": (0..nq).map(|_| json!({"t": "fixed", "n": r.gen_range(0..4)})).collect::<Vec<_>>(),
                    "mods": mods}));
            }
            _ => {
                let (tn, tp, tq) = &sigs[r.gen_range(0..sigs.len())];
                let np = if r.gen_bool(anomaly_rate) { r.gen_range(0..=2) } else { tp.len() };
                let nq = if r.gen_bool(anomaly_rate) { r.gen_range(1..=3) } else { tq.len() };
                let mods = if r.gen_bool(anomaly_rate) { json!(["CONTROLLED"]) } else { json!([]) };
                let var_q = r.gen_bool(anomaly_rate);
                body.push(json!({"k": "Gate", "name": tn,
                    "params": (0..np).map(|_| rand_expr(r, &[], 1)).collect::<Vec<_>>(),
                    "qubits": (0..nq).map(|k| if var_q && k == 0 { json!({"t": "var", "s": "q"}) } else { json!({"t": "fixed", "n": r.gen_range(0..4)}) }).collect::<Vec<_>>(),
                    "mods": mods}));
            }
        }
    }
    (defs, filter, body)
}

pub fn filter_json(f: &BTreeSet<String>) -> Value {
    json!(f.iter().collect::<Vec<_>>())
}

pub fn drive(ctx: &Ctx) -> Summary {
    let n = ctx.arg_u64("n", 200);
    let path = ctx.arg_str("out").expect("--out");
    let mut out = std::io::BufWriter::new(std::fs::File::create(path).expect("create trace"));
    let mut rng = util::rng(ctx.seed, 20);
    let mut sum = Summary::default();
    for _ in 0..n {
        let (defs, filter, body) = random_case(&mut rng);
        let program = build_program(&defs, &body);
        let real = run_plain(&program, &filter);
        util::emit(&mut out, &json!({"ev": "reset", "defs": defs, "filter": filter_json(&filter), "body": body}));
        // verdict event: only what the statement names (body, kept set, error reported + category)
        util::emit(&mut out, &json!({"ev": "result", "res": real_json(&real)}));
        // beyond the statement (exact category, key order): looked at by the strict configuration only
        util::emit(&mut out, &json!({"ev": "info", "res": real_json(&real)}));
        let mut o = Outcome::ok(nontrivial(&defs, &filter, &body, &real));
        o.count_n("events", 3);
        match &real {
            Real::Ok { .. } => o.count("ok"),
            Real::Err(k) => o.count(&format!("err_{k}")),
        }
        sum.absorb(&json!({"defs": defs, "filter": filter_json(&filter), "body": body}), &o, true);
    }
    sum
}
