//! C02 — parsed programs print to text that re-parses to the same program (and the shared code of the
//! QuilPrint group: C02, C04, C06).
//!
//! Shared: the abstraction function between real instructions and the JSON encoding of spec/QuilPrint.tla
//!   to_abs  : Instruction -> JSON   (total on every Instruction variant)
//!   from_abs: JSON -> Instruction   (through the public constructors, so that their validation is exercised)
//!
//! Encoding (TLA+ record = JSON object; see the constructors in spec/QuilPrint.tla):
//!   qubit   {"t":"fixed","n":0} | {"t":"var","s":"q"} | {"t":"ph","id":1}
//!   target  {"t":"fixed","s":"end"} | {"t":"ph","id":1}
//!   memref  {"name":"ro","index":0}
//!   expr    {"t":"num","re":PART,"im":PART} | pi | {"t":"var","v"} | {"t":"addr","m"} | {"t":"neg"|"pos","e"}
//!           | {"t":"inf","op","l","r"} | {"t":"fn","f","e"}
//!           PART = {"neg":bool,"m":{"r":lexeme as a real part,"i":lexeme as an imaginary part,"z":is zero,"q":int}}
//!   string  (printed between quotes) = array of one-character strings
//!   frame   {"name":STRING,"qubits":[..]}      waveform {"base","ext":Opt,"params":[{"key","val":expr}]} (sorted by key)
//!   operand {"t":"int"|"real","neg":bool,"lex":magnitude lexeme} | {"t":"mref","m"}
//!   instruction {"k":kind, ...}  kinds: Gate DefCal DefCalMeasure DefCircuit DefGate DefWaveform DefFrame Declare
//!           Measure Reset Delay Fence Pulse Capture RawCapture FrameExpr SwapPhases Arith Logic Move Unary Compare
//!           Convert Exchange Load Store Label Jump JumpWhen JumpUnless Halt Nop Wait Pragma Include Call
//!
//! C02 replay: TLC cases {prog, text, listing, t1, has_ph} from spec/mc/MC_QuilPrint.tla (Family "C02").
//!   text -> Program::from_str = P;  P.to_quil() = t1;  from_str(t1) = P1 == P;  P1.to_quil() == t1.
//!   The model's listing / t1 are compared too (divergence only).
//! C02 drive: the repository's .quil fixtures, a corpus of spellings the printer never emits, and seeded
//!   line-level mutations of both; events reset/parsed/printed/done go to spec/trace/QuilPrintTrace.tla, where
//!   the model printer must reproduce the real text from the real listing.

use crate::runner::{Outcome, Summary, Violation};
use crate::util;
use crate::Ctx;
use num_complex::Complex64;
use quil_rs::expression::{interned, Expression, ExpressionFunction, InfixOperator, PrefixOperator};
use quil_rs::instruction::*;
use quil_rs::quil::Quil;
use quil_rs::Program;
use rand::seq::SliceRandom;
use rand::Rng;
use serde_json::{json, Map, Value};
use std::collections::HashMap;
use std::str::FromStr;

// ------------------------------------------------------------------------------------ small helpers

pub fn chars(s: &str) -> Value {
    Value::Array(s.chars().map(|c| json!(c.to_string())).collect())
}
pub fn unchars(v: &Value) -> String {
    v.as_array().unwrap_or_else(|| panic!("char array expected: {v}")).iter().map(|c| c.as_str().unwrap()).collect()
}
fn opt<T>(o: Option<T>, f: impl Fn(T) -> Value) -> Value {
    match o {
        Some(x) => json!({"some": f(x)}),
        None => json!({"none": true}),
    }
}
fn get_opt<'a>(v: &'a Value) -> Option<&'a Value> {
    v.get("some")
}
fn st(v: &Value, k: &str) -> String {
    v.get(k).and_then(|x| x.as_str()).unwrap_or_else(|| panic!("missing string field {k} in {v}")).to_string()
}
fn seq<'a>(v: &'a Value, k: &str) -> &'a Vec<Value> {
    v.get(k).and_then(|x| x.as_array()).unwrap_or_else(|| panic!("missing array field {k} in {v}"))
}
fn strs(v: &Value, k: &str) -> Vec<String> {
    seq(v, k).iter().map(|x| x.as_str().unwrap().to_string()).collect()
}

/// Placeholders are identified by small integers in the encoding.
#[derive(Default)]
pub struct PhCtx {
    qubits: HashMap<u64, QubitPlaceholder>,
    targets: HashMap<u64, TargetPlaceholder>,
    seen_q: Vec<QubitPlaceholder>,
    seen_t: Vec<TargetPlaceholder>,
}

// ------------------------------------------------------------------------------------ numbers

/// How lexical's writer (expression/mod.rs FORMAT_REAL_OPTIONS / FORMAT_IMAGINARY_OPTIONS) is expected to print a
/// non-negative finite magnitude: plain decimal between the exponent breaks, scientific outside, ".0" trimmed for
/// real parts only.  Independent of the code under test (Rust's shortest round-trip formatting).
pub fn mag_lexemes(x: f64) -> (String, String) {
    let x = x.abs();
    if x == 0.0 {
        return ("0".into(), "0.0".into());
    }
    let sci = format!("{x:e}"); // d.ddde[-]xx
    let exp: i32 = sci.split('e').nth(1).unwrap().parse().unwrap();
    if !(-5..=15).contains(&exp) {
        let mant = sci.split('e').next().unwrap();
        let im = if mant.contains('.') { sci.clone() } else { format!("{mant}.0e{exp}") };
        return (sci, im);
    }
    let dec = format!("{x}");
    if dec.contains('.') {
        (dec.clone(), dec)
    } else {
        (dec.clone(), format!("{dec}.0"))
    }
}

fn part_abs(x: f64) -> Value {
    let (r, i) = mag_lexemes(x);
    json!({"neg": x.is_sign_negative() && x != 0.0, "m": {"r": r, "i": i, "z": x == 0.0, "q": 0}})
}
pub fn num_abs(c: &Complex64) -> Value {
    json!({"t": "num", "re": part_abs(c.re), "im": part_abs(c.im)})
}
fn part_val(p: &Value) -> f64 {
    let m = &p["m"];
    let x: f64 = if m["z"].as_bool().unwrap() { 0.0 } else { st(m, "r").parse().expect("magnitude lexeme") };
    if p["neg"].as_bool().unwrap() {
        -x
    } else {
        x
    }
}
pub fn num_val(v: &Value) -> Complex64 {
    Complex64::new(part_val(&v["re"]), part_val(&v["im"]))
}

// ------------------------------------------------------------------------------------ to_abs

/// How expressions are projected: structurally, or by their value at sampled assignments (C04's "equivalent").
#[derive(Clone, Copy, PartialEq)]
pub enum ExprMode {
    Structure,
    Value,
}

pub struct AbsCtx<'a> {
    pub mode: ExprMode,
    pub ph: &'a mut PhCtx,
}

pub fn qubit_abs(q: &Qubit, ph: &mut PhCtx) -> Value {
    match q {
        Qubit::Fixed(n) => json!({"t": "fixed", "n": n}),
        Qubit::Variable(s) => json!({"t": "var", "s": s}),
        Qubit::Placeholder(p) => {
            let id = match ph.seen_q.iter().position(|x| x == p) {
                Some(i) => i,
                None => {
                    ph.seen_q.push(p.clone());
                    ph.seen_q.len() - 1
                }
            };
            json!({"t": "ph", "id": id + 1})
        }
    }
}
fn target_abs(t: &Target, ph: &mut PhCtx) -> Value {
    match t {
        Target::Fixed(s) => json!({"t": "fixed", "s": s}),
        Target::Placeholder(p) => {
            let id = match ph.seen_t.iter().position(|x| x == p) {
                Some(i) => i,
                None => {
                    ph.seen_t.push(p.clone());
                    ph.seen_t.len() - 1
                }
            };
            json!({"t": "ph", "id": id + 1})
        }
    }
}
pub fn mref_abs(m: &MemoryReference) -> Value {
    json!({"name": m.name, "index": m.index})
}

fn hash01(s: &str, salt: u64) -> f64 {
    let h = crate::runner::hash_line(&format!("{s}#{salt}"));
    ((h % 10_000) as f64) / 10_000.0 + 0.25
}

fn collect_names(e: &Expression, vars: &mut Vec<String>, mems: &mut Vec<(String, u64)>) {
    match e {
        Expression::Address(m) => mems.push((m.name.clone(), m.index)),
        Expression::Variable(v) => vars.push(v.clone()),
        Expression::FunctionCall(f) => collect_names(&f.expression, vars, mems),
        Expression::Infix(i) => {
            collect_names(&i.left, vars, mems);
            collect_names(&i.right, vars, mems)
        }
        Expression::Prefix(p) => collect_names(&p.expression, vars, mems),
        Expression::Number(_) | Expression::PiConstant() => {}
    }
}

/// The value of an expression at three fixed pseudo-random assignments (complex values for variables, reals
/// for memory cells), rounded for comparison with a tolerance by `approx_eq`.
pub fn expr_values(e: &Expression) -> Value {
    // DESIGN §2.2: Quil has no negative literals, so `-1` re-parses as -(1), whose imaginary part is -0.0 where the
    // literal Number(-1) has +0.0; under `^` / sqrt with a negative real base the sign of zero selects the branch.
    // An expression whose value depends on the sign of its literals' zero imaginary parts is not judged.
    let plain = expr_values_raw(e);
    if sign_of_zero_matters(e) {
        return json!({"t": "val", "v": "branch-cut-sensitive"});
    }
    plain
}

/// The harness' own evaluator, used only to decide whether the value depends on the sign of a literal's zero
/// imaginary part (expressions are interned with +0.0 == -0.0, so a flipped copy cannot be built as an Expression).
/// `flip`: None = as is; Some((usize::MAX, mode)) = every literal; Some((k, mode)) = only the k-th literal (in
/// evaluation order).  Printing turns -2.0i into -(2.0i) = (-0.0, -2.0): zero real parts change sign as well.
fn own_eval(e: &Expression, flip: Option<(usize, u8)>, next: &mut usize, salt: u64) -> Complex64 {
    match e {
        Expression::Number(c) => {
            let k = *next;
            *next += 1;
            match flip {
                // mode bit 0: negate a zero imaginary part; bit 1: negate a zero real part
                Some((which, mode)) if which == usize::MAX || which == k => Complex64::new(
                    if mode & 2 != 0 && c.re == 0.0 { -c.re } else { c.re },
                    if mode & 1 != 0 && c.im == 0.0 { -c.im } else { c.im },
                ),
                _ => *c,
            }
        }
        Expression::PiConstant() => Complex64::new(std::f64::consts::PI, 0.0),
        Expression::Variable(v) => Complex64::new(hash01(v, salt), hash01(v, salt + 100) - 0.7),
        Expression::Address(m) => Complex64::new(hash01(&format!("{}[{}]", m.name, m.index), salt), 0.0),
        Expression::Prefix(p) => {
            let x = own_eval(&p.expression, flip, next, salt);
            if p.operator == PrefixOperator::Minus { -x } else { x }
        }
        Expression::Infix(i) => {
            let l = own_eval(&i.left, flip, next, salt);
            let r = own_eval(&i.right, flip, next, salt);
            match i.operator {
                InfixOperator::Caret => l.powc(r),
                InfixOperator::Plus => l + r,
                InfixOperator::Minus => l - r,
                InfixOperator::Slash => l / r,
                InfixOperator::Star => l * r,
            }
        }
        Expression::FunctionCall(f) => {
            let x = own_eval(&f.expression, flip, next, salt);
            match f.function {
                ExpressionFunction::Cis => x.cos() + Complex64::i() * x.sin(),
                ExpressionFunction::Cosine => x.cos(),
                ExpressionFunction::Exponent => x.exp(),
                ExpressionFunction::Sine => x.sin(),
                ExpressionFunction::SquareRoot => x.sqrt(),
            }
        }
    }
}
fn sign_of_zero_matters(e: &Expression) -> bool {
    let close = |x: f64, y: f64| x == y || (x.is_nan() && y.is_nan())
        || (x.is_finite() && y.is_finite() && (x - y).abs() <= 1e-9 * x.abs().max(y.abs()).max(1.0));
    (0..3u64).any(|salt| {
        let mut n = 0;
        let a = own_eval(e, None, &mut n, salt);
        let literals = n;
        // printing turns a negative literal into a negated positive one (-1 -> -(1)), which flips the sign of that
        // literal's zero imaginary part only: try each literal on its own, and all together
        (0..literals).chain(std::iter::once(usize::MAX)).any(|which| {
            (1..=3u8).any(|mode| {
                let mut k = 0;
                let b = own_eval(e, Some((which, mode)), &mut k, salt);
                !(close(a.re, b.re) && close(a.im, b.im))
            })
        })
    })
}

fn expr_values_raw(e: &Expression) -> Value {
    let (mut vars, mut mems) = (vec![], vec![]);
    collect_names(e, &mut vars, &mut mems);
    let mut out = vec![];
    for salt in 0..3u64 {
        let variables: HashMap<String, Complex64> =
            vars.iter().map(|v| (v.clone(), Complex64::new(hash01(v, salt), hash01(v, salt + 100) - 0.7))).collect();
        let mut memory: HashMap<String, Vec<f64>> = HashMap::new();
        for (name, index) in &mems {
            let cell = memory.entry(name.clone()).or_default();
            while cell.len() <= *index as usize {
                let k = cell.len();
                cell.push(hash01(&format!("{name}[{k}]"), salt));
            }
        }
        match e.evaluate(&variables, &memory) {
            Ok(c) => out.push(json!([c.re, c.im])),
            Err(_) => out.push(json!("error")),
        }
    }
    json!({"t": "val", "v": out})
}

pub fn expr_abs(e: &Expression, mode: ExprMode) -> Value {
    if mode == ExprMode::Value {
        return expr_values(e);
    }
    match e {
        Expression::Number(c) => num_abs(c),
        Expression::PiConstant() => json!({"t": "pi"}),
        Expression::Variable(v) => json!({"t": "var", "v": v}),
        Expression::Address(m) => json!({"t": "addr", "m": mref_abs(m)}),
        Expression::Prefix(p) => json!({
            "t": if p.operator == PrefixOperator::Minus { "neg" } else { "pos" }, "e": expr_abs(&p.expression, mode)}),
        Expression::Infix(i) => json!({
            "t": "inf", "op": i.operator.to_string().trim(), "l": expr_abs(&i.left, mode), "r": expr_abs(&i.right, mode)}),
        Expression::FunctionCall(f) => json!({"t": "fn", "f": f.function.to_string(), "e": expr_abs(&f.expression, mode)}),
    }
}

fn exprs_abs(es: &[Expression], mode: ExprMode) -> Value {
    Value::Array(es.iter().map(|e| expr_abs(e, mode)).collect())
}
fn qubits_abs(qs: &[Qubit], ph: &mut PhCtx) -> Value {
    Value::Array(qs.iter().map(|q| qubit_abs(q, ph)).collect())
}
fn frame_abs(f: &FrameIdentifier, ph: &mut PhCtx) -> Value {
    json!({"name": chars(&f.name), "qubits": qubits_abs(&f.qubits, ph)})
}
fn split_wf_name(name: &str) -> (String, Value) {
    match name.split_once('/') {
        Some((b, e)) => (b.to_string(), json!({"some": e})),
        None => (name.to_string(), json!({"none": true})),
    }
}
fn wf_abs(w: &WaveformInvocation, mode: ExprMode) -> Value {
    let (base, ext) = split_wf_name(&w.name);
    let mut kv: Vec<(&String, &Expression)> = w.parameters.iter().collect();
    kv.sort_by_key(|(k, _)| *k);
    json!({"base": base, "ext": ext,
           "params": kv.iter().map(|(k, v)| json!({"key": k, "val": expr_abs(v, mode)})).collect::<Vec<_>>()})
}
fn int_operand(v: i64) -> Value {
    json!({"t": "int", "neg": v < 0, "lex": v.unsigned_abs().to_string()})
}
fn real_operand(v: f64) -> Value {
    json!({"t": "real", "neg": v.is_sign_negative(), "lex": format!("{:?}", v.abs())})
}
fn arith_operand(o: &ArithmeticOperand) -> Value {
    match o {
        ArithmeticOperand::LiteralInteger(v) => int_operand(*v),
        ArithmeticOperand::LiteralReal(v) => real_operand(*v),
        ArithmeticOperand::MemoryReference(m) => json!({"t": "mref", "m": mref_abs(m)}),
    }
}
fn mods_abs(ms: &[GateModifier]) -> Value {
    Value::Array(ms.iter().map(|m| json!(m.to_quil_or_debug())).collect())
}
fn gate_abs(g: &Gate, c: &mut AbsCtx) -> Value {
    json!({"k": "Gate", "name": g.name, "params": exprs_abs(&g.parameters, c.mode), "qubits": qubits_abs(&g.qubits, c.ph),
           "mods": mods_abs(&g.modifiers)})
}
fn body_abs(is: &[Instruction], c: &mut AbsCtx) -> Value {
    Value::Array(is.iter().map(|i| to_abs_with(i, c)).collect())
}

pub fn to_abs(i: &Instruction) -> Value {
    let mut ph = PhCtx::default();
    to_abs_with(i, &mut AbsCtx { mode: ExprMode::Structure, ph: &mut ph })
}

pub fn to_abs_with(i: &Instruction, c: &mut AbsCtx) -> Value {
    let mode = c.mode;
    match i {
        Instruction::Gate(g) => gate_abs(g, c),
        Instruction::CalibrationDefinition(d) => json!({
            "k": "DefCal", "name": d.identifier.name, "params": exprs_abs(&d.identifier.parameters, mode),
            "qubits": qubits_abs(&d.identifier.qubits, c.ph), "mods": mods_abs(&d.identifier.modifiers),
            "body": body_abs(&d.instructions, c)}),
        Instruction::MeasureCalibrationDefinition(d) => json!({
            "k": "DefCalMeasure", "name": opt(d.identifier.name.as_ref(), |s| json!(s)),
            "qubit": qubit_abs(&d.identifier.qubit, c.ph), "target": opt(d.identifier.target.as_ref(), |s| json!(s)),
            "body": body_abs(&d.instructions, c)}),
        Instruction::CircuitDefinition(d) => json!({
            "k": "DefCircuit", "name": d.name, "params": d.parameters, "qubit_variables": d.qubit_variables,
            "body": body_abs(&d.instructions, c)}),
        Instruction::GateDefinition(d) => {
            let spec = match &d.specification {
                GateSpecification::Matrix(rows) => json!({"t": "matrix", "rows": rows.iter().map(|r| exprs_abs(r, mode)).collect::<Vec<_>>()}),
                GateSpecification::Permutation(p) => json!({"t": "perm", "p": p}),
                GateSpecification::PauliSum(s) => json!({
                    "t": "pauli", "args": s.arguments,
                    "terms": s.terms.iter().map(|t| json!({
                        "word": t.arguments.iter().map(|(g, _)| format!("{g:?}")).collect::<String>(),
                        "e": expr_abs(&t.expression, mode),
                        "args": t.arguments.iter().map(|(_, a)| a.clone()).collect::<Vec<_>>()})).collect::<Vec<_>>()}),
                GateSpecification::Sequence(s) => {
                    // DefGateSequence keeps its fields private: read them back from the printed definition
                    let (qubits, gates) = sequence_parts(d);
                    let _ = s;
                    json!({"t": "seq", "qubits": qubits, "gates": gates.iter().map(|g| gate_abs(g, c)).collect::<Vec<_>>()})
                }
            };
            json!({"k": "DefGate", "name": d.name, "params": d.parameters, "spec": spec})
        }
        Instruction::WaveformDefinition(d) => {
            let (base, ext) = split_wf_name(&d.name);
            json!({"k": "DefWaveform", "base": base, "ext": ext, "params": d.definition.parameters,
                   "matrix": exprs_abs(&d.definition.matrix, mode)})
        }
        Instruction::FrameDefinition(d) => json!({
            "k": "DefFrame", "id": frame_abs(&d.identifier, c.ph),
            "attrs": d.attributes.iter().map(|(k, v)| json!({"key": k, "val": match v {
                AttributeValue::String(s) => json!({"t": "str", "s": chars(s)}),
                AttributeValue::Expression(e) => json!({"t": "expr", "e": expr_abs(e, mode)})}})).collect::<Vec<_>>()}),
        Instruction::Declaration(d) => json!({
            "k": "Declare", "name": d.name, "size": {"ty": d.size.data_type.to_quil_or_debug(), "len": d.size.length},
            "sharing": opt(d.sharing.as_ref(), |s| json!({
                "name": s.name,
                "offsets": s.offsets.iter().map(|o| json!({"offset": o.offset, "ty": o.data_type.to_quil_or_debug()})).collect::<Vec<_>>()}))}),
        Instruction::Measurement(m) => json!({
            "k": "Measure", "name": opt(m.name.as_ref(), |s| json!(s)), "qubit": qubit_abs(&m.qubit, c.ph),
            "target": opt(m.target.as_ref(), mref_abs)}),
        Instruction::Reset(r) => {
            let q = r.qubit.as_ref().map(|q| qubit_abs(q, c.ph));
            json!({"k": "Reset", "qubit": opt(q, |v| v)})
        }
        Instruction::Delay(d) => json!({
            "k": "Delay", "duration": expr_abs(&d.duration, mode),
            "frame_names": d.frame_names.iter().map(|s| chars(s)).collect::<Vec<_>>(), "qubits": qubits_abs(&d.qubits, c.ph)}),
        Instruction::Fence(f) => json!({"k": "Fence", "qubits": qubits_abs(&f.qubits, c.ph)}),
        Instruction::Pulse(p) => json!({
            "k": "Pulse", "blocking": p.blocking, "frame": frame_abs(&p.frame, c.ph), "waveform": wf_abs(&p.waveform, mode)}),
        Instruction::Capture(p) => json!({
            "k": "Capture", "blocking": p.blocking, "frame": frame_abs(&p.frame, c.ph), "waveform": wf_abs(&p.waveform, mode),
            "mref": mref_abs(&p.memory_reference)}),
        Instruction::RawCapture(p) => json!({
            "k": "RawCapture", "blocking": p.blocking, "frame": frame_abs(&p.frame, c.ph),
            "duration": expr_abs(&p.duration, mode), "mref": mref_abs(&p.memory_reference)}),
        Instruction::SetFrequency(p) => json!({"k": "FrameExpr", "cmd": "SET-FREQUENCY", "frame": frame_abs(&p.frame, c.ph), "e": expr_abs(&p.frequency, mode)}),
        Instruction::SetPhase(p) => json!({"k": "FrameExpr", "cmd": "SET-PHASE", "frame": frame_abs(&p.frame, c.ph), "e": expr_abs(&p.phase, mode)}),
        Instruction::SetScale(p) => json!({"k": "FrameExpr", "cmd": "SET-SCALE", "frame": frame_abs(&p.frame, c.ph), "e": expr_abs(&p.scale, mode)}),
        Instruction::ShiftFrequency(p) => json!({"k": "FrameExpr", "cmd": "SHIFT-FREQUENCY", "frame": frame_abs(&p.frame, c.ph), "e": expr_abs(&p.frequency, mode)}),
        Instruction::ShiftPhase(p) => json!({"k": "FrameExpr", "cmd": "SHIFT-PHASE", "frame": frame_abs(&p.frame, c.ph), "e": expr_abs(&p.phase, mode)}),
        Instruction::SwapPhases(p) => json!({"k": "SwapPhases", "frame_1": frame_abs(&p.frame_1, c.ph), "frame_2": frame_abs(&p.frame_2, c.ph)}),
        Instruction::Arithmetic(a) => json!({"k": "Arith", "op": a.operator.to_quil_or_debug(), "dst": mref_abs(&a.destination), "src": arith_operand(&a.source)}),
        Instruction::BinaryLogic(a) => json!({"k": "Logic", "op": a.operator.to_quil_or_debug(), "dst": mref_abs(&a.destination),
            "src": match &a.source {
                BinaryOperand::LiteralInteger(v) => int_operand(*v),
                BinaryOperand::MemoryReference(m) => json!({"t": "mref", "m": mref_abs(m)})}}),
        Instruction::Move(a) => json!({"k": "Move", "dst": mref_abs(&a.destination), "src": arith_operand(&a.source)}),
        Instruction::UnaryLogic(a) => json!({"k": "Unary", "op": a.operator.to_quil_or_debug(), "operand": mref_abs(&a.operand)}),
        Instruction::Comparison(a) => json!({"k": "Compare", "op": a.operator.to_quil_or_debug(), "dst": mref_abs(&a.destination),
            "lhs": mref_abs(&a.lhs), "rhs": match &a.rhs {
                ComparisonOperand::LiteralInteger(v) => int_operand(*v),
                ComparisonOperand::LiteralReal(v) => real_operand(*v),
                ComparisonOperand::MemoryReference(m) => json!({"t": "mref", "m": mref_abs(m)})}}),
        Instruction::Convert(a) => json!({"k": "Convert", "dst": mref_abs(&a.destination), "src": mref_abs(&a.source)}),
        Instruction::Exchange(a) => json!({"k": "Exchange", "left": mref_abs(&a.left), "right": mref_abs(&a.right)}),
        Instruction::Load(a) => json!({"k": "Load", "dst": mref_abs(&a.destination), "source": a.source, "offset": mref_abs(&a.offset)}),
        Instruction::Store(a) => json!({"k": "Store", "destination": a.destination, "offset": mref_abs(&a.offset), "src": arith_operand(&a.source)}),
        Instruction::Label(l) => json!({"k": "Label", "target": target_abs(&l.target, c.ph)}),
        Instruction::Jump(l) => json!({"k": "Jump", "target": target_abs(&l.target, c.ph)}),
        Instruction::JumpWhen(l) => json!({"k": "JumpWhen", "target": target_abs(&l.target, c.ph), "cond": mref_abs(&l.condition)}),
        Instruction::JumpUnless(l) => json!({"k": "JumpUnless", "target": target_abs(&l.target, c.ph), "cond": mref_abs(&l.condition)}),
        Instruction::Halt() => json!({"k": "Halt"}),
        Instruction::Nop() => json!({"k": "Nop"}),
        Instruction::Wait() => json!({"k": "Wait"}),
        Instruction::Pragma(p) => json!({
            "k": "Pragma", "name": p.name,
            "args": p.arguments.iter().map(|a| match a {
                PragmaArgument::Identifier(s) => json!({"t": "id", "s": s}),
                PragmaArgument::Integer(n) => json!({"t": "int", "lex": n.to_string()})}).collect::<Vec<_>>(),
            "data": opt(p.data.as_ref(), |s| chars(s))}),
        Instruction::Include(x) => json!({"k": "Include", "filename": chars(&x.filename)}),
        Instruction::Call(x) => json!({
            "k": "Call", "name": x.name,
            "args": x.arguments().iter().map(|a| match a {
                UnresolvedCallArgument::Identifier(s) => json!({"t": "id", "s": s}),
                UnresolvedCallArgument::MemoryReference(m) => json!({"t": "mref", "m": mref_abs(m)}),
                UnresolvedCallArgument::Immediate(v) => json!({"t": "imm", "v": if mode == ExprMode::Value {
                    json!({"t": "val", "v": [[v.re, v.im]]}) } else { num_abs(v) }})}).collect::<Vec<_>>()}),
    }
}

/// qubit parameters and gates of a SEQUENCE gate definition (DefGateSequence has no public accessors): re-read
/// them from the definition's own printed form with a non-sequence-validating parse of the lines.
fn sequence_parts(d: &GateDefinition) -> (Vec<String>, Vec<Gate>) {
    let text = d.to_quil_or_debug();
    let mut lines = text.lines();
    let head = lines.next().unwrap_or("");
    // DEFGATE name(params) q1 q2 AS SEQUENCE:
    let before_as = head.rsplit_once(" AS ").map(|x| x.0).unwrap_or(head);
    let after_name = match before_as.find(')') {
        Some(i) => &before_as[i + 1..],
        None => before_as.splitn(3, ' ').nth(2).unwrap_or(""),
    };
    let qubits: Vec<String> = after_name.split_whitespace().map(|s| s.to_string()).collect();
    let gates = lines
        .filter(|l| !l.trim().is_empty())
        .map(|l| match Instruction::from_str(l.trim()) {
            Ok(Instruction::Gate(g)) => g,
            other => panic!("harness: sequence element {l:?} is not a gate: {other:?}"),
        })
        .collect();
    (qubits, gates)
}

// ------------------------------------------------------------------------------------ from_abs

pub fn qubit_from(v: &Value, ph: &mut PhCtx) -> Qubit {
    match st(v, "t").as_str() {
        "fixed" => Qubit::Fixed(v["n"].as_u64().unwrap()),
        "var" => Qubit::Variable(st(v, "s")),
        _ => Qubit::Placeholder(ph.qubits.entry(v["id"].as_u64().unwrap()).or_default().clone()),
    }
}
fn target_from(v: &Value, ph: &mut PhCtx) -> Target {
    match st(v, "t").as_str() {
        "fixed" => Target::Fixed(st(v, "s")),
        _ => Target::Placeholder(
            ph.targets.entry(v["id"].as_u64().unwrap()).or_insert_with(|| TargetPlaceholder::new("label".to_string())).clone()),
    }
}
pub fn mref_from(v: &Value) -> MemoryReference {
    MemoryReference::new(st(v, "name"), v["index"].as_u64().unwrap())
}
pub fn expr_from(v: &Value) -> Expression {
    let a = match st(v, "t").as_str() {
        "num" => interned::number(num_val(v)),
        "pi" => interned::pi(),
        "var" => interned::variable(st(v, "v")),
        "addr" => interned::address(mref_from(&v["m"])),
        "neg" => interned::prefix(PrefixOperator::Minus, expr_from(&v["e"]).into()),
        "pos" => interned::prefix(PrefixOperator::Plus, expr_from(&v["e"]).into()),
        "inf" => {
            let op = match st(v, "op").as_str() {
                "+" => InfixOperator::Plus,
                "-" => InfixOperator::Minus,
                "*" => InfixOperator::Star,
                "/" => InfixOperator::Slash,
                "^" => InfixOperator::Caret,
                o => panic!("operator {o}"),
            };
            interned::infix(expr_from(&v["l"]).into(), op, expr_from(&v["r"]).into())
        }
        "fn" => {
            let f = match st(v, "f").as_str() {
                "cis" => ExpressionFunction::Cis,
                "cos" => ExpressionFunction::Cosine,
                "exp" => ExpressionFunction::Exponent,
                "sin" => ExpressionFunction::Sine,
                "sqrt" => ExpressionFunction::SquareRoot,
                o => panic!("function {o}"),
            };
            interned::function_call(f, expr_from(&v["e"]).into())
        }
        o => panic!("expression tag {o}"),
    };
    (*a).clone()
}

fn exprs_from(v: &Value, k: &str) -> Vec<Expression> {
    seq(v, k).iter().map(expr_from).collect()
}
fn qubits_from(v: &Value, k: &str, ph: &mut PhCtx) -> Vec<Qubit> {
    seq(v, k).iter().map(|q| qubit_from(q, ph)).collect()
}
fn frame_from(v: &Value, ph: &mut PhCtx) -> FrameIdentifier {
    FrameIdentifier::new(unchars(&v["name"]), qubits_from(v, "qubits", ph))
}
fn wf_name_from(v: &Value) -> String {
    match get_opt(&v["ext"]) {
        Some(e) => format!("{}/{}", st(v, "base"), e.as_str().unwrap()),
        None => st(v, "base"),
    }
}
fn wf_from(v: &Value) -> WaveformInvocation {
    let mut p = WaveformParameters::new();
    for kv in seq(v, "params") {
        p.insert(st(kv, "key"), expr_from(&kv["val"]));
    }
    WaveformInvocation::new(wf_name_from(v), p)
}
fn signed_i64(v: &Value) -> i64 {
    let m: i128 = st(v, "lex").parse().expect("integer lexeme");
    let x = if v["neg"].as_bool().unwrap() { -m } else { m };
    i64::try_from(x).expect("i64 operand")
}
fn signed_f64(v: &Value) -> f64 {
    let m: f64 = st(v, "lex").parse().expect("real lexeme");
    if v["neg"].as_bool().unwrap() {
        -m
    } else {
        m
    }
}
fn arith_operand_from(v: &Value) -> ArithmeticOperand {
    match st(v, "t").as_str() {
        "int" => ArithmeticOperand::LiteralInteger(signed_i64(v)),
        "real" => ArithmeticOperand::LiteralReal(signed_f64(v)),
        _ => ArithmeticOperand::MemoryReference(mref_from(&v["m"])),
    }
}
fn mods_from(v: &Value) -> Vec<GateModifier> {
    strs(v, "mods")
        .iter()
        .map(|m| match m.as_str() {
            "CONTROLLED" => GateModifier::Controlled,
            "DAGGER" => GateModifier::Dagger,
            "FORKED" => GateModifier::Forked,
            o => panic!("modifier {o}"),
        })
        .collect()
}
fn scalar_from(s: &str) -> ScalarType {
    match s {
        "BIT" => ScalarType::Bit,
        "INTEGER" => ScalarType::Integer,
        "OCTET" => ScalarType::Octet,
        "REAL" => ScalarType::Real,
        o => panic!("scalar type {o}"),
    }
}
fn gate_from(v: &Value, ph: &mut PhCtx) -> Gate {
    Gate::new(&st(v, "name"), exprs_from(v, "params"), qubits_from(v, "qubits", ph), mods_from(v))
        .unwrap_or_else(|e| panic!("harness: alphabet gate rejected by Gate::new: {e}"))
}
fn body_from(v: &Value, ph: &mut PhCtx) -> Vec<Instruction> {
    seq(v, "body").iter().map(|i| from_abs_with(i, ph)).collect()
}

#[allow(dead_code)]
pub fn from_abs(v: &Value) -> Instruction {
    let mut ph = PhCtx::default();
    from_abs_with(v, &mut ph)
}

/// Build the real instruction through the public constructors (a constructor that rejects an alphabet value is a
/// harness/alphabet error and panics: the alphabets only hold well-formed values).
pub fn from_abs_with(v: &Value, ph: &mut PhCtx) -> Instruction {
    let k = st(v, "k");
    match k.as_str() {
        "Gate" => Instruction::Gate(gate_from(v, ph)),
        "DefCal" => Instruction::CalibrationDefinition(CalibrationDefinition::new(
            CalibrationIdentifier::new(st(v, "name"), mods_from(v), exprs_from(v, "params"), qubits_from(v, "qubits", ph))
                .expect("calibration identifier"),
            body_from(v, ph),
        )),
        "DefCalMeasure" => Instruction::MeasureCalibrationDefinition(MeasureCalibrationDefinition::new(
            MeasureCalibrationIdentifier::new(
                get_opt(&v["name"]).map(|s| s.as_str().unwrap().to_string()),
                qubit_from(&v["qubit"], ph),
                get_opt(&v["target"]).map(|s| s.as_str().unwrap().to_string()),
            ),
            body_from(v, ph),
        )),
        "DefCircuit" => Instruction::CircuitDefinition(CircuitDefinition::new(
            st(v, "name"),
            strs(v, "params"),
            strs(v, "qubit_variables"),
            body_from(v, ph),
        )),
        "DefGate" => {
            let sp = &v["spec"];
            let spec = match st(sp, "t").as_str() {
                "matrix" => GateSpecification::Matrix(seq(sp, "rows").iter().map(|r| r.as_array().unwrap().iter().map(expr_from).collect()).collect()),
                "perm" => GateSpecification::Permutation(seq(sp, "p").iter().map(|n| n.as_u64().unwrap()).collect()),
                "pauli" => {
                    let terms = seq(sp, "terms")
                        .iter()
                        .map(|t| {
                            let word: Vec<PauliGate> = st(t, "word")
                                .chars()
                                .map(|c| PauliGate::from_str(&c.to_string()).expect("pauli letter"))
                                .collect();
                            PauliTerm::new(word.into_iter().zip(strs(t, "args")).collect(), expr_from(&t["e"]))
                        })
                        .collect();
                    GateSpecification::PauliSum(PauliSum::new(strs(sp, "args"), terms).expect("pauli sum"))
                }
                "seq" => GateSpecification::Sequence(
                    DefGateSequence::try_new(strs(sp, "qubits"), seq(sp, "gates").iter().map(|g| gate_from(g, ph)).collect())
                        .expect("gate sequence"),
                ),
                o => panic!("gate specification {o}"),
            };
            Instruction::GateDefinition(GateDefinition::new(st(v, "name"), strs(v, "params"), spec).expect("gate definition"))
        }
        "DefWaveform" => Instruction::WaveformDefinition(WaveformDefinition::new(
            wf_name_from(v),
            Waveform::new(exprs_from(v, "matrix"), strs(v, "params")),
        )),
        "DefFrame" => {
            let mut attrs = FrameAttributes::new();
            for a in seq(v, "attrs") {
                let val = if st(&a["val"], "t") == "str" {
                    AttributeValue::String(unchars(&a["val"]["s"]))
                } else {
                    AttributeValue::Expression(expr_from(&a["val"]["e"]))
                };
                attrs.insert(st(a, "key"), val);
            }
            Instruction::FrameDefinition(FrameDefinition::new(frame_from(&v["id"], ph), attrs))
        }
        "Declare" => Instruction::Declaration(Declaration::new(
            st(v, "name"),
            Vector::new(scalar_from(&st(&v["size"], "ty")), v["size"]["len"].as_u64().unwrap()),
            get_opt(&v["sharing"]).map(|s| {
                Sharing::new(
                    st(s, "name"),
                    seq(s, "offsets").iter().map(|o| Offset::new(o["offset"].as_u64().unwrap(), scalar_from(&st(o, "ty")))).collect(),
                )
            }),
        )),
        "Measure" => Instruction::Measurement(Measurement::new(
            get_opt(&v["name"]).map(|s| s.as_str().unwrap().to_string()),
            qubit_from(&v["qubit"], ph),
            get_opt(&v["target"]).map(mref_from),
        )),
        "Reset" => Instruction::Reset(Reset::new(get_opt(&v["qubit"]).map(|q| qubit_from(q, ph)))),
        "Delay" => Instruction::Delay(Delay::new(
            expr_from(&v["duration"]),
            seq(v, "frame_names").iter().map(unchars).collect(),
            qubits_from(v, "qubits", ph),
        )),
        "Fence" => Instruction::Fence(Fence::new(qubits_from(v, "qubits", ph))),
        "Pulse" => Instruction::Pulse(Pulse::new(v["blocking"].as_bool().unwrap(), frame_from(&v["frame"], ph), wf_from(&v["waveform"]))),
        "Capture" => Instruction::Capture(Capture::new(
            v["blocking"].as_bool().unwrap(),
            frame_from(&v["frame"], ph),
            mref_from(&v["mref"]),
            wf_from(&v["waveform"]),
        )),
        "RawCapture" => Instruction::RawCapture(RawCapture::new(
            v["blocking"].as_bool().unwrap(),
            frame_from(&v["frame"], ph),
            expr_from(&v["duration"]),
            mref_from(&v["mref"]),
        )),
        "FrameExpr" => {
            let f = frame_from(&v["frame"], ph);
            let e = expr_from(&v["e"]);
            match st(v, "cmd").as_str() {
                "SET-FREQUENCY" => Instruction::SetFrequency(SetFrequency::new(f, e)),
                "SET-PHASE" => Instruction::SetPhase(SetPhase::new(f, e)),
                "SET-SCALE" => Instruction::SetScale(SetScale::new(f, e)),
                "SHIFT-FREQUENCY" => Instruction::ShiftFrequency(ShiftFrequency::new(f, e)),
                "SHIFT-PHASE" => Instruction::ShiftPhase(ShiftPhase::new(f, e)),
                o => panic!("frame command {o}"),
            }
        }
        "SwapPhases" => Instruction::SwapPhases(SwapPhases::new(frame_from(&v["frame_1"], ph), frame_from(&v["frame_2"], ph))),
        "Arith" => Instruction::Arithmetic(Arithmetic::new(
            match st(v, "op").as_str() {
                "ADD" => ArithmeticOperator::Add,
                "SUB" => ArithmeticOperator::Subtract,
                "MUL" => ArithmeticOperator::Multiply,
                "DIV" => ArithmeticOperator::Divide,
                o => panic!("arithmetic operator {o}"),
            },
            mref_from(&v["dst"]),
            arith_operand_from(&v["src"]),
        )),
        "Logic" => Instruction::BinaryLogic(BinaryLogic::new(
            match st(v, "op").as_str() {
                "AND" => BinaryOperator::And,
                "IOR" => BinaryOperator::Ior,
                "XOR" => BinaryOperator::Xor,
                "SHL" => BinaryOperator::Shl,
                "SHR" => BinaryOperator::Shr,
                "ASHR" => BinaryOperator::Ashr,
                o => panic!("logic operator {o}"),
            },
            mref_from(&v["dst"]),
            if st(&v["src"], "t") == "int" {
                BinaryOperand::LiteralInteger(signed_i64(&v["src"]))
            } else {
                BinaryOperand::MemoryReference(mref_from(&v["src"]["m"]))
            },
        )),
        "Move" => Instruction::Move(Move::new(mref_from(&v["dst"]), arith_operand_from(&v["src"]))),
        "Unary" => Instruction::UnaryLogic(UnaryLogic::new(
            if st(v, "op") == "NEG" { UnaryOperator::Neg } else { UnaryOperator::Not },
            mref_from(&v["operand"]),
        )),
        "Compare" => Instruction::Comparison(Comparison::new(
            match st(v, "op").as_str() {
                "EQ" => ComparisonOperator::Equal,
                "GE" => ComparisonOperator::GreaterThanOrEqual,
                "GT" => ComparisonOperator::GreaterThan,
                "LE" => ComparisonOperator::LessThanOrEqual,
                "LT" => ComparisonOperator::LessThan,
                o => panic!("comparison operator {o}"),
            },
            mref_from(&v["dst"]),
            mref_from(&v["lhs"]),
            match st(&v["rhs"], "t").as_str() {
                "int" => ComparisonOperand::LiteralInteger(signed_i64(&v["rhs"])),
                "real" => ComparisonOperand::LiteralReal(signed_f64(&v["rhs"])),
                _ => ComparisonOperand::MemoryReference(mref_from(&v["rhs"]["m"])),
            },
        )),
        "Convert" => Instruction::Convert(Convert::new(mref_from(&v["dst"]), mref_from(&v["src"]))),
        "Exchange" => Instruction::Exchange(Exchange::new(mref_from(&v["left"]), mref_from(&v["right"]))),
        "Load" => Instruction::Load(Load::new(mref_from(&v["dst"]), st(v, "source"), mref_from(&v["offset"]))),
        "Store" => Instruction::Store(Store::new(st(v, "destination"), mref_from(&v["offset"]), arith_operand_from(&v["src"]))),
        "Label" => Instruction::Label(Label::new(target_from(&v["target"], ph))),
        "Jump" => Instruction::Jump(Jump::new(target_from(&v["target"], ph))),
        "JumpWhen" => Instruction::JumpWhen(JumpWhen::new(target_from(&v["target"], ph), mref_from(&v["cond"]))),
        "JumpUnless" => Instruction::JumpUnless(JumpUnless::new(target_from(&v["target"], ph), mref_from(&v["cond"]))),
        "Halt" => Instruction::Halt(),
        "Nop" => Instruction::Nop(),
        "Wait" => Instruction::Wait(),
        "Pragma" => Instruction::Pragma(Pragma::new(
            st(v, "name"),
            seq(v, "args")
                .iter()
                .map(|a| {
                    if st(a, "t") == "id" {
                        PragmaArgument::Identifier(st(a, "s"))
                    } else {
                        PragmaArgument::Integer(st(a, "lex").parse().expect("pragma integer"))
                    }
                })
                .collect(),
            get_opt(&v["data"]).map(unchars),
        )),
        "Include" => Instruction::Include(Include::new(unchars(&v["filename"]))),
        "Call" => Instruction::Call(
            Call::try_new(
                st(v, "name"),
                seq(v, "args")
                    .iter()
                    .map(|a| match st(a, "t").as_str() {
                        "id" => UnresolvedCallArgument::Identifier(st(a, "s")),
                        "mref" => UnresolvedCallArgument::MemoryReference(mref_from(&a["m"])),
                        _ => UnresolvedCallArgument::Immediate(num_val(&a["v"])),
                    })
                    .collect(),
            )
            .expect("call"),
        ),
        o => panic!("instruction kind {o}"),
    }
}

pub fn program_abs(p: &Program) -> Vec<Value> {
    let mut ph = PhCtx::default();
    p.to_instructions().iter().map(|i| to_abs_with(i, &mut AbsCtx { mode: ExprMode::Structure, ph: &mut ph })).collect()
}

/// the model's magnitudes carry a stand-in value `q`; the real ones do not: compare without it
pub fn strip_q(v: &Value) -> Value {
    match v {
        Value::Object(m) => {
            let mut o = Map::new();
            for (k, x) in m {
                if k == "q" && m.contains_key("r") && m.contains_key("i") {
                    continue;
                }
                o.insert(k.clone(), strip_q(x));
            }
            Value::Object(o)
        }
        Value::Array(a) => Value::Array(a.iter().map(strip_q).collect()),
        other => other.clone(),
    }
}

// ------------------------------------------------------------------------------------ C02: the property

/// What the statement demands for one accepted text.  `None` = holds.
pub struct RoundTrip {
    pub parsed: Option<Program>,
    pub t1: Option<String>,
    pub failure: Option<(String, Value, Value)>, // observable, expected, actual
}

pub fn round_trip(text: &str) -> RoundTrip {
    let p = match Program::from_str(text) {
        Ok(p) => p,
        Err(_) => return RoundTrip { parsed: None, t1: None, failure: None },
    };
    let t1 = match p.to_quil() {
        Ok(t) => t,
        Err(e) => {
            return RoundTrip { parsed: Some(p), t1: None, failure: Some(("serialization of the parsed program".into(), json!("Ok"), json!(e.to_string()))) }
        }
    };
    let failure = match Program::from_str(&t1) {
        Err(e) => Some(("printed text parses".to_string(), json!("Ok"), json!(format!("{e}")))),
        Ok(p1) => {
            if p1 != p {
                Some(("re-parsed program equals the program".to_string(), json!(program_abs(&p)), json!(program_abs(&p1))))
            } else {
                match p1.to_quil() {
                    Err(e) => Some(("second serialization".to_string(), json!("Ok"), json!(e.to_string()))),
                    Ok(t2) if t2 != t1 => Some(("second serialization is byte-identical".to_string(), json!(t1), json!(t2))),
                    // a table kept in a hash map lists its entries in an order that varies from one Program value to
                    // the next: parse and print a few more times (each parse builds fresh tables)
                    Ok(_) => (0..6).find_map(|k| match Program::from_str(&t1).ok().and_then(|q| q.to_quil().ok()) {
                        Some(tk) if tk == t1 => None,
                        other => Some((format!("second serialization is byte-identical (repetition {k})"), json!(t1), json!(other))),
                    }),
                }
            }
        }
    };
    RoundTrip { parsed: Some(p), t1: Some(t1), failure }
}

fn has_operands(p: &Program) -> bool {
    p.to_instructions().iter().any(|i| !matches!(i, Instruction::Nop() | Instruction::Halt() | Instruction::Wait()))
}

pub fn replay(_ctx: &Ctx, case: &Value) -> Outcome {
    if let Some(h) = case.get("history") {
        let text = st(&h[0], "src");
        let rt = round_trip(&text);
        let mut o = Outcome::ok(rt.parsed.as_ref().map(has_operands).unwrap_or(false));
        if let Some((obs, want, got)) = rt.failure {
            o.violate(Violation::new(&obs, want, got).note(format!("source {text:?}")));
        }
        return o;
    }
    let text = st(case, "text");
    let rt = round_trip(&text);
    let Some(p) = rt.parsed.as_ref() else {
        // the statement only speaks about texts the parser accepts; the model printed a text it expects to parse
        let mut o = Outcome::ok(false);
        o.diverge(format!("the parser rejects the model's text {text:?}"));
        return o;
    };
    let mut o = Outcome::ok(has_operands(p));
    for i in p.to_instructions() {
        o.count(&st(&to_abs(&i), "k"));
    }
    if let Some((obs, want, got)) = rt.failure {
        o.violate(Violation::new(&obs, want, got).note(format!("source {text:?}, printed {:?}", rt.t1)));
        return o;
    }
    // model vs code (informational): listing and printed text
    let want_listing = strip_q(&case["listing"]);
    let got_listing = strip_q(&Value::Array(program_abs(p)));
    if want_listing != got_listing {
        o.diverge(format!("parsed listing differs from the model's: {got_listing} vs {want_listing}"));
    }
    if rt.t1.as_deref() != case["t1"].as_str() {
        o.diverge(format!("printed text {:?} differs from the model's {:?} (it still round-trips)", rt.t1, case["t1"].as_str()));
    }
    o
}

// ------------------------------------------------------------------------------------------- drive

/// Spellings the printer never emits (and a few it does), one snippet per entry; every instruction kind.
pub const CORPUS: &[&str] = &[
    "X 0", "CNOT 0 1", "RX(pi/2) 0", "RX(-(-pi)) 0", "RX(2^3^2) 0", "RX(1-2-3) 0", "RX(-2^2) 0", "RX(2*-3) 0", "RX(1+2i) 0",
    "RX(-(1+2.0i)) 0", "RX((1+2i)*%x) 0", "RX(pi^(1+2i)) 0", "RX(PI) 0", "RX(SIN(%theta)) 0", "RX(i) 0", "RX(2 i) 0",
    "RX(1.5e3) 0", "RX(1E-3) 0", "RX(.5) 0", "RX(1.) 0", "RX(0x10) 0", "RX(0b101) 0", "RX(0o17) 0", "RX(1_000) 0",
    "RX(theta) 0", "RX(theta[2] - 1) 0", "RX(cis(-%x)/sqrt(2)) 0", "RX(exp(i*pi)) 0", "RX(%a, %b) q r", "RX(((%x))) 0",
    "DAGGER X 0", "CONTROLLED DAGGER RX(%x) 0 1", "FORKED RY(pi, pi/2) 0 1", "my-gate 0 q", "G %q",
    "MEASURE 0", "MEASURE 0 ro", "MEASURE 0 ro[1]", "MEASURE q ro[0]", "MEASURE!fast 0 ro[0]", "MEASURE!fast q",
    "RESET", "RESET 0", "RESET q", "FENCE", "FENCE 0 1", "FENCE q",
    "DELAY 0 1.0", "DELAY 0 1", "DELAY 0 1 2", "DELAY 0 \"rf\" 1e-6", "DELAY 0 1 \"rf\" \"ro_rx\" 2*pi", "DELAY q theta[0]",
    "DELAY 0 theta", "DELAY 0 sin(1)", "DELAY q %x - 1", "DELAY 0 2 - 1", "DELAY 0 %t", "DELAY 0 pi/2", "DELAY 0 -1",
    "PULSE 0 \"rf\" flat(duration: 1.0, iq: 1.0)", "PULSE 0 1 \"cz\" my/wf", "NONBLOCKING PULSE 0 \"rf\" gaussian(t0: 1, fwhm: 2, duration: 3)",
    "PULSE 0 \"rf\" flat()", "PULSE 0 \"a\\\"b\\\\\" wf(iq: 1+2i, duration: -1)", "CAPTURE 0 \"ro\" flat(duration: 1.0, iq: 1.0) ro[0]",
    "NONBLOCKING CAPTURE 0 \"ro\" boxcar_kernel(duration: 1e-6) ro", "RAW-CAPTURE 0 \"ro\" 1e-6 ro[0]", "NONBLOCKING RAW-CAPTURE 0 \"ro\" 2*%t iq",
    "SET-FREQUENCY 0 \"rf\" 5e9", "SET-PHASE 0 \"rf\" pi/2", "SET-SCALE 0 \"rf\" 0.5", "SHIFT-FREQUENCY 0 1 \"cz\" -1e6", "SHIFT-PHASE 0 \"rf\" theta[0]",
    "SHIFT-PHASE 0 \"rf\" -theta", "SWAP-PHASES 0 \"rf\" 1 \"rf\"",
    "ADD ro 1", "ADD ro[1] -1", "SUB r 2.0", "MUL r -0.5", "DIV r r2[3]", "MOVE ro 0x1F", "MOVE r 1e20", "MOVE r 1E-7", "MOVE r .5", "MOVE r 2.", "MOVE r r2",
    "AND ro 1", "IOR ro ro2[1]", "XOR ro -3", "SHL i2 2", "SHR i2 1", "ASHR i2 i3", "NEG r", "NOT ro[0]",
    "EQ ro r r2", "GE ro[0] r[1] 2", "GT ro r 2.5", "LE ro r -1", "LT ro r -1.5", "CONVERT r ro", "EXCHANGE r r2[1]", "LOAD r rs idx", "STORE rs idx[1] 2.0", "STORE rs idx r",
    "LABEL @start", "JUMP @start", "JUMP-WHEN @loop-1 ro", "JUMP-UNLESS @END ro[2]", "HALT", "NOP", "WAIT",
    "PRAGMA foo", "PRAGMA INITIAL_REWIRING \"PARTIAL\"", "PRAGMA LOAD-MEMORY q0 1 \"addr\"", "PRAGMA EXTERN f \"INTEGER (x : REAL)\"", "PRAGMA x 0x10",
    "INCLUDE \"lib.quil\"", "INCLUDE \"a \\\"b\\\" \\\\ c\"",
    "CALL f", "CALL f ro", "CALL f ro[1] 2 3.5 2.0i theta", "CALL f 1i",
    "DECLARE ro BIT", "DECLARE r REAL[4]", "DECLARE o OCTET[2]", "DECLARE i2 INTEGER[3] SHARING r", "DECLARE b BIT[8] SHARING r OFFSET 2 BIT 1 REAL",
    "DEFGATE G:\n    1, 0\n    0, 1", "DEFGATE G AS MATRIX:\n\t1/sqrt(2), 1/sqrt(2)\n\t1/sqrt(2), -1/sqrt(2)", "DEFGATE G(%a) AS MATRIX:\n    cos(%a), -i*sin(%a)\n    -i*sin(%a), cos(%a)",
    "DEFGATE P AS PERMUTATION:\n    0, 1, 3, 2", "DEFGATE U(%t) p q AS PAULI-SUM:\n    XY(-%t/4) p q\n    Z(pi) q",
    "DEFGATE S2(%t) a b AS SEQUENCE:\n    H a\n    RX(%t) b\n    CNOT a b",
    "DEFCIRCUIT BELL a b:\n    H a\n    CNOT a b", "DEFCIRCUIT ROT(%t) q:\n    RX(%t) q\n    MEASURE q ro[0]", "DEFCIRCUIT NOARGS:\n    X 0",
    "DEFWAVEFORM wf:\n    1, 0.5i, 1+1i", "DEFWAVEFORM my/wf(%a):\n    %a, 2*%a", "DEFWAVEFORM w:\n\t0.0, 1e-3 + (-2e-4)*i",
    "DEFFRAME 0 \"rf\":\n    DIRECTION: \"tx\"\n    INITIAL-FREQUENCY: 5e9\n    HARDWARE-OBJECT: \"q0_rf\"", "DEFFRAME 0 1 \"cz\":\n    SAMPLE-RATE: 1e9",
    "DEFCAL X 0:\n    PULSE 0 \"rf\" flat(duration: 1e-7, iq: 1)", "DEFCAL RX(%theta) q:\n    SHIFT-PHASE q \"rf\" -%theta/2\n    NOP",
    "DEFCAL RX(pi/2) 0:\n\tFENCE 0\n\tNOP", "DEFCAL CONTROLLED X 0 1:\n    NOP", "DEFCAL DAGGER CONTROLLED RX(%t) q 1:\n    DELAY q 1.0",
    "DEFCAL MEASURE 0 addr:\n    CAPTURE 0 \"ro\" flat(duration: 1e-6, iq: 1) addr", "DEFCAL MEASURE q:\n    NOP", "DEFCAL MEASURE!fast q dest:\n    RAW-CAPTURE q \"ro\" 1e-6 dest",
    "DEFFRAME 0 \"a\":\n    DIRECTION: \"tx\"\nDEFFRAME 0 \"b\":\n    DIRECTION: \"rx\"\nDEFFRAME 1 \"a\":\n    DIRECTION: \"tx\"\nDEFFRAME 0 1 \"cz\":\n    DIRECTION: \"tx\"\nDEFFRAME 2 \"c\":\n    SAMPLE-RATE: 1e9",
    "DECLARE a BIT\nDECLARE b REAL[2]\nDECLARE c INTEGER\nDECLARE d OCTET\nDEFWAVEFORM w1:\n    1\nDEFWAVEFORM w2:\n    2\nDEFWAVEFORM w3:\n    3\nDEFGATE A AS PERMUTATION:\n    0, 1\nDEFGATE B AS PERMUTATION:\n    1, 0\nDEFGATE C AS PERMUTATION:\n    0, 1",
    "# a comment", "X 0 # trailing comment", "X 0; Y 1", "X 0;;\n\n\nY 1",
];

fn fixture_texts(with_bench: bool) -> Vec<(String, String)> {
    let mut v = vec![];
    let mut files = vec!["tests/programs/calibration_cz.quil", "tests/programs/calibration_cz_phase.quil", "tests/programs/calibration_measure.quil",
                         "tests/programs/calibration_rx.quil", "tests/programs/calibration_xy.quil"];
    if with_bench {
        files.push("benches/sample-calibrations.quil"); // 9 294 lines: thorough tier only
    }
    for f in files {
        if let Ok(t) = std::fs::read_to_string(format!("/repo/quil-rs/{f}")) {
            v.push((f.to_string(), t));
        }
    }
    v
}

/// a seeded small edit of an accepted text (kept only if the parser still accepts the result)
fn mutate(r: &mut impl Rng, text: &str) -> String {
    let mut s = text.to_string();
    match r.gen_range(0..8) {
        0 => s = s.replace("[0]", ""),                       // bare memory references
        1 => s = s.replace("    ", "\t"),                    // tab indentation
        2 => s = s.replace('\n', "\n\n"),                     // blank lines (ends blocks)
        3 => s = s.replace(" 1", " 0x1"),                    // hexadecimal integers
        4 => s = s.replace("pi", "PI").replace("sin", "Sin"), // reserved words in other case
        5 => s = format!("# head\n{s} # tail"),
        6 => s = s.replace(", ", ","),                      // no blank after a comma
        _ => s = s.replace(" + ", "+").replace(" * ", "*").replace(" / ", "/"),
    }
    s
}

pub fn drive(ctx: &Ctx) -> Summary {
    let n = ctx.arg_u64("n", 150) as usize;
    let max_listing = ctx.arg_u64("max_listing", 40) as usize;
    let path = ctx.arg_str("out").expect("--out");
    let mut out = std::io::BufWriter::new(std::fs::File::create(path).expect("create trace"));
    let mut rng = util::rng(ctx.seed, 2);
    let mut sum = Summary::default();
    let fixtures = fixture_texts(ctx.flag("bench"));
    // instruction texts harvested from the fixtures (as the real printer writes them: one per instruction)
    let mut harvested: Vec<String> = vec![];
    for (_, t) in &fixtures {
        if let Ok(p) = Program::from_str(t) {
            harvested.extend(p.to_instructions().iter().filter_map(|i| i.to_quil().ok()));
        }
    }
    let mut sources: Vec<String> = fixtures.iter().map(|(_, t)| t.clone()).collect();
    sources.extend(CORPUS.iter().map(|s| s.to_string()));
    while sources.len() < n {
        let k = rng.gen_range(1..=4);
        let mut parts: Vec<String> = vec![];
        for _ in 0..k {
            let s = if !harvested.is_empty() && rng.gen_bool(0.4) { harvested.choose(&mut rng).unwrap().clone() } else { CORPUS.choose(&mut rng).unwrap().to_string() };
            parts.push(if rng.gen_bool(0.4) { mutate(&mut rng, &s) } else { s });
        }
        sources.push(parts.join("\n"));
    }
    sources.truncate(n.max(fixtures.len()));
    for src in &sources {
        let rt = round_trip(src);
        let Some(p) = rt.parsed.as_ref() else {
            // not an accepted text: the statement says nothing about it
            let o = Outcome::skip();
            sum.absorb(&json!({"src": src}), &o, true);
            continue;
        };
        let mut o = Outcome::ok(has_operands(p));
        let short = if src.len() > 2000 { format!("{}…", &src[..src.char_indices().nth(2000).map(|x| x.0).unwrap_or(src.len())]) } else { src.clone() };
        util::emit(&mut out, &json!({"ev": "reset", "fam": "text", "src": short}));
        let listing = program_abs(p);
        for i in &listing {
            o.count(i["k"].as_str().unwrap());
        }
        let small = listing.len() <= max_listing && rt.t1.as_ref().map(|t| t.len() < 20_000).unwrap_or(false);
        if small {
            util::emit(&mut out, &json!({"ev": "parsed", "listing": listing}));
            util::emit(&mut out, &json!({"ev": "printed", "t1": rt.t1.clone().unwrap_or_default()}));
        }
        let (reparsed, equal, same) = match &rt.failure {
            None => (true, true, true),
            Some((obs, _, _)) => (obs != "printed text parses" && obs != "serialization of the parsed program",
                                  !obs.starts_with("re-parsed program") && obs != "printed text parses" && obs != "serialization of the parsed program",
                                  false),
        };
        util::emit(&mut out, &json!({"ev": "done", "reparsed": reparsed, "equal": equal, "same": same}));
        if let Some((obs, want, got)) = rt.failure {
            o.violate(Violation::new(&obs, want, got).note(format!("source {short:?}")));
        }
        o.count_n("events", if small { 4 } else { 2 });
        sum.absorb(&json!({"src": short}), &o, true);
    }
    sum
}
