//! C26 — default frame matching follows the Quil-T frame rules.
//!
//! replay: TLC cases {frames, uq, instr, want} from spec/mc/MC_FrameMatch.tla: a program defining `frames` and
//!         using the qubits `uq` is built, `DefaultHandler.matching_frames(&program, &instr)` is called and the
//!         used / blocked sets are compared with what the rules of the property demand (`want`, computed by TLC
//!         from FrameMatch!UsedBy / BlockedBy).  `want` IS the property, so a difference is a violation.
//! drive:  seeded random larger frame sets (up to 12 frames over 5 qubits and 4 names), instructions and used
//!         qubit sets; the real results are recorded for spec/trace/FrameMatchTrace.tla.
//! Shared code (abstraction function) lives in c22.rs.

use super::c22::{abs_frame, abs_instr, not_reproduced, text_frame, try_real_instr};
use crate::runner::{Outcome, Summary, Violation};
use crate::util::{self, arr, s};
use crate::Ctx;
use quil_rs::instruction::{DefaultHandler, Instruction, InstructionHandler};
use quil_rs::quil::Quil;
use quil_rs::Program;
use rand::seq::SliceRandom;
use rand::Rng;
use serde_json::{json, Value};

/// DEFFRAMEs for `frames`, and one gate per used qubit (gates put their qubits into the used-qubit set).
fn program_for(frames: &[Value], uq: &[u64]) -> Program {
    let mut t = String::new();
    for f in frames {
        t.push_str(&format!("DEFFRAME {}:\n    SAMPLE-RATE: 1.0\n", text_frame(f)));
    }
    for q in uq {
        t.push_str(&format!("X {q}\n"));
    }
    util::program(&t)
}

fn sorted(mut v: Vec<Value>) -> Value {
    v.sort_by_key(|x| x.to_string());
    Value::Array(v)
}

/// the real result in the model's encoding: {"some": {"used": [...], "blocked": [...]}} | {"none": true}
fn real_matching(program: &Program, i: &Instruction) -> Value {
    match DefaultHandler.matching_frames(program, i) {
        None => json!({"none": true}),
        Some(m) => json!({"some": {"used": sorted(m.used.iter().map(|f| abs_frame(f)).collect()),
                                   "blocked": sorted(m.blocked.iter().map(|f| abs_frame(f)).collect())}}),
    }
}

fn canon(v: &Value) -> Value {
    match v.get("some") {
        Some(x) => json!({"some": {"used": sorted(x["used"].as_array().cloned().unwrap_or_default()),
                                   "blocked": sorted(x["blocked"].as_array().cloned().unwrap_or_default())}}),
        None => json!({"none": true}),
    }
}

/// The rules of the property, in Rust.  Used only to judge the replay of a recorded history (a rejection of the
/// trace validation), where no TLC-computed expectation is at hand; the primary oracle is FrameMatch.tla.
pub fn rule(i: &Value, frames: &[Value], uq: &[u64]) -> Value {
    use std::collections::BTreeSet;
    let qs = |f: &Value| -> BTreeSet<u64> { f["qubits"].as_array().unwrap().iter().map(|q| q.as_u64().unwrap()).collect() };
    let list = |k: &str| -> BTreeSet<u64> { i[k].as_array().unwrap().iter().map(|q| q.as_u64().unwrap()).collect() };
    let pick = |p: &dyn Fn(&Value) -> bool| -> Vec<Value> { frames.iter().filter(|f| p(f)).cloned().collect() };
    let (used, blocked): (Vec<Value>, Vec<Value>) = match s(i, "k").as_str() {
        "Pulse" | "Capture" | "RawCapture" => {
            let own = &i["frame"];
            let b = if i["blocking"].as_bool().unwrap() { pick(&|f| f != own && !qs(f).is_disjoint(&qs(own))) } else { vec![] };
            (pick(&|f| f == own), b)
        }
        "SetFrequency" | "SetPhase" | "SetScale" | "ShiftFrequency" | "ShiftPhase" => (pick(&|f| f == &i["frame"]), vec![]),
        "SwapPhases" => (pick(&|f| f == &i["frame_1"] || f == &i["frame_2"]), vec![]),
        "Fence" => {
            let q = list("qubits");
            (if q.is_empty() { frames.to_vec() } else { pick(&|f| !qs(f).is_disjoint(&q)) }, vec![])
        }
        "Delay" => {
            let q = list("qubits");
            let names: Vec<&str> = i["frame_names"].as_array().unwrap().iter().map(|n| n.as_str().unwrap()).collect();
            (pick(&|f| qs(f) == q && (names.is_empty() || names.contains(&f["name"].as_str().unwrap()))), vec![])
        }
        "Reset" => {
            let target: BTreeSet<u64> = match i["qubit"].get("some") { Some(q) => [q.as_u64().unwrap()].into(), None => uq.iter().cloned().collect() };
            (pick(&|f| qs(f) == target), pick(&|f| !qs(f).is_disjoint(&target) && qs(f) != target))
        }
        _ => return json!({"none": true}),
    };
    canon(&json!({"some": {"used": used, "blocked": blocked}}))
}

pub fn replay(_ctx: &Ctx, case: &Value) -> Outcome {
    // a violation replay file from trace validation carries the recorded history: re-run it, judged by `rule`
    let case = match case.get("history") {
        Some(h) => {
            let mut e = h.as_array().and_then(|a| a.iter().find(|e| e["ev"] == "match")).cloned().unwrap_or(Value::Null);
            let uq: Vec<u64> = arr(&e, "uq").iter().map(|q| q.as_u64().unwrap()).collect();
            e["want"] = rule(&e["instr"], arr(&e, "frames"), &uq);
            e
        }
        None => case.clone(),
    };
    let frames = arr(&case, "frames").clone();
    let uq: Vec<u64> = arr(&case, "uq").iter().map(|q| q.as_u64().unwrap()).collect();
    let i = match try_real_instr(&case["instr"]) {
        Ok(i) => i,
        Err(e) => return not_reproduced(e),
    };
    let program = program_for(&frames, &uq);
    // the program must have exactly the frames and used qubits the case states
    if program.frames.len() != frames.len() {
        return not_reproduced("frame set of the case not reproduced".into());
    }
    let mut got_uq: Vec<u64> = program.get_used_qubits().iter().map(|q| match q {
        quil_rs::instruction::Qubit::Fixed(n) => *n,
        _ => panic!("non-fixed qubit"),
    }).collect();
    got_uq.sort();
    let mut want_uq = uq.clone();
    want_uq.sort();
    want_uq.dedup();
    if got_uq != want_uq {
        return not_reproduced("used qubits of the case not reproduced".into());
    }
    let got = real_matching(&program, &i);
    let matched = got.get("some").map(|x| x["used"].as_array().unwrap().len() + x["blocked"].as_array().unwrap().len()).unwrap_or(0);
    let mut o = Outcome::ok(matched >= 1 && frames.len() >= 2);
    if let Some(w) = case.get("want") {
        let want = canon(w);
        if want != got {
            let what = if want.get("some").is_some() != got.get("some").is_some() { "whether the instruction has frame semantics" }
                       else if want["some"]["used"] != got["some"]["used"] { "used frames" } else { "blocked frames" };
            o.violate(Violation::new(what, want, got).note(i.to_quil_or_debug()));
        }
    }
    o
}

const NAMES: &[&str] = &["a", "b", "c", "d"];

fn rnd_frame(r: &mut impl Rng) -> Value {
    let n = r.gen_range(1..=3);
    let mut qs: Vec<u64> = (0..5).collect();
    qs.shuffle(r);
    qs.truncate(n);
    json!({"name": NAMES.choose(r).unwrap(), "qubits": qs})
}

fn rnd_qubits(r: &mut impl Rng, max: usize) -> Vec<u64> {
    let mut qs: Vec<u64> = (0..5).collect();
    qs.shuffle(r);
    qs.truncate(r.gen_range(0..=max));
    qs
}

pub fn drive(ctx: &Ctx) -> Summary {
    if std::env::var("QV_LOUD").is_ok() {
        let _ = std::panic::take_hook(); // debugging aid: show panic messages of the driver
    }
    let n = ctx.arg_u64("n", 300);
    let path = ctx.arg_str("out").expect("--out");
    let mut out = std::io::BufWriter::new(std::fs::File::create(path).expect("create trace"));
    let mut rng = util::rng(ctx.seed, 26);
    let mut sum = Summary::default();
    for _ in 0..n {
        let k = rng.gen_range(0..=12);
        let mut frames: Vec<Value> = vec![];
        for _ in 0..k {
            let f = rnd_frame(&mut rng);
            if !frames.contains(&f) {
                frames.push(f);
            }
        }
        // the instruction names a defined frame (usually) or a random one
        let pick = |r: &mut rand_chacha::ChaCha8Rng, frames: &[Value]| -> Value {
            if !frames.is_empty() && r.gen_bool(0.75) { frames.choose(r).unwrap().clone() } else { rnd_frame(r) }
        };
        let f = text_frame(&pick(&mut rng, &frames));
        let g = text_frame(&pick(&mut rng, &frames));
        let nb = if rng.gen_bool(0.5) { "NONBLOCKING " } else { "" };
        // DELAY / FENCE / RESET on the qubits of a defined frame (usually), so that exact matches occur
        let qs: Vec<u64> = if !frames.is_empty() && rng.gen_bool(0.7) {
            let mut q: Vec<u64> = frames.choose(&mut rng).unwrap()["qubits"].as_array().unwrap().iter().map(|x| x.as_u64().unwrap()).collect();
            q.shuffle(&mut rng);
            q
        } else {
            rnd_qubits(&mut rng, 3)
        };
        let qtext = qs.iter().map(|q| q.to_string()).collect::<Vec<_>>().join(" ");
        let names: Vec<String> = (0..rng.gen_range(1..=2)).map(|_| format!("\"{}\"", NAMES.choose(&mut rng).unwrap())).collect();
        let text = match rng.gen_range(0..14) {
            0 | 1 => format!("{nb}PULSE {f} flat(duration: 1.0, iq: 1.0)"),
            2 => format!("{nb}CAPTURE {f} flat(duration: 1.0, iq: 1.0) r[0]"),
            3 => format!("{nb}RAW-CAPTURE {f} 1.0 r[0]"),
            4 => format!("SET-PHASE {f} 1.0"),
            5 => format!("SHIFT-FREQUENCY {f} 1.0"),
            6 => format!("SWAP-PHASES {f} {g}"),
            7 => "FENCE".to_string(),
            8 => if qs.is_empty() { "FENCE".to_string() } else { format!("FENCE {qtext}") },
            9 if !qs.is_empty() => format!("DELAY {qtext} 1.0"),
            10 if !qs.is_empty() => format!("DELAY {qtext} {} 1.0", names.join(" ")),
            11 => "RESET".to_string(),
            12 if !qs.is_empty() => format!("RESET {}", qs[0]),
            _ => format!("SET-SCALE {f} 1.0"),
        };
        let i = util::instr(&text);
        // bare RESET: used qubits are often exactly the qubits of a defined frame
        let uq: Vec<u64> = if !frames.is_empty() && rng.gen_bool(0.6) {
            frames.choose(&mut rng).unwrap()["qubits"].as_array().unwrap().iter().map(|x| x.as_u64().unwrap()).collect()
        } else {
            rnd_qubits(&mut rng, 4)
        };
        let program = program_for(&frames, &uq);
        let got = real_matching(&program, &i);
        let abs = abs_instr(&i).expect("abstraction of a driver instruction");
        let mut uq_sorted = uq.clone();
        uq_sorted.sort();
        uq_sorted.dedup();
        util::emit(&mut out, &json!({"ev": "reset"}));
        let rec = json!({"ev": "match", "frames": frames, "uq": uq_sorted, "instr": abs, "res": got});
        util::emit(&mut out, &rec);
        let matched = got.get("some").map(|x| x["used"].as_array().unwrap().len() + x["blocked"].as_array().unwrap().len()).unwrap_or(0);
        let mut o = Outcome::ok(matched >= 1 && frames.len() >= 2);
        o.count_n("events", 2);
        sum.absorb(&json!({"text": text, "frames": frames.iter().map(text_frame).collect::<Vec<_>>(), "uq": uq_sorted}), &o, true);
    }
    sum
}
