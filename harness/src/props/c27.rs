//! C27 — reported memory accesses match each instruction's semantics.
//!
//! replay: TLC cases {instr, sigs, judged, want} from spec/mc/MC_MemAccess.tla: the extern signatures are
//!         declared through PRAGMA EXTERN, `DefaultHandler.memory_accesses(&signature_map, &instr)` is called and
//!         the three region sets are compared with `want` = MemAccess!Demanded (derived from the operational
//!         semantics for classical instructions, the rule of the property for the others).  `want` IS the
//!         property, so a difference is a violation — except for cases the property does not reach
//!         (`judged` = false: calls with a wrong argument count or an unknown function), where it is divergence.
//! drive:  seeded random instructions over four regions with deeper expressions and signatures of up to four
//!         parameters; results recorded for spec/trace/MemAccessTrace.tla.
//! Shared code (abstraction function) lives in c22.rs.

use super::c22::{abs_instr, not_reproduced, try_real_instr};
use crate::runner::{Outcome, Summary, Violation};
use crate::util::{self, s};
use crate::Ctx;
use quil_rs::instruction::{DefaultHandler, ExternSignatureMap, Instruction, InstructionHandler};
use quil_rs::quil::Quil;
use rand::seq::SliceRandom;
use rand::Rng;
use serde_json::{json, Value};

/// {"f": {"ret": bool, "params": [{"mut": bool, "ty": "scalar"|"fixed"|"var"}]}} -> signature map, through the
/// program's PRAGMA EXTERN table (the route ScheduledBasicBlock::build takes)
fn signature_map(sigs: &Value) -> Result<ExternSignatureMap, String> {
    let mut t = String::new();
    if let Some(m) = sigs.as_object() {
        for (name, sg) in m {
            let ps: Vec<String> = sg["params"].as_array().unwrap().iter().enumerate().map(|(n, p)| {
                let ty = match s(p, "ty").as_str() { "scalar" => "INTEGER", "fixed" => "INTEGER[2]", _ => "INTEGER[]" };
                format!("p{} : {}{}", n, if p["mut"].as_bool().unwrap() { "mut " } else { "" }, ty)
            }).collect();
            let ret = if sg["ret"].as_bool().unwrap() { "INTEGER" } else { "" };
            let params = if ps.is_empty() { String::new() } else { format!("({})", ps.join(", ")) };
            let sep = if !ret.is_empty() && !params.is_empty() { " " } else { "" };
            t.push_str(&format!("PRAGMA EXTERN {name} \"{ret}{sep}{params}\"\n"));
        }
    }
    use std::str::FromStr;
    let program = quil_rs::Program::from_str(&t).map_err(|e| format!("extern declarations do not parse: {e}"))?;
    let n = sigs.as_object().map(|m| m.len()).unwrap_or(0);
    let map = ExternSignatureMap::try_from(program.extern_pragma_map.clone())
        .map_err(|(p, e)| format!("extern signature not accepted: {} ({e:?})", p.to_quil_or_debug()))?;
    if program.extern_pragma_map.to_instructions().len() != n {
        return Err("extern table of the case not reproduced".into());
    }
    Ok(map)
}

fn set_json<'a>(it: impl Iterator<Item = &'a String>) -> Value {
    let mut v: Vec<&String> = it.collect();
    v.sort();
    json!(v)
}

fn real_accesses(map: &ExternSignatureMap, i: &Instruction) -> Value {
    match DefaultHandler.memory_accesses(map, i) {
        Ok(a) => json!({"reads": set_json(a.reads.iter()), "writes": set_json(a.writes.iter()), "captures": set_json(a.captures.iter())}),
        Err(_) => json!({"err": "unknown"}),
    }
}

fn canon(v: &Value) -> Value {
    if v.get("err").is_some() {
        return json!({"err": "unknown"});
    }
    let srt = |x: &Value| {
        let mut a: Vec<String> = x.as_array().map(|a| a.iter().map(|e| e.as_str().unwrap().to_string()).collect()).unwrap_or_default();
        a.sort();
        json!(a)
    };
    json!({"reads": srt(&v["reads"]), "writes": srt(&v["writes"]), "captures": srt(&v["captures"])})
}

fn nontrivial(i: &Value) -> bool {
    // >= 1 memory operand or expression reference: the abstract syntax mentions a region somewhere
    let t = i.to_string();
    t.contains("\"mref\"") || t.contains("\"addr\"") || t.contains("\"cond\"") || t.contains("\"operand\"")
        || t.contains("\"dst\"") || t.contains("\"left\"") || t.contains("\"t\":\"id\"") || t.contains("\"some\":{\"index\"")
}

fn expr_regions(e: &Value, out: &mut Vec<String>) {
    match s(e, "t").as_str() {
        "addr" => out.push(s(&e["m"], "name")),
        "neg" | "pos" | "fn" => expr_regions(&e["e"], out),
        "inf" => {
            expr_regions(&e["l"], out);
            expr_regions(&e["r"], out);
        }
        _ => {}
    }
}

/// What the property demands, in Rust (semantics of each instruction kind written out).  Used only to judge the
/// replay of a recorded history (a rejection of the trace validation); the primary oracle is MemAccess.tla.
pub fn rule(i: &Value, sigs: &Value) -> Value {
    let name = |v: &Value| s(v, "name");
    let operand = |v: &Value| -> Vec<String> { if v["t"] == "mref" { vec![s(&v["m"], "name")] } else { vec![] } };
    let mut exprs = vec![];
    let (mut r, mut w, mut c): (Vec<String>, Vec<String>, Vec<String>) = (vec![], vec![], vec![]);
    match s(i, "k").as_str() {
        "Move" => { r = operand(&i["src"]); w = vec![name(&i["dst"])]; }
        "Convert" => { r = vec![name(&i["src"])]; w = vec![name(&i["dst"])]; }
        "Arith" | "Logic" => { r = operand(&i["src"]); r.push(name(&i["dst"])); w = vec![name(&i["dst"])]; }
        "Unary" => { r = vec![name(&i["operand"])]; w = r.clone(); }
        "Exchange" => { r = vec![name(&i["left"]), name(&i["right"])]; w = r.clone(); }
        "Compare" => { r = operand(&i["rhs"]); r.push(name(&i["lhs"])); w = vec![name(&i["dst"])]; }
        "Load" => { r = vec![s(i, "source"), name(&i["offset"])]; w = vec![name(&i["dst"])]; }
        "Store" => { r = operand(&i["src"]); r.push(name(&i["offset"])); w = vec![s(i, "destination")]; }
        "JumpWhen" | "JumpUnless" => r = vec![name(&i["cond"])],
        "Delay" | "RawCapture" => exprs.push(i["duration"].clone()),
        "SetPhase" | "SetScale" | "ShiftPhase" | "SetFrequency" | "ShiftFrequency" => exprs.push(i["e"].clone()),
        "Pulse" | "Capture" => exprs.extend(i["wf"].as_array().unwrap().iter().cloned()),
        "Gate" => exprs.extend(i["params"].as_array().unwrap().iter().cloned()),
        "Call" => {
            let sg = &sigs[s(i, "name")];
            let off = sg["ret"].as_bool().unwrap() as usize;
            for (k, a) in i["args"].as_array().unwrap().iter().enumerate() {
                let region = match s(a, "t").as_str() { "id" => s(a, "s"), "mref" => s(&a["m"], "name"), _ => continue };
                r.push(region.clone());
                if (off == 1 && k == 0) || (k >= off && sg["params"][k - off]["mut"].as_bool().unwrap_or(false)) {
                    w.push(region);
                }
            }
        }
        _ => {}
    }
    for e in &exprs {
        expr_regions(e, &mut r);
    }
    match s(i, "k").as_str() {
        "Capture" | "RawCapture" => c.push(name(&i["mref"])),
        "Measure" => if let Some(m) = i["target"].get("some") { c.push(name(m)) },
        _ => {}
    }
    for v in [&mut r, &mut w, &mut c] {
        v.sort();
        v.dedup();
    }
    json!({"reads": r, "writes": w, "captures": c})
}

pub fn replay(_ctx: &Ctx, case: &Value) -> Outcome {
    // a violation replay file from trace validation carries the recorded history: re-run it, judged by `rule`
    let case = match case.get("history") {
        Some(h) => {
            let mut e = h.as_array().and_then(|a| a.iter().find(|e| e["ev"] == "acc")).cloned().unwrap_or(Value::Null);
            e["want"] = rule(&e["instr"], &e["sigs"]);
            e
        }
        None => case.clone(),
    };
    let i = match try_real_instr(&case["instr"]) {
        Ok(i) => i,
        Err(e) => return not_reproduced(e),
    };
    let map = match signature_map(&case["sigs"]) {
        Ok(m) => m,
        Err(e) => return not_reproduced(e),
    };
    let got = real_accesses(&map, &i);
    let mut o = Outcome::ok(nontrivial(&case["instr"]));
    if let Some(w) = case.get("want") {
        let want = canon(w);
        if want != got {
            if case["judged"].as_bool().unwrap_or(true) {
                let what = if got.get("err").is_some() || want.get("err").is_some() { "memory accesses (ok / error)" }
                           else if want["reads"] != got["reads"] { "regions read" }
                           else if want["writes"] != got["writes"] { "regions written" } else { "regions captured" };
                o.violate(Violation::new(what, want, got).note(i.to_quil_or_debug()));
            } else {
                o.diverge(format!("{}: the property does not reach this call; model {want}, code {got}", i.to_quil_or_debug()));
            }
        }
    }
    o
}

const REGIONS: &[&str] = &["a", "b", "c", "d"];

fn rref(r: &mut impl Rng) -> String {
    format!("{}[{}]", REGIONS.choose(r).unwrap(), r.gen_range(0..4))
}

fn rexpr(r: &mut impl Rng, depth: u32) -> String {
    if depth == 0 || r.gen_bool(0.3) {
        return match r.gen_range(0..5) { 0 => "1.5".into(), 1 => "pi".into(), 2 => "%x".into(), _ => rref(r) };
    }
    match r.gen_range(0..4) {
        0 => format!("(-({}))", rexpr(r, depth - 1)),
        1 => format!("{}({})", ["sin", "cos", "sqrt", "exp", "cis"].choose(r).unwrap(), rexpr(r, depth - 1)),
        _ => format!("(({}){}({}))", rexpr(r, depth - 1), ["+", "-", "*", "/", "^"].choose(r).unwrap(), rexpr(r, depth - 1)),
    }
}

pub fn drive(ctx: &Ctx) -> Summary {
    if std::env::var("QV_LOUD").is_ok() {
        let _ = std::panic::take_hook(); // debugging aid: show panic messages of the driver
    }
    let n = ctx.arg_u64("n", 300);
    let path = ctx.arg_str("out").expect("--out");
    let mut out = std::io::BufWriter::new(std::fs::File::create(path).expect("create trace"));
    let mut rng = util::rng(ctx.seed, 27);
    let mut sum = Summary::default();
    let mut done = 0;
    while done < n {
        let r = &mut rng;
        let reg = |r: &mut rand_chacha::ChaCha8Rng| REGIONS.choose(r).unwrap().to_string();
        let operand = |r: &mut rand_chacha::ChaCha8Rng| match r.gen_range(0..4) { 0 => "3".to_string(), 1 => "2.5".to_string(), _ => rref(r) };
        let mut sigs = json!({});
        let text = match r.gen_range(0..24) {
            0 => format!("MOVE {} {}", rref(r), operand(r)),
            1 => format!("{} {} {}", ["ADD", "SUB", "MUL", "DIV"].choose(r).unwrap(), rref(r), operand(r)),
            2 => format!("{} {} {}", ["AND", "IOR", "XOR"].choose(r).unwrap(), rref(r), if r.gen_bool(0.3) { "1".to_string() } else { rref(r) }),
            3 => format!("{} {}", ["NEG", "NOT"].choose(r).unwrap(), rref(r)),
            4 => format!("{} {} {} {}", ["EQ", "GE", "GT", "LE", "LT"].choose(r).unwrap(), rref(r), rref(r), operand(r)),
            5 => format!("CONVERT {} {}", rref(r), rref(r)),
            6 => format!("EXCHANGE {} {}", rref(r), rref(r)),
            7 => format!("LOAD {} {} {}", rref(r), reg(r), rref(r)),
            8 => format!("STORE {} {} {}", reg(r), rref(r), operand(r)),
            9 => format!("JUMP-WHEN @t {}", rref(r)),
            10 => format!("JUMP-UNLESS @t {}", rref(r)),
            11 => format!("DELAY 0 ({})", rexpr(r, 3)),
            12 => format!("SET-PHASE 0 \"x\" {}", rexpr(r, 3)),
            13 => format!("SHIFT-FREQUENCY 0 \"x\" {}", rexpr(r, 3)),
            14 => format!("PULSE 0 \"x\" flat(duration: {}, iq: {})", rexpr(r, 2), rexpr(r, 3)),
            15 => format!("NONBLOCKING CAPTURE 0 \"x\" flat(duration: 1.0, iq: {}) {}", rexpr(r, 3), rref(r)),
            16 => format!("RAW-CAPTURE 0 \"x\" {} {}", rexpr(r, 3), rref(r)),
            17 => format!("RX({}) 0", rexpr(r, 3)),
            18 => if r.gen_bool(0.3) { "MEASURE 0".to_string() } else { format!("MEASURE 0 {}", rref(r)) },
            19 => ["FENCE 0", "RESET", "NOP", "HALT", "PRAGMA p", "SWAP-PHASES 0 \"x\" 1 \"x\""].choose(r).unwrap().to_string(),
            _ => {
                // a well-formed call: argument count = parameter count (+ 1 for the return slot)
                let np = r.gen_range(0..=4);
                // (a signature with neither return type nor parameters cannot be declared)
                let ret = np == 0 || r.gen_bool(0.5);
                let params: Vec<Value> = (0..np).map(|_| {
                    let ty = *["scalar", "fixed", "var"].choose(r).unwrap();
                    json!({"mut": r.gen_bool(0.5), "ty": ty})
                }).collect();
                sigs = json!({"f": {"ret": ret, "params": params}});
                let args: Vec<String> = (0..np + ret as usize).map(|_| match r.gen_range(0..5) { 0 => "2".to_string(), 1 | 2 => reg(r), _ => rref(r) }).collect();
                format!("CALL f {}", args.join(" ")).trim_end().to_string()
            }
        };
        let i = util::instr(&text);
        let abs = abs_instr(&i).expect("abstraction of a driver instruction");
        // instructions that combine a cell with itself are outside the judgement (MemAccess!SelfCombining)
        let same = |x: &Value, y: &Value| x["name"] == y["name"] && x["index"].as_u64().unwrap() % 2 == y["index"].as_u64().unwrap() % 2;
        let self_combining = match s(&abs, "k").as_str() {
            "Arith" | "Logic" => abs["src"]["t"] == "mref" && same(&abs["src"]["m"], &abs["dst"]),
            "Compare" => abs["rhs"]["t"] == "mref" && same(&abs["rhs"]["m"], &abs["lhs"]),
            _ => false,
        };
        if self_combining {
            continue;
        }
        done += 1;
        let map = signature_map(&sigs).expect("driver signature");
        let got = real_accesses(&map, &i);
        util::emit(&mut out, &json!({"ev": "reset"}));
        util::emit(&mut out, &json!({"ev": "acc", "instr": abs, "sigs": sigs, "res": got}));
        let mut o = Outcome::ok(nontrivial(&abs));
        o.count_n("events", 2);
        sum.absorb(&json!({"text": text, "sigs": sigs}), &o, true);
    }
    sum
}
