//! C22 — every block's dependency graph is a well-formed DAG.
//! Also the shared code of the group C22–C24, C26, C27:
//!
//!   * the abstraction function between real instructions and the abstract syntax of spec/MemAccess.tla /
//!     spec/FrameMatch.tla (`abs_instr`, `text_of_abs`, `real_instr` with a round-trip check);
//!   * the real handler's access summary of an instruction (`summary_of`) and the projection of a real
//!     dependency graph to the model's edges (`graph_edges`);
//!   * the three properties evaluated directly on (real summaries, real edges) (`c22_failures`,
//!     `c23_failures`, `c24_failures`) — used to classify a mismatch with the model as violation or divergence;
//!   * `replay_block` (spec -> code for MC_BlockGraph cases), `replay_queue` (spec -> code for MC_DepQueue
//!     cases through the verif hook), `drive_blocks` / `drive_queue` (code -> spec traces).
//!
//! Nodes: START = 0, instruction k (1-based) = k, END = 1000.  Edge labels: "Read" | "Write" | "Capture"
//! (AwaitMemoryAccess), "Stable" (StableOrdering), "Sched" (Scheduled).

use crate::runner::{Outcome, Summary, Violation};
use crate::util::{self, arr, s};
use crate::Ctx;
use quil_rs::expression::{Expression, PrefixOperator};
use quil_rs::instruction::{
    ArithmeticOperand, BinaryOperand, ComparisonOperand, DefaultHandler, ExternSignatureMap, FrameIdentifier,
    Instruction, InstructionHandler, InstructionRole, MemoryReference, Qubit, UnresolvedCallArgument,
};
use quil_rs::program::scheduling::{
    verif_hooks, ExecutionDependency, MemoryAccessType, ScheduledBasicBlock, ScheduledGraphNode, ScheduledProgram,
};
use quil_rs::quil::Quil;
use quil_rs::Program;
use rand::seq::SliceRandom;
use rand::Rng;
use serde_json::{json, Value};
use std::collections::{BTreeMap, BTreeSet};
use std::str::FromStr;

pub const END: u64 = 1000;

// ------------------------------------------------------------------------------- abstraction function

fn fixed(q: &Qubit) -> u64 {
    match q {
        Qubit::Fixed(n) => *n,
        other => panic!("abstraction: only fixed qubits are in the alphabets, got {other:?}"),
    }
}

pub fn abs_mref(m: &MemoryReference) -> Value {
    json!({"name": m.name, "index": m.index})
}

pub fn abs_frame(f: &FrameIdentifier) -> Value {
    json!({"name": f.name, "qubits": f.qubits.iter().map(fixed).collect::<Vec<_>>()})
}

pub fn abs_expr(e: &Expression) -> Value {
    match e {
        Expression::Address(m) => json!({"t": "addr", "m": abs_mref(m)}),
        Expression::FunctionCall(f) => json!({"t": "fn", "f": f.function.to_string(), "e": abs_expr(&f.expression)}),
        Expression::Infix(i) => {
            json!({"t": "inf", "op": i.operator.to_string().trim(), "l": abs_expr(&i.left), "r": abs_expr(&i.right)})
        }
        Expression::Number(_) => json!({"t": "num"}),
        Expression::PiConstant() => json!({"t": "pi"}),
        Expression::Prefix(p) => match p.operator {
            PrefixOperator::Minus => json!({"t": "neg", "e": abs_expr(&p.expression)}),
            PrefixOperator::Plus => json!({"t": "pos", "e": abs_expr(&p.expression)}),
        },
        Expression::Variable(v) => json!({"t": "var", "v": v}),
    }
}

fn abs_arith_operand(o: &ArithmeticOperand) -> Value {
    match o {
        ArithmeticOperand::LiteralInteger(_) => json!({"t": "int"}),
        ArithmeticOperand::LiteralReal(_) => json!({"t": "real"}),
        ArithmeticOperand::MemoryReference(m) => json!({"t": "mref", "m": abs_mref(m)}),
    }
}

/// Real instruction -> abstract syntax.  `None` for kinds outside the group's alphabets.
pub fn abs_instr(i: &Instruction) -> Option<Value> {
    Some(match i {
        Instruction::Move(m) => json!({"k": "Move", "dst": abs_mref(&m.destination), "src": abs_arith_operand(&m.source)}),
        Instruction::Arithmetic(a) => json!({"k": "Arith", "op": a.operator.to_quil_or_debug(), "dst": abs_mref(&a.destination),
                                             "src": abs_arith_operand(&a.source)}),
        Instruction::BinaryLogic(b) => json!({"k": "Logic", "op": b.operator.to_quil_or_debug(), "dst": abs_mref(&b.destination),
            "src": match &b.source {
                BinaryOperand::LiteralInteger(_) => json!({"t": "int"}),
                BinaryOperand::MemoryReference(m) => json!({"t": "mref", "m": abs_mref(m)}),
            }}),
        Instruction::UnaryLogic(u) => json!({"k": "Unary", "op": u.operator.to_quil_or_debug(), "operand": abs_mref(&u.operand)}),
        Instruction::Comparison(c) => json!({"k": "Compare", "op": c.operator.to_quil_or_debug(), "dst": abs_mref(&c.destination),
            "lhs": abs_mref(&c.lhs),
            "rhs": match &c.rhs {
                ComparisonOperand::LiteralInteger(_) => json!({"t": "int"}),
                ComparisonOperand::LiteralReal(_) => json!({"t": "real"}),
                ComparisonOperand::MemoryReference(m) => json!({"t": "mref", "m": abs_mref(m)}),
            }}),
        Instruction::Convert(c) => json!({"k": "Convert", "dst": abs_mref(&c.destination), "src": abs_mref(&c.source)}),
        Instruction::Exchange(e) => json!({"k": "Exchange", "left": abs_mref(&e.left), "right": abs_mref(&e.right)}),
        Instruction::Load(l) => json!({"k": "Load", "dst": abs_mref(&l.destination), "source": l.source,
                                       "offset": abs_mref(&l.offset)}),
        Instruction::Store(st) => json!({"k": "Store", "destination": st.destination, "offset": abs_mref(&st.offset),
                                         "src": abs_arith_operand(&st.source)}),
        Instruction::Jump(j) => json!({"k": "Jump", "target": crate::abs::target_name(&j.target)}),
        Instruction::JumpWhen(j) => json!({"k": "JumpWhen", "target": crate::abs::target_name(&j.target),
                                           "cond": abs_mref(&j.condition)}),
        Instruction::JumpUnless(j) => json!({"k": "JumpUnless", "target": crate::abs::target_name(&j.target),
                                             "cond": abs_mref(&j.condition)}),
        Instruction::Label(l) => json!({"k": "Label", "target": crate::abs::target_name(&l.target)}),
        Instruction::Halt() => json!({"k": "Halt"}),
        Instruction::Wait() => json!({"k": "Wait"}),
        Instruction::Nop() => json!({"k": "Nop"}),
        Instruction::Pragma(p) if p.arguments.is_empty() && p.data.is_none() => json!({"k": "Pragma", "name": p.name}),
        Instruction::Declaration(d) => json!({"k": "Declare", "name": d.name}),
        Instruction::Gate(g) if g.modifiers.is_empty() => json!({"k": "Gate", "name": g.name,
            "params": g.parameters.iter().map(abs_expr).collect::<Vec<_>>(),
            "qubits": g.qubits.iter().map(fixed).collect::<Vec<_>>()}),
        Instruction::Measurement(m) if m.name.is_none() => json!({"k": "Measure", "qubit": fixed(&m.qubit),
            "target": util::opt_json(m.target.as_ref().map(abs_mref))}),
        Instruction::Pulse(p) => json!({"k": "Pulse", "blocking": p.blocking, "frame": abs_frame(&p.frame),
            "wf": p.waveform.parameters.values().map(abs_expr).collect::<Vec<_>>()}),
        Instruction::Capture(c) => json!({"k": "Capture", "blocking": c.blocking, "frame": abs_frame(&c.frame),
            "wf": c.waveform.parameters.values().map(abs_expr).collect::<Vec<_>>(),
            "mref": abs_mref(&c.memory_reference)}),
        Instruction::RawCapture(c) => json!({"k": "RawCapture", "blocking": c.blocking, "frame": abs_frame(&c.frame),
            "duration": abs_expr(&c.duration), "mref": abs_mref(&c.memory_reference)}),
        Instruction::SetFrequency(x) => json!({"k": "SetFrequency", "frame": abs_frame(&x.frame), "e": abs_expr(&x.frequency)}),
        Instruction::SetPhase(x) => json!({"k": "SetPhase", "frame": abs_frame(&x.frame), "e": abs_expr(&x.phase)}),
        Instruction::SetScale(x) => json!({"k": "SetScale", "frame": abs_frame(&x.frame), "e": abs_expr(&x.scale)}),
        Instruction::ShiftFrequency(x) => json!({"k": "ShiftFrequency", "frame": abs_frame(&x.frame), "e": abs_expr(&x.frequency)}),
        Instruction::ShiftPhase(x) => json!({"k": "ShiftPhase", "frame": abs_frame(&x.frame), "e": abs_expr(&x.phase)}),
        Instruction::SwapPhases(x) => json!({"k": "SwapPhases", "frame_1": abs_frame(&x.frame_1), "frame_2": abs_frame(&x.frame_2)}),
        Instruction::Fence(f) => json!({"k": "Fence", "qubits": f.qubits.iter().map(fixed).collect::<Vec<_>>()}),
        Instruction::Delay(d) => json!({"k": "Delay", "duration": abs_expr(&d.duration), "frame_names": d.frame_names,
                                        "qubits": d.qubits.iter().map(fixed).collect::<Vec<_>>()}),
        Instruction::Reset(r) => json!({"k": "Reset", "qubit": util::opt_json(r.qubit.as_ref().map(fixed))}),
        Instruction::Call(c) => json!({"k": "Call", "name": c.name,
            "args": c.arguments().iter().map(|a| match a {
                UnresolvedCallArgument::Identifier(s) => json!({"t": "id", "s": s}),
                UnresolvedCallArgument::MemoryReference(m) => json!({"t": "mref", "m": abs_mref(m)}),
                UnresolvedCallArgument::Immediate(_) => json!({"t": "imm"}),
            }).collect::<Vec<_>>()}),
        _ => return None,
    })
}

fn text_mref(v: &Value) -> String {
    format!("{}[{}]", s(v, "name"), util::u(v, "index"))
}

pub fn text_frame(v: &Value) -> String {
    let qs: Vec<String> = arr(v, "qubits").iter().map(|q| q.as_u64().unwrap().to_string()).collect();
    format!("{} \"{}\"", qs.join(" "), s(v, "name"))
}

pub fn text_expr(v: &Value) -> String {
    match s(v, "t").as_str() {
        "num" => "1".into(),
        "pi" => "pi".into(),
        "var" => format!("%{}", s(v, "v")),
        "addr" => text_mref(&v["m"]),
        "neg" => format!("(-({}))", text_expr(&v["e"])),
        "inf" => format!("(({}){}({}))", text_expr(&v["l"]), s(v, "op"), text_expr(&v["r"])),
        "fn" => format!("{}({})", s(v, "f"), text_expr(&v["e"])),
        other => panic!("abstract expression tag {other}"),
    }
}

fn text_operand(v: &Value) -> String {
    match s(v, "t").as_str() {
        "int" => "1".into(),
        "real" => "1.5".into(),
        "mref" => text_mref(&v["m"]),
        other => panic!("abstract operand tag {other}"),
    }
}

const WF_PARAMS: &[&str] = &["duration", "iq", "scale", "phase", "detuning"];
fn text_wf(v: &Value) -> String {
    let ps: Vec<String> = v.as_array().unwrap().iter().enumerate().map(|(n, e)| format!("{}: {}", WF_PARAMS[n], text_expr(e))).collect();
    format!("flat({})", ps.join(", "))
}

fn qubit_list(v: &Value, k: &str) -> String {
    arr(v, k).iter().map(|q| q.as_u64().unwrap().to_string()).collect::<Vec<_>>().join(" ")
}

/// Abstract syntax -> Quil text.
pub fn text_of_abs(v: &Value) -> String {
    let nb = |v: &Value| if v["blocking"].as_bool().unwrap() { "" } else { "NONBLOCKING " };
    match s(v, "k").as_str() {
        "Move" => format!("MOVE {} {}", text_mref(&v["dst"]), text_operand(&v["src"])),
        "Arith" | "Logic" => format!("{} {} {}", s(v, "op"), text_mref(&v["dst"]), text_operand(&v["src"])),
        "Unary" => format!("{} {}", s(v, "op"), text_mref(&v["operand"])),
        "Compare" => format!("{} {} {} {}", s(v, "op"), text_mref(&v["dst"]), text_mref(&v["lhs"]), text_operand(&v["rhs"])),
        "Convert" => format!("CONVERT {} {}", text_mref(&v["dst"]), text_mref(&v["src"])),
        "Exchange" => format!("EXCHANGE {} {}", text_mref(&v["left"]), text_mref(&v["right"])),
        "Load" => format!("LOAD {} {} {}", text_mref(&v["dst"]), s(v, "source"), text_mref(&v["offset"])),
        "Store" => format!("STORE {} {} {}", s(v, "destination"), text_mref(&v["offset"]), text_operand(&v["src"])),
        "Jump" => format!("JUMP @{}", s(v, "target")),
        "JumpWhen" => format!("JUMP-WHEN @{} {}", s(v, "target"), text_mref(&v["cond"])),
        "JumpUnless" => format!("JUMP-UNLESS @{} {}", s(v, "target"), text_mref(&v["cond"])),
        "Label" => format!("LABEL @{}", s(v, "target")),
        "Halt" => "HALT".into(),
        "Wait" => "WAIT".into(),
        "Nop" => "NOP".into(),
        "Pragma" => format!("PRAGMA {}", s(v, "name")),
        "Declare" => format!("DECLARE {} REAL[4]", s(v, "name")),
        "Gate" => {
            let ps: Vec<String> = arr(v, "params").iter().map(text_expr).collect();
            let p = if ps.is_empty() { String::new() } else { format!("({})", ps.join(", ")) };
            format!("{}{} {}", s(v, "name"), p, qubit_list(v, "qubits"))
        }
        "Measure" => match v["target"].get("some") {
            Some(m) => format!("MEASURE {} {}", v["qubit"], text_mref(m)),
            None => format!("MEASURE {}", v["qubit"]),
        },
        "Pulse" => format!("{}PULSE {} {}", nb(v), text_frame(&v["frame"]), text_wf(&v["wf"])),
        "Capture" => format!("{}CAPTURE {} {} {}", nb(v), text_frame(&v["frame"]), text_wf(&v["wf"]), text_mref(&v["mref"])),
        "RawCapture" => format!("{}RAW-CAPTURE {} {} {}", nb(v), text_frame(&v["frame"]), text_expr(&v["duration"]), text_mref(&v["mref"])),
        "SetFrequency" => format!("SET-FREQUENCY {} {}", text_frame(&v["frame"]), text_expr(&v["e"])),
        "SetPhase" => format!("SET-PHASE {} {}", text_frame(&v["frame"]), text_expr(&v["e"])),
        "SetScale" => format!("SET-SCALE {} {}", text_frame(&v["frame"]), text_expr(&v["e"])),
        "ShiftFrequency" => format!("SHIFT-FREQUENCY {} {}", text_frame(&v["frame"]), text_expr(&v["e"])),
        "ShiftPhase" => format!("SHIFT-PHASE {} {}", text_frame(&v["frame"]), text_expr(&v["e"])),
        "SwapPhases" => format!("SWAP-PHASES {} {}", text_frame(&v["frame_1"]), text_frame(&v["frame_2"])),
        "Fence" => format!("FENCE {}", qubit_list(v, "qubits")).trim_end().to_string(),
        "Delay" => {
            let names: Vec<String> = arr(v, "frame_names").iter().map(|n| format!("\"{}\"", n.as_str().unwrap())).collect();
            let mut t = format!("DELAY {}", qubit_list(v, "qubits"));
            if !names.is_empty() {
                t.push(' ');
                t.push_str(&names.join(" "));
            }
            // the duration is parenthesised: `DELAY 0 cos(a[0])` would otherwise be read as a delay on the qubits
            // `0` and `cos` (the parser takes identifiers after DELAY as qubit variables)
            format!("{} ({})", t, text_expr(&v["duration"]))
        }
        "Reset" => match v["qubit"].get("some") {
            Some(q) => format!("RESET {q}"),
            None => "RESET".into(),
        },
        "Call" => {
            let args: Vec<String> = arr(v, "args").iter().map(|a| match s(a, "t").as_str() {
                "id" => s(a, "s"),
                "mref" => text_mref(&a["m"]),
                _ => "1".to_string(),
            }).collect();
            format!("CALL {} {}", s(v, "name"), args.join(" ")).trim_end().to_string()
        }
        other => panic!("abstract instruction kind {other}"),
    }
}

/// Abstract syntax -> real instruction (through the parser), checked by abstracting the result again: the
/// abstraction function and the printer above must be inverse on the alphabets.  An `Err` means the case
/// cannot be reproduced on the real library (the parser refuses the text or reads it differently): that is not
/// an observable of C22-C27, so replays report it as a skipped case with a divergence, never as a violation.
pub fn try_real_instr(v: &Value) -> Result<Instruction, String> {
    let text = text_of_abs(v);
    let i = Instruction::from_str(&text).map_err(|e| format!("alphabet instruction does not parse: {text:?}: {e}"))?;
    let back = abs_instr(&i).ok_or_else(|| format!("no abstraction for {text}"))?;
    if &back != v {
        return Err(format!("abstraction round trip failed for {text}: {v} vs {back}"));
    }
    Ok(i)
}

pub fn not_reproduced(why: String) -> Outcome {
    let mut o = Outcome::skip();
    o.diverge(format!("case not reproduced on the real library: {why}"));
    o
}

// ------------------------------------------------------------------------------- real summaries and graphs

#[derive(Clone, Debug, Default)]
pub struct Sum {
    pub role: &'static str,
    pub timed: bool,
    pub r: BTreeSet<String>,
    pub w: BTreeSet<String>,
    pub c: BTreeSet<String>,
    pub used: BTreeSet<String>,
    pub blk: BTreeSet<String>,
    /// frames as abstract values, for the trace
    pub used_abs: Vec<Value>,
    pub blk_abs: Vec<Value>,
}

impl Sum {
    /// a summary computed by the specification (TLC's JSON: frames as abstract values)
    pub fn from_json(v: &Value) -> Sum {
        let set = |k: &str| -> BTreeSet<String> { v[k].as_array().map(|a| a.iter().map(|x| x.as_str().unwrap().to_string()).collect()).unwrap_or_default() };
        let frames = |k: &str| -> Vec<Value> { let mut f = v[k].as_array().cloned().unwrap_or_default(); f.sort_by_key(text_frame); f };
        let role = match s(v, "role").as_str() { "C" => "C", "RF" => "RF", "CF" => "CF", _ => "PC" };
        Sum { role, timed: v["timed"].as_bool().unwrap(), r: set("r"), w: set("w"), c: set("c"),
              used: frames("use").iter().map(text_frame).collect(), blk: frames("blk").iter().map(text_frame).collect(),
              used_abs: frames("use"), blk_abs: frames("blk") }
    }
    pub fn same(&self, o: &Sum) -> bool {
        self.role == o.role && self.timed == o.timed && self.r == o.r && self.w == o.w && self.c == o.c && self.used == o.used && self.blk == o.blk
    }
    pub fn json(&self) -> Value {
        json!({"role": self.role, "timed": self.timed, "r": self.r, "w": self.w, "c": self.c,
               "use": self.used_abs, "blk": self.blk_abs})
    }
    fn touches(&self, x: &str) -> bool {
        self.r.contains(x) || self.w.contains(x) || self.c.contains(x)
    }
    fn writes(&self, x: &str) -> bool {
        self.w.contains(x) || self.c.contains(x)
    }
    fn regions(&self) -> BTreeSet<&String> {
        self.r.iter().chain(self.w.iter()).chain(self.c.iter()).collect()
    }
}

pub fn role_name(r: InstructionRole) -> &'static str {
    match r {
        InstructionRole::ClassicalCompute => "C",
        InstructionRole::RFControl => "RF",
        InstructionRole::ControlFlow => "CF",
        InstructionRole::ProgramComposition => "PC",
    }
}

/// The four handler calls ScheduledBasicBlock::build makes, on the real DefaultHandler.
pub fn summary_of(program: &Program, sigs: &ExternSignatureMap, i: &Instruction) -> Sum {
    let h = DefaultHandler;
    let mut sum = Sum { role: role_name(h.role(i)), timed: h.is_scheduled(i), ..Default::default() };
    if let Ok(acc) = h.memory_accesses(sigs, i) {
        sum.r = acc.reads.into_iter().collect();
        sum.w = acc.writes.into_iter().collect();
        sum.c = acc.captures.into_iter().collect();
    }
    if let Some(m) = h.matching_frames(program, i) {
        let mut u: Vec<&FrameIdentifier> = m.used.into_iter().collect();
        let mut b: Vec<&FrameIdentifier> = m.blocked.into_iter().collect();
        u.sort_by_key(|f| text_frame(&abs_frame(f)));
        b.sort_by_key(|f| text_frame(&abs_frame(f)));
        sum.used = u.iter().map(|f| text_frame(&abs_frame(f))).collect();
        sum.blk = b.iter().map(|f| text_frame(&abs_frame(f))).collect();
        sum.used_abs = u.iter().map(|f| abs_frame(f)).collect();
        sum.blk_abs = b.iter().map(|f| abs_frame(f)).collect();
    }
    sum
}

pub type Edge = (u64, u64, String);

pub fn node_id(n: ScheduledGraphNode) -> u64 {
    match n {
        ScheduledGraphNode::BlockStart => 0,
        ScheduledGraphNode::InstructionIndex(k) => k as u64 + 1,
        ScheduledGraphNode::BlockEnd => END,
    }
}

pub fn graph_edges(b: &ScheduledBasicBlock) -> BTreeSet<Edge> {
    let mut out = BTreeSet::new();
    for (from, to, labels) in b.get_dependency_graph().all_edges() {
        for l in labels {
            let name = match l {
                ExecutionDependency::AwaitMemoryAccess(MemoryAccessType::Read) => "Read",
                ExecutionDependency::AwaitMemoryAccess(MemoryAccessType::Write) => "Write",
                ExecutionDependency::AwaitMemoryAccess(MemoryAccessType::Capture) => "Capture",
                ExecutionDependency::Scheduled => "Sched",
                ExecutionDependency::StableOrdering => "Stable",
            };
            out.insert((node_id(from), node_id(to), name.to_string()));
        }
    }
    out
}

pub fn edges_json(es: &BTreeSet<Edge>) -> Value {
    Value::Array(es.iter().map(|(f, t, l)| json!({"from": f, "to": t, "l": l})).collect())
}

pub fn edges_from_json(v: &Value) -> BTreeSet<Edge> {
    v.as_array().map(|a| a.iter().map(|e| (util::u(e, "from"), util::u(e, "to"), s(e, "l"))).collect()).unwrap_or_default()
}

// ------------------------------------------------------------------------------- the properties on real data

fn reach(from: u64, edges: &BTreeSet<Edge>, keep: &dyn Fn(&str) -> bool) -> BTreeSet<u64> {
    let mut seen: BTreeSet<u64> = [from].into();
    let mut todo = vec![from];
    while let Some(n) = todo.pop() {
        for (f, t, l) in edges {
            if *f == n && keep(l) && seen.insert(*t) {
                todo.push(*t);
            }
        }
    }
    seen
}

fn is_mem(l: &str) -> bool {
    matches!(l, "Read" | "Write" | "Capture")
}

fn node_sum<'a>(sums: &'a [Sum], term: &'a Option<Sum>, n: u64) -> Option<&'a Sum> {
    if n == END {
        term.as_ref()
    } else if n >= 1 && (n as usize) <= sums.len() {
        Some(&sums[n as usize - 1])
    } else {
        None
    }
}

/// C22: forward edges over valid nodes, acyclic, and (when every RF instruction matches a frame) every
/// instruction node reachable from START and reaching END.
pub fn c22_failures(sums: &[Sum], edges: &BTreeSet<Edge>) -> Vec<String> {
    let mut fails = vec![];
    let n = sums.len() as u64;
    for (f, t, l) in edges {
        let from_ok = *f == 0 || (1..=n).contains(f);
        let to_ok = *t == END || (1..=n).contains(t);
        if !from_ok || !to_ok {
            fails.push(format!("edge {f}->{t} ({l}) does not link block start / instructions / block end in that order"));
        } else if f >= t {
            fails.push(format!("edge {f}->{t} ({l}) points from a later position to an earlier one"));
        }
    }
    // acyclicity, independently of the position argument
    let mut g = petgraph::graphmap::DiGraphMap::<u64, ()>::new();
    for (f, t, _) in edges {
        g.add_edge(*f, *t, ());
    }
    if petgraph::algo::is_cyclic_directed(&g) {
        fails.push("the dependency graph has a cycle".into());
    }
    let all_matched = sums.iter().all(|x| x.role != "RF" || !(x.used.is_empty() && x.blk.is_empty()));
    if all_matched {
        let fwd = reach(0, edges, &|_| true);
        let rev: BTreeSet<Edge> = edges.iter().map(|(f, t, l)| (*t, *f, l.clone())).collect();
        let bwd = reach(END, &rev, &|_| true);
        for k in 1..=n {
            if !fwd.contains(&k) {
                fails.push(format!("instruction node {k} is not reachable from the block start"));
            }
            if !bwd.contains(&k) {
                fails.push(format!("instruction node {k} does not reach the block end"));
            }
        }
    }
    fails
}

fn mem_conflict(a: &Sum, b: &Sum) -> bool {
    a.regions().into_iter().any(|x| b.touches(x) && (a.writes(x) || b.writes(x)))
}

/// C23 on a graph: conflicting pairs ordered; every memory edge links a conflicting pair with the access type
/// of its source (this also covers "instructions that conflict on no region have no direct memory edge").
pub fn c23_failures(sums: &[Sum], term: &Option<Sum>, edges: &BTreeSet<Edge>) -> Vec<String> {
    let mut fails = vec![];
    let mut nodes: Vec<u64> = (1..=sums.len() as u64).collect();
    if term.is_some() {
        nodes.push(END);
    }
    for (ai, &i) in nodes.iter().enumerate() {
        let r = reach(i, edges, &|_| true);
        for &j in &nodes[ai + 1..] {
            let (a, b) = (node_sum(sums, term, i).unwrap(), node_sum(sums, term, j).unwrap());
            if mem_conflict(a, b) && !r.contains(&j) {
                fails.push(format!("nodes {i} and {j} conflict on a memory region but {j} does not depend on {i}"));
            }
        }
    }
    for (f, t, l) in edges.iter().filter(|e| is_mem(&e.2)) {
        let ok = match (node_sum(sums, term, *f), node_sum(sums, term, *t)) {
            (Some(a), Some(b)) => match l.as_str() {
                "Read" => a.r.iter().any(|x| b.writes(x)),
                "Write" => a.w.iter().any(|x| b.touches(x)),
                _ => a.c.iter().any(|x| b.touches(x)),
            },
            _ => false,
        };
        if !ok {
            fails.push(format!("memory edge {f}->{t} (await {l}) is not justified by a conflicting access pair of that type"));
        }
    }
    fails
}

fn fr_conflict(a: &Sum, b: &Sum) -> bool {
    a.used.iter().any(|f| b.used.contains(f) || b.blk.contains(f)) || b.used.iter().any(|f| a.used.contains(f) || a.blk.contains(f))
}

/// C24 on a graph: frame-conflicting RF pairs ordered through StableOrdering edges (and Scheduled edges when
/// both are timed); every StableOrdering / Scheduled edge touches a block boundary or links such a pair.
pub fn c24_failures(sums: &[Sum], edges: &BTreeSet<Edge>) -> Vec<String> {
    let mut fails = vec![];
    let n = sums.len();
    for i in 0..n {
        if sums[i].role != "RF" {
            continue;
        }
        let rs = reach(i as u64 + 1, edges, &|l| l == "Stable");
        let rt = reach(i as u64 + 1, edges, &|l| l == "Sched");
        for j in i + 1..n {
            if sums[j].role != "RF" || !fr_conflict(&sums[i], &sums[j]) {
                continue;
            }
            if !rs.contains(&(j as u64 + 1)) {
                fails.push(format!("RF instructions {} and {} conflict on a frame but are not ordered by StableOrdering edges", i + 1, j + 1));
            }
            if sums[i].timed && sums[j].timed && !rt.contains(&(j as u64 + 1)) {
                fails.push(format!("timed RF instructions {} and {} conflict on a frame but are not ordered by Scheduled edges", i + 1, j + 1));
            }
        }
    }
    for (f, t, l) in edges.iter().filter(|e| !is_mem(&e.2)) {
        if *f == 0 || *t == END {
            continue;
        }
        let ok = match (node_sum(sums, &None, *f), node_sum(sums, &None, *t)) {
            (Some(a), Some(b)) => a.role == "RF" && b.role == "RF" && fr_conflict(a, b),
            _ => false,
        };
        if !ok {
            fails.push(format!("frame edge {f}->{t} ({l}) links two instructions that do not conflict on a frame"));
        }
    }
    fails
}

pub fn nontrivial_for(pid: &str, sums: &[Sum], term: &Option<Sum>, edges: &BTreeSet<Edge>) -> bool {
    match pid {
        "C22" => sums.len() >= 2 && edges.iter().any(|(f, t, _)| *f != 0 && *t != END),
        "C23" => {
            let mut all: Vec<&Sum> = sums.iter().collect();
            if let Some(t) = term {
                all.push(t);
            }
            (0..all.len()).any(|i| (i + 1..all.len()).any(|j| mem_conflict(all[i], all[j])))
        }
        _ => (0..sums.len()).any(|i| {
            (i + 1..sums.len()).any(|j| sums[i].role == "RF" && sums[j].role == "RF" && fr_conflict(&sums[i], &sums[j]))
        }),
    }
}

/// the failures of property `pid` (verdict) and of the two sibling properties (informational in this mode)
pub fn classify(pid: &str, sums: &[Sum], term: &Option<Sum>, edges: &BTreeSet<Edge>) -> (Vec<String>, Vec<String>) {
    let f22 = c22_failures(sums, edges);
    let f23 = c23_failures(sums, term, edges);
    let f24 = c24_failures(sums, edges);
    match pid {
        "C22" => (f22, [f23, f24].concat()),
        "C23" => (f23, [f22, f24].concat()),
        _ => (f24, [f22, f23].concat()),
    }
}

// ------------------------------------------------------------------------------- building real blocks

pub struct BuiltBlock {
    /// the real DefaultHandler's summaries (binding only; the verdict uses the specification's)
    pub sums: Vec<Sum>,
    pub term: Option<Sum>,
    pub edges: BTreeSet<Edge>,
    /// the block's instructions and terminator in abstract syntax (None if outside the alphabets)
    pub instrs: Vec<Option<Value>>,
    pub term_instr: Option<Option<Value>>,
}

/// The specification's summary of an instruction, restated in Rust (role / is_scheduled kind tables, c27::rule,
/// c26::rule).  Used only where no TLC-computed summary is at hand: the replay of a recorded history.  The primary
/// source is spec/Handler.tla (TLC emits the summaries with every case and computes them in the trace validation).
pub fn spec_sum(i: &Value, frames: &[Value], uq: &[u64]) -> Sum {
    let k = s(i, "k");
    let role = match k.as_str() {
        "Reset" | "Capture" | "Delay" | "Fence" | "Pulse" | "RawCapture" | "SetFrequency" | "SetPhase" | "SetScale"
        | "ShiftFrequency" | "ShiftPhase" | "SwapPhases" => "RF",
        "Arith" | "Call" | "Compare" | "Convert" | "Logic" | "Unary" | "Move" | "Exchange" | "Load" | "Nop" | "Pragma" | "Store" => "C",
        "Halt" | "Jump" | "JumpWhen" | "JumpUnless" | "Wait" => "CF",
        _ => "PC",
    };
    let timed = match k.as_str() { "Reset" => false, "Wait" => true, _ => role == "RF" };
    let acc = super::c27::rule(i, &json!({}));
    let fm = super::c26::rule(i, frames, uq);
    let frames_of = |key: &str| -> Vec<Value> { fm.get("some").map(|x| x[key].as_array().cloned().unwrap_or_default()).unwrap_or_default() };
    Sum::from_json(&json!({"role": role, "timed": timed, "r": acc["reads"], "w": acc["writes"], "c": acc["captures"],
                           "use": frames_of("used"), "blk": frames_of("blocked")}))
}

/// Program text: declarations, DEFFRAMEs, optionally a classical prefix block, the block under test (labelled
/// when wrapped), optionally a suffix block.  Returns the text and the index of the block under test.
pub fn program_text(frames: &[Value], body: &[String], term: Option<&String>, wrap: bool) -> (String, usize) {
    let mut t = String::new();
    for r in ["a", "b", "c", "d", "zz"] {
        t.push_str(&format!("DECLARE {r} REAL[4]\n"));
    }
    for f in frames {
        t.push_str(&format!("DEFFRAME {}:\n    SAMPLE-RATE: 1.0\n    INITIAL-FREQUENCY: 1.0\n", text_frame(f)));
    }
    if wrap {
        t.push_str("MOVE zz[0] 1\nJUMP @blk\nLABEL @blk\n");
    }
    for i in body {
        t.push_str(i);
        t.push('\n');
    }
    if let Some(x) = term {
        t.push_str(x);
        t.push('\n');
    }
    if wrap {
        t.push_str("LABEL @t\nMOVE zz[1] 2\n");
    }
    (t, if wrap { 1 } else { 0 })
}

/// Schedule the program with the DefaultHandler and project block `index`.  Err(text) when scheduling fails.
pub fn build_block(program: &Program, index: usize) -> Result<BuiltBlock, String> {
    let sp = ScheduledProgram::from_program(program, &DefaultHandler).map_err(|e| format!("{:?}", e.variant))?;
    let blocks = sp.basic_blocks();
    let b = blocks.get(index).ok_or_else(|| format!("program has {} blocks, wanted block {}", blocks.len(), index))?;
    let sigs = ExternSignatureMap::try_from(program.extern_pragma_map.clone()).map_err(|_| "extern".to_string())?;
    let sums: Vec<Sum> = b.instructions().iter().map(|i| summary_of(program, &sigs, i)).collect();
    let term = b.terminator().clone().into_instruction().map(|i| summary_of(program, &sigs, &i));
    let instrs = b.instructions().iter().map(|i| abs_instr(i)).collect();
    let term_instr = b.terminator().clone().into_instruction().map(|i| abs_instr(&i));
    Ok(BuiltBlock { sums, term, edges: graph_edges(b), instrs, term_instr })
}

// ------------------------------------------------------------------------------- replay: blocks

fn pid_of(ctx: &Ctx) -> String {
    ctx.mode.split('.').next().unwrap_or("C22").to_string()
}

/// spec -> code for one MC_BlockGraph case {src, term, frames, res, edges}; also the replay of a recorded
/// history {"history":[reset, ...]} from the block trace (the reset event carries the program text).
pub fn replay_block(ctx: &Ctx, case: &Value) -> Outcome {
    let pid = pid_of(ctx);
    if let Some(h) = case.get("history") {
        let text = s(&h[0], "text");
        let index = util::u(&h[0], "block") as usize;
        let program = util::program(&text);
        let frames = arr(&h[0], "frames").clone();
        let uq: Vec<u64> = arr(&h[0], "uq").iter().map(|q| q.as_u64().unwrap()).collect();
        let spec: Vec<Sum> = arr(&h[0], "instrs").iter().map(|i| spec_sum(i, &frames, &uq)).collect();
        let tspec: Option<Sum> = arr(&h[0], "term").first().map(|i| spec_sum(i, &frames, &uq));
        return judge_block(&pid, &program, index, None, None, Some((spec, tspec)));
    }
    let body: Vec<Instruction> = match arr(case, "src").iter().map(try_real_instr).collect() {
        Ok(b) => b,
        Err(e) => return not_reproduced(e),
    };
    let term: Vec<Instruction> = match arr(case, "term").iter().map(try_real_instr).collect() {
        Ok(t) => t,
        Err(e) => return not_reproduced(e),
    };
    let body_text: Vec<String> = body.iter().map(|i| i.to_quil_or_debug()).collect();
    let term_text: Option<String> = term.first().map(|i| i.to_quil_or_debug());
    // every second case (and every case that would otherwise have no block at all) is placed between two
    // other blocks: a block's graph must not depend on its neighbours
    let wrap = (body.is_empty() && term.is_empty()) || crate::runner::hash_line(&case.to_string()) % 2 == 1;
    let frames: Vec<Value> = arr(case, "frames").clone();
    let (text, index) = program_text(&frames, &body_text, term_text.as_ref(), wrap);
    let program = match Program::from_str(&text) {
        Ok(p) => p,
        Err(e) => return not_reproduced(format!("program does not parse: {e}")),
    };
    // the specification's summaries (Handler.tla) define the conflict relations of the verdict
    let spec: Vec<Sum> = arr(case, "sums").iter().map(Sum::from_json).collect();
    let tspec: Option<Sum> = arr(case, "tsum").first().map(Sum::from_json);
    judge_block(&pid, &program, index, Some(s(case, "res")), Some(edges_from_json(&case["edges"])), Some((spec, tspec)))
}

/// `spec`: the specification's summaries of the block's instructions and terminator.  The verdict is the property
/// evaluated on (spec summaries, real graph); the real handler's summaries are only compared with them (a
/// difference is the business of C26 / C27 and a divergence here).
fn judge_block(pid: &str, program: &Program, index: usize, want_res: Option<String>, want_edges: Option<BTreeSet<Edge>>,
               spec: Option<(Vec<Sum>, Option<Sum>)>) -> Outcome {
    match build_block(program, index) {
        Err(e) => {
            // a program that does not schedule is outside the quantifier of C22-C24
            let mut o = Outcome::ok(false);
            o.count("refused");
            if want_res.as_deref() == Some("done") {
                o.diverge(format!("the model schedules this block, the code refuses it: {e}"));
            }
            o
        }
        Ok(b) => {
            let (sums, term) = match spec {
                Some((sp, tsp)) if sp.len() == b.sums.len() && tsp.is_some() == b.term.is_some() => (sp, tsp),
                Some(_) => return not_reproduced("the real block does not have the case's instructions".into()),
                None => (b.sums.clone(), b.term.clone()),
            };
            let mut o = Outcome::ok(nontrivial_for(pid, &sums, &term, &b.edges));
            let handler_differs = sums.iter().zip(&b.sums).position(|(x, y)| !x.same(y)).map(|n| n + 1)
                .or_else(|| match (&term, &b.term) { (Some(x), Some(y)) if !x.same(y) => Some(END as usize), _ => None });
            if let Some(n) = handler_differs {
                o.diverge(format!("the DefaultHandler's summary of node {n} differs from the specification's (C26 / C27)"));
            }
            let (verdict, others) = classify(pid, &sums, &term, &b.edges);
            if !verdict.is_empty() {
                o.violate(Violation::new(&verdict[0], want_edges.as_ref().map(edges_json).unwrap_or(Value::Null), edges_json(&b.edges))
                    .note(verdict.join("; ")));
            }
            for x in others.iter().take(2) {
                o.diverge(format!("(sibling property) {x}"));
            }
            if want_res.as_deref() == Some("err") {
                o.diverge("the model refuses this block, the code schedules it");
            } else if let Some(w) = want_edges {
                if w != b.edges && verdict.is_empty() {
                    let extra: Vec<&Edge> = b.edges.difference(&w).collect();
                    let missing: Vec<&Edge> = w.difference(&b.edges).collect();
                    o.diverge(format!("edge set differs from the model but satisfies {pid}: extra {extra:?}, missing {missing:?}"));
                }
            }
            o
        }
    }
}

// ------------------------------------------------------------------------------- replay: the queue

fn dep_set(v: &Value) -> BTreeSet<(u64, String)> {
    v.as_array().map(|a| a.iter().map(|d| (util::u(d, "n"), s(d, "t"))).collect()).unwrap_or_default()
}

fn node_of(n: u64) -> usize {
    // model node k >= 1 is driven as InstructionIndex(k - 1)
    (n - 1) as usize
}

/// Drive the real DependencyQueue through the hook with the accesses of `hist` (each {n, k}); returns the
/// reported sets per access and the pending set, in the model's encoding.
pub fn run_real_queue(inst: &str, hist: &[Value]) -> (Vec<BTreeSet<(u64, String)>>, BTreeSet<(u64, String)>) {
    if inst == "mem" {
        let accesses: Vec<(usize, MemoryAccessType)> = hist.iter().map(|h| {
            (node_of(util::u(h, "n")), match s(h, "k").as_str() {
                "Read" => MemoryAccessType::Read,
                "Write" => MemoryAccessType::Write,
                "Capture" => MemoryAccessType::Capture,
                other => panic!("memory access kind {other}"),
            })
        }).collect();
        let (rep, pend) = verif_hooks::drive_memory_queue(&accesses);
        let name = |t: MemoryAccessType| match t {
            MemoryAccessType::Read => "Read",
            MemoryAccessType::Write => "Write",
            MemoryAccessType::Capture => "Capture",
        };
        (rep.into_iter().map(|ds| ds.into_iter().map(|(t, n)| (node_id(n), name(t).to_string())).collect()).collect(),
         pend.into_iter().map(|(t, n)| (node_id(n), name(t).to_string())).collect())
    } else {
        let accesses: Vec<(usize, bool)> = hist.iter().map(|h| {
            (node_of(util::u(h, "n")), match s(h, "k").as_str() {
                "Using" => true,
                "Blocking" => false,
                other => panic!("frame access kind {other}"),
            })
        }).collect();
        let (rep, pend) = verif_hooks::drive_frame_queue(&accesses);
        (rep.into_iter().map(|ds| ds.into_iter().map(|n| (node_id(n), "Node".to_string())).collect()).collect(),
         pend.into_iter().map(|n| (node_id(n), "Node".to_string())).collect())
    }
}

fn deps_json(d: &BTreeSet<(u64, String)>) -> Value {
    Value::Array(d.iter().map(|(n, t)| json!({"n": n, "t": t})).collect())
}

/// spec -> code for one MC_DepQueue case {inst, hist:[{n,k,deps}], pending}.  The queue's contract is the
/// property here (DESIGN.md §6 C23): the reported dependency set of every step, and the pending set, must be
/// the model's.
/// The queue's contract in Rust (last writer, plus for a write the reads since; pending = all accesses since and
/// including the last write).  Used only to judge the replay of a recorded history (a rejection of the trace
/// validation), where no TLC-computed expectation is at hand; the primary oracle is DepQueue.tla.
fn contract(inst: &str, hist: &[Value]) -> (Vec<Value>, Value) {
    let is_w = |h: &Value| matches!(s(h, "k").as_str(), "Write" | "Capture" | "Using");
    let wdep = |p: Option<usize>| -> Vec<(u64, String)> {
        match p {
            Some(q) => vec![(util::u(&hist[q], "n"), if inst == "frame" { "Node".to_string() } else { s(&hist[q], "k") })],
            None => if inst == "frame" { vec![(0, "Node".to_string())] } else { vec![] },
        }
    };
    let rtype = if inst == "frame" { "Node" } else { "Read" };
    let at = |p: usize, with_reads: bool| -> BTreeSet<(u64, String)> {
        let g = (0..p).rev().find(|&q| is_w(&hist[q]));
        let mut d: BTreeSet<(u64, String)> = wdep(g).into_iter().collect();
        if with_reads {
            for q in g.map(|x| x + 1).unwrap_or(0)..p {
                d.insert((util::u(&hist[q], "n"), rtype.to_string()));
            }
        }
        d
    };
    let with_deps = hist.iter().enumerate().map(|(p, h)| {
        let mut h = h.clone();
        h["deps"] = deps_json(&at(p, is_w(&hist[p])));
        h
    }).collect();
    (with_deps, deps_json(&at(hist.len(), true)))
}

/// The property (C23 / C24) on one cell, judged on the dependency sets the real queue reported: every
/// conflicting pair of accesses of different nodes is ordered (possibly transitively) by the reported
/// dependencies; every reported dependency is the initial writer or an earlier, conflicting access of that
/// node under its own type; nodes that only read, with no write between their reads, are not ordered.
/// (spec: QConflictsOrderedOf, QDepsJustifiedOf, QReadsUnorderedOf in DepQueue.tla.)  Used to classify a
/// difference from the model's exact sets as violation or mere divergence.
pub fn queue_property_failures(inst: &str, hist: &[Value], rep: &[BTreeSet<(u64, String)>]) -> Vec<String> {
    let is_w = |h: &Value| matches!(s(h, "k").as_str(), "Write" | "Capture" | "Using");
    let node = |h: &Value| util::u(h, "n");
    let mut fails = vec![];
    // justified
    for (p, h) in hist.iter().enumerate() {
        for (dn, dt) in &rep[p] {
            let initial = inst == "frame" && *dn == 0 && dt == "Node";
            let ok = initial
                || (0..p).any(|q| {
                    node(&hist[q]) == *dn
                        && (is_w(&hist[q]) || is_w(h))
                        && *dt == if inst == "frame" { "Node".to_string() } else { s(&hist[q], "k") }
                });
            if !ok {
                fails.push(format!("access {} ({} by node {}): dependency on ({dn}, {dt}) is not justified by an earlier conflicting access", p + 1, s(h, "k"), node(h)));
            }
        }
    }
    // edges between distinct nodes, reachability
    let mut succ: BTreeMap<u64, BTreeSet<u64>> = BTreeMap::new();
    for (p, h) in hist.iter().enumerate() {
        for (dn, _) in &rep[p] {
            if *dn != node(h) {
                succ.entry(*dn).or_default().insert(node(h));
            }
        }
    }
    let reach = |a: u64| -> BTreeSet<u64> {
        let mut seen: BTreeSet<u64> = BTreeSet::new();
        let mut todo = vec![a];
        while let Some(x) = todo.pop() {
            if let Some(ns) = succ.get(&x) {
                for y in ns {
                    if seen.insert(*y) {
                        todo.push(*y);
                    }
                }
            }
        }
        seen
    };
    for p in 0..hist.len() {
        let r = reach(node(&hist[p]));
        for q in p + 1..hist.len() {
            if node(&hist[q]) != node(&hist[p]) && (is_w(&hist[p]) || is_w(&hist[q])) && !r.contains(&node(&hist[q])) {
                fails.push(format!("accesses {} and {} conflict but node {} does not depend on node {}", p + 1, q + 1, node(&hist[q]), node(&hist[p])));
            }
        }
    }
    // reads unordered
    let only_reads = |n: u64| hist.iter().all(|h| node(h) != n || !is_w(h));
    for p in 0..hist.len() {
        if !only_reads(node(&hist[p])) {
            continue;
        }
        let r = reach(node(&hist[p]));
        for q in 0..hist.len() {
            let (lo, hi) = if p < q { (p, q) } else { (q, p) };
            if node(&hist[q]) != node(&hist[p]) && only_reads(node(&hist[q])) && (lo..=hi).all(|m| !is_w(&hist[m])) && r.contains(&node(&hist[q])) {
                fails.push(format!("reads {} and {} with no write between them are ordered", p + 1, q + 1));
            }
        }
    }
    fails
}

pub fn replay_queue(_ctx: &Ctx, case: &Value) -> Outcome {
    // a violation replay file from trace validation carries the recorded history: re-run it, judged by `contract`
    let from_history = case.get("history").map(|h| {
        let (hist, pending) = contract(&s(&h[0], "inst"), h[0]["hist"].as_array().unwrap());
        json!({"inst": h[0]["inst"], "hist": hist, "pending": pending})
    });
    let case = from_history.as_ref().unwrap_or(case);
    let inst = s(case, "inst");
    let hist: Vec<Value> = case["hist"].as_array().cloned().unwrap_or_default();
    let (rep, pend) = run_real_queue(&inst, &hist);
    let writes = hist.iter().filter(|h| matches!(s(h, "k").as_str(), "Write" | "Capture" | "Using")).count();
    let mut o = Outcome::ok(writes >= 1 && hist.len() >= 2);
    for (p, h) in hist.iter().enumerate() {
        if h.get("deps").is_none() {
            continue;
        }
        let want = dep_set(&h["deps"]);
        if rep[p] != want {
            // the exact sets are the model of the queue as built; the property is judged on what was reported
            let fails = queue_property_failures(&inst, &hist, &rep);
            if fails.is_empty() {
                o.diverge(format!("{inst} queue, access {} ({} by node {}): reported {} differs from the model's {} but orders every conflicting pair and reports only justified dependencies",
                    p + 1, s(h, "k"), h["n"], deps_json(&rep[p]), deps_json(&want)));
            } else {
                o.violate(Violation::new("dependencies reported by the queue", deps_json(&want), deps_json(&rep[p]))
                    .note(format!("{inst} queue, access {} ({} by node {}): {}", p + 1, s(h, "k"), h["n"], fails.join("; "))));
            }
            return o;
        }
    }
    if let Some(w) = case.get("pending") {
        let want = dep_set(w);
        if pend != want {
            // not an observable of C23/C24 (the link to the block end is judged on real graphs by C22)
            o.diverge(format!("{inst} queue: pending dependencies {} differ from the model's {}", deps_json(&pend), deps_json(&want)));
        }
    }
    o
}

// ------------------------------------------------------------------------------- drive: blocks

const REGIONS: &[&str] = &["a", "b", "c", "d"];

fn frames_universe() -> Vec<Value> {
    vec![json!({"name": "x", "qubits": [0]}), json!({"name": "x", "qubits": [1]}), json!({"name": "x", "qubits": [2]}),
         json!({"name": "cz", "qubits": [0, 1]}), json!({"name": "cz", "qubits": [1, 2]}), json!({"name": "ro", "qubits": [0]}),
         json!({"name": "cz", "qubits": [1, 0]})]
}

fn rnd_ref(r: &mut impl Rng) -> String {
    format!("{}[{}]", REGIONS.choose(r).unwrap(), r.gen_range(0..3))
}

fn rnd_expr(r: &mut impl Rng) -> String {
    match r.gen_range(0..6) {
        0 | 1 => "1.0".into(),
        2 => rnd_ref(r),
        3 => format!("2*{}", rnd_ref(r)),
        4 => format!("{}+cos({})", rnd_ref(r), rnd_ref(r)),
        _ => "pi/2".into(),
    }
}

fn rnd_classical(r: &mut impl Rng) -> String {
    let reg = |r: &mut dyn rand::RngCore| REGIONS.choose(r).unwrap().to_string();
    match r.gen_range(0..14) {
        0 => format!("MOVE {} 1", rnd_ref(r)),
        1 => format!("MOVE {} {}", rnd_ref(r), rnd_ref(r)),
        2 => format!("ADD {} {}", rnd_ref(r), rnd_ref(r)),
        3 => format!("MUL {} 2", rnd_ref(r)),
        4 => format!("NEG {}", rnd_ref(r)),
        5 => format!("EXCHANGE {} {}", rnd_ref(r), rnd_ref(r)),
        6 => format!("LOAD {} {} {}", rnd_ref(r), reg(r), rnd_ref(r)),
        7 => format!("STORE {} {} {}", reg(r), rnd_ref(r), rnd_ref(r)),
        8 => format!("EQ {} {} {}", rnd_ref(r), rnd_ref(r), rnd_ref(r)),
        9 => format!("CONVERT {} {}", rnd_ref(r), rnd_ref(r)),
        10 => format!("XOR {} {}", rnd_ref(r), rnd_ref(r)),
        11 => "NOP".into(),
        12 => "PRAGMA note".into(),
        _ => format!("SUB {} 1.5", rnd_ref(r)),
    }
}

fn rnd_rf(r: &mut impl Rng, frames: &[Value], reads_memory: bool) -> String {
    let f = text_frame(frames.choose(r).unwrap());
    let g = text_frame(frames.choose(r).unwrap());
    let e = if reads_memory { rnd_expr(r) } else { "1.0".to_string() };
    let nb = if r.gen_bool(0.5) { "NONBLOCKING " } else { "" };
    let q = r.gen_range(0..3);
    match r.gen_range(0..16) {
        0 | 1 => format!("{nb}PULSE {f} flat(duration: 1.0, iq: {e})"),
        2 => format!("{nb}CAPTURE {f} flat(duration: 1.0, iq: {e}) {}", rnd_ref(r)),
        3 => format!("{nb}RAW-CAPTURE {f} {e} {}", rnd_ref(r)),
        4 => format!("SET-PHASE {f} {e}"),
        5 => format!("SHIFT-FREQUENCY {f} {e}"),
        6 => format!("SET-SCALE {f} {e}"),
        7 => format!("SWAP-PHASES {f} {g}"),
        8 => "FENCE".into(),
        9 => format!("FENCE {q}"),
        10 => format!("FENCE {q} {}", (q + 1) % 3),
        11 => format!("DELAY {q} {e}"),
        12 => format!("DELAY {q} \"x\" {e}"),
        13 => format!("DELAY {q} {} \"cz\" 1.0", (q + 1) % 3),
        14 => "RESET".into(),
        _ => format!("RESET {q}"),
    }
}

/// code -> spec: seeded random multi-block programs; every block is one history
///   reset {prog:[summary], term:[summary], regions, frames, text, block}
///   step  {n, in:[edges into node n]}            one per instruction (loop iteration)
///   term  {}                                      the terminator's iteration, if any
///   done  {edges}                                 the public result
/// args: n (programs), len (max block length), mix = "mem" | "rf" | "mixed"
pub fn drive_blocks(ctx: &Ctx) -> Summary {
    let pid = pid_of(ctx);
    let n = ctx.arg_u64("n", 60);
    let max_len = ctx.arg_u64("len", 30) as usize;
    let mix = ctx.arg_str("mix").unwrap_or("mixed").to_string();
    let path = ctx.arg_str("out").expect("--out");
    let mut out = std::io::BufWriter::new(std::fs::File::create(path).expect("create trace"));
    let mut rng = util::rng(ctx.seed, 22 + pid[1..].parse::<u64>().unwrap_or(22));
    let mut sum = Summary::default();
    let universe = frames_universe();
    for _ in 0..n {
        // a random subset of the frame universe is defined; instructions draw from the whole universe, so
        // some name undefined frames
        let frames: Vec<Value> = universe.iter().filter(|_| rng.gen_bool(0.7)).cloned().collect();
        let nblocks = rng.gen_range(1..=3);
        let mut body: Vec<String> = vec![];
        for b in 0..nblocks {
            if b > 0 {
                body.push(format!("LABEL @l{b}"));
            }
            let len = rng.gen_range(0..=max_len);
            for _ in 0..len {
                let p_rf = match mix.as_str() { "mem" => 0.25, "rf" => 0.85, _ => 0.5 };
                let reads_memory = mix != "rf" || rng.gen_bool(0.2);
                body.push(if rng.gen_bool(p_rf) { rnd_rf(&mut rng, &universe, reads_memory) } else { rnd_classical(&mut rng) });
            }
            match rng.gen_range(0..5) {
                0 => body.push(format!("JUMP-WHEN @l{} {}", b + 1, rnd_ref(&mut rng))),
                1 => body.push(format!("JUMP-UNLESS @l{} {}", b + 1, rnd_ref(&mut rng))),
                2 => body.push(format!("JUMP @l{}", b + 1)),
                3 if b + 1 == nblocks => body.push("HALT".into()),
                _ => {}
            }
        }
        let (text, _) = program_text(&frames, &body, None, false);
        let program = match Program::from_str(&text) {
            Ok(p) => p,
            Err(e) => panic!("driver program does not parse: {e}\n{text}"),
        };
        let sp = match ScheduledProgram::from_program(&program, &DefaultHandler) {
            Ok(sp) => sp,
            Err(_) => {
                sum.absorb(&json!({"text": text}), &Outcome::skip(), true);
                continue;
            }
        };
        let regions: BTreeSet<String> = REGIONS.iter().map(|x| x.to_string()).chain(["zz".to_string()]).collect();
        let mut uq: Vec<u64> = program.get_used_qubits().iter().map(fixed).collect();
        uq.sort();
        for index in 0..sp.basic_blocks().len() {
            let b = build_block(&program, index).expect("block");
            let instrs: Vec<Value> = b.instrs.iter().map(|i| i.clone().expect("abstraction of a driver instruction")).collect();
            let term_instr: Vec<Value> = b.term_instr.iter().map(|i| i.clone().expect("abstraction of a driver terminator")).collect();
            util::emit(&mut out, &json!({"ev": "reset", "instrs": instrs, "term": term_instr, "uq": uq,
                "real": b.sums.iter().map(Sum::json).collect::<Vec<_>>(),
                "real_term": b.term.iter().map(Sum::json).collect::<Vec<_>>(), "regions": regions, "frames": frames,
                "text": text, "block": index}));
            for k in 1..=b.sums.len() as u64 {
                let into: BTreeSet<Edge> = b.edges.iter().filter(|e| e.1 == k).cloned().collect();
                util::emit(&mut out, &json!({"ev": "step", "n": k, "in": edges_json(&into)}));
            }
            if b.term.is_some() {
                util::emit(&mut out, &json!({"ev": "term"}));
            }
            util::emit(&mut out, &json!({"ev": "done", "edges": edges_json(&b.edges)}));
            let spec: Vec<Sum> = instrs.iter().map(|i| spec_sum(i, &frames, &uq)).collect();
            let tspec: Option<Sum> = term_instr.first().map(|i| spec_sum(i, &frames, &uq));
            let mut o = Outcome::ok(nontrivial_for(&pid, &spec, &tspec, &b.edges));
            o.count_n("events", b.sums.len() as u64 + 2 + b.term.is_some() as u64);
            o.count_n("instructions", b.sums.len() as u64);
            sum.absorb(&json!({"text": text, "block": index}), &o, true);
        }
    }
    sum
}

// ------------------------------------------------------------------------------- drive: the queue

/// code -> spec: long random access sequences through the hook, one event per access
///   reset {inst}     rec {n, k, deps}     pend {pending}
pub fn drive_queue(ctx: &Ctx) -> Summary {
    let n = ctx.arg_u64("n", 100);
    let max_len = ctx.arg_u64("len", 40) as usize;
    let only = ctx.arg_str("inst").map(|x| x.to_string());
    let path = ctx.arg_str("out").expect("--out");
    let mut out = std::io::BufWriter::new(std::fs::File::create(path).expect("create trace"));
    let mut rng = util::rng(ctx.seed, 2323);
    let mut sum = Summary::default();
    for h in 0..n {
        let inst = only.clone().unwrap_or_else(|| if h % 2 == 0 { "mem".into() } else { "frame".into() });
        let kinds: &[&str] = if inst == "mem" { &["Read", "Read", "Write", "Capture"] } else { &["Blocking", "Blocking", "Using"] };
        let len = rng.gen_range(1..=max_len);
        let mut node = 1u64;
        let mut hist: Vec<Value> = vec![];
        for p in 0..len {
            if p > 0 && rng.gen_bool(0.8) {
                node += 1;
            }
            hist.push(json!({"n": node, "k": kinds.choose(&mut rng).unwrap()}));
        }
        let (rep, pend) = run_real_queue(&inst, &hist);
        util::emit(&mut out, &json!({"ev": "reset", "inst": inst, "hist": hist}));
        for (p, hv) in hist.iter().enumerate() {
            util::emit(&mut out, &json!({"ev": "rec", "n": hv["n"], "k": hv["k"], "deps": deps_json(&rep[p])}));
        }
        util::emit(&mut out, &json!({"ev": "pend", "pending": deps_json(&pend)}));
        let writes = hist.iter().filter(|x| matches!(s(x, "k").as_str(), "Write" | "Capture" | "Using")).count();
        let mut o = Outcome::ok(writes >= 1 && len >= 2);
        o.count_n("events", len as u64 + 2);
        sum.absorb(&json!({"inst": inst, "hist": hist}), &o, true);
    }
    sum
}

// ------------------------------------------------------------------------------- entry points of C22

pub fn replay(ctx: &Ctx, case: &Value) -> Outcome {
    replay_block(ctx, case)
}

pub fn drive(ctx: &Ctx) -> Summary {
    drive_blocks(ctx)
}

#[allow(dead_code)]
pub fn btree_of(v: &Value) -> BTreeMap<String, Value> {
    v.as_object().map(|m| m.iter().map(|(k, v)| (k.clone(), v.clone())).collect()).unwrap_or_default()
}

#[cfg(test)]
mod tests {
    //! The property predicates must reject graphs that break the properties (they classify real graphs).
    use super::*;

    fn cls(r: &[&str], w: &[&str]) -> Sum {
        Sum { role: "C", r: r.iter().map(|x| x.to_string()).collect(), w: w.iter().map(|x| x.to_string()).collect(), ..Default::default() }
    }
    fn rf(timed: bool, used: &[&str], blk: &[&str]) -> Sum {
        Sum { role: "RF", timed, used: used.iter().map(|x| x.to_string()).collect(), blk: blk.iter().map(|x| x.to_string()).collect(), ..Default::default() }
    }
    fn es(v: &[(u64, u64, &str)]) -> BTreeSet<Edge> {
        v.iter().map(|(f, t, l)| (*f, *t, l.to_string())).collect()
    }

    #[test]
    fn c22_rejects_backward_edges_cycles_and_dangling_nodes() {
        let sums = vec![cls(&[], &["a"]), cls(&["a"], &[])];
        let good = es(&[(0, 1, "Stable"), (1, 2, "Write"), (2, END, "Stable")]);
        assert!(c22_failures(&sums, &good).is_empty());
        assert!(!c22_failures(&sums, &es(&[(0, 1, "Stable"), (2, 1, "Write"), (2, END, "Stable")])).is_empty());
        assert!(!c22_failures(&sums, &es(&[(0, 1, "Stable"), (1, 2, "Write")])).is_empty()); // 2 does not reach END
        assert!(!c22_failures(&sums, &es(&[(1, 2, "Write"), (2, END, "Stable")])).is_empty()); // 1 not reachable
    }

    #[test]
    fn c23_rejects_unordered_conflicts_and_unjustified_edges() {
        let sums = vec![cls(&[], &["a"]), cls(&["a"], &[]), cls(&["a"], &[])];
        let good = es(&[(0, 1, "Stable"), (1, 2, "Write"), (1, 3, "Write"), (2, END, "Stable"), (3, END, "Stable")]);
        assert!(c23_failures(&sums, &None, &good).is_empty());
        // write then read without a path
        assert!(!c23_failures(&sums, &None, &es(&[(0, 1, "Stable"), (1, 2, "Write")])).is_empty());
        // two reads ordered by a direct memory edge
        let mut bad = good.clone();
        bad.insert((2, 3, "Read".into()));
        assert!(!c23_failures(&sums, &None, &bad).is_empty());
        // wrong access type on the edge
        assert!(!c23_failures(&sums, &None, &es(&[(1, 2, "Capture"), (1, 3, "Write")])).is_empty());
    }

    #[test]
    fn c24_rejects_unordered_frame_conflicts_and_edges_between_blockers() {
        let sums = vec![rf(true, &["f"], &[]), rf(true, &[], &["f"]), rf(true, &[], &["f"])];
        let good = es(&[(0, 1, "Stable"), (0, 1, "Sched"), (1, 2, "Stable"), (1, 2, "Sched"), (1, 3, "Stable"), (1, 3, "Sched")]);
        assert!(c24_failures(&sums, &good).is_empty());
        let mut no_sched = good.clone();
        no_sched.remove(&(1, 3, "Sched".into()));
        assert!(!c24_failures(&sums, &no_sched).is_empty());
        let mut blockers = good.clone();
        blockers.insert((2, 3, "Stable".into()));
        assert!(!c24_failures(&sums, &blockers).is_empty());
    }
}
