//! C16 — calibration lookup follows the documented precedence rules.
//!
//! This file also holds the code shared by the calibration group (C16–C19): the abstraction function
//! between real quil-rs calibration programs and the JSON encoding of spec/CalibrationRules.tla
//! (`abs` sub-module), used from c17/c18/c19 via `super::c16::abs`.
//!
//! replay: TLC cases {kind, hist, tags, query, chosen} from spec/mc/MC_Calibration.tla: the insert history
//!         is performed with `insert_calibration` / `insert_measurement_calibration` (bodies are tagged),
//!         the set order is compared (replace in place) and the chosen definition is compared for
//!         `get_match_for_gate` / `get_match_for_measurement` and `Program::expand_calibrations`.
//! drive:  seeded larger sets over wider alphabets; events reset/insert/match go to
//!         spec/trace/CalibrationTrace.tla, where TLC evaluates BestMatch on the recorded answers.

use crate::runner::{Outcome, Summary, Violation};
use crate::util;
use crate::Ctx;
use quil_rs::instruction::Instruction;
use quil_rs::program::Calibrations;
use quil_rs::Program;
use rand::seq::SliceRandom;
use rand::Rng;
use serde_json::{json, Value};

/// Abstraction function of the calibration group.
///
/// Encoding (spec/CalibrationRules.tla):
///   qubit   {"t":"fixed","n":0} | {"t":"var","s":"q"}
///   expr    {"t":"int","n":0} | {"t":"real","s":"1.5707963267948966"} | {"t":"pi2"} | {"t":"var","v":"t"}
///           | {"t":"plus1","e":E} | {"t":"neg","e":E}
///   instr   {"k":Kind,"name":str,"mods":[str],"params":[E],"qubits":[Q],"mref":Opt{name,index},"data":str}
///           ("" = absent for name/data)
///   gate calibration     {"k":"DefCal","name","mods","params","qubits","body":[instr]}
///   measure calibration  {"k":"DefCalMeasure","name":"" | n,"qubit":Q,"target":"" | t,"body":[instr]}
pub mod abs {
    use crate::util;
    use quil_rs::expression::{
        Expression, InfixExpression, InfixOperator, PrefixExpression, PrefixOperator,
    };
    use quil_rs::instruction::*;
    use quil_rs::program::{CalibrationExpansion, CalibrationSource, ExpansionResult, SourceMap};
    use quil_rs::program::InstructionIndex;
    use quil_rs::Program;
    use serde_json::{json, Value};

    // ------------------------------------------------------------------ abstract -> text -> real

    pub fn render_qubit(q: &Value) -> String {
        match q["t"].as_str() {
            Some("fixed") => q["n"].as_u64().expect("fixed qubit index").to_string(),
            Some("var") => q["s"].as_str().expect("qubit variable name").to_string(),
            _ => panic!("abs: unknown qubit {q}"),
        }
    }

    fn atomic(e: &Value) -> bool {
        matches!(e["t"].as_str(), Some("int") | Some("real") | Some("var"))
    }

    pub fn render_expr(e: &Value) -> String {
        let wrap = |x: &Value| if atomic(x) { render_expr(x) } else { format!("({})", render_expr(x)) };
        match e["t"].as_str() {
            Some("int") => e["n"].as_u64().expect("int literal").to_string(),
            Some("real") => e["s"].as_str().expect("real literal").to_string(),
            Some("pi2") => "pi/2".to_string(),
            Some("var") => format!("%{}", e["v"].as_str().expect("variable name")),
            Some("plus1") => format!("{}+1", wrap(&e["e"])),
            Some("neg") => format!("-{}", wrap(&e["e"])),
            _ => panic!("abs: unknown expression {e}"),
        }
    }

    pub fn render_mref(m: &Value) -> String {
        format!("{}[{}]", m["name"].as_str().expect("mref name"), m["index"].as_u64().expect("mref index"))
    }

    fn strs(v: &Value) -> Vec<String> {
        v.as_array().map(|a| a.iter().map(|x| x.as_str().unwrap_or("").to_string()).collect()).unwrap_or_default()
    }

    fn seq<'a>(v: &'a Value, k: &str) -> &'a [Value] {
        v.get(k).and_then(|x| x.as_array()).map(|a| a.as_slice()).unwrap_or(&[])
    }

    fn qubits_text(i: &Value) -> String {
        seq(i, "qubits").iter().map(render_qubit).collect::<Vec<_>>().join(" ")
    }

    fn gate_head(i: &Value) -> String {
        let mut t = String::new();
        for m in strs(&i["mods"]) {
            t.push_str(&m);
            t.push(' ');
        }
        t.push_str(i["name"].as_str().expect("gate name"));
        let ps = seq(i, "params");
        if !ps.is_empty() {
            t.push('(');
            t.push_str(&ps.iter().map(render_expr).collect::<Vec<_>>().join(", "));
            t.push(')');
        }
        let q = qubits_text(i);
        if !q.is_empty() {
            t.push(' ');
            t.push_str(&q);
        }
        t
    }

    const FRAME_KINDS: &[(&str, &str)] = &[
        ("SetFrequency", "SET-FREQUENCY"),
        ("SetPhase", "SET-PHASE"),
        ("SetScale", "SET-SCALE"),
        ("ShiftFrequency", "SHIFT-FREQUENCY"),
        ("ShiftPhase", "SHIFT-PHASE"),
    ];

    pub fn render_instr(i: &Value) -> String {
        let k = i["k"].as_str().unwrap_or_else(|| panic!("abs: instruction without kind {i}"));
        let name = i["name"].as_str().unwrap_or("");
        let p1 = || render_expr(&seq(i, "params")[0]);
        let mref = || render_mref(&i["mref"]["some"]);
        match k {
            "Gate" => gate_head(i),
            "Measure" => {
                let mut t = "MEASURE".to_string();
                if !name.is_empty() {
                    t.push('!');
                    t.push_str(name);
                }
                t.push(' ');
                t.push_str(&qubits_text(i));
                if i["mref"].get("some").is_some() {
                    t.push(' ');
                    t.push_str(&mref());
                }
                t
            }
            "Reset" => format!("RESET {}", qubits_text(i)).trim_end().to_string(),
            "Delay" => format!("DELAY {} {}", qubits_text(i), p1()),
            "Fence" => format!("FENCE {}", qubits_text(i)),
            "Pulse" => format!("PULSE {} \"{}\" flat(duration: {}, iq: 1.0)", qubits_text(i), name, p1()),
            "Capture" => {
                format!("CAPTURE {} \"{}\" flat(duration: {}, iq: 1.0) {}", qubits_text(i), name, p1(), mref())
            }
            "RawCapture" => format!("RAW-CAPTURE {} \"{}\" {} {}", qubits_text(i), name, p1(), mref()),
            "SwapPhases" => {
                let qs = seq(i, "qubits");
                format!("SWAP-PHASES {} \"{}\" {} \"{}\"", render_qubit(&qs[0]), name, render_qubit(&qs[1]), name)
            }
            "Declare" => format!("DECLARE {name} BIT[1]"),
            "Pragma" => {
                let d = i["data"].as_str().unwrap_or("");
                if d.is_empty() {
                    format!("PRAGMA {name}")
                } else {
                    format!("PRAGMA {name} \"{d}\"")
                }
            }
            "Nop" => "NOP".to_string(),
            "Move" => format!("MOVE {} 1", mref()),
            other => match FRAME_KINDS.iter().find(|(a, _)| *a == other) {
                Some((_, kw)) => format!("{} {} \"{}\" {}", kw, qubits_text(i), name, p1()),
                None => panic!("abs: unknown instruction kind {other}"),
            },
        }
    }

    pub fn render_def(d: &Value) -> String {
        let mut t = match d["k"].as_str() {
            Some("DefCal") => format!("DEFCAL {}:", gate_head(d)),
            Some("DefCalMeasure") => {
                let mut h = "DEFCAL MEASURE".to_string();
                let n = d["name"].as_str().unwrap_or("");
                if !n.is_empty() {
                    h.push('!');
                    h.push_str(n);
                }
                h.push(' ');
                h.push_str(&render_qubit(&d["qubit"]));
                let tg = d["target"].as_str().unwrap_or("");
                if !tg.is_empty() {
                    h.push(' ');
                    h.push_str(tg);
                }
                h.push(':');
                h
            }
            _ => panic!("abs: not a calibration definition {d}"),
        };
        for i in seq(d, "body") {
            t.push_str("\n    ");
            t.push_str(&render_instr(i));
        }
        t
    }

    pub fn instr_from_abs(i: &Value) -> Instruction {
        let real = util::instr(&render_instr(i));
        // the abstraction function must be the inverse of the rendering on the alphabets in use
        let back = instr_to_abs(&real);
        if back != *i {
            panic!("abs: abstraction mismatch: {i} renders to {:?} which abstracts to {back}", render_instr(i));
        }
        real
    }

    pub fn def_from_abs(d: &Value) -> Instruction {
        let real = util::instr(&render_def(d));
        let back = def_to_abs(&real);
        if back != *d {
            panic!("abs: abstraction mismatch: {d} renders to {:?} which abstracts to {back}", render_def(d));
        }
        real
    }

    // ------------------------------------------------------------------ real -> abstract

    pub fn qubit_to_abs(q: &Qubit) -> Value {
        match q {
            Qubit::Fixed(n) => json!({"t": "fixed", "n": n}),
            Qubit::Variable(s) => json!({"t": "var", "s": s}),
            Qubit::Placeholder(_) => panic!("abs: placeholder qubit is not modelled"),
        }
    }

    pub fn expr_to_abs(e: &Expression) -> Value {
        match e {
            Expression::Number(c) if c.im == 0.0 => {
                if c.re >= 0.0 && c.re.fract() == 0.0 && c.re < 1.0e9 {
                    json!({"t": "int", "n": c.re as u64})
                } else {
                    json!({"t": "real", "s": format!("{}", c.re)})
                }
            }
            Expression::Variable(v) => json!({"t": "var", "v": v}),
            Expression::Infix(InfixExpression { left, operator: InfixOperator::Slash, right })
                if **left == Expression::PiConstant() && **right == Expression::Number(2.0.into()) =>
            {
                json!({"t": "pi2"})
            }
            Expression::Infix(InfixExpression { left, operator: InfixOperator::Plus, right })
                if **right == Expression::Number(1.0.into()) =>
            {
                json!({"t": "plus1", "e": expr_to_abs(left)})
            }
            Expression::Prefix(PrefixExpression { operator: PrefixOperator::Minus, expression }) => {
                json!({"t": "neg", "e": expr_to_abs(expression)})
            }
            other => panic!("abs: expression is not modelled: {other:?}"),
        }
    }

    fn mref_to_abs(m: &MemoryReference) -> Value {
        json!({"name": m.name, "index": m.index})
    }

    fn rec(k: &str, name: &str, mods: Vec<String>, params: Vec<Value>, qubits: Vec<Value>, mref: Option<Value>, data: &str) -> Value {
        json!({"k": k, "name": name, "mods": mods, "params": params, "qubits": qubits,
               "mref": match mref { Some(m) => json!({"some": m}), None => json!({"none": true}) }, "data": data})
    }

    fn mods_to_abs(ms: &[GateModifier]) -> Vec<String> {
        ms.iter()
            .map(|m| match m {
                GateModifier::Controlled => "CONTROLLED".to_string(),
                GateModifier::Dagger => "DAGGER".to_string(),
                GateModifier::Forked => "FORKED".to_string(),
            })
            .collect()
    }

    fn qs(q: &[Qubit]) -> Vec<Value> {
        q.iter().map(qubit_to_abs).collect()
    }

    fn wave_duration(w: &WaveformInvocation) -> Vec<Value> {
        if w.name != "flat" {
            panic!("abs: waveform {} is not modelled", w.name);
        }
        vec![expr_to_abs(w.parameters.get("duration").expect("flat(duration: ..)"))]
    }

    pub fn instr_to_abs(i: &Instruction) -> Value {
        let fr = |k: &str, f: &FrameIdentifier, e: &Expression| rec(k, &f.name, vec![], vec![expr_to_abs(e)], qs(&f.qubits), None, "");
        match i {
            Instruction::Gate(g) => rec("Gate", &g.name, mods_to_abs(&g.modifiers), g.parameters.iter().map(expr_to_abs).collect(), qs(&g.qubits), None, ""),
            Instruction::Measurement(m) => rec("Measure", m.name.as_deref().unwrap_or(""), vec![], vec![], vec![qubit_to_abs(&m.qubit)], m.target.as_ref().map(mref_to_abs), ""),
            Instruction::Reset(r) => rec("Reset", "", vec![], vec![], r.qubit.iter().map(qubit_to_abs).collect(), None, ""),
            Instruction::Delay(d) => {
                if !d.frame_names.is_empty() {
                    panic!("abs: DELAY with frame names is not modelled");
                }
                rec("Delay", "", vec![], vec![expr_to_abs(&d.duration)], qs(&d.qubits), None, "")
            }
            Instruction::Fence(f) => rec("Fence", "", vec![], vec![], qs(&f.qubits), None, ""),
            Instruction::Pulse(p) => rec("Pulse", &p.frame.name, vec![], wave_duration(&p.waveform), qs(&p.frame.qubits), None, ""),
            Instruction::Capture(c) => rec("Capture", &c.frame.name, vec![], wave_duration(&c.waveform), qs(&c.frame.qubits), Some(mref_to_abs(&c.memory_reference)), ""),
            Instruction::RawCapture(c) => rec("RawCapture", &c.frame.name, vec![], vec![expr_to_abs(&c.duration)], qs(&c.frame.qubits), Some(mref_to_abs(&c.memory_reference)), ""),
            Instruction::SetFrequency(x) => fr("SetFrequency", &x.frame, &x.frequency),
            Instruction::SetPhase(x) => fr("SetPhase", &x.frame, &x.phase),
            Instruction::SetScale(x) => fr("SetScale", &x.frame, &x.scale),
            Instruction::ShiftFrequency(x) => fr("ShiftFrequency", &x.frame, &x.frequency),
            Instruction::ShiftPhase(x) => fr("ShiftPhase", &x.frame, &x.phase),
            Instruction::SwapPhases(x) => {
                if x.frame_1.name != x.frame_2.name || x.frame_1.qubits.len() != 1 || x.frame_2.qubits.len() != 1 {
                    panic!("abs: SWAP-PHASES shape is not modelled");
                }
                rec("SwapPhases", &x.frame_1.name, vec![], vec![], vec![qubit_to_abs(&x.frame_1.qubits[0]), qubit_to_abs(&x.frame_2.qubits[0])], None, "")
            }
            Instruction::Declaration(d) => rec("Declare", &d.name, vec![], vec![], vec![], None, ""),
            Instruction::Pragma(p) => {
                if !p.arguments.is_empty() {
                    panic!("abs: PRAGMA arguments are not modelled");
                }
                rec("Pragma", &p.name, vec![], vec![], vec![], None, p.data.as_deref().unwrap_or(""))
            }
            Instruction::Nop() => rec("Nop", "", vec![], vec![], vec![], None, ""),
            Instruction::Move(m) => rec("Move", "", vec![], vec![], vec![], Some(mref_to_abs(&m.destination)), ""),
            other => panic!("abs: instruction is not modelled: {other:?}"),
        }
    }

    pub fn gate_ident_to_abs(id: &CalibrationIdentifier, body: &[Instruction]) -> Value {
        json!({"k": "DefCal", "name": id.name, "mods": mods_to_abs(&id.modifiers),
               "params": id.parameters.iter().map(expr_to_abs).collect::<Vec<_>>(),
               "qubits": qs(&id.qubits), "body": body.iter().map(instr_to_abs).collect::<Vec<_>>()})
    }

    pub fn meas_ident_to_abs(id: &MeasureCalibrationIdentifier, body: &[Instruction]) -> Value {
        json!({"k": "DefCalMeasure", "name": id.name.as_deref().unwrap_or(""), "qubit": qubit_to_abs(&id.qubit),
               "target": id.target.as_deref().unwrap_or(""), "body": body.iter().map(instr_to_abs).collect::<Vec<_>>()})
    }

    pub fn def_to_abs(i: &Instruction) -> Value {
        match i {
            Instruction::CalibrationDefinition(c) => gate_ident_to_abs(&c.identifier, &c.instructions),
            Instruction::MeasureCalibrationDefinition(c) => meas_ident_to_abs(&c.identifier, &c.instructions),
            other => panic!("abs: not a calibration definition: {other:?}"),
        }
    }

    // ------------------------------------------------------------------ programs and source maps

    /// {"gcals":[..], "mcals":[..], "src":[..]}  ->  Program (definitions inserted in the given order)
    pub fn program_from_abs(case: &Value) -> Program {
        let mut p = Program::new();
        for d in seq(case, "gcals").iter().chain(seq(case, "mcals")) {
            p.add_instruction(def_from_abs(d));
        }
        for i in seq(case, "src") {
            p.add_instruction(instr_from_abs(i));
        }
        p
    }

    /// which definition of the program an expansion record names: {"kind":"g"|"m","i":1-based index}
    pub fn cal_ref(p: &Program, src: &CalibrationSource) -> Value {
        match src {
            CalibrationSource::Calibration(id) => {
                let i = p.calibrations.iter_calibrations().position(|c| &c.identifier == id);
                json!({"kind": "g", "i": i.map(|x| x + 1).unwrap_or(0)})
            }
            CalibrationSource::MeasureCalibration(id) => {
                let i = p.calibrations.iter_measure_calibrations().position(|c| &c.identifier == id);
                json!({"kind": "m", "i": i.map(|x| x + 1).unwrap_or(0)})
            }
        }
    }

    pub fn entries_to_abs(p: &Program, m: &SourceMap<InstructionIndex, ExpansionResult<CalibrationExpansion>>) -> Value {
        Value::Array(
            m.entries()
                .iter()
                .map(|e| {
                    let t = match e.target_location() {
                        ExpansionResult::Unmodified(t) => json!({"u": t.0}),
                        ExpansionResult::Rewritten(x) => json!({"r": expansion_to_abs(p, x)}),
                    };
                    json!({"s": e.source_location().0, "t": t})
                })
                .collect(),
        )
    }

    pub fn expansion_to_abs(p: &Program, x: &CalibrationExpansion) -> Value {
        json!({"cal": cal_ref(p, x.calibration_used()), "from": x.range().start.0, "to": x.range().end.0,
               "exps": entries_to_abs(p, x.expansions())})
    }

    pub fn listing(is: &[Instruction]) -> Vec<Value> {
        is.iter().map(instr_to_abs).collect()
    }
}

// ------------------------------------------------------------------------------------------- C16

/// body tag of the k-th inserted definition
fn tag_instr(k: u64) -> Value {
    json!({"k": "Pragma", "name": format!("tag{k}"), "mods": [], "params": [], "qubits": [], "mref": {"none": true}, "data": ""})
}

fn tag_of(body: &[Instruction]) -> u64 {
    match body.first() {
        Some(Instruction::Pragma(p)) => p.name.strip_prefix("tag").and_then(|s| s.parse().ok()).unwrap_or(0),
        _ => 0,
    }
}

fn with_tag(def: &Value) -> Value {
    let mut d = def.clone();
    let k = d["tag"].as_u64().expect("definition tag");
    d.as_object_mut().unwrap().remove("tag");
    d["body"] = json!([tag_instr(k)]);
    d
}

struct Answers {
    gtags: Vec<u64>,
    mtags: Vec<u64>,
    /// tag of the definition the public getter returns (0 = none)
    getter: u64,
    /// tag read off Program::expand_calibrations of the one-instruction body (0 = unchanged)
    expanded: u64,
    /// tags of the definitions replaced, per insert (0 = appended)
    replaced: Vec<u64>,
    /// number of definitions that match the query (statistics only: feeds the non-triviality rule)
    nmatch: usize,
    /// Program::add_instruction built the same set as Calibrations::insert_*
    routes_agree: bool,
}

fn run_history(hist: &[Value], query: &Value) -> Answers {
    let mut cals = Calibrations::default();
    let mut program = Program::new();
    let mut replaced = vec![];
    for d in hist {
        let real = abs::def_from_abs(&with_tag(d));
        program.add_instruction(real.clone());
        let old = match real {
            Instruction::CalibrationDefinition(c) => cals.insert_calibration(c).map(|o| tag_of(&o.instructions)),
            Instruction::MeasureCalibrationDefinition(c) => {
                cals.insert_measurement_calibration(c).map(|o| tag_of(&o.instructions))
            }
            _ => unreachable!(),
        };
        replaced.push(old.unwrap_or(0));
    }
    let gtags = cals.iter_calibrations().map(|c| tag_of(&c.instructions)).collect();
    let mtags = cals.iter_measure_calibrations().map(|c| tag_of(&c.instructions)).collect();
    let q = abs::instr_from_abs(query);
    let getter = match &q {
        Instruction::Gate(g) => cals.get_match_for_gate(g).map(|c| tag_of(&c.instructions)),
        Instruction::Measurement(m) => cals.get_match_for_measurement(m).map(|c| tag_of(&c.instructions)),
        _ => panic!("C16: query is neither a gate nor a measurement"),
    }
    .unwrap_or(0);
    let nmatch = match &q {
        Instruction::Gate(g) => cals.iter_calibrations().filter(|c| c.identifier.matches(g)).count(),
        Instruction::Measurement(m) => cals
            .iter_measure_calibrations()
            .filter(|c| {
                c.identifier.name == m.name
                    && c.identifier.target.is_some() == m.target.is_some()
                    && (matches!(c.identifier.qubit, quil_rs::instruction::Qubit::Variable(_)) || c.identifier.qubit == m.qubit)
            })
            .count(),
        _ => 0,
    };
    // the set built through Program::add_instruction should be the same set (reported as a divergence)
    let routes_agree = program.calibrations == cals;
    program.add_instruction(q.clone());
    let expanded = match program.expand_calibrations() {
        Ok(p) => {
            let body = p.body_instructions().cloned().collect::<Vec<_>>();
            if body.len() == 1 && body[0] == q {
                0
            } else {
                tag_of(&body)
            }
        }
        // tagged bodies hold no gate or measurement: an error here means no definition was applied
        Err(_) => u64::MAX,
    };
    Answers { gtags, mtags, getter, expanded, replaced, nmatch, routes_agree }
}

fn tags(v: &Value) -> Vec<u64> {
    v.as_array().map(|a| a.iter().map(|x| x.as_u64().unwrap_or(0)).collect()).unwrap_or_default()
}

pub fn replay(_ctx: &Ctx, case: &Value) -> Outcome {
    if let Some(h) = case.get("history") {
        return replay_recorded(h);
    }
    let hist = util::arr(case, "hist");
    let a = run_history(hist, &case["query"]);
    let mut o = Outcome::ok(case["nmatch"].as_u64().unwrap_or(0) >= 2 || a.replaced.iter().any(|&t| t != 0));
    if !a.routes_agree {
        o.diverge("Program::add_instruction and Calibrations::insert_* build different calibration sets");
    }
    let want_g = tags(&case["gtags"]);
    let want_m = tags(&case["mtags"]);
    if a.gtags != want_g || a.mtags != want_m {
        o.violate(
            Violation::new("calibration set order after redefinition", json!({"g": want_g, "m": want_m}), json!({"g": a.gtags, "m": a.mtags}))
                .note("a definition with an identical signature must replace the old one in place, any other is appended"),
        );
    }
    let want = case["chosen"].as_u64().expect("chosen");
    if a.getter != want {
        o.violate(
            Violation::new("chosen calibration (get_match_for_gate / get_match_for_measurement)", json!(want), json!(a.getter))
                .note("tags number the definitions in insertion order; 0 = no match"),
        );
    }
    if a.expanded != want {
        o.violate(
            Violation::new("chosen calibration (Program::expand_calibrations)", json!(want), json!(a.expanded))
                .note("tags number the definitions in insertion order; 0 = instruction left unchanged"),
        );
    }
    o
}

/// replay of a history rejected by trace validation: re-run it and report what the code answers
fn replay_recorded(h: &Value) -> Outcome {
    let evs = h.as_array().cloned().unwrap_or_default();
    let hist: Vec<Value> = evs.iter().filter(|e| e["ev"] == "insert").map(|e| e["def"].clone()).collect();
    let mut o = Outcome::ok(true);
    for e in evs.iter().filter(|e| e["ev"] == "match") {
        let a = run_history(&hist, &e["query"]);
        if json!(a.getter) != e["chosen"] || json!(a.gtags) != e["gtags"] || json!(a.mtags) != e["mtags"] {
            o.diverge(format!("re-run differs from the recording: chosen {} vs {}", a.getter, e["chosen"]));
        } else {
            o.violate(Violation::new("chosen calibration (recorded run rejected by the specification)", Value::Null, json!(a.getter)));
        }
    }
    o
}

// ------------------------------------------------------------------------------------------- drive

fn q_fixed(n: u64) -> Value {
    json!({"t": "fixed", "n": n})
}
fn q_var(s: &str) -> Value {
    json!({"t": "var", "s": s})
}

fn random_param(r: &mut impl Rng, for_cal: bool) -> Value {
    match r.gen_range(0..if for_cal { 6 } else { 11 }) {
        0 => json!({"t": "int", "n": 0}),
        1 => json!({"t": "int", "n": 1}),
        2 => json!({"t": "pi2"}),
        3 => json!({"t": "real", "s": "1.5707963267948966"}),
        4 => json!({"t": "real", "s": "0.25"}),
        5 => {
            let v = *["t", "u"].choose(r).unwrap();
            json!({"t": "var", "v": v})
        }
        6 => json!({"t": "plus1", "e": {"t": "int", "n": 0}}),
        7 => json!({"t": "neg", "e": {"t": "pi2"}}),
        // spellings whose value is a literal of the calibration alphabet: -0, -(-(pi/2)), (-1)+1
        8 => json!({"t": "neg", "e": {"t": "int", "n": 0}}),
        9 => json!({"t": "neg", "e": {"t": "neg", "e": {"t": "pi2"}}}),
        _ => json!({"t": "plus1", "e": {"t": "neg", "e": {"t": "int", "n": 1}}}),
    }
}

fn random_gate_like(r: &mut impl Rng, for_cal: bool) -> Value {
    let name = ["X", "RX", "CZ"].choose(r).unwrap();
    // modifier lists of length 0..3 over two modifiers, in both orders and with different multiplicities
    let mods: Vec<&str> = match r.gen_range(0..12) {
        0 => vec!["DAGGER"],
        1 => vec!["DAGGER", "DAGGER"],
        2 => vec!["CONTROLLED"],
        3 => vec!["DAGGER", "CONTROLLED"],
        4 => vec!["CONTROLLED", "DAGGER"],
        5 => vec!["DAGGER", "DAGGER", "CONTROLLED"],
        6 => vec!["DAGGER", "CONTROLLED", "CONTROLLED"],
        _ => vec![],
    };
    let np = r.gen_range(0..3);
    let params: Vec<Value> = (0..np).map(|_| random_param(r, for_cal)).collect();
    let nq = r.gen_range(1..=3);
    let qubits: Vec<Value> = (0..nq)
        .map(|k| {
            if for_cal && r.gen_bool(0.45) {
                q_var(["q", "r", "s"][k])
            } else {
                q_fixed(r.gen_range(0..3))
            }
        })
        .collect();
    json!({"name": name, "mods": mods, "params": params, "qubits": qubits})
}

fn random_def(r: &mut impl Rng, kind: &str, tag: u64) -> Value {
    if kind == "gate" {
        let mut d = random_gate_like(r, true);
        d["k"] = json!("DefCal");
        d["tag"] = json!(tag);
        d
    } else {
        let qubit = if r.gen_bool(0.4) { q_var(["q", "r"].choose(r).unwrap()) } else { q_fixed(r.gen_range(0..3)) };
        let name = *["", "", "m", "n"].choose(r).unwrap();
        let target = *["", "addr", "dest"].choose(r).unwrap();
        json!({"k": "DefCalMeasure", "name": name, "qubit": qubit, "target": target, "tag": tag})
    }
}

fn random_query(r: &mut impl Rng, kind: &str, hist: &[Value]) -> Value {
    if kind == "gate" {
        // mostly derived from an inserted identifier (so that matches happen), sometimes free
        let mut g = if !hist.is_empty() && r.gen_bool(0.8) {
            let d = hist.choose(r).unwrap();
            let qubits: Vec<Value> =
                d["qubits"].as_array().unwrap().iter().map(|q| if q["t"] == "var" || r.gen_bool(0.15) { q_fixed(r.gen_range(0..3)) } else { q.clone() }).collect();
            let params: Vec<Value> = d["params"]
                .as_array()
                .unwrap()
                .iter()
                .map(|p| if p["t"] == "var" || r.gen_bool(0.2) { random_param(r, false) } else { p.clone() })
                .collect();
            // now and then the same modifiers / arguments / qubits in another order (must not match, or must
            // bind positionally)
            let mut mods: Vec<Value> = d["mods"].as_array().cloned().unwrap_or_default();
            let (mut params, mut qubits) = (params, qubits);
            if r.gen_bool(0.25) {
                mods.reverse();
            }
            if r.gen_bool(0.15) {
                params.reverse();
            }
            if r.gen_bool(0.15) {
                qubits.reverse();
            }
            json!({"name": d["name"], "mods": mods, "params": params, "qubits": qubits})
        } else {
            random_gate_like(r, false)
        };
        g["k"] = json!("Gate");
        g["mref"] = json!({"none": true});
        g["data"] = json!("");
        g
    } else {
        let mref = if r.gen_bool(0.6) { json!({"some": {"name": "ro", "index": r.gen_range(0..2)}}) } else { json!({"none": true}) };
        let qubit = if r.gen_bool(0.1) { q_var("q") } else { q_fixed(r.gen_range(0..3)) };
        let name = *["", "", "m", "n"].choose(r).unwrap();
        json!({"k": "Measure", "name": name, "mods": [], "params": [], "qubits": [qubit], "mref": mref, "data": ""})
    }
}

pub fn drive(ctx: &Ctx) -> Summary {
    let n = ctx.arg_u64("n", 100);
    let max_cals = ctx.arg_u64("cals", 8) as usize;
    let path = ctx.arg_str("out").expect("--out");
    let mut out = std::io::BufWriter::new(std::fs::File::create(path).expect("create trace"));
    let mut rng = util::rng(ctx.seed, 16);
    let mut sum = Summary::default();
    for h in 0..n {
        let kind = if h % 3 == 2 { "meas" } else { "gate" };
        util::emit(&mut out, &json!({"ev": "reset", "kind": kind}));
        let len = rng.gen_range(1..=max_cals);
        let mut hist: Vec<Value> = vec![];
        let mut redefinition = false;
        for k in 0..len {
            // now and then re-insert an earlier identifier (redefinition)
            let d = if !hist.is_empty() && rng.gen_bool(0.2) {
                let mut d = hist.choose(&mut rng).unwrap().clone();
                d["tag"] = json!(k as u64 + 1);
                d
            } else {
                random_def(&mut rng, kind, k as u64 + 1)
            };
            hist.push(d.clone());
            let a = run_history(&hist, &random_query(&mut rng, kind, &[]));
            redefinition |= a.replaced.last().copied().unwrap_or(0) != 0;
            util::emit(&mut out, &json!({"ev": "insert", "def": d, "replaced": a.replaced.last(), "gtags": a.gtags, "mtags": a.mtags}));
        }
        let mut many = false;
        let nq = rng.gen_range(2..=5);
        for _ in 0..nq {
            let q = random_query(&mut rng, kind, &hist);
            let a = run_history(&hist, &q);
            many |= a.nmatch >= 2;
            util::emit(&mut out, &json!({"ev": "match", "query": q, "chosen": a.getter, "expanded": a.expanded,
                                         "gtags": a.gtags, "mtags": a.mtags}));
        }
        let mut o = Outcome::ok(many || redefinition);
        o.count_n("events", (1 + len + nq) as u64);
        sum.absorb(&json!({"hist": hist}), &o, true);
    }
    sum
}
