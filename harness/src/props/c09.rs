//! C09 — see c08.rs (shared binding of spec/ProgramModel.tla); the mode selects the property's verdicts.
use crate::runner::{Outcome, Summary};
use crate::Ctx;
use serde_json::Value;

pub fn replay(ctx: &Ctx, case: &Value) -> Outcome {
    super::c08::replay(ctx, case)
}

pub fn drive(ctx: &Ctx) -> Summary {
    super::c08::drive(ctx)
}
