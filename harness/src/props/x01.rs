//! X01 — growth beyond the listed properties: the control-flow graph is semantically faithful
//! (spec/BlockExec.tla).  Not a listed property: every mismatch is reported as MODEL-DIVERGENCE only.
//!
//! replay: TLC cases {body (with semantics), blocks}: the real blocks must equal the model's.
//! drive:  random bodies with memory-dependent control flow; the *real* blocks are recorded and TLC runs
//!         the flat machine and the block machine on them in lock-step (spec/trace/BlockExecTrace.tla).

use super::c28::{block_json, class_of, instr_json};
use crate::runner::{Outcome, Summary};
use crate::util::{self, arr, instr, s};
use crate::Ctx;
use quil_rs::instruction::{ArithmeticOperand, ArithmeticOperator, Instruction};
use quil_rs::program::analysis::ControlFlowGraph;
use quil_rs::quil::Quil;
use quil_rs::Program;
use rand::seq::SliceRandom;
use rand::Rng;
use serde_json::{json, Value};

/// the abstract instruction of spec/BlockExec.tla: ControlFlowGraph's record plus `sem` for ordinary ones
fn sem_json(i: &Instruction) -> Value {
    let mut v = instr_json(i);
    if class_of(i) == "Plain" {
        let sem = match i {
            Instruction::Move(m) => match &m.source {
                ArithmeticOperand::LiteralInteger(k) => {
                    json!({"op": "move", "cell": m.destination.to_quil_or_debug(), "v": k})
                }
                _ => json!({"op": "emit"}),
            },
            Instruction::Arithmetic(a) if a.operator == ArithmeticOperator::Subtract => match &a.source {
                ArithmeticOperand::LiteralInteger(k) => {
                    json!({"op": "sub", "cell": a.destination.to_quil_or_debug(), "v": k})
                }
                _ => json!({"op": "emit"}),
            },
            _ => json!({"op": "emit"}),
        };
        v["sem"] = sem;
    }
    v
}

fn real_blocks(body: &[Instruction]) -> Vec<Value> {
    let mut program = Program::new();
    for i in body {
        program.add_instruction(i.clone());
    }
    ControlFlowGraph::from(&program).into_blocks().iter().map(block_json).collect()
}

pub fn replay(_ctx: &Ctx, case: &Value) -> Outcome {
    let body: Vec<Instruction> = match case.get("history") {
        Some(h) => arr(&h[0], "body").iter().map(|i| instr(&s(i, "text"))).collect(),
        None => arr(case, "body").iter().map(|i| instr(&s(i, "text"))).collect(),
    };
    let mut o = Outcome::ok(body.iter().any(|i| class_of(i) != "Plain"));
    let got = Value::Array(real_blocks(&body));
    if let Some(want) = case.get("blocks") {
        if *want != got {
            o.diverge(format!("real blocks differ from the model's: {got}"));
        }
    }
    // the model's view of each instruction's semantics must be the harness' view
    if let Some(b) = case.get("body").and_then(|b| b.as_array()) {
        for (a, i) in b.iter().zip(&body) {
            if class_of(i) == "Plain" && a.get("sem") != sem_json(i).get("sem") {
                o.diverge(format!("semantics of {} differ: model {:?}", i.to_quil_or_debug(), a.get("sem")));
            }
        }
    }
    o
}

pub fn drive(ctx: &Ctx) -> Summary {
    let n = ctx.arg_u64("n", 100);
    let max_len = ctx.arg_u64("len", 24) as usize;
    let path = ctx.arg_str("out").expect("--out");
    let mut out = std::io::BufWriter::new(std::fs::File::create(path).expect("create trace"));
    let mut rng = util::rng(ctx.seed, 101);
    let mut sum = Summary::default();
    let cells = ["r[0]", "r[1]", "n[0]"];
    let labels = ["a", "b", "c", "loop"];
    let emits = ["X 0", "CNOT 0 1", "MEASURE 0 ro[0]", "PRAGMA mark", "FENCE 0", "NOP"];
    for h in 0..n {
        let len = if h < 3 { h as usize } else { rng.gen_range(1..=max_len) };
        let mut body = vec![];
        // each label at most once, so that most jumps have exactly one destination
        let mut free: Vec<&str> = labels.to_vec();
        for _ in 0..len {
            let c = cells.choose(&mut rng).unwrap();
            let l = labels.choose(&mut rng).unwrap();
            let t = match rng.gen_range(0..100) {
                0..=29 => emits.choose(&mut rng).unwrap().to_string(),
                30..=44 => format!("MOVE {c} {}", rng.gen_range(0..4)),
                45..=59 => format!("SUB {c} 1"),
                60..=71 if !free.is_empty() => {
                    let k = rng.gen_range(0..free.len());
                    format!("LABEL @{}", free.remove(k))
                }
                60..=71 => "NOP".to_string(),
                72..=78 => format!("JUMP @{l}"),
                79..=88 => format!("JUMP-WHEN @{l} {c}"),
                89..=96 => format!("JUMP-UNLESS @{l} {c}"),
                _ => "HALT".to_string(),
            };
            body.push(instr(&t));
        }
        let blocks = real_blocks(&body);
        let body_abs: Vec<Value> = body.iter().map(sem_json).collect();
        util::emit(&mut out, &json!({"ev": "reset", "body": body_abs, "blocks": blocks}));
        let o = Outcome::ok(body.iter().any(|i| class_of(i) != "Plain"));
        sum.absorb(&json!({"body": body.iter().map(|i| i.to_quil_or_debug()).collect::<Vec<_>>()}), &o, true);
    }
    sum
}
