//! C24 — frame conflicts are ordered and every frame edge is justified.
//!
//! Modes: `C24` (blocks: MC_BlockGraph cases / block traces, judged by the C24 predicates of c22.rs) and
//! `C24.queue` (the DependencyQueue driven through the verif hook against MC_DepQueue cases / queue traces).
//! All code is shared with C22 (harness/src/props/c22.rs).
use crate::runner::{Outcome, Summary};
use crate::Ctx;
use serde_json::Value;

pub fn replay(ctx: &Ctx, case: &Value) -> Outcome {
    if ctx.mode.ends_with(".queue") {
        super::c22::replay_queue(ctx, case)
    } else {
        super::c22::replay_block(ctx, case)
    }
}

pub fn drive(ctx: &Ctx) -> Summary {
    if ctx.mode.ends_with(".queue") {
        super::c22::drive_queue(ctx)
    } else {
        super::c22::drive_blocks(ctx)
    }
}
