//! C07 — quoted strings survive printing and parsing unchanged.
//!
//! replay: TLC cases {s, rest, quoted, ok, val} from spec/mc/MC_QuotedString.tla.  The string `s` is
//!         placed, through the public constructors, in every string-bearing position whose printed
//!         continuation has the shape `rest` (end of text / end of line / a further operand / a further
//!         string); the program is printed and parsed back and the strings it holds are compared.
//! drive:  seeded random strings (longer, full printable ASCII plus newline and tab) through the same
//!         positions; events reset/printed/lexed/done go to spec/trace/QuotedStringTrace.tla, where TLC
//!         runs the model lexer on the *real* printed text.
//!
//! Verdict (property statement): the text parses and every string of the re-parsed program equals the
//! string that was put in.  The exact printed lexeme (model `quoted`) is divergence only.

use crate::runner::{Outcome, Summary, Violation};
use crate::util;
use crate::Ctx;
use quil_rs::expression::Expression;
use quil_rs::instruction::{
    AttributeValue, CalibrationDefinition, CalibrationIdentifier, Capture, CircuitDefinition, Delay, FrameAttributes,
    FrameDefinition, FrameIdentifier, Gate, Include, Instruction, MeasureCalibrationDefinition,
    MeasureCalibrationIdentifier, MemoryReference, Pragma, PragmaArgument, Pulse, Qubit, RawCapture, SetFrequency,
    SetPhase, SetScale, ShiftFrequency, ShiftPhase, SwapPhases, WaveformInvocation, WaveformParameters,
};
use quil_rs::quil::Quil;
use quil_rs::Program;
use rand::Rng;
use serde_json::{json, Value};
use std::str::FromStr;

pub fn chars_to_string(v: &Value) -> String {
    v.as_array().expect("char array").iter().map(|c| c.as_str().expect("char")).collect()
}

pub fn string_to_chars(s: &str) -> Value {
    Value::Array(s.chars().map(|c| json!(c.to_string())).collect())
}

/// Every string value an instruction holds, in printing order (recursively through bodies).
pub fn strings_of(i: &Instruction, out: &mut Vec<String>) {
    let frame = |f: &FrameIdentifier, out: &mut Vec<String>| out.push(f.name.clone());
    match i {
        Instruction::Pragma(p) => {
            if let Some(d) = &p.data {
                out.push(d.clone())
            }
        }
        Instruction::Include(x) => out.push(x.filename.clone()),
        Instruction::FrameDefinition(d) => {
            frame(&d.identifier, out);
            for (_, v) in &d.attributes {
                if let AttributeValue::String(s) = v {
                    out.push(s.clone())
                }
            }
        }
        Instruction::Pulse(p) => frame(&p.frame, out),
        Instruction::Capture(p) => frame(&p.frame, out),
        Instruction::RawCapture(p) => frame(&p.frame, out),
        Instruction::SetFrequency(p) => frame(&p.frame, out),
        Instruction::SetPhase(p) => frame(&p.frame, out),
        Instruction::SetScale(p) => frame(&p.frame, out),
        Instruction::ShiftFrequency(p) => frame(&p.frame, out),
        Instruction::ShiftPhase(p) => frame(&p.frame, out),
        Instruction::SwapPhases(p) => {
            frame(&p.frame_1, out);
            frame(&p.frame_2, out)
        }
        Instruction::Delay(d) => out.extend(d.frame_names.iter().cloned()),
        Instruction::CalibrationDefinition(c) => c.instructions.iter().for_each(|i| strings_of(i, out)),
        Instruction::MeasureCalibrationDefinition(c) => c.instructions.iter().for_each(|i| strings_of(i, out)),
        Instruction::CircuitDefinition(c) => c.instructions.iter().for_each(|i| strings_of(i, out)),
        _ => {}
    }
}

fn fid(name: &str) -> FrameIdentifier {
    FrameIdentifier::new(name.to_string(), vec![Qubit::Fixed(0)])
}
fn fid2(name: &str) -> FrameIdentifier {
    FrameIdentifier::new(name.to_string(), vec![Qubit::Fixed(0), Qubit::Variable("q".into())])
}
fn one() -> Expression {
    Expression::from_str("1.5").unwrap()
}
fn wf() -> WaveformInvocation {
    let mut p = WaveformParameters::new();
    p.insert("duration".to_string(), one());
    WaveformInvocation::new("flat".to_string(), p)
}
fn mref() -> MemoryReference {
    MemoryReference::new("ro".to_string(), 0)
}
fn pragma(s: &str) -> Instruction {
    Instruction::Pragma(Pragma::new("foo".into(), vec![PragmaArgument::Identifier("a".into()), PragmaArgument::Integer(1)],
                                    Some(s.to_string())))
}
fn gate_x() -> Instruction {
    Instruction::Gate(Gate::new("X", vec![], vec![Qubit::Fixed(0)], vec![]).unwrap())
}

/// (position name, program) — positions where the string is the last thing of its instruction
fn end_positions(s: &str) -> Vec<(&'static str, Vec<Instruction>)> {
    let mut attrs = FrameAttributes::new();
    attrs.insert("DIRECTION".into(), AttributeValue::String("tx".into()));
    attrs.insert("HARDWARE-OBJECT".into(), AttributeValue::String(s.to_string()));
    let mut attrs2 = FrameAttributes::new();
    attrs2.insert("HARDWARE-OBJECT".into(), AttributeValue::String(s.to_string()));
    attrs2.insert("INITIAL-FREQUENCY".into(), AttributeValue::Expression(one()));
    vec![
        ("pragma.data", vec![pragma(s)]),
        ("pragma.data.noargs", vec![Instruction::Pragma(Pragma::new("bar".into(), vec![], Some(s.to_string())))]),
        ("include.filename", vec![Instruction::Include(Include::new(s.to_string()))]),
        ("defframe.attr.last", vec![Instruction::FrameDefinition(FrameDefinition::new(fid("rf"), attrs))]),
        ("defframe.attr.first", vec![Instruction::FrameDefinition(FrameDefinition::new(fid("rf"), attrs2))]),
        ("swap-phases.frame_2", vec![Instruction::SwapPhases(SwapPhases::new(fid("rf"), fid(s)))]),
    ]
}

/// positions where an operand follows the string on the same line
fn mid_positions(s: &str) -> Vec<(&'static str, Vec<Instruction>)> {
    let mut attrs = FrameAttributes::new();
    attrs.insert("DIRECTION".into(), AttributeValue::String("rx".into()));
    vec![
        ("defframe.name", vec![Instruction::FrameDefinition(FrameDefinition::new(fid2(s), attrs))]),
        ("pulse.frame", vec![Instruction::Pulse(Pulse::new(true, fid(s), wf()))]),
        ("pulse.frame.nonblocking", vec![Instruction::Pulse(Pulse::new(false, fid2(s), wf()))]),
        ("capture.frame", vec![Instruction::Capture(Capture::new(true, fid(s), mref(), wf()))]),
        ("raw-capture.frame", vec![Instruction::RawCapture(RawCapture::new(false, fid(s), one(), mref()))]),
        ("set-frequency.frame", vec![Instruction::SetFrequency(SetFrequency::new(fid(s), one()))]),
        ("set-phase.frame", vec![Instruction::SetPhase(SetPhase::new(fid(s), one()))]),
        ("set-scale.frame", vec![Instruction::SetScale(SetScale::new(fid(s), one()))]),
        ("shift-frequency.frame", vec![Instruction::ShiftFrequency(ShiftFrequency::new(fid(s), one()))]),
        ("shift-phase.frame", vec![Instruction::ShiftPhase(ShiftPhase::new(fid(s), one()))]),
        ("swap-phases.frame_1", vec![Instruction::SwapPhases(SwapPhases::new(fid(s), fid2("rf")))]),
        ("delay.frame_name", vec![Instruction::Delay(Delay::new(one(), vec![s.to_string()], vec![Qubit::Fixed(0)]))]),
    ]
}

/// positions where another string follows
fn str_positions(s: &str) -> Vec<(&'static str, Vec<Instruction>)> {
    vec![
        ("delay.frame_names.first",
         vec![Instruction::Delay(Delay::new(one(), vec![s.to_string(), "b".to_string()], vec![Qubit::Fixed(0)]))]),
        ("delay.frame_names.last",
         vec![Instruction::Delay(Delay::new(one(), vec!["b".to_string(), s.to_string()], vec![Qubit::Fixed(0), Qubit::Fixed(1)]))]),
        ("delay.frame_names.both",
         vec![Instruction::Delay(Delay::new(one(), vec![s.to_string(), s.to_string()], vec![Qubit::Fixed(0)]))]),
    ]
}

/// positions where the instruction that ends in the string is followed by another line, at top level and
/// inside the three kinds of body
fn line_positions(s: &str) -> Vec<(&'static str, Vec<Instruction>)> {
    let mut v = vec![];
    for (n, mut p) in end_positions(s) {
        p.push(gate_x());
        v.push((n, p));
    }
    let cal_id = CalibrationIdentifier::new("X".into(), vec![], vec![], vec![Qubit::Fixed(0)]).unwrap();
    v.push(("defcal.body.pragma",
            vec![Instruction::CalibrationDefinition(CalibrationDefinition::new(cal_id.clone(), vec![pragma(s), gate_x()])), gate_x()]));
    v.push(("defcal.body.pulse",
            vec![Instruction::CalibrationDefinition(CalibrationDefinition::new(
                cal_id, vec![Instruction::Pulse(Pulse::new(true, fid(s), wf())), pragma(s)]))]));
    v.push(("defcal-measure.body.pragma",
            vec![Instruction::MeasureCalibrationDefinition(MeasureCalibrationDefinition::new(
                MeasureCalibrationIdentifier::new(None, Qubit::Fixed(0), Some("dest".into())), vec![pragma(s), gate_x()])), gate_x()]));
    v.push((DEFCIRCUIT_POSITION,
            vec![Instruction::CircuitDefinition(CircuitDefinition::new("c".into(), vec![], vec!["q".into()], vec![pragma(s), gate_x()])), gate_x()]));
    v
}

/// (a string with a newline in a DEFCIRCUIT body used to be re-indented: repaired by /repo commit 0b27e6d,
/// see known_findings.d/C07.json; this placement guards that fix)
pub const DEFCIRCUIT_POSITION: &str = "defcircuit.body.pragma";

fn nontrivial(s: &str) -> bool {
    s.chars().any(|c| matches!(c, '"' | '\\' | '\n' | '#' | ';'))
}

fn all_strings(is: &[Instruction]) -> Vec<String> {
    let mut out = vec![];
    is.iter().for_each(|i| strings_of(i, &mut out));
    out
}

/// The property on one placement.  Returns the printed text (if any).
fn check_position(o: &mut Outcome, position: &str, s: &str, instrs: &[Instruction], quoted: Option<&str>) -> Option<String> {
    let tag = |v: Violation| v;
    let mut program = Program::new();
    program.add_instructions(instrs.to_vec());
    let want = all_strings(&program.to_instructions());
    assert!(want.iter().any(|x| x == s), "harness: position {position} does not hold the string");
    o.sub_evaluations += 1;
    let text = match program.to_quil() {
        Ok(t) => t,
        Err(e) => {
            o.violate(tag(Violation::new("serialization", json!("Ok"), json!(e.to_string())).note(position)));
            return None;
        }
    };
    if let Some(q) = quoted {
        if !text.contains(q) {
            o.diverge(format!("{position}: printed text {text:?} does not contain the model's lexeme {q:?}"));
        }
    }
    match Program::from_str(&text) {
        Err(e) => o.violate(tag(
            Violation::new("printed text parses", json!("Ok"), json!(e.to_string())).note(format!("{position}: {text:?}")))),
        Ok(p1) => {
            let got = all_strings(&p1.to_instructions());
            if got != want {
                o.violate(tag(Violation::new("string after re-parsing", json!(want), json!(got)).note(format!("{position}: {text:?}"))));
            } else if p1 != program {
                o.diverge(format!("{position}: strings survive but the re-parsed program differs: {text:?}"));
            }
        }
    }
    // single instructions: also without the trailing newline that Program adds (string at end of text)
    if instrs.len() == 1 {
        if let Ok(t) = instrs[0].to_quil() {
            o.sub_evaluations += 1;
            match Program::from_str(&t) {
                Err(e) => o.violate(tag(Violation::new("printed text parses", json!("Ok"), json!(e.to_string()))
                    .note(format!("{position} (instruction text, no trailing newline): {t:?}")))),
                Ok(p1) => {
                    let got = all_strings(&p1.to_instructions());
                    if got != want {
                        o.violate(tag(Violation::new("string after re-parsing", json!(want), json!(got))
                            .note(format!("{position} (instruction text): {t:?}"))));
                    }
                }
            }
        }
    }
    Some(text)
}

fn positions_for_rest(rest: &str, s: &str) -> Vec<(&'static str, Vec<Instruction>)> {
    match rest {
        "" => end_positions(s),
        "\nX" => line_positions(s),
        " x" => mid_positions(s),
        " \"b\"" => str_positions(s),
        other => panic!("harness: unknown continuation {other:?}"),
    }
}

pub fn replay(_ctx: &Ctx, case: &Value) -> Outcome {
    if let Some(h) = case.get("history") {
        // a rejected recorded history: re-run its string through every position
        let s = chars_to_string(&h[0]["s"]);
        let mut o = Outcome::ok(nontrivial(&s));
        for rest in ["", "\nX", " x", " \"b\""] {
            for (name, p) in positions_for_rest(rest, &s) {
                check_position(&mut o, name, &s, &p, None);
            }
        }
        return o;
    }
    let s = chars_to_string(&case["s"]);
    let rest = chars_to_string(&case["rest"]);
    let quoted = chars_to_string(&case["quoted"]);
    let mut o = Outcome::ok(nontrivial(&s));
    if case["ok"].as_bool() != Some(true) || chars_to_string(&case["val"]) != s {
        // the model itself says the string does not survive (only with a deviation switched on)
        o.diverge("model case with ok = false or val # s".to_string());
    }
    for (name, p) in positions_for_rest(&rest, &s) {
        check_position(&mut o, name, &s, &p, Some(&quoted));
        o.count(name);
    }
    o
}

// ------------------------------------------------------------------------------------------- drive

fn random_string(r: &mut impl Rng, max_len: usize) -> String {
    let n = r.gen_range(0..=max_len);
    (0..n)
        .map(|_| match r.gen_range(0..100) {
            0..=14 => '"',
            15..=29 => '\\',
            30..=36 => '\n',
            37..=39 => '\t',
            40..=44 => '#',
            45..=49 => ';',
            50..=54 => ' ',
            _ => r.gen_range(0x20u8..0x7f) as char,
        })
        .collect()
}

pub fn drive(ctx: &Ctx) -> Summary {
    let n = ctx.arg_u64("n", 200);
    let max_len = ctx.arg_u64("len", 40) as usize;
    let path = ctx.arg_str("out").expect("--out");
    let mut out = std::io::BufWriter::new(std::fs::File::create(path).expect("create trace"));
    let mut rng = util::rng(ctx.seed, 7);
    let mut sum = Summary::default();
    for _ in 0..n {
        let s = random_string(&mut rng, max_len);
        let mut o = Outcome::ok(nontrivial(&s));
        util::emit(&mut out, &json!({"ev": "reset", "s": string_to_chars(&s)}));
        // the lexeme as the real printer writes it (INCLUDE is `INCLUDE ` + QuotedString)
        let inc = Instruction::Include(Include::new(s.clone())).to_quil().expect("INCLUDE prints");
        let quoted = inc.strip_prefix("INCLUDE ").expect("INCLUDE prefix").to_string();
        util::emit(&mut out, &json!({"ev": "printed", "quoted": string_to_chars(&quoted)}));
        // the real lexer on the real lexeme followed by each continuation
        for rest in ["", "\nX 0", " \"b\""] {
            let text = format!("PRAGMA p {quoted}{rest}");
            let (ok, val) = match Program::from_str(&text) {
                Ok(p) => match p.to_instructions().first() {
                    Some(Instruction::Pragma(pr)) => (true, pr.data.clone().unwrap_or_default()),
                    _ => (false, String::new()),
                },
                Err(_) => (false, String::new()),
            };
            // `PRAGMA p "s" "b"` is not a program (one data string only): there the real lexer is observed
            // through DELAY, whose frame names are a list of strings
            let (ok, val) = if rest == " \"b\"" {
                match Program::from_str(&format!("DELAY 0 {quoted}{rest} 1.0")) {
                    Ok(p) => match p.to_instructions().first() {
                        Some(Instruction::Delay(d)) if d.frame_names.len() == 2 => (true, d.frame_names[0].clone()),
                        _ => (false, String::new()),
                    },
                    Err(_) => (false, String::new()),
                }
            } else {
                (ok, val)
            };
            util::emit(&mut out, &json!({"ev": "lexed", "rest": string_to_chars(rest), "ok": ok, "val": string_to_chars(&val)}));
        }
        // every position, judged by the property
        let mut positions = 0;
        for rest in ["", "\nX", " x", " \"b\""] {
            for (name, p) in positions_for_rest(rest, &s) {
                check_position(&mut o, name, &s, &p, Some(&quoted));
                positions += 1;
            }
        }
        let untagged = o.violations.iter().filter(|v| v.finding.is_none()).count();
        util::emit(&mut out, &json!({"ev": "done", "positions": positions, "failed": untagged}));
        o.count_n("events", 6);
        sum.absorb(&json!({"s": s}), &o, true);
    }
    sum
}
