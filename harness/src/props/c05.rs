//! C05 — numeric literals are parsed to their exact value or rejected.
//!
//! replay: TLC cases from spec/mc/MC_NumLiteral.tla {chars, sign, single, wf, isfloat, mant, e10, exp{dom}, pos{name->dom}}
//!         The spelling is written into every operand position of the grammar (one template per position name),
//!         parsed with the real parser, and the operand is extracted by pattern matching.
//!         VIOLATION iff the real parser yields a value that is not the mathematical value of the spelling in the
//!         right kind (integer stays integer, real stays real, reals rounded to nearest by `str::parse::<f64>` of the
//!         model's exact decimal).  Accept/reject disagreement with the model is MODEL-DIVERGENCE.
//! drive:  seeded random spellings far beyond the exhaustive bound (long digit strings in every radix, many
//!         separators, exponent forms); events reset/char*/end/opinion/parsed go to spec/trace/NumLiteralTrace.tla,
//!         where TLC recomputes the value with the module's digit arithmetic.

use crate::runner::{Outcome, Summary, Violation};
use crate::util::{self, s};
use crate::Ctx;
use quil_rs::expression::{Expression, PrefixOperator};
use quil_rs::instruction::{
    ArithmeticOperand, AttributeValue, BinaryOperand, ComparisonOperand, GateSpecification, Instruction,
    PragmaArgument, Qubit, UnresolvedCallArgument,
};
use quil_rs::Program;
use rand::seq::SliceRandom;
use rand::Rng;
use serde_json::{json, Value};
use std::str::FromStr;

/// (position name, operand domain, template with `{}` for the literal, imaginary part?)
pub const POSITIONS: &[(&str, &str, &str)] = &[
    ("MOVE", "signed", "MOVE ro {}"),
    ("ADD", "signed", "ADD ro {}"),
    ("EQ", "signed", "EQ a b {}"),
    ("STORE", "signed", "STORE r q[0] {}"),
    ("AND", "signedint", "AND ro {}"),
    ("QUBIT", "unsigned", "X {}"),
    ("MEMIDX", "unsigned", "MOVE ro[{}] 1"),
    ("DECLLEN", "unsigned", "DECLARE ro BIT[{}]"),
    ("OFFSET", "unsigned", "DECLARE ro BIT[2] SHARING b OFFSET {} BIT"),
    ("PRAGMA", "unsigned", "PRAGMA foo {}"),
    ("PERM", "unsigned", "DEFGATE P AS PERMUTATION:\n    0, {}"),
    ("MEASURE", "unsigned", "MEASURE {} ro[0]"),
    ("GATEPARAM", "expr", "RX({}) 0"),
    ("IMAG", "expr", "RX({}i) 0"),
    ("DELAY", "expr", "DELAY 0 \"rf\" {}"),
    ("WFPARAM", "expr", "PULSE 0 \"rf\" flat(duration: {})"),
    ("SETPHASE", "expr", "SET-PHASE 0 \"rf\" {}"),
    ("FRAMEATTR", "expr", "DEFFRAME 0 \"rf\":\n    SAMPLE-RATE: {}"),
    ("WFMATRIX", "expr", "DEFWAVEFORM w:\n    {}, 1"),
    ("GATEMATRIX", "expr", "DEFGATE G AS MATRIX:\n    {}, 0\n    0, 1"),
    ("RAWCAPTURE", "expr", "RAW-CAPTURE 0 \"rf\" {} ro"),
    ("CALL", "imm", "CALL foo {}"),
];

#[derive(Debug, Clone, PartialEq)]
pub enum Got {
    Err,
    /// signed integer operand
    Int(i128),
    /// real operand or expression literal: prefix minus / negative sign, real part, imaginary part
    Real { neg: bool, re: f64, im: f64 },
    /// parsed, but there is no literal where the spelling was written
    Other(String),
}

fn expr_got(e: &Expression) -> Got {
    match e {
        Expression::Number(c) => Got::Real { neg: false, re: c.re, im: c.im },
        Expression::Prefix(p) if p.operator == PrefixOperator::Minus => match &*p.expression {
            Expression::Number(c) => Got::Real { neg: true, re: c.re, im: c.im },
            other => Got::Other(format!("{other:?}")),
        },
        other => Got::Other(format!("{other:?}")),
    }
}

fn real_got(v: f64) -> Got {
    Got::Real { neg: v.is_sign_negative(), re: v.abs(), im: 0.0 }
}

fn arith_got(a: &ArithmeticOperand) -> Got {
    match a {
        ArithmeticOperand::LiteralInteger(v) => Got::Int(*v as i128),
        ArithmeticOperand::LiteralReal(v) => real_got(*v),
        other => Got::Other(format!("{other:?}")),
    }
}

fn qubit_got(q: Option<&Qubit>) -> Got {
    match q {
        Some(Qubit::Fixed(v)) => Got::Int(*v as i128),
        other => Got::Other(format!("{other:?}")),
    }
}

/// Parse `text` and extract the operand at position `name`.
pub fn observe(name: &str, text: &str) -> Got {
    let program = match Program::from_str(text) {
        Ok(p) => p,
        Err(_) => return Got::Err,
    };
    let instrs = program.to_instructions();
    let Some(first) = instrs.first() else { return Got::Other("empty program".into()) };
    let other = || Got::Other(format!("{first:?}"));
    match (name, first) {
        ("MOVE", Instruction::Move(m)) => arith_got(&m.source),
        ("ADD", Instruction::Arithmetic(a)) => arith_got(&a.source),
        ("STORE", Instruction::Store(st)) => arith_got(&st.source),
        ("EQ", Instruction::Comparison(c)) => match &c.rhs {
            ComparisonOperand::LiteralInteger(v) => Got::Int(*v as i128),
            ComparisonOperand::LiteralReal(v) => real_got(*v),
            _ => other(),
        },
        ("AND", Instruction::BinaryLogic(b)) => match &b.source {
            BinaryOperand::LiteralInteger(v) => Got::Int(*v as i128),
            _ => other(),
        },
        ("QUBIT", Instruction::Gate(g)) if g.qubits.len() == 1 => qubit_got(g.qubits.first()),
        ("MEMIDX", Instruction::Move(m)) => Got::Int(m.destination.index as i128),
        ("DECLLEN", Instruction::Declaration(d)) => Got::Int(d.size.length as i128),
        ("OFFSET", Instruction::Declaration(d)) => match d.sharing.as_ref().and_then(|sh| sh.offsets.first()) {
            Some(off) => Got::Int(off.offset as i128),
            None => other(),
        },
        ("PRAGMA", Instruction::Pragma(p)) => match p.arguments.first() {
            Some(PragmaArgument::Integer(v)) => Got::Int(*v as i128),
            _ => other(),
        },
        ("PERM", Instruction::GateDefinition(d)) => match &d.specification {
            GateSpecification::Permutation(p) if p.len() == 2 => Got::Int(p[1] as i128),
            _ => other(),
        },
        ("MEASURE", Instruction::Measurement(m)) => qubit_got(Some(&m.qubit)),
        ("GATEPARAM", Instruction::Gate(g)) | ("IMAG", Instruction::Gate(g)) if g.parameters.len() == 1 => {
            expr_got(&g.parameters[0])
        }
        ("DELAY", Instruction::Delay(d)) => expr_got(&d.duration),
        ("WFPARAM", Instruction::Pulse(p)) => match p.waveform.parameters.get("duration") {
            Some(e) => expr_got(e),
            None => other(),
        },
        ("SETPHASE", Instruction::SetPhase(sp)) => expr_got(&sp.phase),
        ("FRAMEATTR", Instruction::FrameDefinition(f)) => match f.attributes.get("SAMPLE-RATE") {
            Some(AttributeValue::Expression(e)) => expr_got(e),
            _ => other(),
        },
        ("WFMATRIX", Instruction::WaveformDefinition(w)) => match w.definition.matrix.first() {
            Some(e) => expr_got(e),
            None => other(),
        },
        ("GATEMATRIX", Instruction::GateDefinition(d)) => match &d.specification {
            GateSpecification::Matrix(m) if !m.is_empty() && !m[0].is_empty() => expr_got(&m[0][0]),
            _ => other(),
        },
        ("RAWCAPTURE", Instruction::RawCapture(r)) => expr_got(&r.duration),
        ("CALL", Instruction::Call(c)) => match c.arguments.first() {
            Some(UnresolvedCallArgument::Immediate(v)) => Got::Real { neg: false, re: v.re, im: v.im },
            _ => other(),
        },
        _ => other(),
    }
}

pub fn render(template: &str, sign: &str, lit: &str) -> String {
    template.replace("{}", &format!("{sign}{lit}"))
}

/// little-endian base-10000 limbs -> decimal string
fn limbs_to_decimal(v: &Value) -> String {
    let limbs: Vec<u64> = v.as_array().map(|a| a.iter().map(|x| x.as_u64().unwrap()).collect()).unwrap_or_default();
    let mut out = String::new();
    for (k, l) in limbs.iter().rev().enumerate() {
        if k == 0 {
            out.push_str(&l.to_string());
        } else {
            out.push_str(&format!("{l:04}"));
        }
    }
    if out.is_empty() {
        out.push('0');
    }
    out
}

/// The mathematical value of a spelling, computed by the harness on its own (cross-check of the model's value).
/// Returns (is_float, mantissa decimal string without leading zeros, e10).
pub fn own_math(lit: &str) -> Option<(bool, String, i64)> {
    let lower = lit.to_ascii_lowercase();
    let strip = |t: &str| t.trim_start_matches('0').to_string();
    let norm = |t: String| if t.is_empty() { "0".to_string() } else { t };
    for (p, r) in [("0x", 16u32), ("0o", 8), ("0b", 2)] {
        if let Some(rest) = lower.strip_prefix(p) {
            let digits: String = rest.chars().filter(|c| *c != '_').collect();
            if digits.len() > 40 {
                // beyond u128 for hex; use a small big-number routine
                return Some((false, big_from_radix(&digits, r)?, 0));
            }
            let v = if digits.is_empty() { 0 } else { u128::from_str_radix(&digits, r).ok()? };
            return Some((false, v.to_string(), 0));
        }
    }
    let clean: String = lower.chars().filter(|c| *c != '_').collect();
    let (mant, exp) = match clean.find('e') {
        Some(k) => (&clean[..k], Some(&clean[k + 1..])),
        None => (&clean[..], None),
    };
    let (ip, fp) = match mant.find('.') {
        Some(k) => (&mant[..k], Some(&mant[k + 1..])),
        None => (mant, None),
    };
    if !ip.chars().all(|c| c.is_ascii_digit()) || !fp.unwrap_or("").chars().all(|c| c.is_ascii_digit()) {
        return None;
    }
    let is_float = fp.is_some() || exp.is_some();
    let e: i64 = match exp {
        Some(t) => {
            let (neg, d) = match t.strip_prefix('-') {
                Some(d) => (true, d),
                None => (false, t.strip_prefix('+').unwrap_or(t)),
            };
            if d.is_empty() || !d.chars().all(|c| c.is_ascii_digit()) {
                return None;
            }
            let dz = d.trim_start_matches('0');
            let v: i64 = if dz.is_empty() { 0 } else { dz.parse::<i64>().unwrap_or(100000).min(100000) };
            if neg { -v } else { v }
        }
        None => 0,
    };
    let digits = format!("{}{}", ip, fp.unwrap_or(""));
    Some((is_float, norm(strip(&digits)), e - fp.map(|f| f.len() as i64).unwrap_or(0)))
}

fn big_from_radix(digits: &str, radix: u32) -> Option<String> {
    // decimal digits, little endian
    let mut dec: Vec<u32> = vec![0];
    for c in digits.chars() {
        let d = c.to_digit(radix)?;
        let mut carry = d;
        for x in dec.iter_mut() {
            let v = *x * radix + carry;
            *x = v % 10;
            carry = v / 10;
        }
        while carry > 0 {
            dec.push(carry % 10);
            carry /= 10;
        }
    }
    let sx: String = dec.iter().rev().map(|d| char::from_digit(*d, 10).unwrap()).collect();
    let t = sx.trim_start_matches('0');
    Some(if t.is_empty() { "0".into() } else { t.to_string() })
}

/// the correctly rounded double of mant * 10^e10
fn nearest_f64(mant: &str, e10: i64) -> f64 {
    format!("{mant}e{e10}").parse::<f64>().expect("decimal parses")
}

/// The property itself: may the code return `got` for the spelling (sign, math value) in a position of domain `dom`?
fn allowed(dom: &str, imag: bool, sign: &str, is_float: bool, mant: &str, e10: i64, got: &Got) -> Result<(), String> {
    match got {
        Got::Err => Ok(()),
        Got::Other(what) => Err(format!("parsing succeeded but the operand is not a literal: {what}")),
        Got::Int(v) => {
            if is_float {
                return Err(format!("real spelling became the integer {v}"));
            }
            if !matches!(dom, "signed" | "signedint" | "unsigned") {
                return Err(format!("integer {v} in a real position"));
            }
            if sign == "+" || (dom == "unsigned" && !sign.is_empty()) {
                return Err(format!("a sign that is not grammatical here was accepted (value {v})"));
            }
            let want: i128 = mant.parse::<i128>().map_err(|_| format!("value {v} for a magnitude beyond 128 bits"))?;
            let want = if sign == "-" { -want } else { want };
            if *v != want {
                return Err(format!("value {v}, mathematical value {want}"));
            }
            Ok(())
        }
        Got::Real { neg, re, im } => {
            if !matches!(dom, "signed" | "expr" | "imm") {
                return Err(format!("real {re} in an integer position"));
            }
            if dom == "signed" && !is_float {
                return Err(format!("integer spelling became the real {re}"));
            }
            if sign == "+" || (dom == "imm" && !sign.is_empty()) {
                return Err("a sign that is not grammatical here was accepted".into());
            }
            if *neg != (sign == "-") {
                return Err(format!("sign of the value (negative = {neg}) differs from the spelling"));
            }
            let want = nearest_f64(mant, e10);
            let (main, zero) = if imag { (*im, *re) } else { (*re, *im) };
            if !want.is_finite() {
                return Err(format!("value {main} for a spelling beyond the range of f64"));
            }
            if main.to_bits() != want.to_bits() || zero != 0.0 {
                return Err(format!("value {re}+{im}i, nearest double of the spelling is {want:e}"));
            }
            Ok(())
        }
    }
}

fn plain_small_decimal(sign: &str, lit: &str) -> bool {
    sign.is_empty() && lit.chars().all(|c| c.is_ascii_digit()) && lit.len() <= 10 && lit.parse::<u64>().map(|v| v < (1 << 31)).unwrap_or(false) && !(lit.len() > 1 && lit.starts_with('0'))
}

fn judge_all(sign: &str, lit: &str, is_float: bool, mant: &str, e10: i64, exp: Option<&Value>, only: Option<&[String]>) -> Outcome {
    let mut o = Outcome::ok(!plain_small_decimal(sign, lit));
    for (name, dom, template) in POSITIONS {
        if let Some(sel) = only {
            if !sel.iter().any(|x| x == name) {
                continue;
            }
        }
        let text = render(template, sign, lit);
        let got = observe(name, &text);
        o.sub_evaluations += 1;
        if let Err(why) = allowed(dom, *name == "IMAG", sign, is_float, mant, e10, &got) {
            o.violate(
                Violation::new("operand value", json!({"spelling": format!("{sign}{lit}"), "mantissa": mant, "e10": e10, "real": is_float}),
                               json!(format!("{got:?}")))
                    .note(format!("{name}: {text:?}: {why}")),
            );
            continue;
        }
        if let Some(exp) = exp {
            let model_rejects = exp[*dom]["r"].as_str() == Some("reject");
            let real_rejects = matches!(got, Got::Err);
            if model_rejects != real_rejects {
                o.diverge(format!("{name}: {text:?}: model {} but the parser {}", if model_rejects { "rejects" } else { "accepts" },
                                  if real_rejects { "rejects" } else { "accepts" }));
            } else if !real_rejects {
                o.count("values_compared");
            }
        }
    }
    o
}

pub fn replay(_ctx: &Ctx, case: &Value) -> Outcome {
    if let Some(h) = case.get("history") {
        // a rejected recorded history: re-run the spelling of its reset event in every position
        let lit: String = h[0]["chars"].as_array().map(|a| a.iter().map(|c| c.as_str().unwrap_or("")).collect()).unwrap_or_default();
        let sign = h.as_array().and_then(|a| a.iter().find(|e| e["ev"] == "end")).map(|e| s(e, "sign")).unwrap_or_default();
        return match own_math(&lit) {
            Some((is_float, mant, e10)) => judge_all(&sign, &lit, is_float, &mant, e10, None, None),
            None => Outcome::skip(),
        };
    }
    let lit: String = util::arr(case, "chars").iter().map(|c| c.as_str().unwrap()).collect();
    let sign = s(case, "sign");
    let single = case["single"].as_bool().unwrap();
    let wf = case["wf"].as_bool().unwrap();
    if !single {
        // the spelling is not one token (the automaton stopped early): nothing for C05 to judge
        return Outcome::skip();
    }
    if !wf {
        // one token that is not a literal of the documented grammar: the model expects a rejection everywhere
        let mut o = Outcome::ok(true);
        for (name, _dom, template) in POSITIONS {
            let text = render(template, &sign, &lit);
            o.sub_evaluations += 1;
            if !matches!(observe(name, &text), Got::Err) {
                o.diverge(format!("{name}: {text:?}: accepted although the spelling is outside the literal grammar"));
            }
        }
        return o;
    }
    let is_float = case["isfloat"].as_bool().unwrap();
    let mant = limbs_to_decimal(&case["mant"]);
    let e10 = case["e10"].as_i64().unwrap();
    // the position table of the model and of the harness must be the same table
    for (name, dom, _) in POSITIONS {
        if case["pos"][*name].as_str() != Some(dom) {
            panic!("position table mismatch for {name}");
        }
    }
    let mut o = judge_all(&sign, &lit, is_float, &mant, e10, Some(&case["exp"]), None);
    match own_math(&lit) {
        Some((f, m, e)) if f == is_float && m == mant && (e == e10 || m == "0") => {}
        other => o.diverge(format!("model value ({is_float}, {mant}, {e10}) differs from the harness' own reading {other:?} of {lit:?}")),
    }
    o
}

// ------------------------------------------------------------------------------------------- drive

fn sprinkle(r: &mut impl Rng, digits: &str, p: f64) -> String {
    // separators anywhere after the first digit (also doubled and trailing)
    let mut out = String::new();
    for (k, c) in digits.chars().enumerate() {
        out.push(c);
        let _ = k;
        while r.gen_bool(p) {
            out.push('_');
        }
    }
    out
}

fn random_digits(r: &mut impl Rng, n: usize, radix: u32) -> String {
    (0..n).map(|_| char::from_digit(r.gen_range(0..radix), radix).unwrap()).collect()
}

fn random_case(r: &mut impl Rng, t: String) -> String {
    t.chars().map(|c| if r.gen_bool(0.5) { c.to_ascii_uppercase() } else { c }).collect()
}

/// a random well-formed spelling; reals keep at most 15 mantissa digits (so that TLC can decide them exactly)
fn random_literal(r: &mut impl Rng) -> String {
    let p = *[0.0, 0.1, 0.3].choose(r).unwrap();
    match r.gen_range(0..10) {
        0..=2 => {
            // decimal integers around and beyond 64 bits
            let n = *[1usize, 3, 9, 10, 15, 16, 18, 19, 19, 20, 20, 21, 25].choose(r).unwrap();
            let lead = "0".repeat(r.gen_range(0..3usize) * r.gen_range(0..2usize));
            let mut d = random_digits(r, n, 10);
            if r.gen_bool(0.3) {
                d = ["9223372036854775807", "9223372036854775808", "18446744073709551615", "18446744073709551616", "4294967296"]
                    .choose(r).unwrap().to_string();
            }
            sprinkle(r, &format!("{lead}{d}"), p)
        }
        3..=5 => {
            let (letter, radix, lens): (&str, u32, [usize; 6]) = match r.gen_range(0..3) {
                0 => ("x", 16, [1, 8, 15, 16, 16, 17]),
                1 => ("b", 2, [1, 31, 63, 64, 64, 65]),
                _ => ("o", 8, [1, 11, 21, 22, 22, 23]),
            };
            let n = *lens.choose(r).unwrap();
            let digits = random_digits(r, n, radix);
            let digits = sprinkle(r, &digits, p);
            let digits = random_case(r, digits);
            let letter = random_case(r, letter.to_string());
            format!("0{letter}{digits}")
        }
        _ => {
            // reals: integer part, optional fraction, optional exponent; <= 15 mantissa digits
            let ni = r.gen_range(0..=8usize);
            let nf = r.gen_range(if ni == 0 { 1 } else { 0 }..=7usize);
            let id = random_digits(r, ni, 10);
            let mut t = sprinkle(r, &id, p);
            let has_dot = nf > 0 || r.gen_bool(0.3);
            if has_dot {
                t.push('.');
                let fd = random_digits(r, nf, 10);
                t.push_str(&sprinkle(r, &fd, p));
            }
            if !has_dot || r.gen_bool(0.6) {
                t.push(if r.gen_bool(0.5) { 'e' } else { 'E' });
                if r.gen_bool(0.3) {
                    while r.gen_bool(p) {
                        t.push('_');
                    }
                }
                let e: i32 = if r.gen_bool(0.15) { r.gen_range(-420..420) } else { r.gen_range(-40..40) };
                if e < 0 {
                    t.push('-');
                } else if r.gen_bool(0.4) {
                    t.push('+');
                }
                let lead = "0".repeat(r.gen_range(0..2usize));
                t.push_str(&sprinkle(r, &format!("{lead}{}", e.abs()), p));
            }
            t
        }
    }
}

fn f64_digits(v: f64) -> (Vec<String>, i64) {
    // shortest round-trip decimal: digits D (no trailing zeros) and e10 with v = D * 10^e10
    if v == 0.0 {
        return (vec![], 0);
    }
    let t = format!("{:e}", v.abs());
    let (m, e) = t.split_once('e').unwrap();
    let e: i64 = e.parse().unwrap();
    let (ip, fp) = m.split_once('.').unwrap_or((m, ""));
    let digits = format!("{ip}{fp}");
    let digits = digits.trim_end_matches('0');
    let shift = fp.len() as i64 - (format!("{ip}{fp}").len() - digits.len()) as i64;
    (digits.chars().map(|c| c.to_string()).collect(), e - shift)
}

fn got_json(g: &Got) -> Value {
    match g {
        Got::Err => json!({"t": "err"}),
        Got::Other(_) => json!({"t": "other"}),
        Got::Int(v) => json!({"t": "int", "neg": *v < 0,
                               "mag": v.unsigned_abs().to_string().chars().map(|c| c.to_string()).collect::<Vec<_>>()}),
        Got::Real { neg, re, im } => {
            if !re.is_finite() || !im.is_finite() || (*re != 0.0 && *im != 0.0) {
                return json!({"t": "other"});
            }
            let (part, v) = if *im != 0.0 { ("im", *im) } else { ("re", *re) };
            let (digits, e10) = f64_digits(v);
            json!({"t": "real", "neg": neg, "part": part, "digits": digits, "e10": e10})
        }
    }
}

pub fn drive(ctx: &Ctx) -> Summary {
    let n = ctx.arg_u64("n", 200);
    let per = ctx.arg_u64("positions", 6) as usize;
    let path = ctx.arg_str("out").expect("--out");
    let mut out = std::io::BufWriter::new(std::fs::File::create(path).expect("create trace"));
    let mut rng = util::rng(ctx.seed, 5);
    let mut sum = Summary::default();
    for _ in 0..n {
        let lit = random_literal(&mut rng);
        let sign = *["", "", "-", "-", "+"].choose(&mut rng).unwrap();
        let chars: Vec<String> = lit.chars().map(|c| c.to_string()).collect();
        util::emit(&mut out, &json!({"ev": "reset", "chars": chars}));
        for c in &chars {
            util::emit(&mut out, &json!({"ev": "char", "c": c}));
        }
        util::emit(&mut out, &json!({"ev": "end", "sign": sign}));
        util::emit(&mut out, &json!({"ev": "sane"}));
        let mut names: Vec<&(&str, &str, &str)> = POSITIONS.iter().collect();
        names.shuffle(&mut rng);
        names.truncate(per);
        let mut o = Outcome::ok(!plain_small_decimal(sign, &lit));
        for (name, _dom, template) in names {
            let text = render(template, sign, &lit);
            let got = observe(name, &text);
            util::emit(&mut out, &json!({"ev": "opinion", "pos": name, "accepted": !matches!(got, Got::Err)}));
            util::emit(&mut out, &json!({"ev": "parsed", "pos": name, "res": got_json(&got)}));
            o.count_n("events", 2);
        }
        o.count_n("events", chars.len() as u64 + 3);
        sum.absorb(&json!({"spelling": format!("{sign}{lit}")}), &o, true);
    }
    sum
}
