//! C05 — numeric literals are parsed to their exact value or rejected.
//!
//! replay: TLC cases from spec/mc/MC_NumLiteral.tla {chars, sign, single, wf, isfloat, mant, e10, exp{dom}, pos{name->dom}}
//!         The spelling is written into every operand position of the grammar (one template per position name),
//!         parsed with the real parser, and the operand is extracted by pattern matching.
//!         VIOLATION iff the real parser yields a value that is not the mathematical value of the spelling in the
//!         right kind (integer stays integer, real stays real, reals rounded to nearest by `str::parse::<f64>` of the
//!         model's exact decimal).  Accept/reject disagreement with the model is MODEL-DIVERGENCE.
//! drive:  seeded random spellings far beyond the exhaustive bound (long digit strings in every radix, many
//!         separators, exponent forms); events reset/char*/end/opinion/parsed go to spec/trace/NumLiteralTrace.tla,
//!         where TLC recomputes the value with the module's digit arithmetic.

use crate::runner::{Outcome, Summary, Violation};
use crate::util::{self, s};
use crate::Ctx;
use quil_rs::expression::{Expression, PrefixOperator};
use quil_rs::instruction::{
    ArithmeticOperand, AttributeValue, BinaryOperand, ComparisonOperand, GateSpecification, Instruction,
    PragmaArgument, Qubit, UnresolvedCallArgument,
};
use quil_rs::Program;
use rand::seq::SliceRandom;
use rand::Rng;
use serde_json::{json, Value};
use std::str::FromStr;

/// (position name, operand domain, template with `{}` for the literal, imaginary part?)
pub const POSITIONS: &[(&str, &str, &str)] = &[
    ("MOVE", "signed", "MOVE ro {}"),
    ("ADD", "signed", "ADD ro {}"),
    ("EQ", "signed", "EQ a b {}"),
    ("STORE", "signed", "STORE r q[0] {}"),
    ("AND", "signedint", "AND ro {}"),
    ("QUBIT", "unsigned", "X {}"),
    ("MEMIDX", "unsigned", "MOVE ro[{}] 1"),
    ("DECLLEN", "unsigned", "DECLARE ro BIT[{}]"),
    ("OFFSET", "unsigned", "DECLARE ro BIT[2] SHARING b OFFSET {} BIT"),
    ("PRAGMA", "unsigned", "PRAGMA foo {}"),
    ("PERM", "unsigned", "DEFGATE P AS PERMUTATION:\n    0, {}"),
    ("MEASURE", "unsigned", "MEASURE {} ro[0]"),
    ("GATEPARAM", "expr", "RX({}) 0"),
    ("IMAG", "expr", "RX({}i) 0"),
    ("DELAY", "expr", "DELAY 0 \"rf\" {}"),
    ("WFPARAM", "expr", "PULSE 0 \"rf\" flat(duration: {})"),
    ("SETPHASE", "expr", "SET-PHASE 0 \"rf\" {}"),
    ("FRAMEATTR", "expr", "DEFFRAME 0 \"rf\":\n    SAMPLE-RATE: {}"),
    ("WFMATRIX", "expr", "DEFWAVEFORM w:\n    {}, 1"),
    ("GATEMATRIX", "expr", "DEFGATE G AS MATRIX:\n    {}, 0\n    0, 1"),
    ("RAWCAPTURE", "expr", "RAW-CAPTURE 0 \"rf\" {} ro"),
    ("CALL", "imm", "CALL foo {}"),
];

#[derive(Debug, Clone, PartialEq)]
pub enum Got {
    Err,
    /// signed integer operand
    Int(i128),
    /// real operand or expression literal: prefix minus / negative sign, real part, imaginary part
    Real { neg: bool, re: f64, im: f64 },
    /// parsed, but there is no literal where the spelling was written
    Other(String),
    /// the parser panicked (C01's observable; reported here too because the spelling is a numeric literal)
    Panic(String),
}

fn expr_got(e: &Expression) -> Got {
    match e {
        Expression::Number(c) => Got::Real { neg: false, re: c.re, im: c.im },
        Expression::Prefix(p) if p.operator == PrefixOperator::Minus => match &*p.expression {
            Expression::Number(c) => Got::Real { neg: true, re: c.re, im: c.im },
            other => Got::Other(format!("{other:?}")),
        },
        other => Got::Other(format!("{other:?}")),
    }
}

fn real_got(v: f64) -> Got {
    Got::Real { neg: v.is_sign_negative(), re: v.abs(), im: 0.0 }
}

fn arith_got(a: &ArithmeticOperand) -> Got {
    match a {
        ArithmeticOperand::LiteralInteger(v) => Got::Int(*v as i128),
        ArithmeticOperand::LiteralReal(v) => real_got(*v),
        other => Got::Other(format!("{other:?}")),
    }
}

fn qubit_got(q: Option<&Qubit>) -> Got {
    match q {
        Some(Qubit::Fixed(v)) => Got::Int(*v as i128),
        other => Got::Other(format!("{other:?}")),
    }
}

/// Parse `text` and extract the operand at position `name`.
pub fn observe(name: &str, text: &str) -> Got {
    let parsed = std::panic::catch_unwind(|| Program::from_str(text));
    let program = match parsed {
        Ok(Ok(p)) => p,
        Ok(Err(_)) => return Got::Err,
        Err(e) => {
            let msg = e.downcast_ref::<&str>().map(|x| x.to_string()).or_else(|| e.downcast_ref::<String>().cloned()).unwrap_or_default();
            return Got::Panic(msg);
        }
    };
    let instrs = program.to_instructions();
    let Some(first) = instrs.first() else { return Got::Other("empty program".into()) };
    let other = || Got::Other(format!("{first:?}"));
    match (name, first) {
        ("MOVE", Instruction::Move(m)) => arith_got(&m.source),
        ("ADD", Instruction::Arithmetic(a)) => arith_got(&a.source),
        ("STORE", Instruction::Store(st)) => arith_got(&st.source),
        ("EQ", Instruction::Comparison(c)) => match &c.rhs {
            ComparisonOperand::LiteralInteger(v) => Got::Int(*v as i128),
            ComparisonOperand::LiteralReal(v) => real_got(*v),
            _ => other(),
        },
        ("AND", Instruction::BinaryLogic(b)) => match &b.source {
            BinaryOperand::LiteralInteger(v) => Got::Int(*v as i128),
            _ => other(),
        },
        ("QUBIT", Instruction::Gate(g)) if g.qubits.len() == 1 => qubit_got(g.qubits.first()),
        ("MEMIDX", Instruction::Move(m)) => Got::Int(m.destination.index as i128),
        ("DECLLEN", Instruction::Declaration(d)) => Got::Int(d.size.length as i128),
        ("OFFSET", Instruction::Declaration(d)) => match d.sharing.as_ref().and_then(|sh| sh.offsets.first()) {
            Some(off) => Got::Int(off.offset as i128),
            None => other(),
        },
        ("PRAGMA", Instruction::Pragma(p)) => match p.arguments.first() {
            Some(PragmaArgument::Integer(v)) => Got::Int(*v as i128),
            _ => other(),
        },
        ("PERM", Instruction::GateDefinition(d)) => match &d.specification {
            GateSpecification::Permutation(p) if p.len() == 2 => Got::Int(p[1] as i128),
            _ => other(),
        },
        ("MEASURE", Instruction::Measurement(m)) => qubit_got(Some(&m.qubit)),
        ("GATEPARAM", Instruction::Gate(g)) | ("IMAG", Instruction::Gate(g)) if g.parameters.len() == 1 => {
            expr_got(&g.parameters[0])
        }
        ("DELAY", Instruction::Delay(d)) => expr_got(&d.duration),
        ("WFPARAM", Instruction::Pulse(p)) => match p.waveform.parameters.get("duration") {
            Some(e) => expr_got(e),
            None => other(),
        },
        ("SETPHASE", Instruction::SetPhase(sp)) => expr_got(&sp.phase),
        ("FRAMEATTR", Instruction::FrameDefinition(f)) => match f.attributes.get("SAMPLE-RATE") {
            Some(AttributeValue::Expression(e)) => expr_got(e),
            _ => other(),
        },
        ("WFMATRIX", Instruction::WaveformDefinition(w)) => match w.definition.matrix.first() {
            Some(e) => expr_got(e),
            None => other(),
        },
        ("GATEMATRIX", Instruction::GateDefinition(d)) => match &d.specification {
            GateSpecification::Matrix(m) if !m.is_empty() && !m[0].is_empty() => expr_got(&m[0][0]),
            _ => other(),
        },
        ("RAWCAPTURE", Instruction::RawCapture(r)) => expr_got(&r.duration),
        ("CALL", Instruction::Call(c)) => match c.arguments.first() {
            Some(UnresolvedCallArgument::Immediate(v)) => Got::Real { neg: false, re: v.re, im: v.im },
            _ => other(),
        },
        _ => other(),
    }
}

pub fn render(template: &str, sign: &str, lit: &str) -> String {
    template.replace("{}", &format!("{sign}{lit}"))
}

/// little-endian base-10000 limbs -> decimal string
fn limbs_to_decimal(v: &Value) -> String {
    let limbs: Vec<u64> = v.as_array().map(|a| a.iter().map(|x| x.as_u64().unwrap()).collect()).unwrap_or_default();
    let mut out = String::new();
    for (k, l) in limbs.iter().rev().enumerate() {
        if k == 0 {
            out.push_str(&l.to_string());
        } else {
            out.push_str(&format!("{l:04}"));
        }
    }
    if out.is_empty() {
        out.push('0');
    }
    out
}

/// The mathematical value of a spelling, computed by the harness on its own (cross-check of the model's value).
/// Returns (is_float, mantissa decimal string without leading zeros, e10).
pub fn own_math(lit: &str) -> Option<(bool, String, i64)> {
    let lower = lit.to_ascii_lowercase();
    let strip = |t: &str| t.trim_start_matches('0').to_string();
    let norm = |t: String| if t.is_empty() { "0".to_string() } else { t };
    for (p, r) in [("0x", 16u32), ("0o", 8), ("0b", 2)] {
        if let Some(rest) = lower.strip_prefix(p) {
            let digits: String = rest.chars().filter(|c| *c != '_').collect();
            if digits.len() > 40 {
                // beyond u128 for hex; use a small big-number routine
                return Some((false, big_from_radix(&digits, r)?, 0));
            }
            let v = if digits.is_empty() { 0 } else { u128::from_str_radix(&digits, r).ok()? };
            return Some((false, v.to_string(), 0));
        }
    }
    let clean: String = lower.chars().filter(|c| *c != '_').collect();
    let (mant, exp) = match clean.find('e') {
        Some(k) => (&clean[..k], Some(&clean[k + 1..])),
        None => (&clean[..], None),
    };
    let (ip, fp) = match mant.find('.') {
        Some(k) => (&mant[..k], Some(&mant[k + 1..])),
        None => (mant, None),
    };
    if !ip.chars().all(|c| c.is_ascii_digit()) || !fp.unwrap_or("").chars().all(|c| c.is_ascii_digit()) {
        return None;
    }
    let is_float = fp.is_some() || exp.is_some();
    let e: i64 = match exp {
        Some(t) => {
            let (neg, d) = match t.strip_prefix('-') {
                Some(d) => (true, d),
                None => (false, t.strip_prefix('+').unwrap_or(t)),
            };
            if d.is_empty() || !d.chars().all(|c| c.is_ascii_digit()) {
                return None;
            }
            let dz = d.trim_start_matches('0');
            let v: i64 = if dz.is_empty() { 0 } else { dz.parse::<i64>().unwrap_or(100000).min(100000) };
            if neg { -v } else { v }
        }
        None => 0,
    };
    let digits = format!("{}{}", ip, fp.unwrap_or(""));
    Some((is_float, norm(strip(&digits)), e - fp.map(|f| f.len() as i64).unwrap_or(0)))
}

fn big_from_radix(digits: &str, radix: u32) -> Option<String> {
    // decimal digits, little endian
    let mut dec: Vec<u32> = vec![0];
    for c in digits.chars() {
        let d = c.to_digit(radix)?;
        let mut carry = d;
        for x in dec.iter_mut() {
            let v = *x * radix + carry;
            *x = v % 10;
            carry = v / 10;
        }
        while carry > 0 {
            dec.push(carry % 10);
            carry /= 10;
        }
    }
    let sx: String = dec.iter().rev().map(|d| char::from_digit(*d, 10).unwrap()).collect();
    let t = sx.trim_start_matches('0');
    Some(if t.is_empty() { "0".into() } else { t.to_string() })
}

/// the correctly rounded double of mant * 10^e10
fn nearest_f64(mant: &str, e10: i64) -> f64 {
    format!("{mant}e{e10}").parse::<f64>().expect("decimal parses")
}

/// The property itself: may the code return `got` for the spelling (sign, math value) in a position of domain `dom`?
fn allowed(dom: &str, imag: bool, sign: &str, is_float: bool, mant: &str, e10: i64, got: &Got) -> Result<(), String> {
    match got {
        Got::Err => Ok(()),
        Got::Panic(msg) => Err(format!("the parser panicked: {msg}")),
        Got::Other(what) => Err(format!("parsing succeeded but the operand is not a literal: {what}")),
        Got::Int(v) => {
            if is_float {
                return Err(format!("real spelling became the integer {v}"));
            }
            if !matches!(dom, "signed" | "signedint" | "unsigned") {
                return Err(format!("integer {v} in a real position"));
            }
            if sign == "+" || (dom == "unsigned" && !sign.is_empty()) {
                return Err(format!("a sign that is not grammatical here was accepted (value {v})"));
            }
            let want: i128 = mant.parse::<i128>().map_err(|_| format!("value {v} for a magnitude beyond 128 bits"))?;
            let want = if sign == "-" { -want } else { want };
            if *v != want {
                return Err(format!("value {v}, mathematical value {want}"));
            }
            Ok(())
        }
        Got::Real { neg, re, im } => {
            if !matches!(dom, "signed" | "expr" | "imm") {
                return Err(format!("real {re} in an integer position"));
            }
            if dom == "signed" && !is_float {
                return Err(format!("integer spelling became the real {re}"));
            }
            if sign == "+" || (dom == "imm" && !sign.is_empty()) {
                return Err("a sign that is not grammatical here was accepted".into());
            }
            if *neg != (sign == "-") {
                return Err(format!("sign of the value (negative = {neg}) differs from the spelling"));
            }
            let want = nearest_f64(mant, e10);
            let (main, zero) = if imag { (*im, *re) } else { (*re, *im) };
            if !want.is_finite() {
                return Err(format!("value {main} for a spelling beyond the range of f64"));
            }
            if main.to_bits() != want.to_bits() || zero != 0.0 {
                return Err(format!("value {re}+{im}i, nearest double of the spelling is {want:e}"));
            }
            Ok(())
        }
    }
}

fn shorten(text: &str) -> String {
    let c: Vec<char> = text.chars().collect();
    if c.len() <= 140 {
        format!("{text:?}")
    } else {
        format!("{:?}…({} chars)…{:?}", c[..70].iter().collect::<String>(), c.len(), c[c.len() - 40..].iter().collect::<String>())
    }
}

fn plain_small_decimal(sign: &str, lit: &str) -> bool {
    sign.is_empty() && lit.chars().all(|c| c.is_ascii_digit()) && lit.len() <= 10 && lit.parse::<u64>().map(|v| v < (1 << 31)).unwrap_or(false) && !(lit.len() > 1 && lit.starts_with('0'))
}

fn judge_all(sign: &str, lit: &str, is_float: bool, mant: &str, e10: i64, exp: Option<&Value>, only: Option<&[String]>) -> Outcome {
    let mut o = Outcome::ok(!plain_small_decimal(sign, lit));
    for (name, dom, template) in POSITIONS {
        if let Some(sel) = only {
            if !sel.iter().any(|x| x == name) {
                continue;
            }
        }
        let text = render(template, sign, lit);
        let got = observe(name, &text);
        o.sub_evaluations += 1;
        if let Err(why) = allowed(dom, *name == "IMAG", sign, is_float, mant, e10, &got) {
            o.violate(
                Violation::new("operand value", json!({"spelling": format!("{sign}{lit}"), "mantissa": mant, "e10": e10, "real": is_float}),
                               json!(format!("{got:?}")))
                    .note(format!("{name}: {}: {why}", shorten(&text))),
            );
            continue;
        }
        if !matches!(got, Got::Err) {
            o.count("values_judged");
        }
        if let Some(exp) = exp {
            let model_rejects = exp[*dom]["r"].as_str() == Some("reject");
            let real_rejects = matches!(got, Got::Err);
            if model_rejects != real_rejects {
                o.diverge(format!("{name}: {text:?}: model {} but the parser {}", if model_rejects { "rejects" } else { "accepts" },
                                  if real_rejects { "rejects" } else { "accepts" }));
            } else if !real_rejects {
                o.count("values_compared");
            }
        }
    }
    o
}

pub fn replay(_ctx: &Ctx, case: &Value) -> Outcome {
    if let Some(h) = case.get("history") {
        // a rejected recorded history: re-run the spelling of its reset event in every position
        let lit: String = h[0]["chars"].as_array().map(|a| a.iter().map(|c| c.as_str().unwrap_or("")).collect()).unwrap_or_default();
        let sign = h.as_array().and_then(|a| a.iter().find(|e| e["ev"] == "end")).map(|e| s(e, "sign")).unwrap_or_default();
        return match own_math(&lit) {
            Some((is_float, mant, e10)) => judge_all(&sign, &lit, is_float, &mant, e10, None, None),
            None => Outcome::skip(),
        };
    }
    if let Some(sp) = case.get("spelling").and_then(|x| x.as_str()) {
        // a spelling of the driver's stress families (judged against the harness' own reading of the spelling)
        let (sign, lit) = match sp.chars().next() {
            Some(c @ ('-' | '+')) => (c.to_string(), sp[1..].to_string()),
            _ => (String::new(), sp.to_string()),
        };
        return match own_math(&lit) {
            Some((is_float, mant, e10)) => judge_all(&sign, &lit, is_float, &mant, e10, None, None),
            None => Outcome::skip(),
        };
    }
    let lit: String = util::arr(case, "chars").iter().map(|c| c.as_str().unwrap()).collect();
    let sign = s(case, "sign");
    let single = case["single"].as_bool().unwrap();
    let wf = case["wf"].as_bool().unwrap();
    if !single {
        // the spelling is not one token (the automaton stopped early): nothing for C05 to judge
        return Outcome::skip();
    }
    if !wf {
        // one token that is not a literal of the documented grammar: the model expects a rejection everywhere
        let mut o = Outcome::ok(true);
        for (name, _dom, template) in POSITIONS {
            let text = render(template, &sign, &lit);
            o.sub_evaluations += 1;
            if !matches!(observe(name, &text), Got::Err) {
                o.diverge(format!("{name}: {text:?}: accepted although the spelling is outside the literal grammar"));
            }
        }
        return o;
    }
    let is_float = case["isfloat"].as_bool().unwrap();
    let mant = limbs_to_decimal(&case["mant"]);
    let e10 = case["e10"].as_i64().unwrap();
    // the position table of the model and of the harness must be the same table
    for (name, dom, _) in POSITIONS {
        if case["pos"][*name].as_str() != Some(dom) {
            panic!("position table mismatch for {name}");
        }
    }
    let mut o = judge_all(&sign, &lit, is_float, &mant, e10, Some(&case["exp"]), None);
    match own_math(&lit) {
        Some((f, m, e)) if f == is_float && m == mant && (e == e10 || m == "0") => {}
        other => o.diverge(format!("model value ({is_float}, {mant}, {e10}) differs from the harness' own reading {other:?} of {lit:?}")),
    }
    o
}

// ------------------------------------------------------------------------------------------- drive

fn sprinkle(r: &mut impl Rng, digits: &str, p: f64) -> String {
    // separators anywhere after the first digit (also doubled and trailing)
    let mut out = String::new();
    for (k, c) in digits.chars().enumerate() {
        out.push(c);
        let _ = k;
        while r.gen_bool(p) {
            out.push('_');
        }
    }
    out
}

fn random_digits(r: &mut impl Rng, n: usize, radix: u32) -> String {
    (0..n).map(|_| char::from_digit(r.gen_range(0..radix), radix).unwrap()).collect()
}

fn random_case(r: &mut impl Rng, t: String) -> String {
    t.chars().map(|c| if r.gen_bool(0.5) { c.to_ascii_uppercase() } else { c }).collect()
}

/// a random well-formed spelling; reals keep at most 15 mantissa digits (so that TLC can decide them exactly)
fn random_literal(r: &mut impl Rng) -> String {
    let p = *[0.0, 0.1, 0.3].choose(r).unwrap();
    match r.gen_range(0..10) {
        0..=2 => {
            // decimal integers around and beyond 64 bits
            let n = *[1usize, 3, 9, 10, 15, 16, 18, 19, 19, 20, 20, 21, 25].choose(r).unwrap();
            let lead = "0".repeat(r.gen_range(0..3usize) * r.gen_range(0..2usize));
            let mut d = random_digits(r, n, 10);
            if r.gen_bool(0.3) {
                d = ["9223372036854775807", "9223372036854775808", "18446744073709551615", "18446744073709551616", "4294967296"]
                    .choose(r).unwrap().to_string();
            }
            sprinkle(r, &format!("{lead}{d}"), p)
        }
        3..=5 => {
            let (letter, radix, lens): (&str, u32, [usize; 6]) = match r.gen_range(0..3) {
                0 => ("x", 16, [1, 8, 15, 16, 16, 17]),
                1 => ("b", 2, [1, 31, 63, 64, 64, 65]),
                _ => ("o", 8, [1, 11, 21, 22, 22, 23]),
            };
            let n = *lens.choose(r).unwrap();
            let digits = random_digits(r, n, radix);
            let digits = sprinkle(r, &digits, p);
            let digits = random_case(r, digits);
            let letter = random_case(r, letter.to_string());
            format!("0{letter}{digits}")
        }
        _ => {
            // reals: integer part, optional fraction, optional exponent; <= 15 mantissa digits
            let ni = r.gen_range(0..=8usize);
            let nf = r.gen_range(if ni == 0 { 1 } else { 0 }..=7usize);
            let id = random_digits(r, ni, 10);
            let mut t = sprinkle(r, &id, p);
            let has_dot = nf > 0 || r.gen_bool(0.3);
            if has_dot {
                t.push('.');
                let fd = random_digits(r, nf, 10);
                t.push_str(&sprinkle(r, &fd, p));
            }
            if !has_dot || r.gen_bool(0.6) {
                t.push(if r.gen_bool(0.5) { 'e' } else { 'E' });
                if r.gen_bool(0.3) {
                    while r.gen_bool(p) {
                        t.push('_');
                    }
                }
                let e: i32 = if r.gen_bool(0.15) { r.gen_range(-420..420) } else { r.gen_range(-40..40) };
                if e < 0 {
                    t.push('-');
                } else if r.gen_bool(0.4) {
                    t.push('+');
                }
                let lead = "0".repeat(r.gen_range(0..2usize));
                t.push_str(&sprinkle(r, &format!("{lead}{}", e.abs()), p));
            }
            t
        }
    }
}

fn f64_digits(v: f64) -> (Vec<String>, i64) {
    // shortest round-trip decimal: digits D (no trailing zeros) and e10 with v = D * 10^e10
    if v == 0.0 {
        return (vec![], 0);
    }
    let t = format!("{:e}", v.abs());
    let (m, e) = t.split_once('e').unwrap();
    let e: i64 = e.parse().unwrap();
    let (ip, fp) = m.split_once('.').unwrap_or((m, ""));
    let digits = format!("{ip}{fp}");
    let digits = digits.trim_end_matches('0');
    let shift = fp.len() as i64 - (format!("{ip}{fp}").len() - digits.len()) as i64;
    (digits.chars().map(|c| c.to_string()).collect(), e - shift)
}

fn got_json(g: &Got) -> Value {
    match g {
        Got::Err => json!({"t": "err"}),
        Got::Other(_) | Got::Panic(_) => json!({"t": "other"}),
        Got::Int(v) => json!({"t": "int", "neg": *v < 0,
                               "mag": v.unsigned_abs().to_string().chars().map(|c| c.to_string()).collect::<Vec<_>>()}),
        Got::Real { neg, re, im } => {
            if !re.is_finite() || !im.is_finite() || (*re != 0.0 && *im != 0.0) {
                return json!({"t": "other"});
            }
            let (part, v) = if *im != 0.0 { ("im", *im) } else { ("re", *re) };
            let (digits, e10) = f64_digits(v);
            json!({"t": "real", "neg": neg, "part": part, "digits": digits, "e10": e10})
        }
    }
}

// ---------------------------------------------------------------------- stress families (replay oracle)
// Spellings that only a change of the lexer's number options / fast paths would get wrong.  They are far too long
// for TLC's exact arithmetic to be worth it, so they are judged in the driver by the same predicate as the replay
// direction (`allowed`: bit-for-bit against str::parse::<f64>, which is correctly rounded for any length).

/// natural numbers in base 10^9, little endian (exact decimal expansions of binary fractions)
struct Big(Vec<u32>);
impl Big {
    fn from_u64(v: u64) -> Big {
        let mut b = Big(vec![]);
        let mut v = v;
        while v > 0 {
            b.0.push((v % 1_000_000_000) as u32);
            v /= 1_000_000_000;
        }
        b
    }
    fn mul_small(&mut self, m: u32) {
        let mut carry: u64 = 0;
        for l in self.0.iter_mut() {
            let v = *l as u64 * m as u64 + carry;
            *l = (v % 1_000_000_000) as u32;
            carry = v / 1_000_000_000;
        }
        while carry > 0 {
            self.0.push((carry % 1_000_000_000) as u32);
            carry /= 1_000_000_000;
        }
    }
    fn to_dec(&self) -> String {
        let mut out = String::new();
        for (k, l) in self.0.iter().rev().enumerate() {
            if k == 0 {
                out.push_str(&l.to_string());
            } else {
                out.push_str(&format!("{l:09}"));
            }
        }
        if out.is_empty() {
            out.push('0');
        }
        out
    }
}

/// Exact decimal expansion (integer part, fraction part) of the midpoint between the non-negative double `x` and
/// its successor: x = m * 2^e, midpoint = (2m + 1) * 2^(e-1).  Also returns what round-to-nearest-even gives.
fn midpoint_decimal(x: f64) -> (String, String, f64) {
    let bits = x.to_bits();
    let field = ((bits >> 52) & 0x7ff) as i64;
    let frac = bits & ((1u64 << 52) - 1);
    let (m, e) = if field == 0 { (frac, -1074i64) } else { (frac | (1u64 << 52), field - 1075) };
    let mut n = Big::from_u64(2 * m + 1);
    let e1 = e - 1;
    let tie = if m % 2 == 0 { x } else { f64::from_bits(bits + 1) };
    if e1 >= 0 {
        for _ in 0..e1 {
            n.mul_small(2);
        }
        (n.to_dec(), String::new(), tie)
    } else {
        let k = (-e1) as usize;
        for _ in 0..k {
            n.mul_small(5);
        }
        let mut d = n.to_dec();
        if d.len() <= k {
            d = format!("{}{}", "0".repeat(k + 1 - d.len()), d);
        }
        let cut = d.len() - k;
        (d[..cut].to_string(), d[cut..].to_string(), tie)
    }
}

/// decimal digit string minus one unit in its last place
fn dec_pred(digits: &str) -> String {
    let mut d: Vec<u8> = digits.bytes().collect();
    let mut k = d.len();
    while k > 0 {
        k -= 1;
        if d[k] > b'0' {
            d[k] -= 1;
            break;
        }
        d[k] = b'9';
    }
    String::from_utf8(d).unwrap()
}

fn plain_form(ip: &str, fp: &str) -> String {
    if fp.is_empty() { ip.to_string() } else { format!("{ip}.{fp}") }
}

/// d.ddd…e±X with the same value as ip.fp (random exponent decoration)
fn sci_form(r: &mut impl Rng, ip: &str, fp: &str) -> String {
    let all = format!("{ip}{fp}");
    let lead = all.len() - all.trim_start_matches('0').len();
    let digits = all.trim_start_matches('0');
    if digits.is_empty() {
        return "0.0e0".into();
    }
    let exp = ip.len() as i64 - lead as i64 - 1;
    let e = if r.gen_bool(0.5) { 'e' } else { 'E' };
    let sg = if exp < 0 { "-" } else if r.gen_bool(0.4) { "+" } else { "" };
    let zeros = "0".repeat(*[0usize, 0, 1, 7].choose(r).unwrap());
    format!("{}.{}{e}{sg}{zeros}{}", &digits[..1], &digits[1..], exp.abs())
}

/// (spelling, expected double or None when the value must be rejected, family)
fn halfway_spellings(r: &mut impl Rng, n: u64) -> Vec<(String, Option<f64>, &'static str)> {
    let mut xs: Vec<f64> = vec![
        0.0, 5e-324, f64::MIN_POSITIVE, f64::from_bits(f64::MIN_POSITIVE.to_bits() - 1), f64::MAX, f64::from_bits(f64::MAX.to_bits() - 1),
        9007199254740992.0, 9007199254740990.0, 4503599627370497.0, 1.0, 0.1, 1e-5, 1e300, 1e23, 8.5e-5, 2.2250738585072011e-308,
    ];
    let fields: [u64; 14] = [0, 0, 1, 2, 1006, 1022, 1023, 1024, 1075, 1076, 1100, 2019, 2045, 2046];
    while (xs.len() as u64) < n {
        let field = if r.gen_bool(0.7) { *fields.choose(r).unwrap() } else { r.gen_range(0..2047) };
        let mut frac: u64 = r.gen::<u64>() & ((1 << 52) - 1);
        match r.gen_range(0..6) {
            0 => frac = 0,
            1 => frac = (1 << 52) - 1,
            2 => frac &= 0xff,
            _ => {}
        }
        xs.push(f64::from_bits((field << 52) | frac));
    }
    let mut out = vec![];
    for x in xs {
        let (ip, fp, tie) = midpoint_decimal(x);
        let hi = f64::from_bits(x.to_bits() + 1);
        let fin = |v: f64| if v.is_finite() { Some(v) } else { None };
        let z = r.gen_range(3..40usize) + if ip.len() + fp.len() < 22 { 22 } else { 0 };
        // the tie itself, just above (…0001), just below (last digit decreased, then 9s)
        let up_fp = format!("{fp}{}1", "0".repeat(z));
        let all = dec_pred(&format!("{ip}{fp}"));
        let (dn_ip, dn_fp) = (all[..ip.len()].to_string(), format!("{}{}", &all[ip.len()..], "9".repeat(z)));
        for (i, f, want, fam) in [(ip.clone(), fp.clone(), fin(tie), "tie"), (ip.clone(), up_fp, fin(hi), "above"), (dn_ip, dn_fp, Some(x), "below")] {
            out.push((plain_form(&i, &f), want, fam));
            out.push((sci_form(r, &i, &f), want, fam));
        }
    }
    out
}

/// other shapes a change of lexer options or fast paths could break
fn stress_spellings(r: &mut impl Rng, n: u64) -> Vec<String> {
    let mut out: Vec<String> = [
        "1e0000000010", "1e+0000000000000000000000000000000000000003", "1e-0000000003", "1E00000000000000000400", "0e999999999999999999999999",
        "1e99999999999999999999999", "1e-99999999999999999999999", "1e-400", "1e-323", "1e-324", "2.4703282292062328e-324", "4.9406564584124654e-324",
        "0.00000000000000000000000000000000000000000000000001", "123456789012345678.90123456789012345678901234567890",
        "0x000000000000000000000000ffffffffffffffff", "0xffff_ffff_ffff_ffff_", "0X7fff_ffff__ffff_ffff", "0x1_0000_0000_0000_0000",
        "0o1777777777777777777777", "0o00001_777_777_777_777_777_777_777", "0o2000000000000000000000",
        "00000000000000000000000000000018446744073709551615", "00000000000000000000000000000018446744073709551616",
        "18_446_744_073_709_551_615", "9_223_372_036_854_775_808", "1.7976931348623157e308", "1.7976931348623158e308", "17976931348623157e292",
        "0.17976931348623157e309", "179769313486231570000000000e282", "8.98846567431158e307", "4.450147717014403e-308", "2.2250738585072014e-308",
    ].iter().map(|x| x.to_string()).collect();
    out.push(format!("0b{}", "1".repeat(64)));
    out.push(format!("0b{}{}", "0".repeat(100), "1".repeat(64)));
    out.push(format!("0b1{}", "0".repeat(64)));
    out.push(format!("0B{}", "1_".repeat(64)));
    out.push(format!("0.{}1", "0".repeat(322)));
    out.push(format!("0.{}1", "0".repeat(323)));
    out.push(format!("0.{}1", "0".repeat(400)));
    out.push(format!("0.{}25e400", "0".repeat(400)));
    out.push(format!("1{}e-300", "0".repeat(300)));
    out.push(format!("1{}.0e-300", "0".repeat(19)));
    out.push(format!("{}1.5", "0".repeat(300)));
    out.push(format!("1.5{}", "0".repeat(700)));
    out.push(format!("1.{}1", "0".repeat(700)));
    out.push(format!("0.3{}", "3".repeat(800)));
    out.push(format!("9.{}", "9".repeat(60)));
    out.push(format!("0.{}", "9".repeat(60)));
    while (out.len() as u64) < n {
        // long random mantissas (20 .. 800 digits), the point anywhere (integer part below 2^64), any exponent form
        let ni = r.gen_range(0..=19usize);
        let nf = *[1usize, 5, 18, 25, 40, 120, 400, 780].choose(r).unwrap();
        let mut t = random_digits(r, ni, 10);
        if ni == 19 {
            t.replace_range(0..1, "1");
        }
        if r.gen_bool(0.3) {
            t = format!("{}{t}", "0".repeat(r.gen_range(1..30)));
        }
        t.push('.');
        if r.gen_bool(0.3) {
            t.push_str(&"0".repeat(r.gen_range(1..340)));
        }
        t.push_str(&random_digits(r, nf, 10));
        if r.gen_bool(0.3) {
            t.push_str(&"0".repeat(r.gen_range(1..200)));
        }
        if r.gen_bool(0.6) {
            let e: i32 = *[0, 1, -1, 10, -10, 22, 23, -22, 300, -300, 308, -308, -320, -330, 400].choose(r).unwrap() + r.gen_range(-3..=3);
            t.push(if r.gen_bool(0.5) { 'e' } else { 'E' });
            if e < 0 {
                t.push('-');
            } else if r.gen_bool(0.3) {
                t.push('+');
            }
            t.push_str(&"0".repeat(*[0usize, 0, 2, 12].choose(r).unwrap()));
            t.push_str(&e.abs().to_string());
        }
        if r.gen_bool(0.2) {
            // separators anywhere the grammar allows them: not right after the point, not between e and its sign
            t = sprinkle(r, &t, 0.05);
            while t.contains("._") {
                t = t.replace("._", ".");
            }
            for (a, b) in [("e_", "e"), ("E_", "E")] {
                while t.contains(a) {
                    t = t.replace(a, b);
                }
            }
        }
        out.push(t);
    }
    out
}

fn run_families(ctx: &Ctx, sum: &mut Summary) {
    let mut rng = util::rng(ctx.seed, 55);
    let judge = |lit: &str, want: Option<Option<f64>>, fam: &str, rng: &mut rand_chacha::ChaCha8Rng, sum: &mut Summary| {
        let sign = *["", "", "-"].choose(rng).unwrap();
        let mut o = match own_math(lit) {
            Some((is_float, mant, e10)) => {
                let mut o = judge_all(sign, lit, is_float, &mant, e10, None, None);
                // self-check of the oracle: what round-to-nearest-even must give is known analytically here
                if let Some(w) = want {
                    let got = nearest_f64(&mant, e10);
                    let same = match w {
                        Some(v) => got.to_bits() == v.to_bits(),
                        None => !got.is_finite(),
                    };
                    if !same {
                        o.diverge(format!("oracle self-check: str::parse gives {got:e} for {lit:?}, expected {w:?}"));
                    }
                }
                o
            }
            None => {
                let mut o = Outcome::ok(true);
                o.diverge(format!("the harness cannot read its own spelling {lit:?}"));
                o
            }
        };
        o.nontrivial = true;
        o.count(fam);
        sum.absorb(&json!({"spelling": format!("{sign}{lit}")}), &o, true);
    };
    for (lit, want, fam) in halfway_spellings(&mut rng, ctx.arg_u64("halfway", 120)) {
        judge(&lit, Some(want), &format!("halfway_{fam}"), &mut rng, sum);
    }
    for lit in stress_spellings(&mut rng, ctx.arg_u64("stress", 300)) {
        judge(&lit, None, "stress", &mut rng, sum);
    }
}

pub fn drive(ctx: &Ctx) -> Summary {
    let n = ctx.arg_u64("n", 200);
    let per = ctx.arg_u64("positions", 6) as usize;
    let path = ctx.arg_str("out").expect("--out");
    let mut out = std::io::BufWriter::new(std::fs::File::create(path).expect("create trace"));
    let mut rng = util::rng(ctx.seed, 5);
    let mut sum = Summary::default();
    for _ in 0..n {
        let lit = random_literal(&mut rng);
        let sign = *["", "", "-", "-", "+"].choose(&mut rng).unwrap();
        let chars: Vec<String> = lit.chars().map(|c| c.to_string()).collect();
        util::emit(&mut out, &json!({"ev": "reset", "chars": chars}));
        for c in &chars {
            util::emit(&mut out, &json!({"ev": "char", "c": c}));
        }
        util::emit(&mut out, &json!({"ev": "end", "sign": sign}));
        util::emit(&mut out, &json!({"ev": "sane"}));
        let mut names: Vec<&(&str, &str, &str)> = POSITIONS.iter().collect();
        names.shuffle(&mut rng);
        names.truncate(per);
        let mut o = Outcome::ok(!plain_small_decimal(sign, &lit));
        for (name, _dom, template) in names {
            let text = render(template, sign, &lit);
            let got = observe(name, &text);
            util::emit(&mut out, &json!({"ev": "opinion", "pos": name, "accepted": !matches!(got, Got::Err)}));
            util::emit(&mut out, &json!({"ev": "parsed", "pos": name, "res": got_json(&got)}));
            o.count_n("events", 2);
        }
        o.count_n("events", chars.len() as u64 + 3);
        sum.absorb(&json!({"spelling": format!("{sign}{lit}")}), &o, true);
    }
    run_families(ctx, &mut sum);
    sum
}
