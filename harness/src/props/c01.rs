//! C01 — parsing never panics or aborts on any input text.
//!
//! modes
//!   C01        replay of TLC cases {toks, muts, kind, exp{program,instruction,expression,memref,frame}, sure} from
//!              spec/mc/MC_QuilGrammar.tla: the token sequence is rendered to text in two layouts and fed to the five
//!              entry points.  VIOLATION iff an entry point panics (or the worker dies / times out: reported by the pool
//!              as `crash`).  ok/err disagreement with the model is MODEL-DIVERGENCE (only judged when `sure`).
//!   C01.text   replay of raw texts {text} (the driver's fixture mutations, run again in crash-isolated workers) and of
//!              nesting probes {nest:{kind,depth}}.  A probe deeper than NEST_THRESHOLD runs in a child process of its
//!              own; if that child dies the violation is tagged with the known finding.
//!   C01.inner  (internal) child side of a nesting probe
//! drive       the repository's own Quil texts (tests/programs/*.quil, benches/sample-calibrations.quil,
//!              benches/test_expressions.txt, hand-written kitchen-sink lines) and seeded byte / char / token mutations
//!              of them: parsed in-process (panic = violation), tokenized by `tokenize` (a transcription of the lexer's
//!              token classes) and logged for spec/trace/QuilGrammarTrace.tla, which runs the model parser on the real
//!              token streams (model totality; ok/err agreement under Strict).

use crate::runner::{Outcome, Summary, Violation};
use crate::util::{self, s};
use crate::Ctx;
use quil_rs::expression::Expression;
use quil_rs::instruction::{FrameIdentifier, Instruction, MemoryReference};
use quil_rs::Program;
use rand::seq::SliceRandom;
use rand::Rng;
use serde_json::{json, Value};
use std::io::{BufRead, BufReader, Write};
use std::str::FromStr;

pub const ENTRIES: [&str; 5] = ["program", "instruction", "expression", "memref", "frame"];
/// a crash is attributed to the known nesting-depth finding only for inputs nested deeper than this
pub const NEST_THRESHOLD: usize = 1000;
pub const NEST_FINDING: &str = "parser-nesting-depth-stack-overflow";
/// debug assertion of the `lexical` crate on `<digits>._<digits>` with 20 or more mantissa digits
pub const SEP_FINDING: &str = "lexical-debug-assertion-separator-after-point";

/// the shape of the known finding: a panic with lexical's digit-separator assertion on a text that has `._`
/// (the defect is repaired in /repo, commit 03c1570: a fixed entry suppresses nothing, so nothing is tagged any more)
fn is_sep_finding(_text: &str, _msg: &str) -> bool {
    false
}

fn panic_message(e: Box<dyn std::any::Any + Send>) -> String {
    e.downcast_ref::<&str>().map(|x| x.to_string()).or_else(|| e.downcast_ref::<String>().cloned()).unwrap_or_default()
}

/// What a caller does with a returned error: Display, Debug and the `source` chain.  A panic here is outside the
/// literal statement of C01 (parsing did return an error), so it is reported as MODEL-DIVERGENCE under its own name.
fn render_error<E: std::error::Error>(err: &E) -> Option<String> {
    let r = std::panic::catch_unwind(std::panic::AssertUnwindSafe(|| {
        let mut n = format!("{err}").len() + format!("{err:?}").len() + format!("{err:#}").len();
        let mut src = err.source();
        let mut depth = 0;
        while let Some(s) = src {
            n += format!("{s}").len() + format!("{s:?}").len();
            src = s.source();
            depth += 1;
            if depth > 64 {
                break;
            }
        }
        n
    }));
    r.err().map(panic_message)
}

fn outcome_of<T, E: std::error::Error>(r: Result<T, E>) -> String {
    match r {
        Ok(_) => "ok".into(),
        Err(e) => match render_error(&e) {
            None => "err".into(),
            Some(msg) => format!("err!render: {msg}"),
        },
    }
}

/// "ok" | "err" | "err!render: <message>" (an error whose rendering panics) | "panic: <message>" for one entry point
fn run_entry(entry: &str, text: &str) -> String {
    let r = std::panic::catch_unwind(|| match entry {
        "program" => outcome_of(Program::from_str(text)),
        "instruction" => outcome_of(Instruction::from_str(text)),
        "expression" => outcome_of(Expression::from_str(text)),
        "memref" => outcome_of(MemoryReference::from_str(text)),
        "frame" => outcome_of(FrameIdentifier::from_str(text)),
        _ => unreachable!(),
    });
    match r {
        Ok(x) => x,
        Err(e) => format!("panic: {}", panic_message(e)),
    }
}

/// outcome class of a result string
pub fn class_of(r: &str) -> &'static str {
    if r.starts_with("panic") {
        "panic"
    } else if r.starts_with("err") {
        "err"
    } else {
        "ok"
    }
}

pub fn run_all(text: &str) -> Vec<(&'static str, String)> {
    ENTRIES.iter().map(|e| (*e, run_entry(e, text))).collect()
}

fn record_panics(o: &mut Outcome, text: &str, res: &[(&'static str, String)]) {
    for (e, r) in res {
        if let Some(msg) = r.strip_prefix("err!render: ") {
            o.diverge(format!("panic while rendering the error of {e}::from_str({:?}): {msg}", text.chars().take(120).collect::<String>()));
        }
        if r.starts_with("panic") {
            let mut v = Violation::new("panic", json!("ok or err"), json!(r))
                .note(format!("{e}::from_str({:?})", text.chars().take(300).collect::<String>()));
            if is_sep_finding(text, r) {
                v = v.finding(SEP_FINDING);
            }
            o.violate(v);
        }
    }
}

/// maximal nesting depth of parentheses / brackets in a text
pub fn nesting_depth(text: &str) -> usize {
    let (mut d, mut m) = (0usize, 0usize);
    for c in text.chars() {
        match c {
            '(' | '[' => {
                d += 1;
                m = m.max(d);
            }
            ')' | ']' => d = d.saturating_sub(1),
            _ => {}
        }
    }
    // prefix minus chains nest the Pratt parser too
    let mut run = 0usize;
    for c in text.chars() {
        if c == '-' {
            run += 1;
            m = m.max(run);
        } else if c != ' ' {
            run = 0;
        }
    }
    m
}

// ------------------------------------------------------------------------------------------ rendering

fn quote(v: &str) -> String {
    format!("\"{}\"", v.replace('\\', "\\\\").replace('"', "\\\""))
}

fn lexeme(t: &Value) -> String {
    let v = t["v"].as_str().unwrap_or("");
    match t["c"].as_str().unwrap_or("") {
        "str" => quote(v),
        "target" => format!("@{v}"),
        "var" => format!("%{v}"),
        "nl" => "\n".into(),
        "indent" => "    ".into(),
        "comment" => format!("#{v}"),
        _ => v.to_string(),
    }
}

fn is_punct(c: &str) -> bool {
    matches!(c, "lp" | "rp" | "lb" | "rb" | "comma" | "colon" | "bang" | "semi" | "nl" | "indent")
}

/// layout 0: single spaces, indentation as a tab; layout 1: no space next to punctuation, indentation as four spaces
pub fn render(toks: &[Value], layout: usize) -> String {
    let mut out = String::new();
    for (k, t) in toks.iter().enumerate() {
        let c = t["c"].as_str().unwrap_or("");
        if k > 0 {
            let pc = toks[k - 1]["c"].as_str().unwrap_or("");
            let glue = if layout == 0 { c == "nl" || pc == "nl" } else { is_punct(c) || is_punct(pc) };
            // (a run of newline characters is ONE NewLine token: two NewLine tokens need a blank between them)
            if !glue || (c == "nl" && pc == "nl") {
                out.push(' ');
            }
        }
        if c == "indent" && layout == 0 {
            out.push('\t');
        } else {
            out.push_str(&lexeme(t));
        }
    }
    out
}

// ------------------------------------------------------------------------------------------ tokenizer

const COMMANDS: &[&str] = &[
    "ADD", "AND", "ASHR", "CALL", "CAPTURE", "CONVERT", "DECLARE", "DEFCAL", "DEFCIRCUIT", "DEFFRAME", "DEFGATE",
    "DEFWAVEFORM", "DELAY", "DIV", "EQ", "EXCHANGE", "FENCE", "GE", "GT", "HALT", "INCLUDE", "IOR", "JUMP", "JUMP-UNLESS",
    "JUMP-WHEN", "LABEL", "LE", "LOAD", "LT", "MEASURE", "MOVE", "MUL", "NEG", "NOP", "NOT", "PRAGMA", "PULSE",
    "RAW-CAPTURE", "RESET", "SET-FREQUENCY", "SET-PHASE", "SET-SCALE", "SHIFT-FREQUENCY", "SHIFT-PHASE", "SHL", "SHR",
    "STORE", "SUB", "SWAP-PHASES", "WAIT", "XOR",
];
const KEYWORDS: &[&str] = &["AS", "MATRIX", "mut", "OFFSET", "PAULI-SUM", "PERMUTATION", "SEQUENCE", "SHARING"];
const MODIFIERS: &[&str] = &["CONTROLLED", "DAGGER", "FORKED"];
const DATATYPES: &[&str] = &["BIT", "OCTET", "REAL", "INTEGER"];
const FUNCTIONS: &[&str] = &["cis", "cos", "exp", "sin", "sqrt"];

#[derive(Clone, Debug)]
pub struct Tok {
    pub c: &'static str,
    pub v: String,
    pub k: &'static str,
    pub start: usize,
    pub end: usize,
}

fn tok(c: &'static str, v: &str, k: &'static str, start: usize, end: usize) -> Tok {
    Tok { c, v: v.to_string(), k, start, end }
}

fn ident_len(b: &[u8]) -> usize {
    // [A-Za-z_][A-Za-z0-9_]* ( -+ [A-Za-z0-9_]+ )*
    let lead = |c: u8| c.is_ascii_alphabetic() || c == b'_';
    let tail = |c: u8| lead(c) || c.is_ascii_digit();
    if b.is_empty() || !lead(b[0]) {
        return 0;
    }
    let mut i = 1;
    while i < b.len() && tail(b[i]) {
        i += 1;
    }
    loop {
        let mut j = i;
        while j < b.len() && b[j] == b'-' {
            j += 1;
        }
        if j == i {
            break;
        }
        let mut k = j;
        while k < b.len() && tail(b[k]) {
            k += 1;
        }
        if k == j {
            break;
        }
        i = k;
    }
    i
}

/// number token at the start of `b`: (length, is_float, int class) — the automaton of spec/NumLiteral.tla
fn number_len(b: &[u8]) -> Option<(usize, bool, &'static str)> {
    let n = b.len();
    let digit = |c: u8, r: u32| (c as char).to_digit(r).is_some();
    if n >= 2 && b[0] == b'0' && matches!(b[1].to_ascii_lowercase(), b'x' | b'o' | b'b') {
        let r = match b[1].to_ascii_lowercase() {
            b'x' => 16,
            b'o' => 8,
            _ => 2,
        };
        let mut i = 2;
        let mut v: u128 = 0;
        while i < n && (b[i] == b'_' || digit(b[i], r)) {
            if b[i] != b'_' {
                v = v.checked_mul(r as u128)?.checked_add((b[i] as char).to_digit(r).unwrap() as u128)?;
                if v > u64::MAX as u128 {
                    return None;
                }
            }
            i += 1;
        }
        if i == 2 {
            return None;
        }
        return Some((i, false, int_class(v)));
    }
    let mut i = 0;
    let mut v: u128 = 0;
    let mut nd = 0;
    while i < n && (b[i].is_ascii_digit() || (b[i] == b'_' && i > 0)) {
        if b[i] != b'_' {
            v = v.saturating_mul(10).saturating_add((b[i] - b'0') as u128);
            nd += 1;
        }
        i += 1;
    }
    if i < n && (b[i] == b'.' || ((b[i] == b'e' || b[i] == b'E') && nd > 0)) {
        // a float: the integer part is first read as a u64
        if v > u64::MAX as u128 {
            return None;
        }
        let mut j = i;
        let mut text = String::new();
        for c in &b[..i] {
            if *c != b'_' {
                text.push(*c as char);
            }
        }
        if b[j] == b'.' {
            j += 1;
            text.push('.');
            if j < n && b[j] == b'_' {
                // `._` : the token ends after the point
                if nd == 0 {
                    return None;
                }
                return finish_float(&text, j);
            }
            while j < n && (b[j].is_ascii_digit() || b[j] == b'_') {
                if b[j] != b'_' {
                    text.push(b[j] as char);
                    nd += 1;
                }
                j += 1;
            }
        }
        if nd == 0 {
            return None;
        }
        if j < n && (b[j] == b'e' || b[j] == b'E') {
            let mut k = j + 1;
            let mut e = String::from("e");
            if k < n && (b[k] == b'+' || b[k] == b'-') {
                e.push(b[k] as char);
                k += 1;
            }
            let mut ed = 0;
            while k < n && (b[k].is_ascii_digit() || b[k] == b'_') {
                if b[k] != b'_' {
                    e.push(b[k] as char);
                    ed += 1;
                }
                k += 1;
            }
            if ed == 0 {
                return None; // `1e` is refused
            }
            text.push_str(&e);
            j = k;
        }
        return finish_float(&text, j);
    }
    if nd == 0 {
        return None;
    }
    if v > u64::MAX as u128 {
        return None;
    }
    Some((i, false, int_class(v)))
}

fn finish_float(text: &str, len: usize) -> Option<(usize, bool, &'static str)> {
    let t = if text.starts_with('.') { format!("0{text}") } else { text.to_string() };
    let t = t.replace(".e", ".0e");
    let t = if t.ends_with('.') { format!("{t}0") } else { t };
    match t.parse::<f64>() {
        Ok(v) if v.is_finite() => Some((len, true, "")),
        _ => None,
    }
}

fn int_class(v: u128) -> &'static str {
    if v < (1u128 << 63) {
        "s"
    } else if v == (1u128 << 63) {
        "m"
    } else {
        "b"
    }
}

/// Token classes of a text, as the lexer of quil-rs produces them; None when the text does not lex.
pub fn tokenize(text: &str) -> Option<Vec<Tok>> {
    let b = text.as_bytes();
    let n = b.len();
    let mut out = vec![];
    let mut i = 0;
    while i < n {
        if b[i..].starts_with(b"    ") {
            out.push(tok("indent", "", "", i, i + 4));
            i += 4;
            continue;
        }
        if b[i] == b'\t' {
            out.push(tok("indent", "", "", i, i + 1));
            i += 1;
            continue;
        }
        let mut j = i;
        while j < n && b[j] == b' ' {
            j += 1;
        }
        if j >= n {
            break; // trailing blanks
        }
        let c = b[j];
        let start = j;
        let simple = |cl: &'static str| Some((cl, 1usize));
        let punct = match c {
            b'!' => simple("bang"),
            b':' => simple("colon"),
            b',' => simple("comma"),
            b'[' => simple("lb"),
            b']' => simple("rb"),
            b'(' => simple("lp"),
            b')' => simple("rp"),
            b';' => simple("semi"),
            _ => None,
        };
        if c == b'#' {
            let mut k = j;
            while k < n && b[k] != b'\n' {
                k += 1;
            }
            out.push(tok("comment", "", "", start, k));
            i = k;
        } else if let Some((cl, len)) = punct {
            out.push(tok(cl, &text[j..j + len], "", start, j + len));
            i = j + len;
        } else if b[j..].starts_with(b"    ") || c == b'\t' {
            let len = if c == b'\t' { 1 } else { 4 };
            out.push(tok("indent", "", "", start, j + len));
            i = j + len;
        } else if c == b'\n' || c == b'\r' {
            let mut k = j;
            if c == b'\n' {
                while k < n && b[k] == b'\n' {
                    k += 1;
                }
            } else {
                while k < n && (b[k] == b'\n' || b[k] == b'\r') {
                    k += 1;
                }
            }
            out.push(tok("nl", "", "", start, k));
            i = k;
        } else if c == b'@' || c == b'%' {
            let len = ident_len(&b[j + 1..]);
            if len == 0 {
                return None;
            }
            out.push(tok(if c == b'@' { "target" } else { "var" }, "x", "", start, j + 1 + len));
            i = j + 1 + len;
        } else if c == b'"' {
            let mut esc = false;
            let mut end = None;
            for (k, ch) in text[j + 1..].char_indices() {
                if ch == '\\' {
                    esc = !esc;
                } else if esc {
                    esc = false;
                } else if ch == '"' {
                    end = Some(j + 1 + k + 1);
                    break;
                }
            }
            let end = end?;
            out.push(tok("str", "s", "", start, end));
            i = end;
        } else if matches!(c, b'^' | b'-' | b'+' | b'/' | b'*') {
            out.push(tok("op", &text[j..j + 1], "", start, j + 1));
            i = j + 1;
        } else if ident_len(&b[j..]) > 0 {
            let len = ident_len(&b[j..]);
            let word = &text[j..j + len];
            let t = if word == "NONBLOCKING" {
                tok("nonblocking", word, "", start, j + len)
            } else if KEYWORDS.contains(&word) {
                tok("kw", word, "", start, j + len)
            } else if COMMANDS.contains(&word) {
                tok("cmd", word, "", start, j + len)
            } else if DATATYPES.contains(&word) {
                tok("dtype", word, "", start, j + len)
            } else if MODIFIERS.contains(&word) {
                tok("mod", word, "", start, j + len)
            } else {
                let k = if word == "i" {
                    "i"
                } else if FUNCTIONS.contains(&word.to_lowercase().as_str()) {
                    "fn"
                } else {
                    ""
                };
                tok("id", "x", k, start, j + len)
            };
            out.push(t);
            i = j + len;
        } else if c.is_ascii_digit() || c == b'.' {
            let (len, is_float, k) = number_len(&b[j..])?;
            out.push(tok(if is_float { "float" } else { "int" }, "1", if is_float { "" } else { k }, start, j + len));
            i = j + len;
        } else {
            return None;
        }
    }
    // whatever is left must be blanks, tabs or newlines (consumed by the trailing many0(one_of("\n\t ")))
    Some(out)
}

fn toks_json(toks: &[Tok]) -> Value {
    Value::Array(toks.iter().map(|t| json!({"c": t.c, "v": t.v, "k": t.k})).collect())
}

// ------------------------------------------------------------------------------------------ replay

fn nest_text(kind: &str, depth: usize) -> String {
    match kind {
        "paren" => format!("RX({}1{}) 0", "(".repeat(depth), ")".repeat(depth)),
        "sin" => format!("RX({}1{}) 0", "sin(".repeat(depth), ")".repeat(depth)),
        "expr" => format!("{}%x{}", "(".repeat(depth), ")".repeat(depth)),
        other => panic!("unknown nesting probe {other}"),
    }
}

/// run one text in a child process of this worker; None if the child died
fn run_isolated(ctx: &Ctx, text: &str) -> Option<Vec<(String, String)>> {
    let exe = std::env::current_exe().ok()?;
    let mut child = std::process::Command::new(exe)
        .args(["worker", "C01.inner", "--seed", &ctx.seed.to_string()])
        .stdin(std::process::Stdio::piped())
        .stdout(std::process::Stdio::piped())
        .stderr(std::process::Stdio::null())
        .spawn()
        .ok()?;
    {
        let stdin = child.stdin.as_mut()?;
        let _ = writeln!(stdin, "{}", json!({"text": text}));
        let _ = stdin.flush();
    }
    let mut line = String::new();
    let got = {
        let mut rd = BufReader::new(child.stdout.take()?);
        rd.read_line(&mut line).ok()
    };
    drop(child.stdin.take());
    let _ = child.wait();
    if got.unwrap_or(0) == 0 {
        return None;
    }
    let o: Outcome = serde_json::from_str(&line).ok()?;
    // the inner worker reports its results as divergences "entry=result" (transport only)
    Some(o.divergences.iter().filter_map(|d| d.split_once('=').map(|(a, b)| (a.to_string(), b.to_string()))).collect())
}

fn replay_text(ctx: &Ctx, text: &str, probe: bool) -> Outcome {
    let depth = nesting_depth(text);
    let mut o = Outcome::ok(true);
    o.sub_evaluations = ENTRIES.len() as u64;
    if ctx.mode == "C01.inner" {
        for (e, r) in run_all(text) {
            o.diverge(format!("{e}={r}"));
        }
        return o;
    }
    if probe || depth > NEST_THRESHOLD {
        o.count("isolated");
        match run_isolated(ctx, text) {
            Some(res) => {
                for (e, r) in res {
                    if r.starts_with("panic") {
                        let mut v = Violation::new("panic", json!("ok or err"), json!(r)).note(format!("{e}::from_str, nesting depth {depth}"));
                        if is_sep_finding(text, &r) {
                            v = v.finding(SEP_FINDING);
                        }
                        o.violate(v);
                    }
                }
            }
            None => {
                let mut v = Violation::new("crash", json!("no crash"), json!("child process died"))
                    .note(format!("nesting depth {depth}; text starts {:?}", text.chars().take(40).collect::<String>()));
                if depth > NEST_THRESHOLD {
                    v = v.finding(NEST_FINDING);
                }
                o.violate(v);
            }
        }
        return o;
    }
    let res = run_all(text);
    record_panics(&mut o, text, &res);
    o
}

pub fn replay(ctx: &Ctx, case: &Value) -> Outcome {
    if let Some(h) = case.get("history") {
        // a rejected recorded history: its input event carries the text
        let text = h.as_array().and_then(|a| a.iter().find(|e| e["ev"] == "input")).map(|e| s(e, "text")).unwrap_or_default();
        return replay_text(ctx, &text, false);
    }
    if let Some(nest) = case.get("nest") {
        let text = nest_text(&s(nest, "kind"), util::u(nest, "depth") as usize);
        return replay_text(ctx, &text, true);
    }
    if let Some(text) = case.get("text").and_then(|t| t.as_str()) {
        return replay_text(ctx, text, false);
    }
    let toks = util::arr(case, "toks");
    let muts = case["muts"].as_u64().unwrap_or(0);
    let heads = ["cmd", "nonblocking", "mod", "id"];
    let nontrivial = muts > 0 || (toks.len() >= 2 && heads.contains(&toks[0]["c"].as_str().unwrap_or("")));
    let mut o = Outcome::ok(nontrivial);
    let sure = case["sure"].as_bool().unwrap_or(false);
    for layout in 0..2 {
        let text = render(toks, layout);
        let res = run_all(&text);
        o.sub_evaluations += res.len() as u64;
        record_panics(&mut o, &text, &res);
        if sure {
            for (e, r) in &res {
                if !r.starts_with("panic") && case["exp"][*e].as_str() != Some(class_of(r)) {
                    o.diverge(format!("{e}::from_str({text:?}) = {r}, model {}", case["exp"][*e]));
                }
            }
        } else {
            o.count("no_model_opinion");
        }
    }
    o
}

// ------------------------------------------------------------------------------------------- drive

const KITCHEN: &[&str] = &[
    "DECLARE ro BIT[1]\nDEFGATE HADAMARD AS MATRIX:\n\t(1/sqrt(2)),(1/sqrt(2))\n\t(1/sqrt(2)),((-1)/sqrt(2))\n\nH 0\nMEASURE 0 ro[0]\n",
    "DEFGATE PHASE(%a) p q AS PAULI-SUM:\n    ZZ(-%a/4) p q\n    X(%a) p\n",
    "DEFGATE BELL a b AS SEQUENCE:\n    H a\n    CNOT a b\n",
    "DEFGATE CCNOT AS PERMUTATION:\n    0, 1, 2, 3, 4, 5, 7, 6\n",
    "DEFCIRCUIT BELL(%t) a b:\n    RX(%t) a\n    CNOT a b\nBELL(pi/2) 0 1\n",
    "DEFFRAME 0 \"rf\":\n    SAMPLE-RATE: 1e9\n    DIRECTION: \"tx\"\nDEFWAVEFORM wf/custom(%a):\n    1+2i, %a*0.5, 0x10\n",
    "PULSE 0 \"rf\" gaussian(duration: 1e-6, fwhm: 2e-7, t0: 5e-7)\nNONBLOCKING CAPTURE 0 \"ro_rx\" flat(duration: 1, iq: 1+0i) ro[0]\nRAW-CAPTURE 0 \"ro_rx\" 1e-6 raw\n",
    "DELAY 0 1.0; FENCE 0 1; FENCE\nSET-PHASE 0 \"rf\" pi/2\nSHIFT-FREQUENCY 0 1 \"cz\" -1e6\nSWAP-PHASES 0 \"a\" 1 \"b\"\n",
    "LABEL @start\nJUMP-WHEN @end ro[0]\nJUMP-UNLESS @start ro\nJUMP @start\nLABEL @end\nHALT # done\n",
    "MOVE a 1\nADD a -2.5\nEQ c a b\nAND b 0xff\nNOT b\nEXCHANGE a b\nCONVERT r i[0]\nLOAD a mem idx\nSTORE mem idx 3\n",
    "PRAGMA EXTERN foo \"INTEGER (x : REAL, y : mut INTEGER[3])\"\nCALL foo 1 y[0] 2.5i\nPRAGMA INITIAL_REWIRING \"NAIVE\"\nINCLUDE \"lib.quil\"\n",
    "DAGGER CONTROLLED FORKED RX(-(pi/2)^2, %theta*cis(1.5e-3)) 0 q %r\nRESET\nRESET 3\nMEASURE !readout 1\nNOP\nWAIT\n",
    "DEFCAL MEASURE 0 dest:\n    DECLARE iq REAL[2]\n    CAPTURE 0 \"out\" flat(duration: 1.0, iq: 1.0) iq\nDEFCAL RX(%t) q:\n    PULSE q \"xy\" drag(alpha: %t) # comment\n",
];
const NASTY: &[&str] = &[
    "\"", "\\", "(", ")", "[", "]", ":", ",", ";", "#", "@", "%", "!", "-", "+", "*", "/", "^", "_", ".", "e", "i", "0", "9", "\n", "\r\n", "\t",
    "    ", " ", "\u{0}", "é", "λ", "💥", "\u{feff}", "0x", "1e", "NONBLOCKING", "AS", "mut", "18446744073709551616", "9223372036854775808",
    "-9223372036854775808", "1e400", "pi", "sin(", "._", "_", "1._00000000000000000001", "0.12345678901234567890123", "1_000.000_1e-0_3", "DEFCAL", "MEASURE", "PULSE", "OFFSET", "SHARING",
];

fn load_corpus() -> Vec<(String, String)> {
    // (kind, text): kind "program" | "expression"
    let mut out: Vec<(String, String)> = vec![];
    let root = "/repo/quil-rs";
    if let Ok(rd) = std::fs::read_dir(format!("{root}/tests/programs")) {
        let mut files: Vec<_> = rd.filter_map(|e| e.ok()).map(|e| e.path()).filter(|p| p.extension().map(|x| x == "quil").unwrap_or(false)).collect();
        files.sort();
        for f in files {
            if let Ok(t) = std::fs::read_to_string(&f) {
                out.push(("program".into(), t));
            }
        }
    }
    if let Ok(t) = std::fs::read_to_string(format!("{root}/benches/sample-calibrations.quil")) {
        // the whole file once, and windows of it cut at definition boundaries
        let lines: Vec<&str> = t.lines().collect();
        let starts: Vec<usize> = (0..lines.len()).filter(|k| lines[*k].starts_with("DEF")).collect();
        for w in starts.chunks(10).take(100) {
            let a = w[0];
            let b = (a + 40).min(lines.len());
            let mut end = b;
            for k in a + 1..b {
                if lines[k].starts_with("DEF") {
                    end = k;
                }
            }
            out.push(("program".into(), lines[a..end.max(a + 1)].join("\n") + "\n"));
        }
        out.push(("whole".into(), t));
    }
    if let Ok(t) = std::fs::read_to_string(format!("{root}/benches/test_expressions.txt")) {
        for line in t.lines() {
            if let Some((_, e)) = line.split_once('\t') {
                out.push(("expression".into(), e.to_string()));
            }
        }
    }
    for k in KITCHEN {
        out.push(("program".into(), k.to_string()));
    }
    out
}

fn mutate(r: &mut impl Rng, text: &str, pool: &[String]) -> String {
    let mut t = text.to_string();
    let n = r.gen_range(1..=3);
    for _ in 0..n {
        if t.is_empty() {
            t.push_str(NASTY.choose(r).unwrap());
            continue;
        }
        match r.gen_range(0..9) {
            0 => {
                // byte flip / overwrite
                let mut b = t.clone().into_bytes();
                let k = r.gen_range(0..b.len());
                b[k] = if r.gen_bool(0.5) { b[k] ^ (1 << r.gen_range(0..8)) } else { r.gen() };
                t = String::from_utf8_lossy(&b).into_owned();
            }
            1 => {
                // delete a byte range
                let mut b = t.clone().into_bytes();
                let k = r.gen_range(0..b.len());
                let l = r.gen_range(1..=4usize.min(b.len() - k));
                b.drain(k..k + l);
                t = String::from_utf8_lossy(&b).into_owned();
            }
            2 | 3 => {
                // insert a nasty piece at a char boundary
                let idx: Vec<usize> = t.char_indices().map(|(k, _)| k).chain([t.len()]).collect();
                let k = *idx.choose(r).unwrap();
                t.insert_str(k, NASTY.choose(r).unwrap());
            }
            4 => {
                // replace one char
                let idx: Vec<(usize, char)> = t.char_indices().collect();
                let (k, c) = *idx.choose(r).unwrap();
                t.replace_range(k..k + c.len_utf8(), NASTY.choose(r).unwrap());
            }
            5 => {
                // truncate
                let idx: Vec<usize> = t.char_indices().map(|(k, _)| k).collect();
                let k = *idx.choose(r).unwrap();
                t.truncate(k);
            }
            _ => {
                // token-level: delete / duplicate / swap / replace by a token of the corpus
                if let Some(toks) = tokenize(&t) {
                    if toks.is_empty() {
                        continue;
                    }
                    let k = r.gen_range(0..toks.len());
                    let (a, b) = (toks[k].start, toks[k].end);
                    match r.gen_range(0..4) {
                        0 => t.replace_range(a..b, ""),
                        1 => {
                            let piece = format!(" {}", &t[a..b]);
                            t.insert_str(b, &piece);
                        }
                        2 if k + 1 < toks.len() => {
                            let (c, d) = (toks[k + 1].start, toks[k + 1].end);
                            let (x, y) = (t[a..b].to_string(), t[c..d].to_string());
                            t.replace_range(c..d, &x);
                            t.replace_range(a..b, &y);
                        }
                        _ => t.replace_range(a..b, pool.choose(r).map(|x| x.as_str()).unwrap_or("X")),
                    }
                }
            }
        }
    }
    t
}

/// Error paths with long and multi-byte context.  Every text fails to lex or to parse; the failure is placed after
/// about 71 / 72 / 73 / 200 / 10 000 bytes of legal text on the same line (strings and comments, where any
/// character is legal) made of 2-, 3- and 4-byte UTF-8 characters, with 0..7 ASCII bytes in front so that every
/// alignment of the characters relative to a byte-oriented cut of the line occurs.  (text, lexable)
fn error_context_texts() -> Vec<(String, bool)> {
    let chars: [&str; 4] = ["é", "€", "💥", "aé€💥"];
    // offending pieces: (piece, is a lexer error)
    let offenders: [(&str, bool); 11] = [
        ("$", true), ("\u{0}", true), ("é", true), ("💥x", true), ("\"open é", true), ("@", true), ("0x", true),
        (")", false), ("1.5", false), ("NONBLOCKING X 0", false), ("ADD ro +1", false),
    ];
    let content = |pad: usize, ch: &str, bytes: usize| -> String {
        let mut t = "a".repeat(pad);
        while t.len() < bytes {
            t.push_str(ch);
        }
        t
    };
    let mut out: Vec<(String, bool)> = vec![];
    for (piece, is_lex) in offenders {
        // no context at all, and the offending piece alone after blanks
        out.push((piece.to_string(), !is_lex));
        out.push((format!("X 0\n{piece}"), !is_lex));
        for target in [71usize, 72, 73, 200] {
            for pad in 0..8usize {
                for ch in chars {
                    let body = content(pad, ch, target.saturating_sub(12));
                    let forms = [
                        format!("PRAGMA n \"{body}\" {piece}"),                      // after a long string on the same line
                        format!("PRAGMA n \"{body}\"{piece}"),                       // directly adjacent to the closing quote
                        format!("DEFCAL X 0:\n    PRAGMA n \"{body}\" {piece}"),     // inside a body (indented line)
                        format!("PRAGMA n \"first line\n{body}\" {piece}"),          // the line starts inside a string
                        format!("SET-PHASE 0 \"{body}\" 1 {piece}\nX 0 # {body}"),   // more text after the failure
                        format!("X 0 # {body}\n{piece}"),                            // after a long comment line
                        format!("PRAGMA n \"{body}{ch}\"{ch}"),                      // a multi-byte character is the offender
                    ];
                    for (k, f) in forms.into_iter().enumerate() {
                        out.push((f, !is_lex && k != 6));
                    }
                }
            }
        }
    }
    // end of input: unterminated string, dangling command, and a failure after / on a 10 kB line
    for pad in 0..8usize {
        for ch in chars {
            for target in [71usize, 72, 73, 200] {
                let body = content(pad, ch, target.saturating_sub(12));
                out.push((format!("PRAGMA n \"{body}"), false));
                out.push((format!("PRAGMA n \"{body}\" ADD"), true));
                out.push((format!("DEFCAL X 0:\n    PRAGMA n \"{body}\"\n    MOVE ro"), true));
                out.push((format!("PRAGMA n \"{body}\" DEFCAL X 0:"), true));
            }
            let long = content(pad, ch, 10_000);
            out.push((format!("PRAGMA n \"{long}\" $"), false));
            out.push((format!("PRAGMA n \"{long}\" )"), true));
            out.push((format!("PRAGMA n \"{long}\"\nPRAGMA n \"{}\" $", content(pad, ch, 60)), false));
            out.push((format!("X 0 # {long}\n    {ch}"), false));
        }
    }
    out
}

pub fn drive(ctx: &Ctx) -> Summary {
    let n = ctx.arg_u64("n", 300);
    let max_tokens = ctx.arg_u64("max-tokens", 400) as usize;
    let path = ctx.arg_str("out").expect("--out");
    let mut out = std::io::BufWriter::new(std::fs::File::create(path).expect("create trace"));
    let texts_path = ctx.arg_str("texts").map(|x| x.to_string()).unwrap_or_else(|| format!("{path}.texts.ndjson"));
    let mut texts = std::io::BufWriter::new(std::fs::File::create(&texts_path).expect("create texts"));
    let mut rng = util::rng(ctx.seed, 1);
    let corpus = load_corpus();
    assert!(corpus.len() > 20, "the repository's Quil fixtures were not found under /repo/quil-rs");
    // pool of token spellings for token-level replacement
    let mut pool: Vec<String> = vec![];
    for (kind, t) in corpus.iter().filter(|(k, _)| k != "whole").take(80) {
        let _ = kind;
        if let Some(toks) = tokenize(t) {
            for tk in toks.iter().filter(|x| !matches!(x.c, "nl" | "indent" | "comment")).take(60) {
                pool.push(t[tk.start..tk.end].to_string());
            }
        }
    }
    pool.sort();
    pool.dedup();
    let mut sum = Summary::default();
    let small: Vec<&(String, String)> = corpus.iter().filter(|(k, _)| k != "whole").collect();
    // (text, mutated, error-context probe, log the token stream for TLC)
    let mut inputs: Vec<(String, bool, bool, bool)> = vec![(String::new(), false, false, true)];
    // every fixture unmodified first (the whole bench file too), then mutations, then the error-context family
    for (_, t) in &corpus {
        inputs.push((t.clone(), false, false, true));
    }
    for _ in 0..n {
        let (_, base) = small.choose(&mut rng).unwrap();
        inputs.push((mutate(&mut rng, base, &pool), true, false, true));
    }
    let log_every = ctx.arg_u64("error-context-log-every", 40).max(1) as usize;
    for (k, (t, _lexable)) in error_context_texts().into_iter().enumerate() {
        inputs.push((t, false, true, k % log_every == 0));
    }
    for (text, mutated, is_probe, log) in inputs {
        let res = run_all(&text);
        let mut o = Outcome::ok(true);
        o.sub_evaluations = res.len() as u64;
        record_panics(&mut o, &text, &res);
        if !mutated && !is_probe && text.len() < 100_000 && !text.is_empty() && res[0].1 != "ok" && res[2].1 != "ok" {
            o.diverge(format!("fixture parses neither as a program nor as an expression: {:?}", text.chars().take(60).collect::<String>()));
        }
        if nesting_depth(&text) <= NEST_THRESHOLD {
            util::emit(&mut texts, &json!({"text": text}));
        }
        let res_json: Value = Value::Object(res.iter().map(|(e, r)| (e.to_string(), json!(class_of(r)))).collect());
        // a panic of the known `._` shape is reported (tagged) through the summary; its history is not logged, because a
        // rejection by trace validation cannot carry a finding id
        let known_panic = res.iter().any(|(_, r)| r.starts_with("panic") && is_sep_finding(&text, r));
        if is_probe {
            o.count("error_context_texts");
            if res[0].1 == "ok" {
                o.diverge(format!("an error-context text was accepted: {:?}", text.chars().take(80).collect::<String>()));
            }
        }
        match tokenize(&text) {
            Some(_) if known_panic => o.count("known_finding_not_logged"),
            Some(_) if !log => o.count("token_streams_not_logged"),
            Some(toks) if toks.len() <= max_tokens => {
                o.count("token_streams_for_tlc");
                util::emit(&mut out, &json!({"ev": "reset"}));
                util::emit(&mut out, &json!({"ev": "input", "toks": toks_json(&toks), "res": res_json, "text": text}));
                util::emit(&mut out, &json!({"ev": "verdict", "res": res_json}));
            }
            Some(_) => o.count("token_streams_too_long_for_tlc"),
            None => {
                o.count("lex_errors");
                // the harness' tokenizer says the text does not lex: then every entry point must have failed
                if res.iter().any(|(_, r)| r == "ok") {
                    o.diverge(format!("tokenizer refuses a text the lexer accepts: {:?}", text.chars().take(80).collect::<String>()));
                }
            }
        }
        sum.absorb(&json!({"text": text.chars().take(200).collect::<String>()}), &o, true);
    }
    sum
}
