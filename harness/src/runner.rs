//! Worker-process pool, outcome/summary types.
//!
//! `qv replay <mode>` streams cases to `qv worker <mode>` child processes over pipes, one JSON line per
//! case, each answered by one line.  A worker that dies (abort, stack overflow, kill after the per-case
//! wall-clock limit) is replaced and the case it had in flight is recorded as a crash, so a panic or an
//! abort of the code under test is data, never a tool error.
#![allow(dead_code)]

use serde::{Deserialize, Serialize};
use serde_json::{json, Value};
use std::collections::{BTreeMap, HashSet};
use std::io::{BufRead, BufReader, Write};
use std::process::{Child, Command, Stdio};
use std::sync::{Arc, Mutex};
use std::time::{Duration, Instant};

#[derive(Serialize, Deserialize, Clone, Debug, Default)]
pub struct Violation {
    pub observable: String,
    #[serde(default)]
    pub finding: Option<String>,
    #[serde(default)]
    pub expected: Value,
    #[serde(default)]
    pub actual: Value,
    #[serde(default)]
    pub note: String,
}

impl Violation {
    pub fn new(observable: &str, expected: Value, actual: Value) -> Self {
        Violation { observable: observable.to_string(), finding: None, expected, actual, note: String::new() }
    }
    pub fn note(mut self, n: impl Into<String>) -> Self {
        self.note = n.into();
        self
    }
    pub fn finding(mut self, f: &str) -> Self {
        self.finding = Some(f.to_string());
        self
    }
}

#[derive(Serialize, Deserialize, Clone, Debug, Default)]
pub struct Outcome {
    #[serde(default)]
    pub nontrivial: bool,
    #[serde(default)]
    pub skipped: bool,
    #[serde(default)]
    pub violations: Vec<Violation>,
    #[serde(default)]
    pub divergences: Vec<String>,
    /// mode-specific counters, summed over all cases
    #[serde(default)]
    pub counters: BTreeMap<String, u64>,
    /// extra sub-cases evaluated inside this case (e.g. assignments, layouts)
    #[serde(default)]
    pub sub_evaluations: u64,
}

impl Outcome {
    pub fn ok(nontrivial: bool) -> Self {
        Outcome { nontrivial, ..Default::default() }
    }
    pub fn skip() -> Self {
        Outcome { skipped: true, ..Default::default() }
    }
    pub fn violate(&mut self, v: Violation) {
        self.violations.push(v);
    }
    pub fn diverge(&mut self, s: impl Into<String>) {
        self.divergences.push(s.into());
    }
    pub fn count(&mut self, k: &str) {
        *self.counters.entry(k.to_string()).or_insert(0) += 1;
    }
    pub fn count_n(&mut self, k: &str, n: u64) {
        *self.counters.entry(k.to_string()).or_insert(0) += n;
    }
}

#[derive(Serialize, Default)]
pub struct Summary {
    pub evaluations: u64,
    pub nontrivial: u64,
    pub skipped: u64,
    pub violation_count: u64,
    pub violations: Vec<Value>,
    pub by_finding: BTreeMap<String, u64>,
    pub divergences: u64,
    pub divergence_samples: Vec<String>,
    pub crashes: u64,
    pub samples: Vec<Value>,
    pub extra: BTreeMap<String, u64>,
    /// set when a driver was aborted by a panic: the trace it was writing is incomplete
    pub aborted: bool,
}

impl Summary {
    pub fn absorb(&mut self, case: &Value, o: &Outcome, distinct: bool) {
        self.evaluations += 1;
        if o.skipped {
            self.skipped += 1;
        }
        if o.nontrivial && distinct && !o.skipped {
            self.nontrivial += 1;
            if self.samples.len() < 3 && (self.nontrivial % 97 == 1) {
                self.samples.push(case.clone());
            }
        }
        for (k, v) in &o.counters {
            *self.extra.entry(k.clone()).or_insert(0) += v;
        }
        if o.sub_evaluations > 0 {
            *self.extra.entry("sub_evaluations".into()).or_insert(0) += o.sub_evaluations;
        }
        if !o.violations.is_empty() {
            self.violation_count += 1; // per case
            let v = &o.violations[0];
            let key = v.finding.clone().unwrap_or_else(|| "<unlisted>".into());
            let n = self.by_finding.entry(key).or_insert(0);
            *n += 1;
            if *n <= 5 {
                let mut j = serde_json::to_value(v).unwrap();
                j["case"] = case.clone();
                j["all"] = json!(o.violations.iter().map(|x| x.observable.clone()).collect::<Vec<_>>());
                self.violations.push(j);
            }
        }
        self.divergences += o.divergences.len() as u64;
        for d in &o.divergences {
            if self.divergence_samples.len() < 5 {
                self.divergence_samples.push(d.clone());
            }
        }
    }
    pub fn print(&self) {
        println!("SUMMARY {}", serde_json::to_string(self).unwrap());
    }
}

pub fn hash_line(s: &str) -> u64 {
    use std::hash::{Hash, Hasher};
    let mut h = std::collections::hash_map::DefaultHasher::new();
    s.hash(&mut h);
    h.finish()
}

/// Run one case in-process under catch_unwind with a silent panic hook.
pub fn run_guarded(f: impl FnOnce() -> Outcome + std::panic::UnwindSafe) -> Outcome {
    match std::panic::catch_unwind(f) {
        Ok(o) => o,
        Err(e) => {
            let msg = if let Some(s) = e.downcast_ref::<&str>() {
                s.to_string()
            } else if let Some(s) = e.downcast_ref::<String>() {
                s.clone()
            } else {
                "panic".to_string()
            };
            let mut o = Outcome::ok(true);
            o.violate(Violation::new("panic", json!("no panic"), json!(msg)));
            o
        }
    }
}

pub fn silence_panics() {
    std::panic::set_hook(Box::new(|_| {}));
}

struct Worker {
    child: Child,
    stdin: std::process::ChildStdin,
    stdout: BufReader<std::process::ChildStdout>,
}

fn spawn_worker(mode: &str, seed: u64, extra: &[String]) -> Worker {
    let exe = std::env::current_exe().expect("current_exe");
    let mut child = Command::new(exe)
        .arg("worker")
        .arg(mode)
        .arg("--seed")
        .arg(seed.to_string())
        .args(extra)
        .stdin(Stdio::piped())
        .stdout(Stdio::piped())
        .stderr(Stdio::null())
        .spawn()
        .expect("spawn worker");
    let stdin = child.stdin.take().unwrap();
    let stdout = BufReader::new(child.stdout.take().unwrap());
    Worker { child, stdin, stdout }
}

/// Parent side of `qv replay`.
pub fn replay_pool(
    mode: &str,
    input: &str,
    output: &str,
    workers: usize,
    case_timeout: u64,
    seed: u64,
    extra: &[String],
    verbose: bool,
) -> Summary {
    let text = std::fs::read_to_string(input).expect("read cases");
    let lines: Vec<String> = text.lines().filter(|l| !l.trim().is_empty()).map(|s| s.to_string()).collect();
    let n = lines.len();
    let lines = Arc::new(lines);
    let next = Arc::new(Mutex::new(0usize));
    let results: Arc<Mutex<Vec<Option<Outcome>>>> = Arc::new(Mutex::new(vec![None; n]));
    // watchdog table: (pid, start) per worker slot
    let inflight: Arc<Mutex<Vec<Option<(u32, Instant)>>>> = Arc::new(Mutex::new(vec![None; workers]));
    let done = Arc::new(Mutex::new(false));
    let wd = {
        let inflight = inflight.clone();
        let done = done.clone();
        std::thread::spawn(move || loop {
            std::thread::sleep(Duration::from_millis(200));
            if *done.lock().unwrap() {
                break;
            }
            let tab = inflight.lock().unwrap();
            for e in tab.iter().flatten() {
                if e.1.elapsed() > Duration::from_secs(case_timeout) {
                    unsafe {
                        libc::kill(e.0 as i32, libc::SIGKILL);
                    }
                }
            }
        })
    };
    let mut handles = vec![];
    for w in 0..workers.max(1) {
        let lines = lines.clone();
        let next = next.clone();
        let results = results.clone();
        let inflight = inflight.clone();
        let mode = mode.to_string();
        let extra: Vec<String> = extra.to_vec();
        handles.push(std::thread::spawn(move || {
            let mut wk = spawn_worker(&mode, seed, &extra);
            loop {
                let i = {
                    let mut g = next.lock().unwrap();
                    let i = *g;
                    if i >= lines.len() {
                        break;
                    }
                    *g += 1;
                    i
                };
                inflight.lock().unwrap()[w] = Some((wk.child.id(), Instant::now()));
                let started = Instant::now();
                let mut ok = wk.stdin.write_all(lines[i].as_bytes()).is_ok()
                    && wk.stdin.write_all(b"\n").is_ok()
                    && wk.stdin.flush().is_ok();
                let mut resp = String::new();
                if ok {
                    ok = matches!(wk.stdout.read_line(&mut resp), Ok(k) if k > 0);
                }
                inflight.lock().unwrap()[w] = None;
                let outcome = if ok {
                    serde_json::from_str::<Outcome>(&resp).unwrap_or_else(|e| {
                        let mut o = Outcome::ok(true);
                        o.diverge(format!("worker answer not parseable: {e}"));
                        o
                    })
                } else {
                    // the worker died: abort, stack overflow, or killed by the watchdog
                    let status = wk.child.wait().ok();
                    let how = if started.elapsed() >= Duration::from_secs(case_timeout) {
                        "timeout".to_string()
                    } else {
                        use std::os::unix::process::ExitStatusExt;
                        match status.and_then(|s| s.signal()) {
                            Some(sig) => format!("signal {sig}"),
                            None => format!("exit {:?}", status.and_then(|s| s.code())),
                        }
                    };
                    wk = spawn_worker(&mode, seed, &extra);
                    let mut o = Outcome::ok(true);
                    o.count("crashes");
                    o.violate(Violation::new("crash", json!("no crash"), json!(how)));
                    o
                };
                results.lock().unwrap()[i] = Some(outcome);
            }
            drop(wk.stdin);
            let _ = wk.child.wait();
        }));
    }
    for h in handles {
        let _ = h.join();
    }
    *done.lock().unwrap() = true;
    let _ = wd.join();
    let mut sum = Summary::default();
    let mut seen = HashSet::new();
    let mut out = std::io::BufWriter::new(std::fs::File::create(output).expect("create out"));
    let results = results.lock().unwrap();
    if let Some(missing) = results.iter().position(|r| r.is_none()) {
        // a worker thread died without answering (e.g. the worker binary could not be spawned)
        eprintln!("replay pool: no result for case {missing}; treating the run as a tool error");
        std::process::exit(2);
    }
    for (i, r) in results.iter().enumerate() {
        let o = r.clone().unwrap_or_default();
        let case: Value = serde_json::from_str(&lines[i]).unwrap_or(Value::Null);
        let distinct = seen.insert(hash_line(&lines[i]));
        if o.counters.get("crashes").is_some() {
            sum.crashes += 1;
        }
        sum.absorb(&case, &o, distinct);
        if !o.violations.is_empty() || !o.divergences.is_empty() || verbose {
            let _ = writeln!(out, "{}", json!({"i": i, "outcome": o}));
        }
    }
    if sum.samples.is_empty() && n > 0 {
        sum.samples.push(serde_json::from_str(&lines[0]).unwrap_or(Value::Null));
    }
    sum
}

/// Child side: read case lines, answer outcome lines.
pub fn worker_loop(f: &dyn Fn(&Value) -> Outcome) {
    silence_panics();
    let stdin = std::io::stdin();
    let stdout = std::io::stdout();
    let mut line = String::new();
    loop {
        line.clear();
        match stdin.lock().read_line(&mut line) {
            Ok(0) | Err(_) => break,
            _ => {}
        }
        let case: Value = match serde_json::from_str(&line) {
            Ok(v) => v,
            Err(e) => {
                let mut o = Outcome::skip();
                o.diverge(format!("case not parseable: {e}"));
                let mut so = stdout.lock();
                let _ = writeln!(so, "{}", serde_json::to_string(&o).unwrap());
                let _ = so.flush();
                continue;
            }
        };
        let o = run_guarded(std::panic::AssertUnwindSafe(|| f(&case)));
        let mut so = stdout.lock();
        let _ = writeln!(so, "{}", serde_json::to_string(&o).unwrap());
        let _ = so.flush();
    }
}
