#!/usr/bin/env python3
"""Shared machinery of /verif/bin/check: TLC runner, log parser, harness runner, evidence writer.

stdlib only.  Exit codes used by the orchestrator: 0 = property held on everything explored,
1 = VIOLATION line printed, 2 = tool error (never accompanied by a VIOLATION line).
"""
import hashlib
import json
import os
import re
import shutil
import subprocess
import sys
import time

VERIF = os.path.dirname(os.path.dirname(os.path.abspath(__file__)))
SPEC = os.path.join(VERIF, "spec")
HARNESS = os.path.join(VERIF, "harness")
OUT = os.path.join(VERIF, "out")
TLA_JAR = "/opt/veriftools/tla/tla2tools.jar"
TLA_CP = TLA_JAR + ":/opt/veriftools/tla/CommunityModules-deps.jar"
TLA_LIB = ":".join([SPEC, os.path.join(SPEC, "mc"), os.path.join(SPEC, "trace")])


class ToolError(Exception):
    pass


def log(msg):
    print(msg, flush=True)


# --------------------------------------------------------------------------- cargo

def build_harness(quiet=True):
    """Rebuild the harness (and therefore /repo/quil-rs from its current working tree)."""
    env = dict(os.environ)
    env["CARGO_NET_OFFLINE"] = "true"
    env.pop("RUSTFLAGS", None)  # the cfg flag comes from harness/.cargo/config.toml
    lock = os.path.join(HARNESS, "Cargo.lock")
    if not os.path.exists(lock):
        shutil.copy("/repo/Cargo.lock", lock)
    t0 = time.time()
    p = subprocess.run(["cargo", "build", "--offline", "--quiet"] if quiet else ["cargo", "build", "--offline"],
                       cwd=HARNESS, env=env, stdout=subprocess.PIPE, stderr=subprocess.STDOUT, text=True)
    if p.returncode != 0:
        sys.stdout.write(p.stdout[-6000:])
        raise ToolError("cargo build of the harness failed")
    return time.time() - t0


def qv_path():
    return os.path.join(HARNESS, "target", "debug", "qv")


def run_qv(args, timeout, stdin_path=None):
    """Run the harness binary; its last stdout line starting with SUMMARY carries a JSON object."""
    t0 = time.time()
    try:
        p = subprocess.run([qv_path()] + args, cwd=VERIF, stdout=subprocess.PIPE, stderr=subprocess.PIPE,
                           text=True, timeout=timeout)
    except subprocess.TimeoutExpired:
        raise ToolError("harness timed out: qv " + " ".join(args))
    summary = None
    for line in p.stdout.splitlines():
        if line.startswith("SUMMARY "):
            summary = json.loads(line[len("SUMMARY "):])
    if p.returncode != 0 or summary is None:
        sys.stdout.write(p.stdout[-3000:])
        sys.stdout.write(p.stderr[-3000:])
        raise ToolError("harness failed (exit %s): qv %s" % (p.returncode, " ".join(args)))
    summary["wall_s"] = round(time.time() - t0, 2)
    return summary


# --------------------------------------------------------------------------- TLC

_STR_ESC = re.compile(r'\\(.)')


def _tlc_unescape(s):
    # TLC prints string values with \" \\ \n \t escapes
    def rep(m):
        c = m.group(1)
        return {"n": "\n", "t": "\t", "r": "\r", "f": "\f"}.get(c, c)
    return _STR_ESC.sub(rep, s)


class TlcResult:
    def __init__(self):
        self.generated = 0
        self.distinct = 0
        self.depth = 0
        self.ok = False            # finished without error
        self.inv_violation = None  # name of violated invariant / property
        self.error_text = ""
        self.cases = 0
        self.coverage = {}         # action name -> (distinct, total)
        self.prints = []           # other PrintT tuples (not CASE)
        self.wall_s = 0.0
        self.cmd = ""
        self.log_path = ""
        self.rejected_at = None    # trace validation: (index, record-text)


def run_tlc(spec, cfg, outdir, name, workers=8, timeout=900, cases_path=None, simulate=None, depth=None,
            env_extra=None, heap="6g", deque=False, coverage=True, extra_args=None, seed=None):
    """Run TLC on spec/cfg.  Lines <<"CASE", "<json>">> are written (unescaped) to cases_path."""
    os.makedirs(outdir, exist_ok=True)
    meta = os.path.join(outdir, "states_" + name)
    shutil.rmtree(meta, ignore_errors=True)
    log_path = os.path.join(outdir, name + ".tlc.log")
    jopts = ["-XX:+UseParallelGC", "-Xmx" + heap, "-Xss1g", "-DTLA-Library=" + TLA_LIB]
    if deque:
        jopts.append("-Dtlc2.tool.queue.IStateQueue=StateDeque")
    cmd = ["java"] + jopts + ["-cp", TLA_CP, "tlc2.TLC", "-workers", str(workers), "-metadir", meta,
                              "-cleanup", "-noGenerateSpecTE", "-config", cfg]
    if coverage:
        cmd += ["-coverage", "1"]
    if simulate:
        cmd += ["-simulate", simulate]
        if depth:
            cmd += ["-depth", str(depth)]
    if seed is not None:
        cmd += ["-seed", str(seed)]
    if extra_args:
        cmd += extra_args
    cmd.append(spec)
    env = dict(os.environ)
    env.pop("JAVA_TOOL_OPTIONS", None)
    if env_extra:
        env.update(env_extra)
    res = TlcResult()
    res.cmd = " ".join(cmd)
    res.log_path = log_path
    t0 = time.time()
    cases_f = open(cases_path, "w") if cases_path else None
    other = []
    try:
        p = subprocess.Popen(["timeout", str(timeout)] + cmd, cwd=os.path.dirname(os.path.abspath(spec)),
                             env=env, stdout=subprocess.PIPE, stderr=subprocess.STDOUT, text=True, bufsize=1 << 20)
        with open(log_path, "w") as lf:
            for line in p.stdout:
                if line.startswith('<<"CASE", "'):
                    body = line.rstrip("\n")
                    body = body[len('<<"CASE", "'):-len('">>')]
                    if cases_f:
                        cases_f.write(_tlc_unescape(body) + "\n")
                    res.cases += 1
                    continue
                lf.write(line)
                other.append(line)
                if len(other) > 200000:
                    del other[:100000]
        rc = p.wait()
    finally:
        if cases_f:
            cases_f.close()
        shutil.rmtree(meta, ignore_errors=True)
    res.wall_s = round(time.time() - t0, 2)
    text = "".join(other)
    m = None
    for m in re.finditer(r"(\d+) states generated, (\d+) distinct states found", text):
        pass
    if m:
        res.generated, res.distinct = int(m.group(1)), int(m.group(2))
    m = re.search(r"The depth of the complete state graph search is (\d+)", text)
    if m:
        res.depth = int(m.group(1))
    for m in re.finditer(r"^<(\w+) line \d+, col \d+ to line \d+, col \d+ of module \w+>: (\d+):(\d+)", text, re.M):
        res.coverage[m.group(1)] = (int(m.group(2)), int(m.group(3)))
    m = re.search(r"Invariant (\S+) is violated", text)
    if m:
        res.inv_violation = m.group(1)
    m = re.search(r"(Temporal properties were violated|Action property \S+ is violated|Deadlock reached)", text)
    if m and not res.inv_violation:
        res.inv_violation = m.group(1)
    m = re.search(r'<<\s*"REJECTED_AT",\s*(\d+)', text)
    if m:
        res.rejected_at = (int(m.group(1)), "")
    for m in re.finditer(r'^<<"(\w+)", (.*)>>$', text, re.M):
        if m.group(1) != "REJECTED_AT":
            res.prints.append((m.group(1), m.group(2)))
    if rc == 124:
        res.error_text = "TLC timed out after %ss" % timeout
    elif "Model checking completed. No error has been found" in text or (
            simulate and rc == 0) or ("Finished in" in text and rc == 0):
        res.ok = True
    else:
        # keep the interesting part of the log
        idx = text.find("Error:")
        res.error_text = text[idx:idx + 3000] if idx >= 0 else text[-3000:]
    return res


# --------------------------------------------------------------------------- evidence / findings

def canonical_hash(obj):
    return hashlib.sha1(json.dumps(obj, sort_keys=True, separators=(",", ":")).encode()).hexdigest()


def load_known_findings():
    path = os.path.join(VERIF, "known_findings.json")
    if not os.path.exists(path):
        return []
    with open(path) as f:
        return json.load(f)["findings"]


def write_evidence(pid, data):
    os.makedirs(os.path.join(VERIF, "evidence"), exist_ok=True)
    path = os.path.join(VERIF, "evidence", pid + ".json")
    tmp = path + ".tmp"
    with open(tmp, "w") as f:
        json.dump(data, f, indent=1, sort_keys=True)
        f.write("\n")
    os.replace(tmp, path)
    return path
