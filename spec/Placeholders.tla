----------------------------- MODULE Placeholders -----------------------------
(***************************************************************************)
(* Placeholder resolution of quil-rs:                                      *)
(*   Program::default_target_resolver, Program::default_qubit_resolver,    *)
(*   Program::resolve_placeholders[_with_custom_resolvers]                 *)
(*   (quil-rs/src/program/mod.rs), Instruction::resolve_placeholders       *)
(*   (quil-rs/src/instruction/mod.rs)                                      *)
(*                                                                         *)
(* Transcription, one action per loop iteration:                           *)
(*   ScanT    get_targets(): fixed labels -> HashSet, placeholders ->      *)
(*            IndexSet (first occurrence order)                            *)
(*   AssignT  per label placeholder: first of base_0, base_1, ... that is  *)
(*            not taken; the name is then taken                            *)
(*   ScanQ    per instruction: fixed indices -> used set, placeholders ->  *)
(*            IndexSet.  Sees get_qubits() and, since fix 3e5db1c, the     *)
(*            frame qubits of SET-*, SHIFT-*, SWAP-PHASES                  *)
(*   AssignQ  zip(placeholders, (0..).filter(not used))                    *)
(*   Resolve  per instruction: label/jump -> target resolver; anything     *)
(*            else -> qubit resolver on the same qubits ScanQ sees         *)
(* With mode = "custom" only Resolve runs, with caller-supplied partial    *)
(* maps.                                                                   *)
(*                                                                         *)
(* Abstract syntax: a qubit is Fixed(n) | QPh(id) | QVar(s) (Abs.tla); a   *)
(* target is TFixed(s) | TPh(id, base); an instruction is [k, qs] (k in    *)
(* QKinds) or [k, target] (k in TKinds).  Placeholders are compared by     *)
(* identity (id), never by base label.                                     *)
(*                                                                         *)
(* Oracle (C34), stated on (body, result) alone - see "The property".      *)
(***************************************************************************)
EXTENDS Abs, TLC

\* "FrameUpdateQubitsSkipped": as built before fix 3e5db1c, qubits inside the frames of SET-*, SHIFT-* and
\* SWAP-PHASES were neither scanned nor resolved (get_qubits does not report them).  Off in shipped cfgs.
CONSTANT Deviations

TFixed(s)     == [t |-> "fixed", s |-> s]
TPh(id, base) == [t |-> "ph", id |-> id, base |-> base]

TKinds           == {"Label", "Jump", "JumpWhen", "JumpUnless"}
FrameUpdateKinds == {"SetFrequency", "SetPhase", "SetScale", "ShiftFrequency", "ShiftPhase", "SwapPhases"}
QKinds           == {"Gate", "Measure", "Reset", "Delay", "Fence", "Pulse", "Capture", "RawCapture"} \cup FrameUpdateKinds
QInstr(kind, qs)    == [k |-> kind, qs |-> qs]
TInstr(kind, tgt)   == [k |-> kind, target |-> tgt]
IsT(i)     == i.k \in TKinds
\* the instructions whose qubits the resolver construction and the resolution look at
Visible(i) == ~IsT(i) /\ ~("FrameUpdateQubitsSkipped" \in Deviations /\ i.k \in FrameUpdateKinds)

VARIABLES body,         \* the program body (input)
          mode,         \* "default" | "custom"
          phase,        \* "gen" | "scanT" | "assignT" | "scanQ" | "assignQ" | "resolve" | "done"
          pc,           \* position of the current loop
          fixedLabels,  \* HashSet of taken label names (fixed ones, then also assigned ones)
          labelPhs,     \* IndexSet of label placeholders: sequence of [id, base]
          tmap,         \* target resolver: function  placeholder id -> name   (partial: its DOMAIN)
          usedQ,        \* HashSet of fixed qubit indices in the body
          qubitPhs,     \* IndexSet of qubit placeholders: sequence of ids
          cursor,       \* next index the filtered iterator (0..) will look at
          qmap,         \* qubit resolver: function  placeholder id -> index   (partial: its DOMAIN)
          result        \* the resolved body built so far
vars == <<body, mode, phase, pc, fixedLabels, labelPhs, tmap, usedQ, qubitPhs, cursor, qmap, result>>

EmptyFn == [x \in {} |-> 0]
AddIfAbsent(seq, x) == IF x \in Range(seq) THEN seq ELSE Append(seq, x)
Extend(f, x, v) == [y \in DOMAIN f \cup {x} |-> IF y = x THEN v ELSE f[y]]

RunInit(b, m, tm, qm) ==
  /\ body = b /\ mode = m /\ pc = 1 /\ fixedLabels = {} /\ labelPhs = <<>> /\ tmap = tm
  /\ usedQ = {} /\ qubitPhs = <<>> /\ cursor = 0 /\ qmap = qm /\ result = <<>>

----------------------------------------------------------------------------
\* default_target_resolver
ScanTFn(st, i) ==
  IF ~IsT(i) THEN st
  ELSE IF i.target.t = "fixed" THEN [st EXCEPT !.fixed = @ \cup {i.target.s}]
  ELSE [st EXCEPT !.phs = AddIfAbsent(@, [id |-> i.target.id, base |-> i.target.base])]

Name(base, n) == base \o "_" \o ToString(n)
RECURSIVE FirstFree(_, _, _)
FirstFree(base, taken, n) == IF Name(base, n) \in taken THEN FirstFree(base, taken, n + 1) ELSE Name(base, n)

AssignTFn(st, p) ==
  LET name == FirstFree(p.base, st.fixed, 0)
  IN [fixed |-> st.fixed \cup {name}, tmap |-> Extend(st.tmap, p.id, name)]

\* default_qubit_resolver
RECURSIVE ScanQubits(_, _)
ScanQubits(st, qs) ==
  IF qs = <<>> THEN st
  ELSE LET q == Head(qs) IN
       ScanQubits(CASE q.t = "fixed" -> [st EXCEPT !.used = @ \cup {q.n}]
                    [] q.t = "ph"    -> [st EXCEPT !.phs = AddIfAbsent(@, q.id)]
                    [] OTHER         -> st,
                  Tail(qs))
ScanQFn(st, i) == IF Visible(i) THEN ScanQubits(st, i.qs) ELSE st

RECURSIVE NextUnused(_, _)
NextUnused(used, n) == IF n \in used THEN NextUnused(used, n + 1) ELSE n
AssignQFn(st, used, p) ==
  LET n == NextUnused(used, st.cursor) IN [cursor |-> n + 1, qmap |-> Extend(st.qmap, p, n)]

\* Instruction::resolve_placeholders
ResolveT(tm, t) == IF t.t = "ph" /\ t.id \in DOMAIN tm THEN TFixed(tm[t.id]) ELSE t
ResolveQ(qm, q) == IF q.t = "ph" /\ q.id \in DOMAIN qm THEN Fixed(qm[q.id]) ELSE q
ResolveFn(tm, qm, i) ==
  IF IsT(i) THEN [i EXCEPT !.target = ResolveT(tm, @)]
  ELSE IF Visible(i) THEN [i EXCEPT !.qs = [m \in DOMAIN @ |-> ResolveQ(qm, @[m])]]
  ELSE i

\* actions ---------------------------------------------------------------------
ScanT ==
  /\ phase = "scanT" /\ pc <= Len(body)
  /\ LET r == ScanTFn([fixed |-> fixedLabels, phs |-> labelPhs], body[pc]) IN
     fixedLabels' = r.fixed /\ labelPhs' = r.phs
  /\ pc' = pc + 1 /\ UNCHANGED <<body, mode, phase, tmap, usedQ, qubitPhs, cursor, qmap, result>>
EndScanT ==
  /\ phase = "scanT" /\ pc = Len(body) + 1 /\ phase' = "assignT" /\ pc' = 1
  /\ UNCHANGED <<body, mode, fixedLabels, labelPhs, tmap, usedQ, qubitPhs, cursor, qmap, result>>
AssignT ==
  /\ phase = "assignT" /\ pc <= Len(labelPhs)
  /\ LET r == AssignTFn([fixed |-> fixedLabels, tmap |-> tmap], labelPhs[pc]) IN
     fixedLabels' = r.fixed /\ tmap' = r.tmap
  /\ pc' = pc + 1 /\ UNCHANGED <<body, mode, phase, labelPhs, usedQ, qubitPhs, cursor, qmap, result>>
EndAssignT ==
  /\ phase = "assignT" /\ pc = Len(labelPhs) + 1 /\ phase' = "scanQ" /\ pc' = 1
  /\ UNCHANGED <<body, mode, fixedLabels, labelPhs, tmap, usedQ, qubitPhs, cursor, qmap, result>>
ScanQ ==
  /\ phase = "scanQ" /\ pc <= Len(body)
  /\ LET r == ScanQFn([used |-> usedQ, phs |-> qubitPhs], body[pc]) IN
     usedQ' = r.used /\ qubitPhs' = r.phs
  /\ pc' = pc + 1 /\ UNCHANGED <<body, mode, phase, fixedLabels, labelPhs, tmap, cursor, qmap, result>>
EndScanQ ==
  /\ phase = "scanQ" /\ pc = Len(body) + 1 /\ phase' = "assignQ" /\ pc' = 1
  /\ UNCHANGED <<body, mode, fixedLabels, labelPhs, tmap, usedQ, qubitPhs, cursor, qmap, result>>
AssignQ ==
  /\ phase = "assignQ" /\ pc <= Len(qubitPhs)
  /\ LET r == AssignQFn([cursor |-> cursor, qmap |-> qmap], usedQ, qubitPhs[pc]) IN
     cursor' = r.cursor /\ qmap' = r.qmap
  /\ pc' = pc + 1 /\ UNCHANGED <<body, mode, phase, fixedLabels, labelPhs, tmap, usedQ, qubitPhs, result>>
EndAssignQ ==
  /\ phase = "assignQ" /\ pc = Len(qubitPhs) + 1 /\ phase' = "resolve" /\ pc' = 1
  /\ UNCHANGED <<body, mode, fixedLabels, labelPhs, tmap, usedQ, qubitPhs, cursor, qmap, result>>
Resolve ==
  /\ phase = "resolve" /\ pc <= Len(body)
  /\ result' = Append(result, ResolveFn(tmap, qmap, body[pc]))
  /\ pc' = pc + 1 /\ UNCHANGED <<body, mode, phase, fixedLabels, labelPhs, tmap, usedQ, qubitPhs, cursor, qmap>>
EndResolve ==
  /\ phase = "resolve" /\ pc = Len(body) + 1 /\ phase' = "done"
  /\ UNCHANGED <<body, mode, pc, fixedLabels, labelPhs, tmap, usedQ, qubitPhs, cursor, qmap, result>>

Run == ScanT \/ EndScanT \/ AssignT \/ EndAssignT \/ ScanQ \/ EndScanQ \/ AssignQ \/ EndAssignQ \/ Resolve \/ EndResolve

\* the same loops as folds (trace specification, refinement invariant)
RECURSIVE FoldSeq2(_, _, _)   \* first-order: which step function is selected by a tag
FoldSeq2(tag, st, s) ==
  IF s = <<>> THEN st
  ELSE FoldSeq2(tag, CASE tag = "scanT"   -> ScanTFn(st, Head(s))
                       [] tag = "assignT" -> AssignTFn(st, Head(s))
                       [] tag = "scanQ"   -> ScanQFn(st, Head(s)), Tail(s))
RECURSIVE FoldAssignQ(_, _, _)
FoldAssignQ(st, used, s) == IF s = <<>> THEN st ELSE FoldAssignQ(AssignQFn(st, used, Head(s)), used, Tail(s))

DefaultTMap(b) == LET sc == FoldSeq2("scanT", [fixed |-> {}, phs |-> <<>>], b)
                  IN FoldSeq2("assignT", [fixed |-> sc.fixed, tmap |-> EmptyFn], sc.phs).tmap
DefaultQMap(b) == LET sc == FoldSeq2("scanQ", [used |-> {}, phs |-> <<>>], b)
                  IN FoldAssignQ([cursor |-> 0, qmap |-> EmptyFn], sc.used, sc.phs).qmap
ResolveAll(tm, qm, b) == [m \in DOMAIN b |-> ResolveFn(tm, qm, b[m])]
DefaultResolved(b) == ResolveAll(DefaultTMap(b), DefaultQMap(b), b)

----------------------------------------------------------------------------
\* The property (C34), on (body b, result r) without reference to the loops.
\* Occurrences: <<m, 0>> is the target of instruction m, <<m, j>> its j-th qubit operand.  All qubit
\* operands count - the statement says "every qubit placeholder in the body".
QOcc(b) == {<<m, j>> \in (DOMAIN b) \X (1..8) : ~IsT(b[m]) /\ j \in DOMAIN b[m].qs}
TOcc(b) == {m \in DOMAIN b : IsT(b[m])}
QAt(b, o) == b[o[1]].qs[o[2]]
QPhIds(b) == {QAt(b, o).id : o \in {x \in QOcc(b) : QAt(b, x).t = "ph"}}
TPhIds(b) == {b[m].target.id : m \in {x \in TOcc(b) : b[x].target.t = "ph"}}
FixedQubits(b) == {QAt(b, o).n : o \in {x \in QOcc(b) : QAt(b, x).t = "fixed"}}
FixedNames(b)  == {b[m].target.s : m \in {x \in TOcc(b) : b[x].target.t = "fixed"}}

\* nothing but placeholders changes: same length, kinds, arities; non-placeholder operands identical
ShapeKept(b, r) ==
  /\ Len(r) = Len(b)
  /\ \A m \in DOMAIN b : /\ r[m].k = b[m].k
                         /\ IsT(b[m]) => (b[m].target.t = "fixed" => r[m].target = b[m].target)
                         /\ ~IsT(b[m]) => /\ Len(r[m].qs) = Len(b[m].qs)
                                          /\ \A j \in DOMAIN b[m].qs : b[m].qs[j].t # "ph" => r[m].qs[j] = b[m].qs[j]
\* a placeholder occurrence is either left as it is or becomes a fixed value
StepsAreResolutions(b, r) ==
  /\ \A o \in QOcc(b) : QAt(b, o).t = "ph" => (QAt(r, o) = QAt(b, o) \/ QAt(r, o).t = "fixed")
  /\ \A m \in TOcc(b) : b[m].target.t = "ph" => (r[m].target = b[m].target \/ r[m].target.t = "fixed")

AllResolved(b, r) ==
  /\ \A o \in QOcc(b) : QAt(r, o).t # "ph"
  /\ \A m \in TOcc(b) : r[m].target.t # "ph"
Consistent(b, r) ==
  /\ \A o1 \in QOcc(b) : \A o2 \in QOcc(b) :
        (QAt(b, o1).t = "ph" /\ QAt(b, o2).t = "ph" /\ QAt(b, o1).id = QAt(b, o2).id) => QAt(r, o1) = QAt(r, o2)
  /\ \A m1 \in TOcc(b) : \A m2 \in TOcc(b) :
        (b[m1].target.t = "ph" /\ b[m2].target.t = "ph" /\ b[m1].target.id = b[m2].target.id)
           => r[m1].target = r[m2].target
Injective(b, r) ==
  /\ \A o1 \in QOcc(b) : \A o2 \in QOcc(b) :
        (QAt(b, o1).t = "ph" /\ QAt(b, o2).t = "ph" /\ QAt(b, o1).id # QAt(b, o2).id) => QAt(r, o1) # QAt(r, o2)
  /\ \A m1 \in TOcc(b) : \A m2 \in TOcc(b) :
        (b[m1].target.t = "ph" /\ b[m2].target.t = "ph" /\ b[m1].target.id # b[m2].target.id)
           => r[m1].target # r[m2].target
NoCollisionWithFixed(b, r) ==
  /\ \A o \in QOcc(b) : (QAt(b, o).t = "ph" /\ QAt(r, o).t = "fixed") => QAt(r, o).n \notin FixedQubits(b)
  /\ \A m \in TOcc(b) : (b[m].target.t = "ph" /\ r[m].target.t = "fixed") => r[m].target.s \notin FixedNames(b)

\* default resolution
DefaultOk(b, r) == /\ ShapeKept(b, r) /\ AllResolved(b, r) /\ Consistent(b, r)
                   /\ Injective(b, r) /\ NoCollisionWithFixed(b, r)
\* custom resolvers (partial maps tm, qm): exactly the placeholders they return values for are replaced,
\* by those values
ExactlyTheReturnedOnes(b, r, tm, qm) ==
  /\ ShapeKept(b, r)
  /\ \A o \in QOcc(b) : QAt(b, o).t = "ph" =>
        QAt(r, o) = (IF QAt(b, o).id \in DOMAIN qm THEN Fixed(qm[QAt(b, o).id]) ELSE QAt(b, o))
  /\ \A m \in TOcc(b) : b[m].target.t = "ph" =>
        r[m].target = (IF b[m].target.id \in DOMAIN tm THEN TFixed(tm[b[m].target.id]) ELSE b[m].target)

\* invariants -----------------------------------------------------------------
Requirements == phase = "done" =>
   IF mode = "default" THEN DefaultOk(body, result) ELSE ExactlyTheReturnedOnes(body, result, tmap, qmap)
\* the resolvers themselves (default mode): total on the placeholders of the body, injective, away from
\* everything fixed
\* (evaluated at the moment the resolvers are complete: entry of the resolve loop)
ResolverMaps == (mode = "default" /\ phase = "resolve" /\ pc = 1) =>
   /\ DOMAIN tmap = TPhIds(body) /\ DOMAIN qmap = QPhIds(body)
   /\ \A x \in DOMAIN tmap : \A y \in DOMAIN tmap : x # y => tmap[x] # tmap[y]
   /\ \A x \in DOMAIN qmap : \A y \in DOMAIN qmap : x # y => qmap[x] # qmap[y]
   /\ \A x \in DOMAIN tmap : tmap[x] \notin FixedNames(body)
   /\ \A x \in DOMAIN qmap : qmap[x] \notin FixedQubits(body)
\* the qubit resolver hands out the smallest free indices, in order of first occurrence
SmallestFirst == (mode = "default" /\ phase = "resolve" /\ pc = 1) =>
   /\ \A m \in 1..(Len(qubitPhs) - 1) : qmap[qubitPhs[m]] < qmap[qubitPhs[m + 1]]
   /\ \A x \in DOMAIN qmap : \A n \in 0..(qmap[x] - 1) :
         n \in FixedQubits(body) \/ \E y \in DOMAIN qmap : qmap[y] = n
\* loop invariants of the scans
ScanInv ==
   /\ phase = "scanT" => /\ fixedLabels = FixedNames(SubSeq(body, 1, pc - 1))
                         /\ {p.id : p \in Range(labelPhs)} = TPhIds(SubSeq(body, 1, pc - 1))
   /\ phase = "scanQ" => /\ usedQ = FixedQubits(SubSeq(body, 1, pc - 1))
                         /\ Range(qubitPhs) = QPhIds(SubSeq(body, 1, pc - 1))
\* actions and folds are the same loops
StepsAreFolds == (phase = "done" /\ mode = "default") =>
   /\ tmap = DefaultTMap(body) /\ qmap = DefaultQMap(body) /\ result = DefaultResolved(body)
\* resolving twice changes nothing more (default mode leaves no placeholder)
Idempotent == (phase = "done" /\ mode = "default") => DefaultResolved(result) = result
=============================================================================
