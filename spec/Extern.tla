------------------------------- MODULE Extern -------------------------------
(***************************************************************************)
(* PRAGMA EXTERN signatures and CALL argument resolution in quil-rs:       *)
(*   quil-rs/src/instruction/extern_call.rs                                *)
(*       impl Quil for ExternSignature / ExternParameter / ...Type (print) *)
(*       impl FromStr for ExternSignature                                  *)
(*       UnresolvedCallArgument::{resolve, resolve_return}                 *)
(*       convert_unresolved_to_resolved_call_arguments, Call::resolve_*    *)
(*   quil-rs/src/parser/pragma_extern.rs   parse_extern_signature          *)
(*                                                                         *)
(* (1) TRANSCRIPTION.  PrintSig is the printer at token level (white space *)
(*     is not a token).  ParseSig is the nom parser of pragma_extern.rs as *)
(*     recursive descent over (tokens, position), including the exact      *)
(*     behaviour of separated_list0 (a separator that is not followed by   *)
(*     an element is not consumed), disallow_leftover and the              *)
(*     NoReturnOrParameters check of from_str.  The resolution of a CALL   *)
(*     is a state machine: CheckCount (resolve_to_signature), one          *)
(*     ResolveArg action per iteration of the argument loop (ResolveOne =  *)
(*     the arms of resolve / resolve_return, in the code's order of        *)
(*     checks), FinishResolve (the fold that collects every error).        *)
(*                                                                         *)
(* (2) ORACLE.  Fits / Resolves state the rules of the property statement  *)
(*     slot by slot, without the loop and without error values.            *)
(*                                                                         *)
(* Abstract syntax (JSON encoding = harness/src/props/c31.rs):             *)
(*   type      [t:"scalar",ty] | [t:"fixed",ty,len] | [t:"var",ty]         *)
(*   parameter [name, mut, ty]      signature [ret: None|Some(ty), params] *)
(*   token     [k:"DataType",v] [k:"Ident",v] [k:"Int",n] and              *)
(*             [k:"LParen"|"RParen"|"Comma"|"Colon"|"Mut"|"LBracket"|      *)
(*                "RBracket"|"Other"]                                      *)
(*   region    [name, ty, len]      (memory_regions, unique names)         *)
(*   argument  [t:"id",s] | [t:"mref",name,index] | [t:"imm",v]            *)
(***************************************************************************)
EXTENDS Abs, TLC

ScalarTypes == {"BIT", "INTEGER", "OCTET", "REAL"}
Scalar(ty)      == [t |-> "scalar", ty |-> ty]
FixedVec(ty, n) == [t |-> "fixed", ty |-> ty, len |-> n]
VarVec(ty)      == [t |-> "var", ty |-> ty]
Param(n, m, ty) == [name |-> n, mut |-> m, ty |-> ty]
Sig(ret, ps)    == [ret |-> ret, params |-> ps]

\* "valid extern signature": it has a return type or a parameter (names are valid user identifiers by
\* construction of the alphabets)
ValidSig(s) == IsSome(s.ret) \/ s.params # <<>>

TDataType(ty) == [k |-> "DataType", v |-> ty]
TIdent(s)     == [k |-> "Ident", v |-> s]
TInt(n)       == [k |-> "Int", n |-> n]
TP(k)         == [k |-> k]

Ok(x)   == [ok |-> x]
Fail(x) == [err |-> x]
IsOk(r) == "ok" \in DOMAIN r
IsFail(r) == "err" \in DOMAIN r

----------------------------------------------------------------------------
\* Printer (impl Quil for ExternParameterType, ExternParameter, ExternSignature)

PrintType(ty) ==
  CASE ty.t = "scalar" -> <<TDataType(ty.ty)>>
    [] ty.t = "fixed"  -> <<TDataType(ty.ty), TP("LBracket"), TInt(ty.len), TP("RBracket")>>
    [] ty.t = "var"    -> <<TDataType(ty.ty), TP("LBracket"), TP("RBracket")>>
PrintParam(p) == <<TIdent(p.name), TP("Colon")>> \o (IF p.mut THEN <<TP("Mut")>> ELSE <<>>) \o PrintType(p.ty)
RECURSIVE PrintParams(_)
PrintParams(ps) == IF Len(ps) = 1 THEN PrintParam(ps[1])
                   ELSE PrintParam(ps[1]) \o <<TP("Comma")>> \o PrintParams(Tail(ps))
PrintSig(s) ==
  (IF IsSome(s.ret) THEN <<TDataType(s.ret.some)>> ELSE <<>>)
  \o (IF s.params = <<>> THEN <<>> ELSE <<TP("LParen")>> \o PrintParams(s.params) \o <<TP("RParen")>>)

----------------------------------------------------------------------------
\* Parser.  A parse result is Ok([v |-> value, p |-> next position]) or Fail("Syntax").

At(toks, p, k) == p <= Len(toks) /\ toks[p].k = k
PR(v, p) == Ok([v |-> v, p |-> p])
NoParse == Fail("Syntax")

\* alt(( parse_vector_with_brackets, parse_variable_length_vector, DataType ))
ParseType(toks, p) ==
  IF ~At(toks, p, "DataType") THEN NoParse
  ELSE LET ty == toks[p].v IN
       IF At(toks, p + 1, "LBracket") /\ At(toks, p + 2, "Int") /\ At(toks, p + 3, "RBracket")
       THEN PR(FixedVec(ty, toks[p + 2].n), p + 4)
       ELSE IF At(toks, p + 1, "LBracket") /\ At(toks, p + 2, "RBracket")
       THEN PR(VarVec(ty), p + 3)
       ELSE PR(Scalar(ty), p + 1)

\* parse_extern_parameter: Identifier Colon opt(Mutable) type
ParseParam(toks, p) ==
  IF ~(At(toks, p, "Ident") /\ At(toks, p + 1, "Colon")) THEN NoParse
  ELSE LET m == At(toks, p + 2, "Mut")
           ty == ParseType(toks, IF m THEN p + 3 ELSE p + 2) IN
       IF IsFail(ty) THEN NoParse
       ELSE PR(Param(toks[p].v, m, ty.ok.v), ty.ok.p)

\* separated_list0(Comma, parse_extern_parameter): never fails; a Comma not followed by a parameter is
\* left unconsumed
RECURSIVE ParseMore(_, _, _)
ParseMore(toks, p, acc) ==
  IF ~At(toks, p, "Comma") THEN PR(acc, p)
  ELSE LET e == ParseParam(toks, p + 1) IN
       IF IsFail(e) THEN PR(acc, p) ELSE ParseMore(toks, e.ok.p, Append(acc, e.ok.v))
ParseList(toks, p) ==
  LET e == ParseParam(toks, p) IN
  IF IsFail(e) THEN PR(<<>>, p) ELSE ParseMore(toks, e.ok.p, <<e.ok.v>>)

\* parse_extern_signature + disallow_leftover + the checks of ExternSignature::from_str
ParseSig(toks) ==
  LET hasRet == At(toks, 1, "DataType")
      ret == IF hasRet THEN Some(toks[1].v) ELSE None
      p1 == IF hasRet THEN 2 ELSE 1 IN
  IF At(toks, p1, "LParen")
  THEN LET ps == ParseList(toks, p1 + 1) IN
       IF ~At(toks, ps.ok.p, "RParen") THEN Fail("Syntax")
       ELSE IF ps.ok.p # Len(toks) THEN Fail("Syntax")                   \* leftover
       ELSE IF ~hasRet /\ ps.ok.v = <<>> THEN Fail("NoReturnOrParameters")
       ELSE Ok(Sig(ret, ps.ok.v))
  ELSE IF p1 # Len(toks) + 1 THEN Fail("Syntax")                         \* leftover
       ELSE IF ~hasRet THEN Fail("NoReturnOrParameters")
       ELSE Ok(Sig(ret, <<>>))

\* C31, first sentence
RoundTripOf(s) == ParseSig(PrintSig(s)) = Ok(s)

----------------------------------------------------------------------------
\* (2) ORACLE for CALL resolution

Declared(decls, n) == \E k \in DOMAIN decls : decls[k].name = n
Region(decls, n) == decls[CHOOSE k \in DOMAIN decls : decls[k].name = n]

\* the slots of a signature in argument order: the return slot first, if any
Slots(s) == (IF IsSome(s.ret) THEN <<[slot |-> "ret", ty |-> s.ret.some]>> ELSE <<>>)
            \o [n \in DOMAIN s.params |-> [slot |-> "param", p |-> s.params[n]]]

\* the region an identifier or reference argument names
ArgRegion(a) == IF a.t = "id" THEN a.s ELSE a.name
IsRefLike(a) == a.t \in {"id", "mref"}

\* "The return slot takes a declared memory reference or name of the return type, a scalar slot takes a
\*  declared reference of its type or (if immutable) an immediate, and a vector slot takes the name of a
\*  region whose type and, for fixed length, size match."
Fits(a, sl, decls) ==
  IF sl.slot = "ret"
  THEN IsRefLike(a) /\ Declared(decls, ArgRegion(a)) /\ Region(decls, ArgRegion(a)).ty = sl.ty
  ELSE LET ty == sl.p.ty IN
       CASE ty.t = "scalar" -> \/ (IsRefLike(a) /\ Declared(decls, ArgRegion(a)) /\ Region(decls, ArgRegion(a)).ty = ty.ty)
                               \/ (a.t = "imm" /\ ~sl.p.mut)
         [] ty.t = "fixed"  -> a.t = "id" /\ Declared(decls, a.s)
                               /\ Region(decls, a.s).ty = ty.ty /\ Region(decls, a.s).len = ty.len
         [] ty.t = "var"    -> a.t = "id" /\ Declared(decls, a.s) /\ Region(decls, a.s).ty = ty.ty

\* "A CALL resolves iff its argument count matches and each argument fits its slot."
Resolves(args, s, decls) ==
  /\ Len(args) = Len(Slots(s))
  /\ \A n \in DOMAIN args : Fits(args[n], Slots(s)[n], decls)

----------------------------------------------------------------------------
\* (1) TRANSCRIPTION of the resolution

RVector(n, ty, len, m) == [t |-> "Vector", name |-> n, ty |-> ty, len |-> len, mut |-> m]
RMemRef(n, i, ty, m)   == [t |-> "MemoryReference", name |-> n, index |-> i, ty |-> ty, mut |-> m]
RImm(v, ty)            == [t |-> "Immediate", v |-> v, ty |-> ty]

\* UnresolvedCallArgument::resolve for a MemoryReference(name, index) argument
ResolveRef(n, i, p, decls) ==
  IF p.ty.t # "scalar" THEN Fail("InvalidVectorArgument")
  ELSE IF ~Declared(decls, n) THEN Fail("UndeclaredMemoryReference")
  ELSE IF Region(decls, n).ty # p.ty.ty THEN Fail("MismatchedScalar")
  ELSE Ok(RMemRef(n, i, p.ty.ty, p.mut))

\* UnresolvedCallArgument::resolve
ResolveParam(a, p, decls) ==
  CASE a.t = "id" ->
         IF p.ty.t = "scalar" THEN ResolveRef(a.s, 0, p, decls)
         ELSE IF ~Declared(decls, a.s) THEN Fail("UndeclaredMemoryReference")
         ELSE LET r == Region(decls, a.s) IN
              IF p.ty.t = "fixed"
              THEN IF r.ty # p.ty.ty \/ r.len # p.ty.len THEN Fail("MismatchedVector")
                   ELSE Ok(RVector(a.s, p.ty.ty, p.ty.len, p.mut))
              ELSE IF r.ty # p.ty.ty THEN Fail("MismatchedScalar")
                   ELSE Ok(RVector(a.s, r.ty, r.len, p.mut))
    [] a.t = "mref" -> ResolveRef(a.name, a.index, p, decls)
    [] a.t = "imm" ->
         IF p.mut THEN Fail("ImmediateArgumentForMutable")
         ELSE IF p.ty.t # "scalar" THEN Fail("InvalidVectorArgument")
         ELSE Ok(RImm(a.v, p.ty.ty))

\* UnresolvedCallArgument::resolve_return
ResolveReturn(a, ty, decls) ==
  IF a.t = "imm" THEN Fail("ReturnArgument")
  ELSE LET n == ArgRegion(a) ix == IF a.t = "mref" THEN a.index ELSE 0 IN
       IF ~Declared(decls, n) THEN Fail("UndeclaredMemoryReference")
       ELSE IF Region(decls, n).ty # ty THEN Fail("MismatchedScalar")
       ELSE Ok(RMemRef(n, ix, ty, TRUE))

\* the body of the closure in convert_unresolved_to_resolved_call_arguments for the argument at
\* 1-based position n: result Ok(resolved) or Fail([slot, index, kind])
ResolveOne(args, s, decls, n) ==
  IF n = 1 /\ IsSome(s.ret)
  THEN LET r == ResolveReturn(args[1], s.ret.some, decls) IN
       IF IsOk(r) THEN r ELSE Fail([slot |-> "return", index |-> 0, kind |-> r.err])
  ELSE LET pi == IF IsSome(s.ret) THEN n - 1 ELSE n            \* 1-based parameter index
           r == ResolveParam(args[n], s.params[pi], decls) IN
       IF IsOk(r) THEN r ELSE Fail([slot |-> "argument", index |-> pi - 1, kind |-> r.err])

\* CallSignatureError
CountErr == [t |-> "ParameterCount"]
ArgErrs(es) == [t |-> "Arguments", errors |-> es]

VARIABLES sig,        \* the ExternSignature (input)
          decls,      \* Program::memory_regions (input)
          args,       \* Call::arguments (input)
          phase,      \* "gen" | "count" | "loop" | "done"
          i,          \* loop position (1-based)
          resolved,   \* the Ok accumulator of the fold
          errors,     \* the Err accumulator of the fold
          outcome     \* None | Ok(resolved) | Fail(CountErr) | Fail(ArgErrs(errors))
vars == <<sig, decls, args, phase, i, resolved, errors, outcome>>

StartCall(s, d, as) ==
  /\ sig' = s /\ decls' = d /\ args' = as /\ phase' = "count"
  /\ i' = 1 /\ resolved' = <<>> /\ errors' = <<>> /\ outcome' = None

\* Call::resolve_to_signature: the count check
CheckCount ==
  /\ phase = "count"
  /\ IF Len(args) # Len(sig.params) + (IF IsSome(sig.ret) THEN 1 ELSE 0)
     THEN outcome' = Fail(CountErr) /\ phase' = "done"
     ELSE outcome' = outcome /\ phase' = "loop"
  /\ UNCHANGED <<sig, decls, args, i, resolved, errors>>

\* one iteration of the map + fold
ResolveArg ==
  /\ phase = "loop" /\ i <= Len(args)
  /\ LET r == ResolveOne(args, sig, decls, i) IN
     IF IsOk(r)
     THEN /\ resolved' = (IF errors = <<>> THEN Append(resolved, r.ok) ELSE resolved)
          /\ errors' = errors
     ELSE /\ errors' = Append(errors, r.err) /\ resolved' = resolved
  /\ i' = i + 1
  /\ UNCHANGED <<sig, decls, args, phase, outcome>>

FinishResolve ==
  /\ phase = "loop" /\ i = Len(args) + 1
  /\ outcome' = IF errors = <<>> THEN Ok(resolved) ELSE Fail(ArgErrs(errors))
  /\ phase' = "done"
  /\ UNCHANGED <<sig, decls, args, i, resolved, errors>>

RunNext == CheckCount \/ ResolveArg \/ FinishResolve

\* the whole loop as one operator (used by the trace specification on recorded calls)
RECURSIVE LoopFrom(_, _, _, _, _, _)
LoopFrom(as, s, d, n, res, errs) ==
  IF n > Len(as) THEN (IF errs = <<>> THEN Ok(res) ELSE Fail(ArgErrs(errs)))
  ELSE LET r == ResolveOne(as, s, d, n) IN
       IF IsOk(r) THEN LoopFrom(as, s, d, n + 1, IF errs = <<>> THEN Append(res, r.ok) ELSE res, errs)
       ELSE LoopFrom(as, s, d, n + 1, res, Append(errs, r.err))
ResolveAll(as, s, d) ==
  IF Len(as) # Len(s.params) + (IF IsSome(s.ret) THEN 1 ELSE 0) THEN Fail(CountErr)
  ELSE LoopFrom(as, s, d, 1, <<>>, <<>>)

----------------------------------------------------------------------------
\* Properties

Done == phase = "done"
\* C31, second sentence: the loop answers Ok exactly when the call resolves by the rules
ResolvesRefines == Done => (IsOk(outcome) <=> Resolves(args, sig, decls))
\* every collected error names an argument that does not fit its slot, and every such argument is named
ErrorsPointAtMisfits ==
  (Done /\ IsFail(outcome) /\ outcome.err.t = "Arguments") =>
     LET bad == {n \in DOMAIN args : ~Fits(args[n], Slots(sig)[n], decls)}
         es == outcome.err.errors
         posOf(e) == IF e.slot = "return" THEN 1 ELSE e.index + 1 + (IF IsSome(sig.ret) THEN 1 ELSE 0) IN
     {posOf(es[k]) : k \in DOMAIN es} = bad /\ Len(es) = Cardinality(bad)
\* a successful resolution annotates every argument, in order, with the slot's type and mutability
ResolvedShape ==
  (Done /\ IsOk(outcome)) =>
     /\ Len(outcome.ok) = Len(args)
     /\ \A n \in DOMAIN args :
          LET sl == Slots(sig)[n] r == outcome.ok[n] IN
          /\ (sl.slot = "ret" => r.t = "MemoryReference" /\ r.mut /\ r.ty = sl.ty)
          /\ (sl.slot = "param" => r.ty = sl.p.ty.ty /\ (r.t # "Immediate" => r.mut = sl.p.mut))
\* loop invariant
LoopInvariant == phase = "loop" =>
  /\ Len(errors) + (IF errors = <<>> THEN Len(resolved) ELSE 0) <= i - 1
  /\ (errors = <<>> => Len(resolved) = i - 1)
  /\ (errors = <<>> <=> \A n \in 1..(i - 1) : Fits(args[n], Slots(sig)[n], decls))
\* the operator form agrees with the machine
LoopOperatorAgrees == Done => outcome = ResolveAll(args, sig, decls)
=============================================================================
