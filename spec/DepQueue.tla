------------------------------ MODULE DepQueue ------------------------------
(***************************************************************************)
(* The dependency queue of quil-rs' scheduler:                             *)
(*   DependencyQueue<A: Access>                                            *)
(*   (quil-rs/src/program/scheduling/graph/dependency_queue.rs)            *)
(*                                                                         *)
(* One cell tracks one resource (a memory region, or a frame): the most    *)
(* recent write access and the reads performed since.  `Record` is         *)
(* record_access_and_get_dependencies, `PendingOf` is                      *)
(* into_pending_dependencies.  Two instances exist in the code:            *)
(*   "mem"   kinds Read | Write | Capture; Write and Capture classify as   *)
(*           writes; no initial writer; dependencies carry the access type *)
(*   "frame" kinds Using | Blocking; Using classifies as a write, Blocking *)
(*           as a read; the initial writer is the block start (node 0);    *)
(*           dependencies are plain nodes (reported here with type "Node") *)
(*                                                                         *)
(* Nodes are integers: START = 0, instruction k (1-based) = k, END = 1000. *)
(* A dependency is a record [n |-> node, t |-> type].                      *)
(*                                                                         *)
(* The first half of the module is the cell algebra (used by BlockGraph    *)
(* and by the one-cell state machine DepQueueRun).  The second half is the *)
(* queue's contract (the three guarantees in the doc comment of            *)
(* DependencyQueue; property C23 clause (b)), stated declaratively over a  *)
(* recorded access sequence, without the cell.                             *)
(***************************************************************************)
EXTENDS Abs, TLC

START == 0
END   == 1000

MemKinds   == {"Read", "Write", "Capture"}
FrameKinds == {"Using", "Blocking"}
IsWriteKind(k) == k \in {"Write", "Capture", "Using"}
KindsOf(inst) == IF inst = "mem" THEN MemKinds ELSE FrameKinds

NoWrite == [t |-> "none", n |-> 0]
\* `on` = the cell exists in the code's HashMap (entry(..).or_default() has been called)
NewCell(inst) == [on |-> FALSE,
                  write |-> IF inst = "frame" THEN [t |-> "Using", n |-> START] ELSE NoWrite,
                  reads |-> {}]

\* type under which a dependency on a write / on a read is reported
WriteDepType(w) == IF w.t = "Using" THEN "Node" ELSE w.t
ReadDepType(inst) == IF inst = "frame" THEN "Node" ELSE "Read"

\* record_access_and_get_dependencies: the returned set ...
Deps(inst, c, kind) ==
    (IF c.write = NoWrite THEN {} ELSE {[n |-> c.write.n, t |-> WriteDepType(c.write)]})
    \cup (IF IsWriteKind(kind) THEN {[n |-> rd, t |-> ReadDepType(inst)] : rd \in c.reads} ELSE {})
\* ... and the cell afterwards
After(c, node, kind) ==
    IF IsWriteKind(kind) THEN [on |-> TRUE, write |-> [t |-> kind, n |-> node], reads |-> {}]
    ELSE [on |-> TRUE, write |-> c.write, reads |-> c.reads \cup {node}]

\* into_pending_dependencies (only for cells that exist in the map)
PendingOf(inst, c) ==
    IF ~c.on THEN {}
    ELSE {[n |-> rd, t |-> ReadDepType(inst)] : rd \in c.reads}
         \cup (IF c.write = NoWrite THEN {} ELSE {[n |-> c.write.n, t |-> WriteDepType(c.write)]})

\* several accesses of one node to one cell, in order (e.g. ADD a 1: Read then Write of region a)
RECURSIVE RunCell(_, _, _, _, _)
RunCell(inst, c, node, kinds, acc) ==
    IF kinds = <<>> THEN [cell |-> c, deps |-> acc]
    ELSE RunCell(inst, After(c, node, Head(kinds)), node, Tail(kinds), acc \cup Deps(inst, c, Head(kinds)))

----------------------------------------------------------------------------
\* The contract, stated on an access sequence h (a sequence of [n, k, deps]) without the cell.

IsW(h, p) == IsWriteKind(h[p].k)
\* position of the last write strictly before position p (0 = none)
LastWriteBefore(h, p) == LET S == {q \in 1..(p - 1) : IsW(h, q)} IN IF S = {} THEN 0 ELSE Max(S)
InitialWriter(i) == IF i = "frame" THEN {[n |-> START, t |-> "Node"]} ELSE {}
WriterDep(i, h, q) == IF q = 0 THEN InitialWriter(i)
                      ELSE {[n |-> h[q].n, t |-> IF i = "frame" THEN "Node" ELSE h[q].k]}
\* what must be reported at position p: the last writer, and for a write every read since that writer
ExpectedDeps(i, h, p) ==
    LET g == LastWriteBefore(h, p) IN
    WriterDep(i, h, g)
    \cup (IF IsW(h, p) THEN {[n |-> h[q].n, t |-> ReadDepType(i)] : q \in {q \in (g + 1)..(p - 1) : ~IsW(h, q)}}
          ELSE {})
QDepsExactOf(i, h) == \A p \in DOMAIN h : h[p].deps = ExpectedDeps(i, h, p)

ExpectedPending(i, h) ==
    LET g == LastWriteBefore(h, Len(h) + 1) IN
    WriterDep(i, h, g) \cup {[n |-> h[q].n, t |-> ReadDepType(i)] : q \in {q \in (g + 1)..Len(h) : ~IsW(h, q)}}

\* dependency edges between distinct nodes induced by a history (a node never depends on itself:
\* ScheduledBasicBlock::build drops those)
EdgesOfHist(h) == {e \in UNION {{<<d.n, h[p].n>> : d \in h[p].deps} : p \in DOMAIN h} : e[1] # e[2]}
SuccOf(S, Es) == {e[2] : e \in {e \in Es : e[1] \in S}}
RECURSIVE ReachFrom(_, _, _)
ReachFrom(S, Es, k) == IF k = 0 THEN S ELSE LET T == S \cup SuccOf(S, Es) IN
                       IF T = S THEN S ELSE ReachFrom(T, Es, k - 1)
Reaches(a, b, Es, bound) == b \in ReachFrom({a}, Es, bound)

\* guarantee 1 + 2: accesses of two different nodes, at least one of them a write, are ordered
QConflictsOrderedOf(h) ==
    LET Es == TLCEval(EdgesOfHist(h)) IN
    \A p \in DOMAIN h :
        LET later == {h[q].n : q \in {q \in (p + 1)..Len(h) : h[q].n # h[p].n /\ (IsW(h, p) \/ IsW(h, q))}} IN
        later # {} => later \subseteq ReachFrom({h[p].n}, Es, Len(h) + 1)
\* guarantee 3 (C23 clause (b)): two nodes that only read the resource, with no write between their reads,
\* are not related by the transitive closure of the cell's dependencies
OnlyReads(h, node) == \A p \in DOMAIN h : h[p].n = node => ~IsW(h, p)
QReadsUnorderedOf(h) ==
    LET Es == TLCEval(EdgesOfHist(h)) IN
    \A p \in {p \in DOMAIN h : OnlyReads(h, h[p].n)} :
        LET lo(q) == IF p < q THEN p ELSE q
            hi(q) == IF p < q THEN q ELSE p
            peers == {h[q].n : q \in {q \in DOMAIN h : /\ h[q].n # h[p].n /\ OnlyReads(h, h[q].n)
                                                       /\ \A m \in lo(q)..hi(q) : ~IsW(h, m)}}
        IN peers # {} => peers \cap ReachFrom({h[p].n}, Es, Len(h) + 1) = {}
\* a dependency always points to an earlier access (or the initial writer)
QDepsEarlierOf(i, h) == \A p \in DOMAIN h : \A d \in h[p].deps :
                          (d \in InitialWriter(i)) \/ (\E q \in 1..(p - 1) : h[q].n = d.n)
\* every reported dependency is justified: it is the initial writer, or an earlier access of that node which
\* conflicts with this one (at least one of the two is a write), reported under that access' own type.
\* Together with "dependencies point backwards" this is what "every edge links a conflicting pair" means on
\* one cell, and it implies that reads with no write between them are never ordered.
QDepsJustifiedOf(i, h) ==
    \A p \in DOMAIN h : \A d \in h[p].deps :
        \/ d \in InitialWriter(i)
        \/ \E q \in 1..(p - 1) : /\ h[q].n = d.n /\ (IsW(h, q) \/ IsW(h, p))
                                 /\ d.t = (IF i = "frame" THEN "Node" ELSE h[q].k)
=============================================================================
