---------------------------- MODULE QuilGrammar ----------------------------
(***************************************************************************)
(* A total, token-level model of the quil-rs parser (property C01):        *)
(*   parser/instruction.rs  parse_instruction (one arm per Command, the    *)
(*                          NONBLOCKING arm, gate application), parse_     *)
(*                          instructions, parse_block                      *)
(*   parser/command.rs      every parse_<command>                          *)
(*   parser/common.rs       operands, memory references, qubits, frames,   *)
(*                          waveforms, DECLARE vectors/sharing, DEFGATE    *)
(*                          bodies, skip_newlines_and_comments             *)
(*   parser/expression.rs   the Pratt expression parser                    *)
(*   parser/gate.rs         parse_gate                                     *)
(* and of the five entry points (Program / Instruction / Expression /      *)
(* MemoryReference / FrameIdentifier ::from_str after lexing).             *)
(*                                                                         *)
(* Every production is an operator (ts, p) -> result, shaped like the nom  *)
(* parser it transcribes.  A result is one of                              *)
(*    [r |-> "ok", p |-> next position]                                    *)
(*    [r |-> "soft"]   nom::Err::Error   (alt / opt / many0 backtrack)     *)
(*    [r |-> "hard"]   nom::Err::Failure (propagates through combinators)  *)
(*    [r |-> "panic"]  the code would panic / hit todo!() / overflow       *)
(* The model carries positions only (no syntax tree): C01 is about the     *)
(* outcome class.  "panic" is reachable only under a deviation:            *)
(*    "SignedLiteralPanics"  common.rs before bf492ba: panic!("Implement   *)
(*                           this error") for a non-minus sign, multiply   *)
(*                           overflow for -2^63                            *)
(*    "NonblockingTodo"      instruction.rs before fc34557: todo!() after  *)
(*                           NONBLOCKING                                   *)
(* Not transcribed (the model has no accept/reject opinion, `Sure`):       *)
(* DEFGATE ... AS PAULI-SUM / AS SEQUENCE (semantic validation of the      *)
(* body in PauliSum::new / DefGateSequence::try_new).                      *)
(***************************************************************************)
EXTENDS QuilTokens
CONSTANT Deviations

Ok(p) == [r |-> "ok", p |-> p]
Soft  == [r |-> "soft"]
Hard  == [r |-> "hard"]
Pn    == [r |-> "panic"]
IsOk(x) == x.r = "ok"

\* Sequencing.  There are no higher-order combinators and no LET-bound intermediate results here on purpose: TLC's
\* coverage cost model unfolds a LET-bound name at every use and does not terminate on a LAMBDA that calls a recursive
\* operator, so "parse A, then B at the position A ended" is written ThenB(ts, A) with A an operator *argument*.
Tok(ts, p, c) == IF C(ts, p) = c THEN Ok(p + 1) ELSE Soft           \* token!(X)
ThenTok(ts, a, c) == IF IsOk(a) THEN Tok(ts, a.p, c) ELSE a
ThenOk(a, p) == IF IsOk(a) THEN Ok(p) ELSE a

\* ---------------------------------------------------------------- many0 of single tokens
RECURSIVE WhileIn(_, _, _)
WhileIn(ts, p, S) == IF C(ts, p) \in S THEN WhileIn(ts, p + 1, S) ELSE p
QubitsEnd(ts, p)    == WhileIn(ts, p, {"int", "var", "id"})          \* many0(parse_qubit)
VarQubitsEnd(ts, p) == WhileIn(ts, p, {"var", "id"})                 \* many0(parse_variable_qubit)
ModsEnd(ts, p)      == WhileIn(ts, p, {"mod"})
StrsEnd(ts, p)      == WhileIn(ts, p, {"str"})
IdsEnd(ts, p)       == WhileIn(ts, p, {"id"})
IndentsEnd(ts, p)   == WhileIn(ts, p, {"indent"})
PragmaArgsEnd(ts, p) == WhileIn(ts, p, {"id", "int"})

\* ---------------------------------------------------------------- common.rs
Brackets(ts, p) == C(ts, p) = "lb" /\ C(ts, p + 1) = "int" /\ C(ts, p + 2) = "rb"
MemRef(ts, p)  == IF C(ts, p) # "id" THEN Soft ELSE IF Brackets(ts, p + 1) THEN Ok(p + 4) ELSE Ok(p + 1)
MemRefB(ts, p) == IF C(ts, p) = "id" /\ Brackets(ts, p + 1) THEN Ok(p + 4) ELSE Soft
Qubit(ts, p)   == IF C(ts, p) \in {"int", "var", "id"} THEN Ok(p + 1) ELSE Soft
ThenMemRef(ts, a) == IF IsOk(a) THEN MemRef(ts, a.p) ELSE a

\* parse_signed_integer: the magnitude must fit an i64 (2^63 only with a minus)
FitsI64(neg, k) == k = "s" \/ (neg /\ k = "m")
\* alt((signed real, signed integer, memory reference)) -- withFloat = FALSE for binary logic operands
Operand(ts, p, withFloat) ==
  IF "SignedLiteralPanics" \in Deviations
  THEN LET hasOp == C(ts, p) = "op"
           q == IF hasOp THEN p + 1 ELSE p IN
       IF (C(ts, q) = "float" /\ withFloat) \/ C(ts, q) = "int"
       THEN IF hasOp /\ At(ts, p) # Minus THEN Pn                               \* panic!("Implement this error")
            ELSE IF C(ts, q) = "int" /\ hasOp /\ At(ts, q).k = "m" THEN Pn      \* -1 * (2^63 as i64)
            ELSE Ok(q + 1)                                                      \* (values >= 2^63 wrap silently)
       ELSE MemRef(ts, p)
  ELSE LET neg == At(ts, p) = Minus
           q == IF neg THEN p + 1 ELSE p IN
       IF C(ts, q) = "float" /\ withFloat THEN Ok(q + 1)
       ELSE IF C(ts, q) = "int" THEN (IF FitsI64(neg, At(ts, q).k) THEN Ok(q + 1) ELSE Hard)
       ELSE MemRef(ts, p)

ThenOperand(ts, a, withFloat) == IF IsOk(a) THEN Operand(ts, a.p, withFloat) ELSE a

\* ---------------------------------------------------------------- expression.rs (Pratt)
Prec(t) == IF t.c = "op" THEN (IF t.v \in {"+", "-"} THEN 1 ELSE IF t.v \in {"*", "/"} THEN 2 ELSE 3)
           ELSE IF t.c = "lp" THEN 4 ELSE 0
RECURSIVE Expr(_, _, _), ELoop(_, _, _), Atom(_, _), ThenELoop(_, _, _)
Grouped(ts, p) == ThenTok(ts, Expr(ts, p, 0), "rp")          \* after the opening parenthesis
Atom(ts, p) ==
  CASE C(ts, p) \in {"int", "float"} -> (IF C(ts, p + 1) = "id" /\ At(ts, p + 1).k = "i" THEN Ok(p + 2) ELSE Ok(p + 1))
    [] C(ts, p) = "var" -> Ok(p + 1)
    [] C(ts, p) = "id" -> (IF Brackets(ts, p + 1) THEN Ok(p + 4)
                           ELSE IF At(ts, p).k = "fn" THEN (IF C(ts, p + 1) = "lp" THEN Grouped(ts, p + 2) ELSE Soft)
                           ELSE Ok(p + 1))
    [] C(ts, p) = "lp" -> Grouped(ts, p + 1)
    [] OTHER -> Soft
ThenELoop(ts, a, prec) == IF IsOk(a) THEN ELoop(ts, a.p, prec) ELSE a
Expr(ts, p, prec) == ThenELoop(ts, Atom(ts, IF At(ts, p) = Minus THEN p + 1 ELSE p), prec)
ELoop(ts, p, prec) ==
  IF Prec(At(ts, p)) > prec /\ C(ts, p) = "op"
  THEN ThenELoop(ts, Expr(ts, p + 1, Prec(At(ts, p))), prec)        \* parse_infix, then keep looping
  ELSE Ok(p)
ThenExpr(ts, a) == IF IsOk(a) THEN Expr(ts, a.p, 0) ELSE a
\* separated_list0(Comma, parse_expression): a position (never an error)
RECURSIVE ExprListMore(_, _), ListMoreOr(_, _, _)
ListMoreOr(ts, e, p) == IF IsOk(e) THEN ExprListMore(ts, e.p) ELSE p
ExprListMore(ts, p) == IF C(ts, p) # "comma" THEN p ELSE ListMoreOr(ts, Expr(ts, p + 1, 0), p)
ExprList(ts, p) == ListMoreOr(ts, Expr(ts, p, 0), p)
\* opt(delimited(LParenthesis, separated_list0(Comma, parse_expression), RParenthesis)): a position
CloseOr(ts, e, p) == IF C(ts, e) = "rp" THEN e + 1 ELSE p
OptParams(ts, p) == IF C(ts, p) # "lp" THEN p ELSE CloseOr(ts, ExprList(ts, p + 1), p)
\* the same with Variable tokens (DEFGATE / DEFCIRCUIT / DEFWAVEFORM parameters)
RECURSIVE VarListMore(_, _)
VarListMore(ts, p) == IF C(ts, p) = "comma" /\ C(ts, p + 1) = "var" THEN VarListMore(ts, p + 2) ELSE p
OptVarParams(ts, p) == IF C(ts, p) # "lp" THEN p
                       ELSE CloseOr(ts, IF C(ts, p + 1) = "var" THEN VarListMore(ts, p + 2) ELSE p + 1, p)

\* ---------------------------------------------------------------- frames and waveforms
StrAfterQubits(ts, p, q) == IF q = p THEN Soft ELSE Tok(ts, q, "str")
FrameId(ts, p) == StrAfterQubits(ts, p, QubitsEnd(ts, p))                       \* many1(qubit) String
ThenFrameId(ts, a) == IF IsOk(a) THEN FrameId(ts, a.p) ELSE a
WaveformName(ts, p) == IF C(ts, p) # "id" THEN Soft
                       ELSE IF At(ts, p + 1) = Slash /\ C(ts, p + 2) = "id" THEN Ok(p + 3) ELSE Ok(p + 1)
NamedArg(ts, p) == IF C(ts, p) = "id" /\ C(ts, p + 1) = "colon" THEN Expr(ts, p + 2, 0) ELSE Soft
RECURSIVE NamedArgsMore(_, _), NamedMoreOr(_, _, _)
NamedMoreOr(ts, a, p) == IF IsOk(a) THEN NamedArgsMore(ts, a.p) ELSE p
NamedArgsMore(ts, p) == IF C(ts, p) # "comma" THEN p ELSE NamedMoreOr(ts, NamedArg(ts, p + 1), p)
\* name [ "(" separated_list0(Comma, name ":" expression) ")" ]; opt(...) backtracks to the bare name
WfClose(ts, n, e) == IF C(ts, e) = "rp" THEN Ok(e + 1) ELSE n
WfArgs(ts, n) == IF ~IsOk(n) THEN n ELSE IF C(ts, n.p) # "lp" THEN n
                 ELSE WfClose(ts, n, NamedMoreOr(ts, NamedArg(ts, n.p + 1), n.p + 1))
WaveformInv(ts, p) == WfArgs(ts, WaveformName(ts, p))
ThenWaveformInv(ts, a) == IF IsOk(a) THEN WaveformInv(ts, a.p) ELSE a

\* ---------------------------------------------------------------- DECLARE
Vector(ts, p) == IF C(ts, p) # "dtype" THEN Soft ELSE IF Brackets(ts, p + 1) THEN Ok(p + 4) ELSE Ok(p + 1)
RECURSIVE OffsetsEnd(_, _)
OffsetsEnd(ts, p) == IF C(ts, p) = "int" /\ C(ts, p + 1) = "dtype" THEN OffsetsEnd(ts, p + 2) ELSE p
Sharing(ts, p) ==      \* opt(SHARING id opt(OFFSET many1(int dtype))): a position
  IF At(ts, p) = Kw("SHARING") /\ C(ts, p + 1) = "id"
  THEN IF At(ts, p + 2) = Kw("OFFSET") /\ OffsetsEnd(ts, p + 3) > p + 3 THEN OffsetsEnd(ts, p + 3) ELSE p + 2
  ELSE p

ThenSharing(ts, v) == IF IsOk(v) THEN Ok(Sharing(ts, v.p)) ELSE v
ThenVectorSharing(ts, a) == IF IsOk(a) THEN ThenSharing(ts, Vector(ts, a.p)) ELSE a

\* ---------------------------------------------------------------- CALL
RECURSIVE CallArgsEnd(_, _)
CallArgsEnd(ts, p) ==  \* many0(alt(memory reference with brackets, identifier, immediate value))
  IF C(ts, p) = "id" THEN CallArgsEnd(ts, IF Brackets(ts, p + 1) THEN p + 4 ELSE p + 1)
  ELSE IF C(ts, p) \in {"int", "float"}
       THEN CallArgsEnd(ts, IF C(ts, p + 1) = "id" /\ At(ts, p + 1).k = "i" THEN p + 2 ELSE p + 1)
  ELSE p

\* ---------------------------------------------------------------- skip_newlines_and_comments
RECURSIVE Skip(_, _)
Skip(ts, p) == IF C(ts, p) \in {"nl", "semi"} THEN Skip(ts, p + 1)
               ELSE IF C(ts, IndentsEnd(ts, p)) = "comment" THEN Skip(ts, IndentsEnd(ts, p) + 1)
               ELSE p

\* ---------------------------------------------------------------- DEFGATE / DEFWAVEFORM / DEFFRAME bodies
RECURSIVE RowMore(_, _), MatrixMore(_, _), IntListMore(_, _), AttrsMore(_, _), RowMoreOr(_, _, _), MatrixMoreOr(_, _, _), AttrsMoreOr(_, _, _)
\* separated_list0(pair(Comma, many0(Indentation)), parse_expression)
RowMoreOr(ts, e, p) == IF IsOk(e) THEN RowMore(ts, e.p) ELSE p
RowMore(ts, p) == IF C(ts, p) # "comma" THEN p ELSE RowMoreOr(ts, Expr(ts, IndentsEnd(ts, p + 1), 0), p)
Row(ts, p) == IF C(ts, p) # "indent" THEN Soft            \* preceded(Indentation, separated_list0(...))
              ELSE Ok(RowMoreOr(ts, Expr(ts, p + 1, 0), p + 1))
MatrixMoreOr(ts, r, p) == IF IsOk(r) THEN MatrixMore(ts, r.p) ELSE p
MatrixMore(ts, p) == IF C(ts, p) # "nl" THEN p ELSE MatrixMoreOr(ts, Row(ts, p + 1), p)
RowsFrom(ts, r) == IF IsOk(r) THEN Ok(MatrixMore(ts, r.p)) ELSE Soft
Matrix(ts, p) == IF C(ts, p) # "nl" THEN Soft ELSE RowsFrom(ts, Row(ts, p + 1))
IntListMore(ts, p) == IF C(ts, p) = "comma" /\ C(ts, p + 1) = "int" THEN IntListMore(ts, p + 2) ELSE p
Permutation(ts, p) == IF C(ts, p) = "nl" /\ C(ts, p + 1) = "indent" /\ C(ts, p + 2) = "int"
                      THEN Ok(IntListMore(ts, p + 3)) ELSE Soft
FrameAttr(ts, p) ==   \* NewLine Indentation Identifier Colon (String | expression)
  IF C(ts, p) = "nl" /\ C(ts, p + 1) = "indent" /\ C(ts, p + 2) = "id" /\ C(ts, p + 3) = "colon"
  THEN (IF C(ts, p + 4) = "str" THEN Ok(p + 5) ELSE Expr(ts, p + 4, 0))
  ELSE Soft
AttrsMoreOr(ts, a, p) == IF IsOk(a) THEN AttrsMore(ts, a.p) ELSE p
AttrsMore(ts, p) == AttrsMoreOr(ts, FrameAttr(ts, p), p)
Attrs1(ts, a) == IF IsOk(a) THEN Ok(AttrsMore(ts, a.p)) ELSE a                \* many1
ThenAttrs1(ts, c) == IF IsOk(c) THEN Attrs1(ts, FrameAttr(ts, c.p)) ELSE c

\* ---------------------------------------------------------------- gate.rs
GateAt(ts, m) == IF C(ts, m) # "id" THEN Soft ELSE Ok(QubitsEnd(ts, OptParams(ts, m + 1)))
Gate(ts, p) == GateAt(ts, ModsEnd(ts, p))

\* ---------------------------------------------------------------- instruction.rs / command.rs
\* Instructions nest (DEFCAL / DEFCIRCUIT bodies are blocks of instructions).  The recursion is tied through a
\* recursively defined *function* F from positions to results (see InstrFn below) that is handed down to the
\* productions, not through mutually recursive operators: TLC's coverage cost model does not terminate on the
\* operator cycle Instr -> Command -> DefCal -> Block -> Instr.
FAt(F, p) == IF p \in DOMAIN F THEN F[p] ELSE Soft
BlockInstr(ts, p, F) == IF C(ts, p) = "nl" /\ C(ts, p + 1) = "indent" THEN FAt(F, p + 2) ELSE Soft
RECURSIVE BlockMore(_, _, _)
RECURSIVE BlockMoreOr(_, _, _, _)
BlockMoreOr(ts, x, p, F) == IF IsOk(x) THEN BlockMore(ts, x.p, F) ELSE IF x.r = "soft" THEN Ok(p) ELSE x
BlockMore(ts, p, F) == BlockMoreOr(ts, BlockInstr(ts, p, F), p, F)
Block1(ts, x, F) == IF IsOk(x) THEN BlockMore(ts, x.p, F) ELSE x
Block(ts, p, F) == Block1(ts, BlockInstr(ts, p, F), F)                            \* many1
ColonBlock(ts, c, F) == IF C(ts, c) = "colon" THEN Block(ts, c + 1, F) ELSE Soft

OptBangName(ts, p) == IF C(ts, p) = "bang" /\ C(ts, p + 1) = "id" THEN p + 2 ELSE p

Pulse(ts, p)      == ThenWaveformInv(ts, FrameId(ts, p))
Capture(ts, p)    == ThenMemRef(ts, Pulse(ts, p))
FrameExpr(ts, p)  == ThenExpr(ts, FrameId(ts, p))
RawCapture(ts, p) == ThenMemRef(ts, FrameExpr(ts, p))

OptId(ts, q) == IF C(ts, q) = "id" THEN q + 1 ELSE q
DefCalMeasure(ts, q, F) == IF ~IsOk(q) THEN q ELSE ColonBlock(ts, OptId(ts, q.p), F)
DefCalGate(ts, m, F) == IF C(ts, m) # "id" THEN Soft ELSE ColonBlock(ts, QubitsEnd(ts, OptParams(ts, m + 1)), F)
DefCal(ts, p, F) ==
  IF At(ts, p) = Cmd("MEASURE") THEN DefCalMeasure(ts, Qubit(ts, OptBangName(ts, p + 1)), F)
  ELSE DefCalGate(ts, ModsEnd(ts, p), F)

GateTyped(ts, a) == At(ts, a) = Kw("AS") /\ At(ts, a + 1) \in {Kw("MATRIX"), Kw("PERMUTATION"), Kw("PAULI-SUM"), Kw("SEQUENCE")}
DefGateBody(ts, kind, c) ==
  IF C(ts, c) # "colon" THEN Soft
  ELSE CASE kind = "MATRIX" -> Matrix(ts, c + 1)
         [] kind = "PERMUTATION" -> Permutation(ts, c + 1)
         [] OTHER -> Hard                       \* PAULI-SUM / SEQUENCE bodies: not transcribed (see Sure)
DefGateAt(ts, a) == IF GateTyped(ts, a) THEN DefGateBody(ts, At(ts, a + 1).v, a + 2) ELSE DefGateBody(ts, "MATRIX", a)
DefGate(ts, p) == IF C(ts, p) # "id" THEN Soft ELSE DefGateAt(ts, IdsEnd(ts, OptVarParams(ts, p + 1)))

\* the last "qubit" is re-read as the duration when no frame name was given
DelayRetry(ts, p, q, s, e) == IF IsOk(e) THEN e ELSE IF s = q /\ q > p THEN Expr(ts, q - 1, 0) ELSE e
DelayAt(ts, p, q, s) == DelayRetry(ts, p, q, s, Expr(ts, s, 0))
DelayQ(ts, p, q) == DelayAt(ts, p, q, StrsEnd(ts, q))
Delay(ts, p) == DelayQ(ts, p, QubitsEnd(ts, p))

MeasureTarget(ts, q) == IF ~IsOk(q) THEN q ELSE IF C(ts, q.p) = "id" THEN MemRef(ts, q.p) ELSE q
PragmaEnd(ts, e) == IF C(ts, e) = "str" THEN Ok(e + 1) ELSE Ok(e)
ExprList1(ts, e) == IF IsOk(e) THEN Ok(ExprListMore(ts, e.p)) ELSE e          \* separated_list1
WaveformBody(ts, v) == IF C(ts, v) = "colon" /\ C(ts, v + 1) = "nl" /\ C(ts, v + 2) = "indent"
                       THEN ExprList1(ts, Expr(ts, v + 3, 0)) ELSE Soft
DefWaveform(ts, n) == IF ~IsOk(n) THEN n ELSE WaveformBody(ts, OptVarParams(ts, n.p))

Command(ts, c, p, F) ==
  CASE c \in {"ADD", "SUB", "MUL", "DIV", "MOVE"} -> ThenOperand(ts, MemRef(ts, p), TRUE)
    [] c \in {"EQ", "GE", "GT", "LE", "LT"} -> ThenOperand(ts, ThenMemRef(ts, MemRef(ts, p)), TRUE)
    [] c \in {"AND", "IOR", "XOR", "ASHR", "SHL", "SHR"} -> ThenOperand(ts, MemRef(ts, p), FALSE)
    [] c \in {"NEG", "NOT"} -> MemRef(ts, p)
    [] c = "STORE" -> ThenOperand(ts, ThenMemRef(ts, Tok(ts, p, "id")), TRUE)
    [] c = "LOAD" -> ThenMemRef(ts, ThenTok(ts, MemRef(ts, p), "id"))
    [] c \in {"CONVERT", "EXCHANGE"} -> ThenMemRef(ts, MemRef(ts, p))
    [] c = "DECLARE" -> ThenVectorSharing(ts, Tok(ts, p, "id"))
    [] c = "CALL" -> ThenOk(Tok(ts, p, "id"), CallArgsEnd(ts, p + 1))
    [] c = "PULSE" -> Pulse(ts, p)
    [] c = "CAPTURE" -> Capture(ts, p)
    [] c = "RAW-CAPTURE" -> RawCapture(ts, p)
    [] c \in {"SET-FREQUENCY", "SET-PHASE", "SET-SCALE", "SHIFT-FREQUENCY", "SHIFT-PHASE"} -> FrameExpr(ts, p)
    [] c = "SWAP-PHASES" -> ThenFrameId(ts, FrameId(ts, p))
    [] c = "DELAY" -> Delay(ts, p)
    [] c = "FENCE" -> Ok(QubitsEnd(ts, p))
    [] c \in {"HALT", "NOP", "WAIT"} -> Ok(p)
    [] c = "INCLUDE" -> Tok(ts, p, "str")
    [] c \in {"JUMP", "LABEL"} -> Tok(ts, p, "target")
    [] c \in {"JUMP-WHEN", "JUMP-UNLESS"} -> ThenMemRef(ts, Tok(ts, p, "target"))
    [] c = "MEASURE" -> MeasureTarget(ts, Qubit(ts, OptBangName(ts, p)))      \* the target is optional: any error -> None
    [] c = "RESET" -> (IF C(ts, p) \in {"int", "var", "id"} THEN Ok(p + 1) ELSE Ok(p))
    [] c = "PRAGMA" -> IF C(ts, p) # "id" THEN Soft ELSE PragmaEnd(ts, PragmaArgsEnd(ts, p + 1))
    [] c = "DEFCAL" -> DefCal(ts, p, F)
    [] c = "DEFCIRCUIT" -> IF C(ts, p) # "id" THEN Soft ELSE ColonBlock(ts, VarQubitsEnd(ts, OptVarParams(ts, p + 1)), F)
    [] c = "DEFFRAME" -> ThenAttrs1(ts, ThenTok(ts, FrameId(ts, p), "colon"))
    [] c = "DEFGATE" -> DefGate(ts, p)
    [] c = "DEFWAVEFORM" -> DefWaveform(ts, WaveformName(ts, p))

CmdResult(x) == IF IsOk(x) \/ x.r = "panic" THEN x ELSE Hard                    \* map_err(InvalidCommand): Failure
NonBlockingArm(ts, p) ==
  CASE At(ts, p) = Cmd("PULSE") -> Pulse(ts, p + 1)
    [] At(ts, p) = Cmd("CAPTURE") -> Capture(ts, p + 1)
    [] At(ts, p) = Cmd("RAW-CAPTURE") -> RawCapture(ts, p + 1)
    [] OTHER -> IF "NonblockingTodo" \in Deviations THEN Pn ELSE Hard
InstrAt(ts, p, F) ==
  CASE C(ts, p) = "eof" -> Soft                                                 \* EndOfInput
    [] C(ts, p) = "cmd" -> CmdResult(Command(ts, At(ts, p).v, p + 1, F))
    [] C(ts, p) = "nonblocking" -> NonBlockingArm(ts, p + 1)
    [] C(ts, p) \in {"id", "mod"} -> Gate(ts, p)
    [] OTHER -> Hard                                                            \* NotACommandOrGate
InstrWith(ts, p0, F) == InstrAt(ts, Skip(ts, p0), F)

\* parse_instruction at every position of ts, as a recursively defined function (nested blocks look their
\* instructions up in it)
InstrFn(ts) == LET f[p \in 0..(Len(ts) + 2)] == InstrWith(ts, p, f) IN f
Instr(ts, p) == InstrFn(ts)[p]

\* parse_instructions = all_consuming(delimited(skip, many0(parse_instruction), skip))
RECURSIVE Many(_, _, _), ManyK(_, _, _, _)
ManyK(ts, p, n, x) ==
  CASE x.r = "ok"    -> Many(ts, x.p, n + 1)
    [] x.r = "soft"  -> (IF Skip(ts, p) = Len(ts) + 1 THEN [r |-> "ok", n |-> n] ELSE [r |-> "err", n |-> n])
    [] x.r = "hard"  -> [r |-> "err", n |-> n]
    [] x.r = "panic" -> [r |-> "panic", n |-> n]
Many(ts, p, n) == ManyK(ts, p, n, Instr(ts, p))

\* ---------------------------------------------------------------- the five entry points (after lexing)
Whole(ts, x) == IF x.r = "panic" THEN "panic" ELSE IF IsOk(x) /\ x.p = Len(ts) + 1 THEN "ok" ELSE "err"   \* disallow_leftover
OutcomesOf(ts, m) ==
  [program |-> m.r,
   instruction |-> IF m.r = "ok" THEN (IF m.n = 1 THEN "ok" ELSE "err") ELSE m.r,          \* exactly one instruction
   expression |-> Whole(ts, Expr(ts, 1, 0)), memref |-> Whole(ts, MemRef(ts, 1)), frame |-> Whole(ts, FrameId(ts, 1))]
Outcomes(ts) == OutcomesOf(ts, Many(ts, 1, 0))
OutProgram(ts) == Many(ts, 1, 0).r

\* does the model have an accept/reject opinion on this token sequence?
Sure(ts) == \A k \in DOMAIN ts : ts[k] \notin {Kw("PAULI-SUM"), Kw("SEQUENCE")}

----------------------------------------------------------------------------
\* C01 on the model: every entry point returns a value or an error on every token sequence
TotalOutcomes(o) == \A e \in DOMAIN o : o[e] \in {"ok", "err"}
TotalOn(ts) == TotalOutcomes(Outcomes(ts))
\* relations between the entry points that hold by construction of the grammar
ConsistentOutcomes(ts, o, m) ==
  /\ (o.instruction = "ok" => o.program = "ok")
  /\ (o.memref = "ok" /\ At(ts, 1).k # "fn" => o.expression = "ok")   \* a memory reference is an expression, unless
                                                                      \* its name is a function name (`sin`)
  /\ (o.frame = "ok" => o.expression # "ok" /\ o.memref # "ok")
  /\ (o.program = "ok" /\ m.n = 1 => o.instruction = "ok")
ConsistentM(ts, m) == ConsistentOutcomes(ts, OutcomesOf(ts, m), m)
ConsistentOn(ts) == ConsistentM(ts, Many(ts, 1, 0))
=============================================================================
