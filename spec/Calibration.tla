----------------------------- MODULE Calibration -----------------------------
(***************************************************************************)
(* Calibration sets and calibration lookup of quil-rs as a state machine:  *)
(*                                                                         *)
(*   Insert      Calibrations::insert_calibration /                        *)
(*               insert_measurement_calibration -> CalibrationSet::replace *)
(*   StartGate, ScanGate, DoneGate                                         *)
(*               Calibrations::get_match_for_gate: the `for` loop over the *)
(*               definitions, one ScanGate per examined definition, with   *)
(*               the loop's local `matched_calibration` (cur) and its      *)
(*               `>=` tie-break                                            *)
(*   StartMeas, ScanMeas, DoneMeas                                         *)
(*               Calibrations::get_match_for_measurement: the reverse scan *)
(*               that keeps the First exact and the First wildcard match   *)
(*                                                                         *)
(* The property (C16) is stated with the declarative rules of              *)
(* CalibrationRules (BestMatch, MeasBest, SetOfHistory) as refinement and  *)
(* loop invariants.  Definitions carry a `tag` (insertion ordinal) instead *)
(* of a body, so that "which definition was chosen" is observable.         *)
(***************************************************************************)
EXTENDS CalibrationRules

VARIABLES kind,     \* "gate" | "meas": which of the two sets this history exercises
          hist,     \* the definitions inserted so far, in insertion order (the input)
          set,      \* the CalibrationSet after these inserts (insertion ordered)
          query,    \* the gate / measurement looked up
          i,        \* loop position (1-based index of the next definition to examine)
          cur,      \* gate scan: index of matched_calibration (0 = None); result after Done
          exact,    \* measurement scan: index of First(exact) (0 = None)
          wild,     \* measurement scan: index of First(wildcard)
          phase     \* "build" | "gscan" | "mscan" | "done"
vars == <<kind, hist, set, query, i, cur, exact, wild, phase>>

NoQuery == Nop

InitWith(kd) == /\ kind = kd /\ hist = <<>> /\ set = <<>> /\ query = NoQuery
                /\ i = 0 /\ cur = 0 /\ exact = 0 /\ wild = 0 /\ phase = "build"

\* insert_calibration / insert_measurement_calibration
Insert(c) ==
  /\ phase = "build"
  /\ hist' = Append(hist, c)
  /\ set' = Upsert(set, c)
  /\ UNCHANGED <<kind, query, i, cur, exact, wild, phase>>

\* ---- get_match_for_gate
StartGate(g) ==
  /\ phase = "build" /\ kind = "gate"
  /\ query' = g /\ i' = 1 /\ cur' = 0 /\ phase' = "gscan"
  /\ UNCHANGED <<kind, hist, set, exact, wild>>

ScanGate ==
  /\ phase = "gscan" /\ i <= Len(set)
  /\ cur' = IF Matches(set[i], query) /\ (cur = 0 \/ FixedCount(set[i]) >= FixedCount(set[cur]))
            THEN i ELSE cur
  /\ i' = i + 1
  /\ UNCHANGED <<kind, hist, set, query, exact, wild, phase>>

DoneGate ==
  /\ phase = "gscan" /\ i = Len(set) + 1
  /\ phase' = "done"
  /\ UNCHANGED <<kind, hist, set, query, i, cur, exact, wild>>

\* ---- get_match_for_measurement (iter().rev(), First for each of the two classes)
StartMeas(m) ==
  /\ phase = "build" /\ kind = "meas"
  /\ query' = m /\ i' = Len(set) /\ exact' = 0 /\ wild' = 0 /\ phase' = "mscan"
  /\ UNCHANGED <<kind, hist, set, cur>>

ScanMeas ==
  /\ phase = "mscan" /\ i >= 1
  /\ LET c == set[i] IN
     IF ~(c.name = query.name /\ ((c.target # "") <=> IsSome(query.mref)))
     THEN UNCHANGED <<exact, wild>>
     ELSE IF c.qubit.t = "fixed" /\ c.qubit = query.qubits[1]
          THEN exact' = (IF exact = 0 THEN i ELSE exact) /\ UNCHANGED wild
          ELSE IF c.qubit.t = "var"
               THEN wild' = (IF wild = 0 THEN i ELSE wild) /\ UNCHANGED exact
               ELSE UNCHANGED <<exact, wild>>
  /\ i' = i - 1
  /\ UNCHANGED <<kind, hist, set, query, cur, phase>>

DoneMeas ==
  /\ phase = "mscan" /\ i = 0
  /\ cur' = IF exact # 0 THEN exact ELSE wild
  /\ phase' = "done"
  /\ UNCHANGED <<kind, hist, set, query, i, exact, wild>>

----------------------------------------------------------------------------
\* The property, in the vocabulary of CalibrationRules.

\* the loop's answer is the declaratively best definition
GateRefines == (phase = "done" /\ kind = "gate") => cur = BestMatch(set, query)
MeasRefines == (phase = "done" /\ kind = "meas") => cur = MeasBest(set, query)

\* the answer obeys the statement directly (not via BestMatch's CHOOSE)
ChosenIsLegal ==
  phase = "done" =>
    IF kind = "gate"
    THEN LET M == GMatching(set, query) IN
         /\ (cur = 0 <=> M = {})
         /\ cur # 0 => /\ cur \in M
                       /\ \A m \in M : FixedCount(set[m]) <= FixedCount(set[cur])
                       /\ \A m \in M : FixedCount(set[m]) = FixedCount(set[cur]) => m <= cur
    ELSE LET M == MMatching(set, query) IN
         /\ (cur = 0 <=> M = {})
         /\ cur # 0 => /\ cur \in M
                       /\ (\E m \in M : MExact(set[m], query)) => MExact(set[cur], query)
                       /\ \A m \in M : (MExact(set[m], query) <=> MExact(set[cur], query)) => m <= cur

\* loop invariants: the running answer is the best among the definitions examined so far
GatePrefixBest == phase = "gscan" => cur = BestMatch(SubSeq(set, 1, i - 1), query)
MeasSuffixBest ==
  phase = "mscan" =>
    LET E == {n \in (i + 1)..Len(set) : MExact(set[n], query)}
        W == {n \in (i + 1)..Len(set) : MWild(set[n], query)} IN
    /\ exact = (IF E = {} THEN 0 ELSE Max(E))
    /\ wild  = (IF W = {} THEN 0 ELSE Max(W))

\* "redefining a calibration with an identical signature replaces it in place"
ReplaceInPlace   == set = SetOfHistory(hist)
UniqueSignatures == \A a, b \in DOMAIN set : a # b => Sig(set[a]) # Sig(set[b])

\* projections used by the emitters and the trace specification
Tags(s) == [n \in DOMAIN s |-> s[n].tag]
ChosenTag == IF cur = 0 THEN 0 ELSE set[cur].tag
=============================================================================
