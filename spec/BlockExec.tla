------------------------------ MODULE BlockExec ------------------------------
(***************************************************************************)
(* Growth beyond the listed properties (DESIGN.md §4.3, §12.7): the        *)
(* control-flow graph is *semantically faithful*.                          *)
(*                                                                         *)
(* C28 says what the blocks look like (they partition the body, offsets    *)
(* locate them).  This module says what they *mean*: running a program     *)
(* block by block — enter a block at its label, run its instructions,      *)
(* follow its terminator to the block that carries the target label, fall  *)
(* through to the next block on Continue — visits exactly the same         *)
(* instructions, in the same order, with the same memory, as running the   *)
(* flat body with a program counter.  The two machines run in lock-step;   *)
(* the linking invariant is                                                *)
(*        flat pc = offset of the current block + position in the block    *)
(* which is where the offsets of C28 acquire their meaning.                *)
(*                                                                         *)
(* Instructions are the records of ControlFlowGraph, extended for ordinary *)
(* instructions by a field `sem`:                                          *)
(*   [op |-> "emit"]                 opaque: appends its text to `trace`   *)
(*   [op |-> "move", cell, v]        MOVE cell v                           *)
(*   [op |-> "sub",  cell, v]        SUB cell v                            *)
(* JUMP-WHEN jumps iff its condition cell is non-zero, JUMP-UNLESS iff it  *)
(* is zero; a cell never written reads 0; a jump needs exactly one LABEL   *)
(* with its target (otherwise both machines stop: `stuck`).                *)
(***************************************************************************)
EXTENDS ControlFlowGraph

VARIABLES fpc,      \* flat machine: 1-based index into the (INCLUDE-free) body
          bi, pos,  \* block machine: current block (1-based) and 0-based position in Flat(block)
          mem,      \* shared shape, kept per machine to compare: flat memory
          bmem,     \* block machine's memory
          trace,    \* texts emitted by the flat machine
          btrace,   \* texts emitted by the block machine
          fstate,   \* "run" | "halt" | "stuck"   (flat machine)
          bstate,   \* "run" | "halt" | "stuck"   (block machine)
          fuel      \* remaining lock-steps (programs may loop forever)
evars == <<fpc, bi, pos, mem, bmem, trace, btrace, fstate, bstate, fuel>>
allvars == <<vars, evars>>

Rd(m, c)     == IF c \in DOMAIN m THEN m[c] ELSE 0
Wr(m, c, v)  == [x \in DOMAIN m \cup {c} |-> IF x = c THEN v ELSE m[x]]

\* ---- the flat machine (program counter over the body) -------------------
LabelPos(b, t) == {p \in DOMAIN b : b[p].k = "Label" /\ b[p].target = t}
FlatNext(b, p, m, tr) ==     \* -> [pc, mem, trace, state]
  IF p > Len(b) THEN [pc |-> p, mem |-> m, trace |-> tr, state |-> "halt"]
  ELSE LET i == b[p] IN
    CASE i.k = "Plain" ->
           (CASE i.sem.op = "emit" -> [pc |-> p + 1, mem |-> m, trace |-> Append(tr, i.text), state |-> "run"]
              [] i.sem.op = "move" -> [pc |-> p + 1, mem |-> Wr(m, i.sem.cell, i.sem.v), trace |-> tr, state |-> "run"]
              [] i.sem.op = "sub"  -> [pc |-> p + 1, mem |-> Wr(m, i.sem.cell, Rd(m, i.sem.cell) - i.sem.v), trace |-> tr, state |-> "run"])
      [] i.k = "Label" -> [pc |-> p + 1, mem |-> m, trace |-> tr, state |-> "run"]
      [] i.k = "Halt"  -> [pc |-> p, mem |-> m, trace |-> tr, state |-> "halt"]
      [] i.k \in {"Jump", "JumpWhen", "JumpUnless"} ->
           LET taken == \/ i.k = "Jump"
                        \/ (i.k = "JumpWhen" /\ Rd(m, i.cond) # 0)
                        \/ (i.k = "JumpUnless" /\ Rd(m, i.cond) = 0)
           IN IF ~taken THEN [pc |-> p + 1, mem |-> m, trace |-> tr, state |-> "run"]
              ELSE IF Cardinality(LabelPos(b, i.target)) # 1
                   THEN [pc |-> p, mem |-> m, trace |-> tr, state |-> "stuck"]
                   ELSE [pc |-> CHOOSE q \in LabelPos(b, i.target) : TRUE, mem |-> m, trace |-> tr, state |-> "run"]

\* ---- the block machine ----------------------------------------------------
\* the elements of a block in order: its label, its instructions, its terminator
ElemCount(blk) == (IF IsSome(blk.label) THEN 1 ELSE 0) + Len(blk.instrs) + (IF blk.term.t = "Continue" THEN 0 ELSE 1)
BlocksWithLabel(bs, t) == {n \in DOMAIN bs : IsSome(bs[n].label) /\ bs[n].label.some = t}
\* semantics of an ordinary instruction is looked up by its text (same text, same meaning)
SemOf(b, text) == LET p == CHOOSE q \in DOMAIN b : b[q].k = "Plain" /\ b[q].text = text IN b[p].sem

BlockNext(b, bs, n, k, m, tr) ==   \* -> [bi, pos, mem, trace, state]
  IF n > Len(bs) THEN [bi |-> n, pos |-> k, mem |-> m, trace |-> tr, state |-> "halt"]
  ELSE LET blk  == bs[n]
           lab  == IF IsSome(blk.label) THEN 1 ELSE 0
           nins == Len(blk.instrs)
           goto(t) == IF Cardinality(BlocksWithLabel(bs, t)) # 1
                      THEN [bi |-> n, pos |-> k, mem |-> m, trace |-> tr, state |-> "stuck"]
                      ELSE [bi |-> CHOOSE x \in BlocksWithLabel(bs, t) : TRUE, pos |-> 0, mem |-> m, trace |-> tr, state |-> "run"]
           \* moving on inside the block, or falling through to the next block after its last element
           after == IF k + 1 < ElemCount(blk) THEN [bi |-> n, pos |-> k + 1] ELSE [bi |-> n + 1, pos |-> 0]
       IN IF ElemCount(blk) = 0 THEN [bi |-> n + 1, pos |-> 0, mem |-> m, trace |-> tr, state |-> "run"]
          ELSE IF k < lab THEN [bi |-> after.bi, pos |-> after.pos, mem |-> m, trace |-> tr, state |-> "run"]
          ELSE IF k < lab + nins THEN
               LET text == blk.instrs[k - lab + 1]  s == SemOf(b, text) IN
               CASE s.op = "emit" -> [bi |-> after.bi, pos |-> after.pos, mem |-> m, trace |-> Append(tr, text), state |-> "run"]
                 [] s.op = "move" -> [bi |-> after.bi, pos |-> after.pos, mem |-> Wr(m, s.cell, s.v), trace |-> tr, state |-> "run"]
                 [] s.op = "sub"  -> [bi |-> after.bi, pos |-> after.pos, mem |-> Wr(m, s.cell, Rd(m, s.cell) - s.v), trace |-> tr, state |-> "run"]
          ELSE \* the terminator
               CASE blk.term.t = "Halt" -> [bi |-> n, pos |-> k, mem |-> m, trace |-> tr, state |-> "halt"]
                 [] blk.term.t = "Jump" -> goto(blk.term.target)
                 [] blk.term.t = "Cond" ->
                      IF (blk.term.ifzero /\ Rd(m, blk.term.cond) = 0) \/ (~blk.term.ifzero /\ Rd(m, blk.term.cond) # 0)
                      THEN goto(blk.term.target)
                      ELSE [bi |-> n + 1, pos |-> 0, mem |-> m, trace |-> tr, state |-> "run"]

\* skip over empty positions: a block machine standing past the end of all blocks has halted
ExecInit == /\ fpc = 1 /\ bi = 1 /\ pos = 0 /\ mem = [c \in {} |-> 0] /\ bmem = [c \in {} |-> 0]
            /\ trace = <<>> /\ btrace = <<>> /\ fstate = "run" /\ bstate = "run"

\* one lock-step: both machines execute one element
LockStep(b, bs) ==
  /\ fstate = "run" /\ bstate = "run" /\ fuel > 0
  /\ LET f == FlatNext(b, fpc, mem, trace)
         g == BlockNext(b, bs, bi, pos, bmem, btrace)
     IN /\ fpc' = f.pc /\ mem' = f.mem /\ trace' = f.trace /\ fstate' = f.state
        /\ bi' = g.bi /\ pos' = g.pos /\ bmem' = g.mem /\ btrace' = g.trace /\ bstate' = g.state
  /\ fuel' = fuel - 1

\* ---- the theorem ----------------------------------------------------------
\* where the block machine stands, as a flat position
BlockPc(bs, n, k) == IF n > Len(bs) THEN (IF bs = <<>> THEN 1 ELSE bs[Len(bs)].offset + ElemCount(bs[Len(bs)]) + 1)
                     ELSE bs[n].offset + k + 1
Faithful(b, bs) ==
  /\ fstate = bstate
  /\ mem = bmem /\ trace = btrace
  /\ (fstate = "run" => fpc = BlockPc(bs, bi, pos))

\* ---- the same theorem as a function of (body, blocks), for recorded real blocks --------------------
\* (spec/trace/BlockExecTrace.tla: the blocks come from the real ControlFlowGraph::from)
ExecState0 == [fpc |-> 1, bi |-> 1, pos |-> 0, mem |-> [c \in {} |-> 0], bmem |-> [c \in {} |-> 0],
               trace |-> <<>>, btrace |-> <<>>, fs |-> "run", bs |-> "run"]
FaithfulAt(bs, s) == /\ s.fs = s.bs /\ s.mem = s.bmem /\ s.trace = s.btrace
                     /\ (s.fs = "run" => s.fpc = BlockPc(bs, s.bi, s.pos))
RECURSIVE RunFaithful(_, _, _, _)
RunFaithful(b, bs, s, k) ==
  /\ FaithfulAt(bs, s)
  /\ \/ k = 0 \/ s.fs # "run" \/ s.bs # "run"
     \/ LET f == FlatNext(b, s.fpc, s.mem, s.trace)
            g == BlockNext(b, bs, s.bi, s.pos, s.bmem, s.btrace)
        IN RunFaithful(b, bs, [fpc |-> f.pc, bi |-> g.bi, pos |-> g.pos, mem |-> f.mem, bmem |-> g.mem,
                               trace |-> f.trace, btrace |-> g.trace, fs |-> f.state, bs |-> g.state], k - 1)
=============================================================================
