------------------------------ MODULE Simplify ------------------------------
(***************************************************************************)
(* Program::simplify (quil-rs/src/program/mod.rs): dead-code removal.      *)
(*                                                                         *)
(*   expand_calibrations_inner : one SExpand action per body instruction   *)
(*   calibrations = default    : SDropCals                                 *)
(*   the scan loop             : one SScan action per expanded instruction *)
(*                               (frames_used, waveforms_used, externs)    *)
(*   intersection / retain     : SRetain                                   *)
(*                                                                         *)
(* A program is a record of ordered tables                                 *)
(*   [ft   : frame table (ScheduleDefs), wfs : waveforms [name, len],      *)
(*    exts : extern names, cals : [head, body], other : opaque             *)
(*    (declarations, gate definitions, circuits), body : instructions]     *)
(* Instructions are the structured instructions of ScheduleDefs plus       *)
(* Gate(text) (calibrated iff some calibration has that head), Call(ext)   *)
(* and Label (which starts a new basic block).                             *)
(*                                                                         *)
(* C35 is stated on (program, result) by KeepsExactlyOf and                *)
(* SchedulesEqualOf, the latter through the schedule functions of          *)
(* ScheduleDefs: the design theorem is that dropping frames that are only  *)
(* ever blocked changes no start time.                                     *)
(* Calibration matching is by head text (C16/C17 cover real matching);     *)
(* recursive calibrations (an error of expand_calibrations) are excluded.  *)
(***************************************************************************)
EXTENDS ScheduleDefs

Gate(text)      == [k |-> "Gate", text |-> text]
Call(text, ext) == [k |-> "Call", text |-> text, ext |-> ext]
Label(text)     == [k |-> "Label", text |-> text]

CalOf(cals, text) == {n \in DOMAIN cals : cals[n].head = text}
RECURSIVE ExpandI(_, _, _)
ExpandI(cals, i, fuel) ==
  IF i.k = "Gate" /\ CalOf(cals, i.text) # {} /\ fuel > 0
  THEN LET b == cals[CHOOSE n \in CalOf(cals, i.text) : TRUE].body
       IN FlattenSeq([n \in DOMAIN b |-> ExpandI(cals, b[n], fuel - 1)])
  ELSE <<i>>
Fuel == 4
ExpandBody(cals, b) == FlattenSeq([n \in DOMAIN b |-> ExpandI(cals, b[n], Fuel)])

Invokes(i) == IF i.k \in {"Pulse", "Capture"} THEN {i.wf.name} ELSE {}      \* get_waveform_invocation
Calls(i)   == IF i.k = "Call" THEN {i.ext} ELSE {}

VARIABLES prog,    \* input
          out,     \* the program being built (expanded_program)
          bpc,     \* loop position of expand_calibrations_inner
          spos,    \* loop position of the scan
          fu, wu, eu,   \* frames_used (indices of prog.ft), waveforms_used, extern_signatures_used
          sphase   \* "gen" | "expand" | "drop" | "scan" | "retain" | "done"
svars == <<prog, out, bpc, spos, fu, wu, eu, sphase>>

SInit(p) == /\ prog = p /\ out = [p EXCEPT !.body = <<>>]      \* clone_without_body_instructions
            /\ bpc = 1 /\ spos = 1 /\ fu = {} /\ wu = {} /\ eu = {}

SExpand ==
  /\ sphase = "expand" /\ bpc <= Len(prog.body)
  /\ out' = [out EXCEPT !.body = @ \o ExpandI(prog.cals, prog.body[bpc], Fuel)]
  /\ bpc' = bpc + 1 /\ UNCHANGED <<prog, spos, fu, wu, eu, sphase>>
SExpandDone ==
  /\ sphase = "expand" /\ bpc = Len(prog.body) + 1 /\ sphase' = "drop"
  /\ UNCHANGED <<prog, out, bpc, spos, fu, wu, eu>>
SDropCals ==
  /\ sphase = "drop" /\ out' = [out EXCEPT !.cals = <<>>] /\ sphase' = "scan"
  /\ UNCHANGED <<prog, bpc, spos, fu, wu, eu>>
SScan ==
  /\ sphase = "scan" /\ spos <= Len(out.body)
  /\ LET i == out.body[spos] IN
       /\ fu' = fu \cup UsedOf(out.ft, i)          \* matched_frames.used, against the not yet filtered table
       /\ wu' = wu \cup Invokes(i)
       /\ eu' = eu \cup Calls(i)
  /\ spos' = spos + 1 /\ UNCHANGED <<prog, out, bpc, sphase>>
SScanDone ==
  /\ sphase = "scan" /\ spos = Len(out.body) + 1 /\ sphase' = "retain"
  /\ UNCHANGED <<prog, out, bpc, spos, fu, wu, eu>>
KeepIdx(s, S) == LET RECURSIVE K(_)
                     K(n) == IF n > Len(s) THEN <<>> ELSE (IF n \in S THEN <<s[n]>> ELSE <<>>) \o K(n + 1)
                 IN K(1)
SRetain ==
  /\ sphase = "retain"
  /\ out' = [out EXCEPT !.ft   = KeepIdx(prog.ft, fu),                                   \* self.frames.intersection
                        !.wfs  = KeepIdx(@, {n \in DOMAIN out.wfs : out.wfs[n].name \in wu}),
                        !.exts = KeepIdx(@, {n \in DOMAIN out.exts : out.exts[n] \in eu})]
  /\ sphase' = "done" /\ UNCHANGED <<prog, bpc, spos, fu, wu, eu>>

SRun == SExpand \/ SExpandDone \/ SDropCals \/ SScan \/ SScanDone \/ SRetain

\* the whole call as a function (trace validation)
SimplifyF(p) ==
  LET b  == ExpandBody(p.cals, p.body)
      f  == UNION {UsedOf(p.ft, b[n]) : n \in DOMAIN b}
      w  == UNION {Invokes(b[n]) : n \in DOMAIN b}
      e  == UNION {Calls(b[n]) : n \in DOMAIN b}
  IN [p EXCEPT !.body = b, !.cals = <<>>, !.ft = KeepIdx(p.ft, f),
               !.wfs = KeepIdx(@, {n \in DOMAIN p.wfs : p.wfs[n].name \in w}),
               !.exts = KeepIdx(@, {n \in DOMAIN p.exts : p.exts[n] \in e})]

----------------------------------------------------------------------------
\* C35 on (program p, result q)

FrameId(f) == [name |-> f.name, qubits |-> f.qubits]
\* frames used by an instruction, as identifiers (table-independent)
UsedIds(ft, i) == {FrameId(ft[n]) : n \in UsedOf(ft, i)}

KeepsExactlyOf(p, q) ==
  LET b == ExpandBody(p.cals, p.body) IN
  /\ q.body = b                                    \* the calibration-expanded body
  /\ q.cals = <<>>                                 \* no calibrations
  \* exactly the frames used by that body (with their attributes), none twice
  /\ Range(q.ft) = {f \in Range(p.ft) : \E n \in DOMAIN b : FrameId(f) \in UsedIds(p.ft, b[n])}
  /\ Cardinality(Range(q.ft)) = Len(q.ft)
  \* exactly the waveforms it invokes, the externs it calls
  /\ Range(q.wfs) = {w \in Range(p.wfs) : \E n \in DOMAIN b : w.name \in Invokes(b[n])}
  /\ Cardinality(Range(q.wfs)) = Len(q.wfs)
  /\ Range(q.exts) = {e \in Range(p.exts) : \E n \in DOMAIN b : e \in Calls(b[n])}
  /\ Cardinality(Range(q.exts)) = Len(q.exts)
  \* declarations, gate definitions, circuits unchanged
  /\ q.other = p.other

\* basic blocks of a body: a LABEL starts a new block (the alphabets have no jumps)
RECURSIVE SplitAt(_, _, _)
SplitAt(b, cur, first) ==
  IF b = <<>> THEN (IF first /\ cur = <<>> THEN <<>> ELSE <<cur>>)
  ELSE IF Head(b).k = "Label"
       THEN (IF first /\ cur = <<>> THEN <<>> ELSE <<cur>>) \o SplitAt(Tail(b), <<>>, FALSE)
       ELSE SplitAt(Tail(b), Append(cur, Head(b)), first)
Blocks(b) == SplitAt(b, <<>>, TRUE)

\* schedule of one block against the tables of a program: None = cannot be computed
BlockSchedule(ft, wfs, blk) ==      \* (a block with a CALL, a plain gate or a classical instruction has none)
  LET p == [n \in DOMAIN blk |-> Summ(ft, wfs, blk[n])]
  IN IF Schedulable(p)
     THEN LET its == ItemsOf(p, Len(ft))
          IN Some([items |-> {its[n] : n \in DOMAIN its},
                   total |-> Max({0} \cup {its[n].start + its[n].dur : n \in DOMAIN its})])
     ELSE None
SchedulesOf(ft, wfs, body) == LET bs == Blocks(body) IN [n \in DOMAIN bs |-> BlockSchedule(ft, wfs, bs[n])]
\* every computed block schedule is the same as for the expanded program
SchedulesEqualOf(p, q) ==
  SchedulesOf(q.ft, q.wfs, q.body) = SchedulesOf(p.ft, p.wfs, ExpandBody(p.cals, p.body))

Done == sphase = "done"
KeepsExactly   == Done => KeepsExactlyOf(prog, out)
SchedulesEqual == Done => SchedulesEqualOf(prog, out)
FunctionAgrees == Done => out = SimplifyF(prog)
Idempotent     == Done => SimplifyF(out) = out
\* loop invariants
ExpandInv == sphase = "expand" => out.body = ExpandBody(prog.cals, SubSeq(prog.body, 1, bpc - 1))
ScanInv   == sphase = "scan" =>
               /\ fu = UNION {UsedOf(prog.ft, out.body[n]) : n \in 1..(spos - 1)}
               /\ wu = UNION {Invokes(out.body[n]) : n \in 1..(spos - 1)}
               /\ eu = UNION {Calls(out.body[n]) : n \in 1..(spos - 1)}
\* a frame that is dropped is never used, and every frame that some instruction only blocks may be dropped:
\* the frame sets of every instruction against the filtered table are the old ones restricted to the kept frames
RestrictedSummaries == Done =>
   \A n \in DOMAIN out.body :
      /\ UsedIds(out.ft, out.body[n]) = UsedIds(prog.ft, out.body[n])
      /\ {FrameId(out.ft[m]) : m \in BlockedOf(out.ft, out.body[n])}
           = {FrameId(prog.ft[m]) : m \in BlockedOf(prog.ft, out.body[n])} \cap {FrameId(f) : f \in Range(out.ft)}
=============================================================================
