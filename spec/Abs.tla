-------------------------------- MODULE Abs --------------------------------
(***************************************************************************)
(* Shared conventions of the quil-rs specification.                        *)
(*                                                                         *)
(* TLC refuses to compare values of different shapes (an integer with a    *)
(* string, a record with a string), so every sum type in the specification *)
(* is a tagged record and "no value" is a record too.  The JSON the Rust   *)
(* harness produces and consumes (harness/src/abs.rs) uses exactly the     *)
(* same encoding, so ToJson / ndJsonDeserialize need no translation layer. *)
(***************************************************************************)
EXTENDS Naturals, Sequences, FiniteSets

None      == [none |-> TRUE]
Some(x)   == [some |-> x]
IsNone(o) == "none" \in DOMAIN o
IsSome(o) == "some" \in DOMAIN o

\* Qubits
Fixed(n)  == [t |-> "fixed", n |-> n]
QVar(s)   == [t |-> "var", s |-> s]
QPh(id)   == [t |-> "ph", id |-> id]

\* sequence helpers (kept here so that modules do not depend on SequencesExt versions)
RECURSIVE SeqToSet(_)
SeqToSet(s) == IF s = <<>> THEN {} ELSE {Head(s)} \cup SeqToSet(Tail(s))
Range(s) == {s[i] : i \in DOMAIN s}

RECURSIVE FlattenSeq(_)
FlattenSeq(ss) == IF ss = <<>> THEN <<>> ELSE Head(ss) \o FlattenSeq(Tail(ss))

Max(S) == CHOOSE x \in S : \A y \in S : y <= x
Min(S) == CHOOSE x \in S : \A y \in S : x <= y
=============================================================================
