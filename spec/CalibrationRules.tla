-------------------------- MODULE CalibrationRules --------------------------
(***************************************************************************)
(* Abstract syntax of calibration programs and the *rules* of calibration  *)
(* lookup, stated declaratively (no algorithm, no variables):              *)
(*                                                                         *)
(*   CalibrationIdentifier::matches       quil-rs/src/instruction/calibration.rs *)
(*   Calibrations::get_match_for_gate /                                    *)
(*   get_match_for_measurement (doc comments) quil-rs/src/program/calibration.rs *)
(*   CalibrationSet::replace              quil-rs/src/program/calibration_set.rs *)
(*                                                                         *)
(* Shared by Calibration (C16), CalExpand (C17, C18) and SourceMap (C19).  *)
(* The JSON encoding of these values is the one produced and consumed by   *)
(* harness/src/props/c16.rs (mod abs).                                     *)
(***************************************************************************)
EXTENDS Abs, Integers, TLC

\* ---------------------------------------------------------------- expressions
EInt(n)   == [t |-> "int", n |-> n]          \* a non-negative integer literal
EReal(s)  == [t |-> "real", s |-> s]         \* any other real literal, by its decimal text
EPi2      == [t |-> "pi2"]                   \* the expression pi/2
EVar(v)   == [t |-> "var", v |-> v]          \* %v
EPlus1(e) == [t |-> "plus1", e |-> e]        \* e + 1
ENeg(e)   == [t |-> "neg", e |-> e]          \* -e

HalfPi == "1.5707963267948966"

\* What Expression::into_simplified makes of an expression, as far as equality of two
\* simplified expressions is concerned: a closed expression becomes its value, an open one
\* (containing a variable) stays open.  Values are kept exact and canonical for the operators of
\* the alphabets: an integer, or (+/-)r + k for a real literal r (by its text) and an integer k.
\* (-0 = 0, -(-x) = x and (0+1) = 1 hold by construction; two different real literals of the
\* alphabets never denote values an integer apart.)
RECURSIVE Val(_)
Val(e) == CASE e.t = "int"   -> [c |-> "int", n |-> e.n]
            [] e.t = "real"  -> [c |-> "real", s |-> e.s, minus |-> FALSE, add |-> 0]
            [] e.t = "pi2"   -> [c |-> "real", s |-> HalfPi, minus |-> FALSE, add |-> 0]
            [] e.t = "var"   -> [c |-> "open"]
            [] e.t = "plus1" -> LET v == Val(e.e) IN
                                CASE v.c = "int"  -> [v EXCEPT !.n = v.n + 1]
                                  [] v.c = "real" -> [v EXCEPT !.add = v.add + 1]
                                  [] OTHER        -> v
            [] e.t = "neg"   -> LET v == Val(e.e) IN
                                CASE v.c = "int"  -> [v EXCEPT !.n = 0 - v.n]
                                  [] v.c = "real" -> [v EXCEPT !.minus = ~v.minus, !.add = 0 - v.add]
                                  [] OTHER        -> v
IsClosed(e) == Val(e).c # "open"

RECURSIVE SubstE(_, _)     \* Expression::substitute_variables; env : variable name -> expression
SubstE(e, env) == CASE e.t = "var"   -> IF e.v \in DOMAIN env THEN env[e.v] ELSE e
                    [] e.t = "plus1" -> EPlus1(SubstE(e.e, env))
                    [] e.t = "neg"   -> ENeg(SubstE(e.e, env))
                    [] OTHER         -> e

\* ---------------------------------------------------------------- instructions
\* One uniform record shape for every instruction kind (fields that a kind does not have are empty):
\*   k      kind             name   gate / frame / region / pragma / measurement name ("" = none)
\*   mods   gate modifiers   params expressions     qubits  qubits     mref  Opt(memory reference)
\*   data   pragma data ("" = none)
Instr(k, name, mods, params, qubits, mref, data) ==
  [k |-> k, name |-> name, mods |-> mods, params |-> params, qubits |-> qubits, mref |-> mref, data |-> data]
MRef(name, index) == [name |-> name, index |-> index]

Gate(name, mods, params, qubits) == Instr("Gate", name, mods, params, qubits, None, "")
Measure(name, q, target)         == Instr("Measure", name, <<>>, <<>>, <<q>>, target, "")
ResetQ(qs)                       == Instr("Reset", "", <<>>, <<>>, qs, None, "")
Delay(qs, e)                     == Instr("Delay", "", <<>>, <<e>>, qs, None, "")
Fence(qs)                        == Instr("Fence", "", <<>>, <<>>, qs, None, "")
Pulse(qs, f, e)                  == Instr("Pulse", f, <<>>, <<e>>, qs, None, "")
Capture(qs, f, e, m)             == Instr("Capture", f, <<>>, <<e>>, qs, Some(m), "")
RawCapture(qs, f, e, m)          == Instr("RawCapture", f, <<>>, <<e>>, qs, Some(m), "")
FrameOp(k, qs, f, e)             == Instr(k, f, <<>>, <<e>>, qs, None, "")  \* SetFrequency .. ShiftPhase
SwapPhases(q1, q2, f)            == Instr("SwapPhases", f, <<>>, <<>>, <<q1, q2>>, None, "")
Declare(name)                    == Instr("Declare", name, <<>>, <<>>, <<>>, None, "")
Pragma(name, data)               == Instr("Pragma", name, <<>>, <<>>, <<>>, None, data)
Nop                              == Instr("Nop", "", <<>>, <<>>, <<>>, None, "")
Move(m)                          == Instr("Move", "", <<>>, <<>>, <<>>, Some(m), "")

\* ---------------------------------------------------------------- calibration definitions
\* gate calibration:     [k |-> "DefCal", name, mods, params, qubits, body | tag]
\* measure calibration:  [k |-> "DefCalMeasure", name ("" = none), qubit, target ("" = none), body | tag]
\* (Calibration tags bodies by insertion ordinal; CalExpand carries real bodies.)

\* CalibrationSignature: identifiers are compared structurally (not up to simplification)
GSig(c) == <<c.mods, c.name, c.params, c.qubits>>
MSig(c) == <<c.name, c.qubit, c.target>>
Sig(c)  == IF c.k = "DefCal" THEN GSig(c) ELSE MSig(c)

\* CalibrationSet::replace — the iterative definition (first slot with the signature, else push)
Upsert(set, c) ==
  IF \E n \in DOMAIN set : Sig(set[n]) = Sig(c)
  THEN [set EXCEPT ![CHOOSE n \in DOMAIN set : Sig(set[n]) = Sig(c) /\ \A m \in 1..(n - 1) : Sig(set[m]) # Sig(c)] = c]
  ELSE Append(set, c)

\* "Redefining a calibration with an identical signature replaces it in place", declaratively:
\* the set lists the distinct signatures in order of first insertion, each with its last definition.
FirstOccs(hist) == {n \in DOMAIN hist : \A m \in 1..(n - 1) : Sig(hist[m]) # Sig(hist[n])}
LastWith(hist, n) == hist[Max({m \in DOMAIN hist : Sig(hist[m]) = Sig(hist[n])})]
RECURSIVE SortedSeq(_)
SortedSeq(S) == IF S = {} THEN <<>> ELSE <<Min(S)>> \o SortedSeq(S \ {Min(S)})
SetOfHistory(hist) == LET f == SortedSeq(FirstOccs(hist)) IN [r \in DOMAIN f |-> LastWith(hist, f[r])]

\* ---------------------------------------------------------------- gate matching (rules 1-6)
\* 5. a fixed calibration qubit needs the same fixed gate qubit; a variable one matches anything
QubitOk(cq, gq) == cq.t = "var" \/ cq = gq
\* 6. a variable calibration parameter matches anything; otherwise both sides are simplified and compared
\*    (generators only put literals and variables into calibration parameters)
ParamOk(cp, gp) == cp.t = "var" \/ (IsClosed(gp) /\ Val(cp) = Val(gp))

Matches(c, g) ==
  /\ c.name = g.name                              \* 1
  /\ c.mods = g.mods                              \* 2
  /\ Len(c.qubits) = Len(g.qubits)                \* 3
  /\ Len(c.params) = Len(g.params)                \* 4
  /\ \A n \in DOMAIN c.qubits : QubitOk(c.qubits[n], g.qubits[n])
  /\ \A n \in DOMAIN c.params : ParamOk(c.params[n], g.params[n])

FixedCount(c) == Cardinality({n \in DOMAIN c.qubits : c.qubits[n].t = "fixed"})

\* "the match with the most fixed qubits wins, ties going to the later definition" (0 = no match)
GMatching(set, g) == {n \in DOMAIN set : Matches(set[n], g)}
BestMatch(set, g) ==
  LET M == GMatching(set, g) IN
  IF M = {} THEN 0
  ELSE CHOOSE n \in M : \A m \in M \ {n} :
         \/ FixedCount(set[m]) < FixedCount(set[n])
         \/ (FixedCount(set[m]) = FixedCount(set[n]) /\ m < n)

\* ---------------------------------------------------------------- measurement matching
\* "matches only calibrations with its name and record/effect kind"
MKindOk(c, m)  == c.name = m.name /\ ((c.target = "") <=> IsNone(m.mref))
MExact(c, m)   == MKindOk(c, m) /\ c.qubit.t = "fixed" /\ c.qubit = m.qubits[1]
MWild(c, m)    == MKindOk(c, m) /\ c.qubit.t = "var"
MMatching(set, m) == {n \in DOMAIN set : MExact(set[n], m) \/ MWild(set[n], m)}
\* "an exact fixed-qubit match beats a variable one, and the later definition wins"
MeasBest(set, m) ==
  LET E == {n \in DOMAIN set : MExact(set[n], m)}
      W == {n \in DOMAIN set : MWild(set[n], m)} IN
  IF E # {} THEN Max(E) ELSE IF W # {} THEN Max(W) ELSE 0
=============================================================================
